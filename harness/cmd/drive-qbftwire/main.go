// drive-qbftwire: correspondence driver for C05 (core/consensus/qbft handle / verifyMsg / limits,
// msg.go, core/gater.go).
//
// The real `(*Consensus).handle` is called through the verif hook with real secp256k1 keys
// (deterministic per member index), the real core.NewDutyGater (beacon mock + fixed clock) and a
// scripted deadliner. Every message handed to `handle` went through proto.Marshal/Unmarshal (as the
// libp2p handler does). The op line carries the raw wire bytes (hex; everything needed to replay)
// and, after " | ", a symbolic description for the Lean model: per core the plain fields plus the
// verdict of a signature recovery done HERE (own digest + decred RecoverCompact, not the code under
// test), per value the hash recomputed HERE.
//
// ops:
//
//	cfg <n> <spe> <curEpoch> <expBelow> <exemptMask>
//	m <ctxDone> <hex> | M <core|nil> {J <core>} {V <vh>}
//	nilreq | wrongtype | undecodable <hex>
//	mark <p|q|s> <slot> <dtype> | del <slot> <dtype> | drain <slot> <dtype> | leader <slot> <dtype> <round> <nodes>
//
// output: `ok i=<instances> l=<len of the duty's recv buffer> d=<duties scheduled> <view>` or
// `rej:<class> i= l= d=`; <view> = what the qbft.Msg accessors of the enqueued message return.
package main

import (
	"bytes"
	"context"
	"crypto/sha256"
	"encoding/hex"
	"fmt"
	"os"
	"sort"
	"strconv"
	"strings"
	"time"

	"github.com/decred/dcrd/dcrec/secp256k1/v4"
	"github.com/decred/dcrd/dcrec/secp256k1/v4/ecdsa"
	ssz "github.com/ferranbt/fastssz"
	"google.golang.org/protobuf/encoding/protowire"
	"google.golang.org/protobuf/proto"
	"google.golang.org/protobuf/reflect/protoreflect"
	"google.golang.org/protobuf/types/known/anypb"

	"github.com/obolnetwork/charon/core"
	cqbft "github.com/obolnetwork/charon/core/consensus/qbft"
	pbv1 "github.com/obolnetwork/charon/core/corepb/v1"
	"github.com/obolnetwork/charon/core/qbft"
	"github.com/obolnetwork/charon/testutil/beaconmock"

	"verifharness/hx"
)

const (
	recvCap       = 100 // instance.RecvBufferSize (the model takes it from the extracted constant)
	allowedFuture = 2   // core.defaultAllowedFutureEpochs (ditto)
	slotDur       = 12 * time.Second
)

var genesis = time.Date(2024, 1, 1, 0, 0, 0, 0, time.UTC)

type hash32 = [32]byte
type qmsg = qbft.Msg[core.Duty, [32]byte, proto.Message]

// ---------------------------------------------------------------------------------------------
// keys, gater, deadliner
// ---------------------------------------------------------------------------------------------

func privKey(i int) *secp256k1.PrivateKey {
	h := sha256.Sum256([]byte(fmt.Sprintf("verif-c05-key-%d", i)))
	return secp256k1.PrivKeyFromBytes(h[:])
}

const outsider = 1000

type scriptDL struct {
	ep    *episode
	sched map[core.Duty]bool
	ch    chan core.Duty
}

func (d *scriptDL) Add(duty core.Duty) core.DeadlineStatus {
	if st := d.ep.dlStatus(duty); st != core.DeadlineScheduled {
		return st
	}
	d.sched[duty] = true
	return core.DeadlineScheduled
}
func (d *scriptDL) C() <-chan core.Duty { return d.ch }

type episode struct {
	n                                   int
	spe, curEpoch, expBelow, exemptMask uint64
	privs                               []*secp256k1.PrivateKey
	pubs                                []*secp256k1.PublicKey
	cons                                *cqbft.Consensus
	dl                                  *scriptDL
	seen                                map[core.Duty]bool // duties whose buffers are watched
}

func (e *episode) dlStatus(d core.Duty) core.DeadlineStatus {
	if d.Type >= 0 && d.Type < 62 && (e.exemptMask>>uint(d.Type))&1 == 1 {
		return core.DeadlineExempt
	}
	if d.Slot < e.expBelow {
		return core.DeadlineExpired
	}
	return core.DeadlineScheduled
}

// gaterAllows is the harness' own statement of the gater rule (monitor side).
func (e *episode) gaterAllows(d core.Duty) bool {
	return d.Type > 0 && d.Type < 14 && d.Slot/e.spe <= e.curEpoch+allowedFuture
}

var gaterMocks = map[uint64]beaconmock.Mock{}

func newEpisode(n int, spe, curEpoch, expBelow, exemptMask uint64) *episode {
	e := &episode{n: n, spe: spe, curEpoch: curEpoch, expBelow: expBelow, exemptMask: exemptMask, seen: map[core.Duty]bool{}}
	for i := 0; i < n; i++ {
		e.privs = append(e.privs, privKey(i))
		e.pubs = append(e.pubs, privKey(i).PubKey())
	}
	ctx := context.Background()
	bm, ok := gaterMocks[spe]
	if !ok {
		var err error
		bm, err = beaconmock.New(ctx, beaconmock.WithGenesisTime(genesis), beaconmock.WithSlotDuration(slotDur), beaconmock.WithSlotsPerEpoch(int(spe)))
		hx.Must(err)
		gaterMocks[spe] = bm
	}
	now := genesis.Add(time.Duration(curEpoch*spe)*slotDur + 3*time.Second)
	gater, err := core.NewDutyGater(ctx, bm, core.WithDutyGaterForT(nil, func() time.Time { return now }, allowedFuture))
	hx.Must(err)
	e.dl = &scriptDL{ep: e, sched: map[core.Duty]bool{}, ch: make(chan core.Duty)}
	e.cons = cqbft.NewConsensusVerif(e.pubs, e.dl, gater)
	return e
}

// ---------------------------------------------------------------------------------------------
// independent digest / recovery / value hash
// ---------------------------------------------------------------------------------------------

// ownHash: deterministic marshalling + ssz root (re-implemented here, msg.go hashProto is the code under test).
func ownHash(m proto.Message) (hash32, bool) {
	if _, isAny := m.(*anypb.Any); isAny {
		return hash32{}, false
	}
	b, err := proto.MarshalOptions{Deterministic: true}.Marshal(m)
	if err != nil {
		return hash32{}, false
	}
	hh := ssz.NewHasher()
	idx := hh.Index()
	hh.PutBytes(b)
	hh.Merkleize(idx)
	h, err := hh.HashRoot()
	if err != nil {
		return hash32{}, false
	}
	return h, true
}

func coreDigest(c *pbv1.QBFTMsg) (hash32, bool) {
	cl := proto.Clone(c).(*pbv1.QBFTMsg)
	cl.Signature = nil
	return ownHash(cl)
}

// sigVerdict: n | e | x | k<i>
func (e *episode) sigVerdict(c *pbv1.QBFTMsg) string {
	if c.Signature == nil {
		return "n"
	}
	sig := c.GetSignature()
	if len(sig) != 65 {
		return "e"
	}
	v := sig[64]
	if v != 0 && v != 1 && v != 27 && v != 28 {
		return "e"
	}
	if v < 27 {
		v += 27
	}
	d, ok := coreDigest(c)
	if !ok {
		return "e"
	}
	compact := append([]byte{v}, sig[:64]...)
	pk, _, err := ecdsa.RecoverCompact(compact, d[:])
	if err != nil {
		return "e"
	}
	for i, p := range e.pubs {
		if p.IsEqual(pk) {
			return "k" + strconv.Itoa(i)
		}
	}
	return "x"
}

func valueHash(v *anypb.Any) (hash32, bool) {
	inner, err := v.UnmarshalNew()
	if err != nil {
		return hash32{}, false
	}
	return ownHash(inner)
}

func toHash(b []byte) (hash32, bool) {
	if len(b) != 32 {
		return hash32{}, false
	}
	h := hash32(b)
	return h, h != hash32{}
}

// ---------------------------------------------------------------------------------------------
// description of a decoded wire message
// ---------------------------------------------------------------------------------------------

type interner struct {
	ids map[hash32]int
}

func (in *interner) id(h hash32) int {
	if v, ok := in.ids[h]; ok {
		return v
	}
	in.ids[h] = len(in.ids) + 1
	return in.ids[h]
}

type coreInfo struct {
	msg     *pbv1.QBFTMsg
	verdict string
}

type described struct {
	sym   string
	in    *interner
	cores []coreInfo // main first (if non-nil), then justifications
	vh    []hash32
	vok   []bool
}

func (e *episode) describe(m *pbv1.QBFTConsensusMsg) described {
	in := &interner{ids: map[hash32]int{}}
	d := described{in: in}
	hf := func(b []byte) string {
		if h, ok := toHash(b); ok {
			return "h" + strconv.Itoa(in.id(h))
		}
		return "o"
	}
	coreTok := func(c *pbv1.QBFTMsg) string {
		slot, dt := "x", "x"
		if c.GetDuty() != nil {
			slot, dt = strconv.FormatUint(c.GetDuty().GetSlot(), 10), strconv.Itoa(int(c.GetDuty().GetType()))
		}
		v := e.sigVerdict(c)
		d.cores = append(d.cores, coreInfo{c, v})
		return fmt.Sprintf("%d,%s,%s,%d,%d,%d,%s,%s,%s", c.GetType(), slot, dt, c.GetPeerIdx(), c.GetRound(),
			c.GetPreparedRound(), hf(c.GetValueHash()), hf(c.GetPreparedValueHash()), v)
	}
	var parts []string
	if m.GetMsg() == nil {
		parts = append(parts, "M nil")
	} else {
		parts = append(parts, "M "+coreTok(m.GetMsg()))
	}
	for _, j := range m.GetJustification() {
		parts = append(parts, "J "+coreTok(j))
	}
	for _, v := range m.GetValues() {
		h, ok := valueHash(v)
		d.vh, d.vok = append(d.vh, h), append(d.vok, ok)
		if ok {
			parts = append(parts, "V h"+strconv.Itoa(in.id(h)))
		} else {
			parts = append(parts, "V e")
		}
	}
	d.sym = strings.Join(parts, " ")
	return d
}

// ---------------------------------------------------------------------------------------------
// executing ops on the real code
// ---------------------------------------------------------------------------------------------

func classify(err error) string {
	if err == nil {
		return "ok"
	}
	s := err.Error()
	if rest, ok := strings.CutPrefix(s, "invalid justification: "); ok {
		return "just:" + classifyVerify(rest)
	}
	switch {
	case strings.Contains(s, "invalid duty"):
		return "gater"
	case strings.Contains(s, "too many justifications"):
		return "toomanyjust"
	case strings.Contains(s, "too many values"):
		return "toomanyvalues"
	case strings.Contains(s, "receive cancelled during justification verification"):
		return "cancelled-just"
	case strings.Contains(s, "qbft justification duty differs from message duty"):
		return "justduty"
	case strings.Contains(s, "unmarshal any"), strings.Contains(s, "cannot hash any proto"), strings.Contains(s, "marshal proto"), strings.Contains(s, "hash proto"):
		return "values"
	case strings.Contains(s, "prepared value hash not found in values"):
		return "nopvalue"
	case strings.Contains(s, "value hash not found in values"):
		return "novalue"
	case strings.Contains(s, "receive cancelled during verification"):
		return "cancelled"
	case strings.Contains(s, "duty expired or exempt"):
		return "expired"
	case strings.Contains(s, "timeout enqueuing receive buffer"):
		return "timeout"
	}
	return classifyVerify(s)
}

func classifyVerify(s string) string {
	switch {
	case s == "invalid consensus message":
		return "invalid"
	case strings.HasPrefix(s, "invalid consensus message type"):
		return "type"
	case strings.HasPrefix(s, "invalid consensus message duty type"):
		return "dutytype"
	case strings.HasPrefix(s, "invalid consensus message round"):
		return "round"
	case strings.HasPrefix(s, "invalid consensus message prepared round"):
		return "pround"
	case strings.HasPrefix(s, "invalid peer index"):
		return "peeridx"
	case strings.Contains(s, "empty signature"):
		return "sig-empty"
	case s == "invalid consensus message signature":
		return "sig-wrong"
	case strings.HasPrefix(s, "verify consensus message signature"):
		return "sig-err"
	}
	return "other(" + strings.ReplaceAll(s, " ", "_") + ")"
}

func (e *episode) watched() int {
	t := 0
	for d := range e.seen {
		ms, _ := e.cons.RecvBufferVerif(d)
		t += len(ms)
	}
	return t
}

func (e *episode) tail(duty *core.Duty) string {
	l := "-"
	if duty != nil {
		ms, _ := e.cons.RecvBufferVerif(*duty)
		l = strconv.Itoa(len(ms))
	}
	return fmt.Sprintf("i=%d l=%s d=%d", e.cons.InstanceCountVerif(), l, len(e.dl.sched))
}

func typeValid(t int64) bool     { return t > 0 && t < 6 }
func dutyTypeValid(t int32) bool { return t > 0 && t < 14 }

// expectation of the generator about an op (absent in exec mode).
type expect struct {
	mustAccept bool   // an unaltered honest message for an allowed, unexpired duty with room in the buffer
	mustReject bool   // a signed field was altered without re-signing by the named member
	what       string // description for the violation text
	just       bool   // the altered message is a justification
}

func coreViewStr(in *interner, m qmsg) string {
	hid := func(h hash32) string {
		if h == (hash32{}) {
			return "0"
		}
		if id, ok := in.ids[h]; ok {
			return strconv.Itoa(id)
		}
		return "?"
	}
	d := m.Instance()
	return fmt.Sprintf("%d/%d/%d/%d/%d/%s/%d/%s", int64(m.Type()), d.Slot, int(d.Type), m.Source(), m.Round(), hid(m.Value()), m.PreparedRound(), hid(m.PreparedValue()))
}

func (e *episode) doMsg(run *hx.Run, ctxDone bool, raw []byte, ex *expect) {
	pm := new(pbv1.QBFTConsensusMsg)
	if err := proto.Unmarshal(raw, pm); err != nil {
		run.Count("class:undecodable")
		run.Op("undecodable "+hex.EncodeToString(raw), "rej:undecodable "+e.tail(nil))
		return
	}
	d := e.describe(pm)
	c := "0"
	if ctxDone {
		c = "1"
	}
	op := fmt.Sprintf("m %s %s | %s", c, hex.EncodeToString(raw), d.sym)

	var duty *core.Duty
	if pm.GetMsg() != nil && pm.GetMsg().GetDuty() != nil {
		du := core.DutyFromProto(pm.GetMsg().GetDuty())
		duty = &du
		e.seen[du] = true
	}
	for _, j := range pm.GetJustification() {
		if j.GetDuty() != nil {
			e.seen[core.DutyFromProto(j.GetDuty())] = true
		}
	}
	instBefore, watchedBefore := e.cons.InstanceCountVerif(), e.watched()
	var lenBefore int
	if duty != nil {
		ms, _ := e.cons.RecvBufferVerif(*duty)
		lenBefore = len(ms)
	}

	ctx := context.Background()
	var cancel context.CancelFunc = func() {}
	if ctxDone {
		ctx, cancel = context.WithCancel(ctx)
		cancel()
	} else if duty != nil && lenBefore >= recvCap {
		ctx, cancel = context.WithTimeout(ctx, 250*time.Millisecond) // a full buffer blocks until the receive deadline
	} else {
		// the buffer has room: handle must return at once; a bound keeps a blocking implementation from
		// hanging the driver
		ctx, cancel = context.WithTimeout(ctx, 20*time.Second)
	}
	t0 := time.Now()
	err := e.cons.HandleVerif(ctx, "verif-peer", pm)
	cancel()
	if !ctxDone && !(duty != nil && lenBefore >= recvCap) && time.Since(t0) > 19*time.Second {
		run.Violate("qbftwire:handle_blocked", fmt.Sprintf("handle did not return for 20s although the duty's receive buffer holds %d of %d messages (instances %d)", lenBefore, recvCap, e.cons.InstanceCountVerif()))
	}
	class := classify(err)
	run.Count("class:" + class)

	instAfter, watchedAfter := e.cons.InstanceCountVerif(), e.watched()

	if err != nil {
		// ---- monitors on reject -------------------------------------------------------------
		if watchedAfter != watchedBefore || (instAfter != instBefore && class != "timeout") {
			run.Violate("qbftwire:rejected_but_enqueued", fmt.Sprintf("rejected (%s) but buffers %d->%d instances %d->%d", class, watchedBefore, watchedAfter, instBefore, instAfter))
		}
		if ex != nil && ex.mustAccept && !ctxDone && lenBefore < recvCap {
			run.Violate("qbftwire:honest_message_rejected", fmt.Sprintf("honest %s with %d justifications for an allowed duty rejected (%s): %v", ex.what, len(pm.GetJustification()), class, err))
		}
		run.Op(op, "rej:"+class+" "+e.tail(duty))
		return
	}

	// ---- accepted: read the enqueued message back ------------------------------------------------
	if duty == nil {
		run.Violate("qbftwire:malformed_accepted", "accepted a message without duty")
		run.Op(op, "ok "+e.tail(nil)+" ?")
		return
	}
	msgs, _ := e.cons.RecvBufferVerif(*duty)
	if len(msgs) != lenBefore+1 || watchedAfter != watchedBefore+1 {
		run.Violate("qbftwire:accepted_not_enqueued", fmt.Sprintf("accepted but buffer %d->%d (all watched %d->%d)", lenBefore, len(msgs), watchedBefore, watchedAfter))
		run.Op(op, "ok "+e.tail(duty)+" ?")
		return
	}
	got := msgs[len(msgs)-1]

	// ---- monitors on accept (independent verdicts from describe) --------------------------------------
	main := d.cores[0]
	if ctxDone {
		run.Violate("qbftwire:cancelled_ctx_accepted", "accepted with a cancelled receive context")
	}
	if ex != nil && ex.mustReject {
		sig := "qbftwire:tampered_accepted"
		if ex.just {
			sig = "qbftwire:unsigned_justification_accepted"
		}
		run.Violate(sig, "accepted after altering a signed field without re-signing by the named member: "+ex.what)
	}
	for i, ci := range d.cores {
		m := ci.msg
		if !typeValid(m.GetType()) || m.GetDuty() == nil || !dutyTypeValid(m.GetDuty().GetType()) || m.GetRound() <= 0 || m.GetPreparedRound() < 0 ||
			m.GetPeerIdx() < 0 || m.GetPeerIdx() >= int64(e.n) {
			run.Violate("qbftwire:malformed_accepted", fmt.Sprintf("accepted with malformed core %d: type=%d duty=%v peer=%d round=%d prepared_round=%d", i, m.GetType(), m.GetDuty(), m.GetPeerIdx(), m.GetRound(), m.GetPreparedRound()))
		}
		if ci.verdict != "k"+strconv.FormatInt(m.GetPeerIdx(), 10) {
			if i == 0 {
				run.Violate("qbftwire:tampered_accepted", fmt.Sprintf("accepted although the main message is not signed by member %d (recovery verdict %s)", m.GetPeerIdx(), ci.verdict))
			} else {
				run.Violate("qbftwire:unsigned_justification_accepted", fmt.Sprintf("accepted although justification %d is not signed by member %d (recovery verdict %s)", i-1, m.GetPeerIdx(), ci.verdict))
			}
		}
		if i > 0 && (m.GetDuty() == nil || core.DutyFromProto(m.GetDuty()) != *duty) {
			run.Violate("qbftwire:cross_duty_accepted", fmt.Sprintf("accepted although justification %d is for duty %v, message duty %v", i-1, m.GetDuty(), *duty))
		}
		for _, ref := range [][]byte{m.GetValueHash(), m.GetPreparedValueHash()} {
			if h, ok := toHash(ref); ok {
				found := false
				for k := range d.vh {
					if d.vok[k] && d.vh[k] == h {
						found = true
					}
				}
				if !found {
					run.Violate("qbftwire:value_hash_mismatch_accepted", fmt.Sprintf("accepted although core %d references hash %x and no value hashes to it", i, h[:4]))
				}
			}
		}
	}
	nj, nv := len(pm.GetJustification()), len(pm.GetValues())
	if nj > 2*e.n || nv > 2*(nj+1) {
		run.Violate("qbftwire:limit_exceeded_accepted", fmt.Sprintf("accepted with %d justifications and %d values (nodes %d)", nj, nv, e.n))
	}
	if !e.gaterAllows(*duty) || e.dlStatus(*duty) != core.DeadlineScheduled {
		run.Violate("qbftwire:disallowed_duty_accepted", fmt.Sprintf("accepted for duty %v (gater %v, deadliner %v)", *duty, e.gaterAllows(*duty), e.dlStatus(*duty)))
	}
	_ = main

	// what Decide would hand to subscribers for this message's value / every justification's value
	checkDeliver := func(m cqbft.Msg, h hash32, who string) {
		if h == (hash32{}) {
			return
		}
		anyV, ok := m.Values()[h]
		if !ok {
			run.Violate("qbftwire:value_hash_mismatch_accepted", who+": Values() has no entry for its own value hash")
			return
		}
		if hh, ok := valueHash(anyV); !ok || hh != h {
			run.Violate("qbftwire:value_hash_mismatch_accepted", who+": Values()[h] does not hash to h")
		}
	}
	checkDeliver(got, got.Value(), "main")
	checkDeliver(got, got.PreparedValue(), "main(prepared)")
	for k, j := range got.Justification() {
		jm, ok := j.(cqbft.Msg)
		if !ok {
			panic("justification is not a Msg")
		}
		checkDeliver(jm, jm.Value(), fmt.Sprintf("justification %d", k))
		checkDeliver(jm, jm.PreparedValue(), fmt.Sprintf("justification %d (prepared)", k))
	}
	for h, anyV := range got.Values() {
		if hh, ok := valueHash(anyV); !ok || hh != h {
			run.Violate("qbftwire:value_hash_mismatch_accepted", "Values() maps a hash to a value with another hash")
		}
	}

	// ---- canonical view ------------------------------------------------------------------------------
	var js []string
	for _, j := range got.Justification() {
		js = append(js, coreViewStr(d.in, j))
	}
	vs := "-"
	if v, err := got.ValueSource(); err == nil {
		vs = "?"
		for k, pv := range pm.GetValues() {
			if proto.Message(pv) == v {
				vs = strconv.Itoa(k)
			}
		}
	}
	type pair struct{ id, pos int }
	var ps []pair
	for h, anyV := range got.Values() {
		pos := -1
		for k, pv := range pm.GetValues() {
			if pv == anyV {
				pos = k
			}
		}
		id, ok := d.in.ids[h]
		if !ok {
			id = -1
		}
		ps = append(ps, pair{id, pos})
	}
	sort.Slice(ps, func(a, b int) bool { return ps[a].id < ps[b].id })
	var vals []string
	for _, p := range ps {
		vals = append(vals, fmt.Sprintf("%d:%d", p.id, p.pos))
	}
	view := coreViewStr(d.in, got) + " J[" + strings.Join(js, ";") + "] vs=" + vs + " vals=" + strings.Join(vals, ",")
	run.Op(op, "ok "+e.tail(duty)+" "+view)
}

func (e *episode) doBadReq(run *hx.Run, op string) {
	before := e.watched()
	var err error
	if op == "nilreq" {
		err = e.cons.HandleVerif(context.Background(), "verif-peer", (*pbv1.QBFTConsensusMsg)(nil))
	} else {
		err = e.cons.HandleVerif(context.Background(), "verif-peer", &pbv1.Duty{Slot: 1, Type: 1})
	}
	class := classify(err)
	run.Count("class:" + class)
	if err == nil || e.watched() != before {
		run.Violate("qbftwire:malformed_accepted", op+" accepted")
	}
	if err == nil {
		run.Op(op, "ok "+e.tail(nil))
		return
	}
	run.Op(op, "rej:"+class+" "+e.tail(nil))
}

func (e *episode) doMark(run *hx.Run, f string, d core.Duty) string {
	io := e.cons.InstanceIOVerif(d)
	e.seen[d] = true
	ok := false
	switch f {
	case "p":
		ok = io.MarkProposed() == nil
	case "q":
		ok = io.MarkParticipated() == nil
	case "s":
		ok = io.MaybeStart()
	}
	r := "dup "
	if ok {
		r = "ok "
	}
	return r + e.tail(&d)
}

// ---------------------------------------------------------------------------------------------
// generator: honest messages
// ---------------------------------------------------------------------------------------------

type base struct {
	name string
	w    *pbv1.QBFTConsensusMsg
}

func sortValues(w *pbv1.QBFTConsensusMsg) {
	sort.Slice(w.Values, func(a, b int) bool {
		if w.Values[a].GetTypeUrl() != w.Values[b].GetTypeUrl() {
			return w.Values[a].GetTypeUrl() < w.Values[b].GetTypeUrl()
		}
		return bytes.Compare(w.Values[a].GetValue(), w.Values[b].GetValue()) < 0
	})
}

func toWire(m cqbft.Msg) *pbv1.QBFTConsensusMsg {
	w := proto.Clone(m.ToConsensusMsg()).(*pbv1.QBFTConsensusMsg)
	sortValues(w)
	return w
}

func marshal(w *pbv1.QBFTConsensusMsg) []byte {
	b, err := proto.Marshal(w)
	hx.Must(err)
	return b
}

type valueT struct {
	h   hash32
	any *anypb.Any
}

func randBytes(rng *hx.Rng, n int) []byte {
	b := make([]byte, n)
	for i := range b {
		b[i] = byte(rng.Intn(256))
	}
	return b
}

func newValue(rng *hx.Rng) valueT {
	var inner proto.Message
	switch rng.Intn(6) {
	case 0:
		inner = &pbv1.Duty{Slot: rng.U64() % 100000, Type: int32(1 + rng.Intn(13))}
	default:
		set := map[string][]byte{}
		for k := 0; k < 1+rng.Intn(4); k++ {
			set["0x"+hex.EncodeToString(randBytes(rng, 6))] = randBytes(rng, 8+rng.Intn(40))
		}
		inner = &pbv1.UnsignedDataSet{Set: set}
	}
	h, err := cqbft.HashProtoVerif(inner)
	hx.Must(err)
	if oh, ok := ownHash(inner); !ok || oh != h {
		panic("harness hash differs from hashProto")
	}
	// anypb.New marshals maps in random order; keep the generator deterministic
	vb, err := proto.MarshalOptions{Deterministic: true}.Marshal(inner)
	hx.Must(err)
	// ... but a sender's encoder may emit the entries of a map in any order (Go's does): the value's
	// hash must not depend on it. Half of the multi-entry sets travel with their entries reversed.
	if rng.Chance(1, 2) {
		vb = reverseTopLevelFields(vb)
	}
	a := &anypb.Any{TypeUrl: "type.googleapis.com/" + string(inner.ProtoReflect().Descriptor().FullName()), Value: vb}
	return valueT{h, a}
}

// reverseTopLevelFields reverses the order of the top-level fields of an encoded message (for a
// message that consists of one map field: another valid encoding of the same value).
func reverseTopLevelFields(b []byte) []byte {
	var fields [][]byte
	for len(b) > 0 {
		_, _, n := protowire.ConsumeField(b)
		if n <= 0 {
			panic("bad encoding")
		}
		fields = append(fields, b[:n])
		b = b[n:]
	}
	var out []byte
	for i := len(fields) - 1; i >= 0; i-- {
		out = append(out, fields[i]...)
	}
	return out
}

func (e *episode) create(typ qbft.MsgType, duty core.Duty, peer int, round int64, v *valueT, pr int64, pv *valueT, just []qmsg) cqbft.Msg {
	vals := map[hash32]*anypb.Any{}
	var vh, pvh hash32
	if v != nil {
		vh = v.h
		vals[v.h] = v.any
	}
	if pv != nil {
		pvh = pv.h
		vals[pv.h] = pv.any
	}
	for _, j := range just {
		jm := j.(cqbft.Msg)
		for _, h := range []hash32{jm.Value(), jm.PreparedValue()} {
			if h != (hash32{}) {
				vals[h] = jm.Values()[h]
			}
		}
	}
	m, err := cqbft.CreateMsgVerif(typ, duty, int64(peer), round, vh, pr, pvh, vals, just, e.privs[peer])
	if err != nil && theRun != nil {
		// the package's own constructor (used by transport.Broadcast for everything a member sends)
		// refuses an honest message: the member could never send it. Report and stop this run.
		theRun.Violate("qbftwire:honest_message_not_constructible", fmt.Sprintf("createMsg refuses an honest %v of member %d for duty %v round %d (prepared round %d, %d justifications): %v", typ, peer, duty, round, pr, len(just), err))
		theRun.Close()
		os.Exit(0)
	}
	hx.Must(err)
	return m
}

// theRun is the run of this process (set in main), for reports from deep inside the generator.
var theRun *hx.Run

func quorum(n int) int { return (2*n + 2) / 3 }

// honest builds one valid message of every type/shape for the duty.
func (e *episode) honest(rng *hx.Rng, duty core.Duty) []base {
	n, q := e.n, quorum(e.n)
	v1, v2 := newValue(rng), newValue(rng)
	perm := rng.Perm(n)
	lead := func(r int64) int { return int(cqbft.LeaderVerif(duty, r, n)) }
	var prepares, commits, rcNull, rcPrep []qmsg
	for _, p := range perm[:q] {
		prepares = append(prepares, e.create(qbft.MsgPrepare, duty, p, 1, &v1, 0, nil, nil))
		commits = append(commits, e.create(qbft.MsgCommit, duty, p, 1, &v1, 0, nil, nil))
		rcNull = append(rcNull, e.create(qbft.MsgRoundChange, duty, p, 2, nil, 0, nil, nil))
	}
	for _, p := range perm[:q] {
		rcPrep = append(rcPrep, e.create(qbft.MsgRoundChange, duty, p, 2, nil, 1, &v1, prepares))
	}
	p0 := perm[0]
	bs := []base{
		{"preprepare1", toWire(e.create(qbft.MsgPrePrepare, duty, lead(1), 1, &v1, 0, nil, nil))},
		{"prepare", toWire(prepares[0].(cqbft.Msg))},
		{"commit", toWire(commits[0].(cqbft.Msg))},
		{"roundchange-null", toWire(rcNull[0].(cqbft.Msg))},
		{"roundchange-prepared", toWire(rcPrep[0].(cqbft.Msg))},
		{"preprepare2-null", toWire(e.create(qbft.MsgPrePrepare, duty, lead(2), 2, &v2, 0, nil, rcNull))},
		{"preprepare2-prepared", toWire(e.create(qbft.MsgPrePrepare, duty, lead(2), 2, &v1, 0, nil, append(append([]qmsg{}, rcPrep...), prepares...)))},
		{"decided", toWire(e.create(qbft.MsgDecided, duty, p0, 1, &v1, 0, nil, commits))},
	}
	// the largest honest message: a leader that re-proposes a prepared value attaches every matching
	// ROUND-CHANGE and every PREPARE it has seen — up to n of each (qbft.getJustifiedQrc), the bound
	// verifyMsgLimits must admit (C04 honest_within_limits: at most 2n justifications)
	if n > q {
		var allPrep, allRC []qmsg
		for _, p := range perm {
			allPrep = append(allPrep, e.create(qbft.MsgPrepare, duty, p, 1, &v1, 0, nil, nil))
		}
		for _, p := range perm {
			allRC = append(allRC, e.create(qbft.MsgRoundChange, duty, p, 2, nil, 1, &v1, allPrep[:q]))
		}
		bs = append(bs, base{"preprepare2-prepared-max", toWire(e.create(qbft.MsgPrePrepare, duty, lead(2), 2, &v1, 0, nil, append(append([]qmsg{}, allRC...), allPrep...)))})
		bs = append(bs, base{"decided-max", toWire(e.create(qbft.MsgDecided, duty, p0, 1, &v1, 0, nil, func() []qmsg {
			var cs []qmsg
			for _, p := range perm {
				cs = append(cs, e.create(qbft.MsgCommit, duty, p, 1, &v1, 0, nil, nil))
			}
			return cs
		}()))})
	}
	return bs
}

// ---------------------------------------------------------------------------------------------
// generator: reflection-enumerated alterations
// ---------------------------------------------------------------------------------------------

type step struct {
	fd  protoreflect.FieldDescriptor
	idx int // -1: singular
}

type alt struct {
	path  string // e.g. msg.duty.slot
	kind  string // e.g. +1, flip17
	core  int    // -1: outside any signed core; 0: main; 1+i: justification i
	isSig bool   // the altered field is a signature
	flip  bool   // byte-position alteration (sampled in the quick tier)
	apply func(root *pbv1.QBFTConsensusMsg)
}

func navigate(root protoreflect.Message, steps []step) protoreflect.Message {
	cur := root
	for _, s := range steps {
		if s.idx < 0 {
			cur = cur.Mutable(s.fd).Message()
		} else {
			cur = cur.Mutable(s.fd).List().Get(s.idx).Message()
		}
	}
	return cur
}

func cp(steps []step) []step { return append([]step{}, steps...) }

func enumerate(root *pbv1.QBFTConsensusMsg, rng *hx.Rng) []alt {
	var out []alt
	var walk func(node protoreflect.Message, steps []step, path string, coreIdx int)
	walk = func(node protoreflect.Message, steps []step, path string, coreIdx int) {
		st := cp(steps)
		add := func(field, kind string, isSig, flip bool, f func(n protoreflect.Message)) {
			out = append(out, alt{path: path + field, kind: kind, core: coreIdx, isSig: isSig, flip: flip,
				apply: func(r *pbv1.QBFTConsensusMsg) { f(navigate(r.ProtoReflect(), st)) }})
		}
		// unknown field appended to this node (covered by the signature inside a core)
		add("<unknown>", "add", false, false, func(n protoreflect.Message) {
			n.SetUnknown(protowire.AppendVarint(protowire.AppendTag(append([]byte{}, n.GetUnknown()...), 1000, protowire.VarintType), 7))
		})
		fds := node.Descriptor().Fields()
		for i := 0; i < fds.Len(); i++ {
			fd := fds.Get(i)
			name := string(fd.Name())
			isSig := name == "signature" && coreIdx >= 0
			switch {
			case fd.IsMap():
				panic("map field in consensus wire message: extend the generator")
			case fd.IsList():
				l := node.Get(fd).List()
				n := l.Len()
				for k := 0; k < n; k++ {
					k := k
					if fd.Message() != nil {
						ci := coreIdx
						if len(steps) == 0 && name == "justification" {
							ci = 1 + k
						}
						walk(l.Get(k).Message(), append(cp(steps), step{fd, k}), fmt.Sprintf("%s%s[%d].", path, name, k), ci)
					}
					add(name, fmt.Sprintf("drop%d", k), false, false, func(nd protoreflect.Message) {
						ll := nd.Mutable(fd).List()
						var keep []protoreflect.Value
						for x := 0; x < ll.Len(); x++ {
							if x != k {
								keep = append(keep, ll.Get(x))
							}
						}
						ll.Truncate(0)
						for _, v := range keep {
							ll.Append(v)
						}
					})
					add(name, fmt.Sprintf("dup%d", k), false, false, func(nd protoreflect.Message) {
						ll := nd.Mutable(fd).List()
						if fd.Message() != nil {
							ll.Append(protoreflect.ValueOfMessage(proto.Clone(ll.Get(k).Message().Interface()).ProtoReflect()))
						} else {
							ll.Append(ll.Get(k))
						}
					})
				}
				if n >= 2 {
					add(name, "swap", false, false, func(nd protoreflect.Message) {
						ll := nd.Mutable(fd).List()
						a, b := ll.Get(0), ll.Get(ll.Len()-1)
						if fd.Message() != nil {
							a = protoreflect.ValueOfMessage(proto.Clone(a.Message().Interface()).ProtoReflect())
							b = protoreflect.ValueOfMessage(proto.Clone(b.Message().Interface()).ProtoReflect())
						}
						ll.Set(0, b)
						ll.Set(ll.Len()-1, a)
					})
				}
				if n >= 1 {
					add(name, "clear", false, false, func(nd protoreflect.Message) { nd.Clear(fd) })
				}
			case fd.Message() != nil:
				if node.Has(fd) {
					ci := coreIdx
					if len(steps) == 0 && name == "msg" {
						ci = 0
					}
					walk(node.Get(fd).Message(), append(cp(steps), step{fd, -1}), path+name+".", ci)
					add(name, "nil", false, false, func(nd protoreflect.Message) { nd.Clear(fd) })
				} else {
					add(name, "empty", false, false, func(nd protoreflect.Message) { nd.Mutable(fd) })
				}
			default:
				switch fd.Kind() {
				case protoreflect.Int32Kind, protoreflect.Sint32Kind, protoreflect.Sfixed32Kind,
					protoreflect.Int64Kind, protoreflect.Sint64Kind, protoreflect.Sfixed64Kind:
					is32 := fd.Kind() == protoreflect.Int32Kind || fd.Kind() == protoreflect.Sint32Kind || fd.Kind() == protoreflect.Sfixed32Kind
					cur := node.Get(fd).Int()
					mk := func(v int64) protoreflect.Value {
						if is32 {
							return protoreflect.ValueOfInt32(int32(v))
						}
						return protoreflect.ValueOfInt64(v)
					}
					big := int64(1) << 62
					if is32 {
						big = 1 << 30
					}
					cands := map[string]int64{"+1": cur + 1, "-1": cur - 1, "zero": 0, "neg": -cur - 1, "big": big, "min": -big, "rand": int64(rng.Intn(20)) - 4}
					for _, kname := range []string{"+1", "-1", "zero", "neg", "big", "min", "rand"} {
						v := cands[kname]
						if v == cur {
							continue
						}
						add(name, kname, isSig, false, func(nd protoreflect.Message) { nd.Set(fd, mk(v)) })
					}
				case protoreflect.Uint32Kind, protoreflect.Fixed32Kind, protoreflect.Uint64Kind, protoreflect.Fixed64Kind:
					is32 := fd.Kind() == protoreflect.Uint32Kind || fd.Kind() == protoreflect.Fixed32Kind
					cur := node.Get(fd).Uint()
					mk := func(v uint64) protoreflect.Value {
						if is32 {
							return protoreflect.ValueOfUint32(uint32(v))
						}
						return protoreflect.ValueOfUint64(v)
					}
					big := uint64(1) << 63
					if is32 {
						big = 1 << 31
					}
					cands := map[string]uint64{"+1": cur + 1, "-1": cur - 1, "zero": 0, "big": big, "+64": cur + 64, "rand": uint64(rng.Intn(1000))}
					for _, kname := range []string{"+1", "-1", "zero", "big", "+64", "rand"} {
						v := cands[kname]
						if v == cur {
							continue
						}
						add(name, kname, isSig, false, func(nd protoreflect.Message) { nd.Set(fd, mk(v)) })
					}
				case protoreflect.BoolKind:
					cur := node.Get(fd).Bool()
					add(name, "toggle", isSig, false, func(nd protoreflect.Message) { nd.Set(fd, protoreflect.ValueOfBool(!cur)) })
				case protoreflect.EnumKind:
					cur := node.Get(fd).Enum()
					add(name, "+1", isSig, false, func(nd protoreflect.Message) { nd.Set(fd, protoreflect.ValueOfEnum(cur+1)) })
				case protoreflect.BytesKind, protoreflect.StringKind:
					isStr := fd.Kind() == protoreflect.StringKind
					var cur []byte
					if isStr {
						cur = []byte(node.Get(fd).String())
					} else {
						cur = append([]byte{}, node.Get(fd).Bytes()...)
					}
					set := func(nd protoreflect.Message, b []byte) {
						if isStr {
							nd.Set(fd, protoreflect.ValueOfString(string(b)))
						} else {
							nd.Set(fd, protoreflect.ValueOfBytes(b))
						}
					}
					for pos := range cur {
						pos := pos
						bit := byte(1) << uint(rng.Intn(7)) // keep strings valid UTF-8 friendly (bit 7 untouched)
						add(name, fmt.Sprintf("flip%d", pos), isSig, true, func(nd protoreflect.Message) {
							b := append([]byte{}, cur...)
							b[pos] ^= bit
							set(nd, b)
						})
					}
					if len(cur) > 0 {
						add(name, "trunc", isSig, false, func(nd protoreflect.Message) { set(nd, append([]byte{}, cur[:len(cur)-1]...)) })
						add(name, "empty", isSig, false, func(nd protoreflect.Message) { set(nd, nil) })
						if !isStr {
							add(name, "zeros", isSig, false, func(nd protoreflect.Message) { set(nd, make([]byte, len(cur))) })
						}
					}
					add(name, "extend", isSig, false, func(nd protoreflect.Message) { set(nd, append(append([]byte{}, cur...), 'a')) })
					if !isStr {
						rb := randBytes(rng, 32)
						add(name, "rand32", isSig, false, func(nd protoreflect.Message) { set(nd, rb) })
					}
				default:
					panic("unhandled proto kind " + fd.Kind().String() + " in consensus wire message: extend the generator")
				}
			}
		}
	}
	walk(root.ProtoReflect(), nil, "", -1)
	return out
}

func coreOf(w *pbv1.QBFTConsensusMsg, idx int) *pbv1.QBFTMsg {
	if idx == 0 {
		return w.GetMsg()
	}
	if idx-1 < len(w.GetJustification()) {
		return w.GetJustification()[idx-1]
	}
	return nil
}

func signedBytes(c *pbv1.QBFTMsg) []byte {
	if c == nil {
		return nil
	}
	cl := proto.Clone(c).(*pbv1.QBFTMsg)
	cl.Signature = nil
	b, err := proto.MarshalOptions{Deterministic: true}.Marshal(cl)
	hx.Must(err)
	return b
}

func (e *episode) resign(c *pbv1.QBFTMsg, key *secp256k1.PrivateKey) {
	s, err := cqbft.SignMsgVerif(c, key)
	hx.Must(err)
	c.Signature = s.Signature
}

var indexRe = strings.NewReplacer("0", "", "1", "", "2", "", "3", "", "4", "", "5", "", "6", "", "7", "", "8", "", "9", "")

func pathClass(p string) string { return indexRe.Replace(p) }
func kindClass(k string) string { return indexRe.Replace(k) }

// ---------------------------------------------------------------------------------------------
// main
// ---------------------------------------------------------------------------------------------

func main() {
	a := hx.ParseArgs()
	run := hx.NewRun(a.Dir)
	theRun = run
	defer run.Close()
	var ep *episode

	cfg := func(n int, spe, cur, exp, mask uint64) {
		ep = newEpisode(n, spe, cur, exp, mask)
		run.Op(fmt.Sprintf("cfg %d %d %d %d %d", n, spe, cur, exp, mask), "ok")
	}
	parseDuty := func(a, b string) core.Duty {
		s, err := strconv.ParseUint(a, 10, 64)
		hx.Must(err)
		t, err := strconv.Atoi(b)
		hx.Must(err)
		return core.Duty{Slot: s, Type: core.DutyType(t)}
	}
	simple := func(op string) {
		f := strings.Fields(op)
		switch f[0] {
		case "nilreq", "wrongtype":
			ep.doBadReq(run, op)
		case "mark":
			run.Count("mark")
			run.Op(op, ep.doMark(run, f[1], parseDuty(f[2], f[3])))
		case "del":
			d := parseDuty(f[1], f[2])
			ep.cons.DeleteInstanceIOVerif(d)
			run.Op(op, "ok "+ep.tail(&d))
		case "drain": // what transport.ProcessReceives does: take everything off the outer buffer
			d := parseDuty(f[1], f[2])
			if _, exists := ep.cons.RecvBufferVerif(d); exists {
				ch := ep.cons.InstanceIOVerif(d).RecvBuffer
				for len(ch) > 0 {
					<-ch
				}
			}
			run.Op(op, "ok "+ep.tail(&d))
		case "leader":
			d := parseDuty(f[1], f[2])
			r, err := strconv.ParseInt(f[3], 10, 64)
			hx.Must(err)
			n, err := strconv.Atoi(f[4])
			hx.Must(err)
			run.Count("leader")
			run.Op(op, strconv.FormatInt(cqbft.LeaderVerif(d, r, n), 10))
		default:
			panic("bad op " + op)
		}
	}

	if a.Mode == "exec" {
		for _, op := range hx.ReadOps(a.Ops) {
			f := strings.Fields(op)
			switch f[0] {
			case "cfg":
				n, _ := strconv.Atoi(f[1])
				u := func(s string) uint64 { v, err := strconv.ParseUint(s, 10, 64); hx.Must(err); return v }
				cfg(n, u(f[2]), u(f[3]), u(f[4]), u(f[5]))
			case "m":
				raw, err := hex.DecodeString(f[2])
				hx.Must(err)
				ep.doMsg(run, f[1] == "1", raw, nil)
			case "undecodable":
				raw, err := hex.DecodeString(f[1])
				hx.Must(err)
				ep.doMsg(run, false, raw, nil)
			default:
				simple(op)
			}
		}
		return
	}

	rng := hx.NewRng(a.Seed)
	thorough := a.Tier != "quick"
	cursor := map[string]int{} // rotating start offset into the byte-flip alterations per shape
	epNo := 0

	flooding := false
	drainOver := func(limit func(core.Duty) int) {
		var ds []core.Duty
		for d := range ep.seen {
			if ms, _ := ep.cons.RecvBufferVerif(d); len(ms) >= limit(d) {
				ds = append(ds, d)
			}
		}
		sort.Slice(ds, func(a, b int) bool {
			if ds[a].Slot != ds[b].Slot {
				return ds[a].Slot < ds[b].Slot
			}
			return ds[a].Type < ds[b].Type
		})
		for _, d := range ds {
			simple(fmt.Sprintf("drain %d %d", d.Slot, int(d.Type)))
		}
	}
	send := func(w *pbv1.QBFTConsensusMsg, ctxDone bool, ex *expect, key string) {
		ep.doMsg(run, ctxDone, marshal(w), ex)
		if key != "" {
			run.Case(key)
		}
		if !flooding { // keep the buffers from filling up (the instance's receive loop would drain them)
			drainOver(func(d core.Duty) int { return 30 + int(d.Slot%20) })
		}
	}

	for run.NOps < a.N && !run.Enough() {
		epNo++
		n := 4
		if rng.Chance(1, 5) {
			n = []int{1, 3, 5, 7}[rng.Intn(4)]
		}
		spe := []uint64{32, 32, 16, 8}[rng.Intn(4)]
		cur := uint64(3 + rng.Intn(200))
		expBelow := cur*spe - uint64(rng.Intn(int(2*spe)))
		mask := uint64(1<<4 | 1<<6) // DutyExit, DutyBuilderRegistration never expire
		if rng.Chance(1, 6) {
			mask = 0
		}
		cfg(n, spe, cur, expBelow, mask)

		goodTypes := []int{1, 2, 3, 7, 8, 9, 10, 11, 12, 13}
		newDuty := func() core.Duty {
			lo, hi := expBelow, (cur+allowedFuture+1)*spe // allowed: expBelow <= slot < hi
			return core.Duty{Slot: lo + rng.U64()%(hi-lo), Type: core.DutyType(goodTypes[rng.Intn(len(goodTypes))])}
		}
		duty := newDuty()
		other := newDuty()
		for other == duty {
			other = newDuty()
		}
		bases := ep.honest(rng, duty)
		otherBases := ep.honest(rng, other)

		// 1. every honest message is accepted as is
		for _, b := range bases {
			run.Count("base:" + b.name)
			send(proto.Clone(b.w).(*pbv1.QBFTConsensusMsg), false, &expect{mustAccept: true, what: b.name}, "honest|"+b.name)
		}

		// 2. reflection-enumerated single alterations
		for bi, b := range bases {
			if !thorough && (bi+epNo)%2 == 0 {
				continue // half of the shapes per episode in the quick tier
			}
			alts := enumerate(b.w, rng)
			shape := fmt.Sprintf("%s/%d", b.name, n)
			// which justification gets the full treatment this time
			fullJust := 0
			if nj := len(b.w.GetJustification()); nj > 0 {
				fullJust = 1 + (epNo % nj)
			}
			var chosen []alt
			var flips []alt
			for _, al := range alts {
				switch {
				case al.flip:
					flips = append(flips, al)
				case thorough || al.core <= 0 || al.core == fullJust:
					chosen = append(chosen, al)
				case rng.Chance(1, 6):
					chosen = append(chosen, al)
				}
			}
			nf := len(flips)
			take := nf
			if !thorough && take > 24 {
				take = 24
			}
			for k := 0; k < take; k++ {
				chosen = append(chosen, flips[(cursor[shape]+k)%nf])
			}
			cursor[shape] += take

			for _, al := range chosen {
				modes := []string{"keep"}
				if al.core >= 0 && !al.isSig {
					if !al.flip || rng.Chance(1, 8) {
						modes = append(modes, "resign-named")
					}
					if rng.Chance(1, 3) {
						modes = append(modes, "resign-other")
					}
					if rng.Chance(1, 8) {
						modes = append(modes, "resign-outsider")
					}
				}
				for _, mode := range modes {
					w := proto.Clone(b.w).(*pbv1.QBFTConsensusMsg)
					al.apply(w)
					var ex *expect
					if al.core >= 0 {
						before, after := signedBytes(coreOf(b.w, al.core)), signedBytes(coreOf(w, al.core))
						changed := !bytes.Equal(before, after)
						c := coreOf(w, al.core)
						switch mode {
						case "keep":
							if changed && c != nil && !al.isSig {
								ex = &expect{mustReject: true, what: fmt.Sprintf("%s %s:%s", b.name, al.path, al.kind)}
							}
						case "resign-named":
							if c == nil || c.GetPeerIdx() < 0 || c.GetPeerIdx() >= int64(n) {
								continue
							}
							ep.resign(c, ep.privs[c.GetPeerIdx()])
						case "resign-other":
							if c == nil || n < 2 {
								continue
							}
							o := (int(c.GetPeerIdx()%int64(n)) + n + 1 + rng.Intn(n-1)) % n
							if int64(o) == c.GetPeerIdx() {
								continue
							}
							ep.resign(c, ep.privs[o])
							ex = &expect{mustReject: true, what: fmt.Sprintf("%s %s:%s re-signed by member %d", b.name, al.path, al.kind, o)}
						case "resign-outsider":
							if c == nil {
								continue
							}
							ep.resign(c, privKey(outsider))
							ex = &expect{mustReject: true, what: fmt.Sprintf("%s %s:%s re-signed by an outsider", b.name, al.path, al.kind)}
						}
					}
					if ex != nil {
						ex.just = al.core > 0
					}
					lvl := "outer"
					if al.core == 0 {
						lvl = "main"
					} else if al.core > 0 {
						lvl = "just"
					}
					run.Count("alt:" + lvl + ":" + mode)
					send(w, false, ex, fmt.Sprintf("alt|%s|%s|%s|%s", b.name, pathClass(al.path), kindClass(al.kind), mode))
				}
			}
		}

		// 3. cross-duty / cross-signer substitutions
		for k := 0; k < 12; k++ {
			b := bases[4+rng.Intn(4)] // shapes with justifications
			ob := otherBases[4+rng.Intn(4)]
			w := proto.Clone(b.w).(*pbv1.QBFTConsensusMsg)
			var ex *expect
			kind := rng.Intn(7)
			switch kind {
			case 0: // replace one justification by a validly signed one of another duty
				i := rng.Intn(len(w.Justification))
				w.Justification[i] = proto.Clone(ob.w.Justification[rng.Intn(len(ob.w.Justification))]).(*pbv1.QBFTMsg)
				w.Values = append(w.Values, ob.w.Values...)
			case 1: // append one (if room)
				w.Justification = append(w.Justification, proto.Clone(ob.w.Justification[0]).(*pbv1.QBFTMsg))
				w.Values = append(w.Values, ob.w.Values...)
			case 2: // main of the other duty with these justifications
				w.Msg = proto.Clone(ob.w.Msg).(*pbv1.QBFTMsg)
				w.Values = append(w.Values, ob.w.Values...)
			case 3: // same slot, different duty type, re-signed by the named member
				j := w.Justification[rng.Intn(len(w.Justification))]
				j.Duty.Type = int32(goodTypes[rng.Intn(len(goodTypes))])
				ep.resign(j, ep.privs[j.PeerIdx])
			case 4: // same type, different slot, re-signed by the named member
				j := w.Justification[rng.Intn(len(w.Justification))]
				j.Duty.Slot += uint64(1 + rng.Intn(3))
				ep.resign(j, ep.privs[j.PeerIdx])
			case 5: // justification signature taken from another justification (cross-signer)
				if len(w.Justification) >= 2 {
					i := rng.Intn(len(w.Justification))
					o := (i + 1) % len(w.Justification)
					w.Justification[i].Signature = append([]byte{}, w.Justification[o].Signature...)
					if !bytes.Equal(w.Justification[i].Signature, b.w.Justification[i].Signature) {
						ex = &expect{mustReject: true, just: true, what: "justification carries another justification's signature"}
					}
				}
			case 6: // main claims another member as source, signature unchanged / signed by the old one
				if n >= 2 {
					w.Msg.PeerIdx = (w.Msg.PeerIdx + 1 + int64(rng.Intn(n-1))) % int64(n)
					if rng.Chance(1, 2) {
						ep.resign(w.Msg, ep.privs[b.w.Msg.PeerIdx])
					}
					ex = &expect{mustReject: true, what: "main names another member as source"}
				}
			}
			run.Count(fmt.Sprintf("subst:%d", kind))
			send(w, false, ex, fmt.Sprintf("subst|%s|%d", b.name, kind))
		}

		// 4. limits: exactly at and beyond the justification / value bounds, all entries validly signed
		for _, extra := range []int{0, 1, 2, rng.Intn(6)} {
			b := bases[6] // preprepare2-prepared: 2q justifications
			w := proto.Clone(b.w).(*pbv1.QBFTConsensusMsg)
			for len(w.Justification) < 2*n+extra {
				w.Justification = append(w.Justification, proto.Clone(b.w.Justification[rng.Intn(len(b.w.Justification))]).(*pbv1.QBFTMsg))
			}
			run.Count("limit:just")
			send(w, false, nil, fmt.Sprintf("limit|just|%d|%d", n, extra))
		}
		for _, b := range []base{bases[1], bases[5], bases[7]} {
			for _, extra := range []int{0, 1, 3} {
				w := proto.Clone(b.w).(*pbv1.QBFTConsensusMsg)
				for len(w.Values) < 2*(len(w.Justification)+1)+extra {
					w.Values = append(w.Values, newValue(rng).any)
				}
				run.Count("limit:values")
				send(w, false, nil, fmt.Sprintf("limit|values|%s|%d", b.name, extra))
			}
		}

		// 5. values: missing, duplicated, wrapped, unknown type, byte flips at every position
		{
			b := bases[rng.Intn(len(bases))]
			for len(b.w.Values) == 0 {
				b = bases[rng.Intn(len(bases))]
			}
			w := proto.Clone(b.w).(*pbv1.QBFTConsensusMsg)
			w.Values = nil
			send(w, false, nil, "values|none|"+b.name)
			w = proto.Clone(b.w).(*pbv1.QBFTConsensusMsg)
			w.Values = append(w.Values, proto.Clone(w.Values[0]).(*anypb.Any))
			send(w, false, nil, "values|dup|"+b.name)
			w = proto.Clone(b.w).(*pbv1.QBFTConsensusMsg)
			wrapped, err := anypb.New(w.Values[0])
			hx.Must(err)
			w.Values = append(w.Values, wrapped)
			send(w, false, nil, "values|any-in-any|"+b.name)
			w = proto.Clone(b.w).(*pbv1.QBFTConsensusMsg)
			w.Values = append(w.Values, &anypb.Any{TypeUrl: "type.googleapis.com/core.corepb.v1.DoesNotExist", Value: []byte{1, 2, 3}})
			send(w, false, nil, "values|unknown-type|"+b.name)
			w = proto.Clone(b.w).(*pbv1.QBFTConsensusMsg)
			w.Values[0] = newValue(rng).any // another value under the agreed hash
			send(w, false, nil, "values|replaced|"+b.name)
			w = proto.Clone(b.w).(*pbv1.QBFTConsensusMsg)
			w.Values[0].TypeUrl = "example.org/" + w.Values[0].TypeUrl[strings.LastIndex(w.Values[0].TypeUrl, "/")+1:]
			send(w, false, nil, "values|url-prefix|"+b.name)
			// every byte of one referenced value
			vb := bases[rng.Intn(3)]
			for pos := range vb.w.Values[0].Value {
				if !thorough && (pos+epNo)%3 != 0 {
					continue
				}
				w = proto.Clone(vb.w).(*pbv1.QBFTConsensusMsg)
				w.Values[0].Value[pos] ^= byte(1) << uint(rng.Intn(8))
				run.Count("values:flip")
				send(w, false, nil, "values|flip|"+vb.name)
			}
		}

		// 6. duties: expired, too far in the future, exempt, invalid types; malformed but signed
		for k := 0; k < 10; k++ {
			b := bases[rng.Intn(len(bases))]
			w := proto.Clone(b.w).(*pbv1.QBFTConsensusMsg)
			var nd core.Duty
			switch rng.Intn(6) {
			case 0:
				if expBelow == 0 {
					continue
				}
				nd = core.Duty{Slot: expBelow - 1 - rng.U64()%min(expBelow, 40), Type: duty.Type}
			case 1:
				nd = core.Duty{Slot: (cur+allowedFuture+1)*spe + rng.U64()%100, Type: duty.Type}
			case 2:
				nd = core.Duty{Slot: (cur+allowedFuture+1)*spe - 1, Type: duty.Type} // last allowed slot
			case 3:
				nd = core.Duty{Slot: duty.Slot, Type: []core.DutyType{4, 6, 5}[rng.Intn(3)]}
			case 4:
				nd = core.Duty{Slot: duty.Slot, Type: []core.DutyType{0, 14, -1, 15, 100}[rng.Intn(5)]}
			default:
				nd = core.Duty{Slot: expBelow, Type: duty.Type} // first unexpired slot
			}
			for _, c := range append([]*pbv1.QBFTMsg{w.Msg}, w.Justification...) {
				c.Duty = core.DutyToProto(nd)
				ep.resign(c, ep.privs[c.PeerIdx])
			}
			run.Count("duty-variant")
			send(w, false, nil, fmt.Sprintf("duty|%s|g%v|d%d", b.name, ep.gaterAllows(nd), ep.dlStatus(nd)))
		}
		for k := 0; k < 10; k++ {
			b := bases[rng.Intn(len(bases))]
			w := proto.Clone(b.w).(*pbv1.QBFTConsensusMsg)
			ci := rng.Intn(1 + len(w.Justification))
			c := coreOf(w, ci)
			what := rng.Intn(7)
			switch what {
			case 0:
				c.Round = 0
			case 1:
				c.Round = -int64(1 + rng.Intn(3))
			case 2:
				c.PreparedRound = -1
			case 3:
				c.Type = []int64{0, 6, -1, 7}[rng.Intn(4)]
			case 4:
				c.PeerIdx = []int64{-1, int64(n), int64(n) + 5}[rng.Intn(3)]
			case 5:
				c.ValueHash = randBytes(rng, []int{0, 5, 31, 33, 64}[rng.Intn(5)])
			case 6:
				c.PreparedValueHash = make([]byte, 32)
			}
			if c.PeerIdx >= 0 && c.PeerIdx < int64(n) {
				ep.resign(c, ep.privs[c.PeerIdx])
			} else {
				ep.resign(c, ep.privs[0])
			}
			run.Count("signed-malformed")
			send(w, false, nil, fmt.Sprintf("malformed|%s|%d|%v", b.name, what, ci == 0))
		}

		// 7. cancelled context, nil / foreign requests, raw bytes
		send(proto.Clone(bases[rng.Intn(len(bases))].w).(*pbv1.QBFTConsensusMsg), true, nil, "ctxdone")
		send(proto.Clone(bases[1].w).(*pbv1.QBFTConsensusMsg), true, nil, "ctxdone-nojust")
		simple("nilreq")
		simple("wrongtype")
		send(&pbv1.QBFTConsensusMsg{}, false, nil, "empty")
		send(&pbv1.QBFTConsensusMsg{Msg: &pbv1.QBFTMsg{}}, false, nil, "empty-msg")
		for k := 0; k < 12; k++ {
			var raw []byte
			if rng.Chance(1, 3) {
				raw = randBytes(rng, rng.Intn(80))
			} else {
				raw = marshal(bases[rng.Intn(len(bases))].w)
				for x := 0; x < 1+rng.Intn(3) && len(raw) > 0; x++ {
					p := rng.Intn(len(raw))
					switch rng.Intn(3) {
					case 0:
						raw[p] ^= byte(1) << uint(rng.Intn(8))
					case 1:
						raw = append(raw[:p], raw[p+1:]...)
					default:
						raw = append(raw[:p], append([]byte{byte(rng.Intn(256))}, raw[p:]...)...)
					}
				}
			}
			run.Count("rawbytes")
			before := run.NOps
			ep.doMsg(run, false, raw, nil)
			_ = before
			drainOver(func(core.Duty) int { return 60 })
		}

		// 8. instance bookkeeping and leader
		for k := 0; k < 6; k++ {
			d := duty
			if rng.Chance(1, 3) {
				d = other
			}
			simple(fmt.Sprintf("mark %s %d %d", []string{"p", "q", "s"}[rng.Intn(3)], d.Slot, int(d.Type)))
		}
		for k := 0; k < 4; k++ {
			simple(fmt.Sprintf("leader %d %d %d %d", rng.U64()%1000000, 1+rng.Intn(13), 1+rng.Intn(30), 1+rng.Intn(10)))
		}

		// 9. flood: fill the receive buffer of one duty, then delete the instance and go on
		if epNo%4 == 1 {
			flooding = true
			w := bases[1].w
			for {
				ms, _ := ep.cons.RecvBufferVerif(duty)
				run.Count("flood")
				send(proto.Clone(w).(*pbv1.QBFTConsensusMsg), false, nil, fmt.Sprintf("flood|%v", len(ms) >= recvCap))
				if len(ms) >= recvCap {
					break // one timeout op is enough (it costs the receive deadline)
				}
			}
			// a rejected message does not get in either while the buffer is full
			bad := proto.Clone(w).(*pbv1.QBFTConsensusMsg)
			bad.Msg.Round++
			send(bad, false, &expect{mustReject: true, what: "round altered, buffer full"}, "flood|tampered")
			flooding = false
			simple(fmt.Sprintf("del %d %d", duty.Slot, int(duty.Type)))
			send(proto.Clone(w).(*pbv1.QBFTConsensusMsg), false, nil, "after-del")
		}
	}
}
