// drive-frostp2p: correspondence driver for the receive side of dkg/frostp2p.go (C11).
//
// Runs the REAL frostP2P transport (hook dkg.VerifNewFrostP2P: newFrostP2P minus the handler
// registration) with the REAL newBcastCallback / newP2PCallback under the real runFrostParallel.
// The harness is the network: a node's broadcasts (bcastFunc) and its p2p sends (real p2p.Send over
// libp2p's in-memory mock network, received by a harness handler) go into a pool; every delivery
// to a node's callbacks is an op of the driver, so the order per node, re-deliveries of identical
// messages, forged messages (wrong source / target / validator index / commitment count, non-member
// sender, fewer validators) and a peer whose message arrives last are all chosen by the generator.
// Callback channels are harness owned: after each (synchronous) callback call the harness sees
// whether the message was queued and forwards it to the channel frostP2P collects from.
//
// ops:
//
//	p2pcer <n> <t> <vals> <seed>      start a ceremony (reset op); all round-1 messages pooled -> ok | err
//	cb <n> <t> <vals> <self>          callbacks of one node only, synthetic messages (reset op)  -> ok
//	d <j> <c1|p|c2> <from> <variant>  deliver to node j the round-1 cast / round-1 shares / round-2 cast
//	                                  of <from> (n+1, n+2: non-member peers), variant g (genuine bytes),
//	                                  ws wt wv (wrong source / target / validator index), wc (one commitment
//	                                  too many), fv (last validator missing)
//	                                  -> q <messages queued so far> | dup | err <unknown|source|target|val|commit>
//	                                  ws<k> wt<k> wv<k>: only the entry at position k (>= 1) is altered
//	race <j> <c1|c2> <from>           two overlapping deliveries of <from>'s identical genuine cast: the first is
//	                                  held inside the callback's hand-over (the receiving channel is kept full),
//	                                  the second is started, then the channel is released
//	                                  -> the two results in a sequential order, e.g. "q 3 | dup"
//	fin                               wait for all nodes -> per node j:c1=[sources]#keys,p=[..]#keys,c2=[..]#keys
//	val / rec / sig                   as in drive-frost, on the ceremony's result
package main

import (
	"bytes"
	"context"
	"encoding/hex"
	"fmt"
	"sort"
	"strconv"
	"strings"
	"sync"
	"time"

	"github.com/coinbase/kryptology/pkg/core/curves"
	"github.com/coinbase/kryptology/pkg/dkg/frost"
	"github.com/coinbase/kryptology/pkg/sharing"
	k1 "github.com/decred/dcrd/dcrec/secp256k1/v4"
	libp2pcrypto "github.com/libp2p/go-libp2p/core/crypto"
	"github.com/libp2p/go-libp2p/core/host"
	"github.com/libp2p/go-libp2p/core/peer"
	mocknet "github.com/libp2p/go-libp2p/p2p/net/mock"
	ma "github.com/multiformats/go-multiaddr"
	"google.golang.org/protobuf/proto"

	"github.com/obolnetwork/charon/app/log"
	"github.com/obolnetwork/charon/cluster"
	"github.com/obolnetwork/charon/dkg"
	"github.com/obolnetwork/charon/dkg/bcast"
	pb "github.com/obolnetwork/charon/dkg/dkgpb/v1"
	"github.com/obolnetwork/charon/dkg/share"
	"github.com/obolnetwork/charon/p2p"
	"github.com/obolnetwork/charon/tbls"

	"verifharness/hx"
)

type key = dkg.VerifMsgKey

func keyStr(k key) string { return fmt.Sprintf("%d.%d.%d", k.ValIdx, k.SourceID, k.TargetID) }

func keyLess(a, b key) bool {
	if a.ValIdx != b.ValIdx {
		return a.ValIdx < b.ValIdx
	}
	if a.SourceID != b.SourceID {
		return a.SourceID < b.SourceID
	}
	return a.TargetID < b.TargetID
}

type nodeRec struct {
	outCast, outP2P []key
	inCast          map[key]frost.Round1Bcast
	inP2P           map[key]sharing.ShamirShare
	inR2            map[key]frost.Round2Bcast
	shares          []share.Share
	err             error
}

// memTransport only carries the per-node records (name kept for the code shared with drive-frost).
type memTransport struct {
	nodes map[uint32]*nodeRec
}

// recTransport records what the real transport returns.
type recTransport struct {
	inner dkg.VerifFrostTransport
	rec   *nodeRec
	mu    *sync.Mutex
}

func (r *recTransport) Round1(ctx context.Context, c map[key]frost.Round1Bcast, p map[key]sharing.ShamirShare,
) (map[key]frost.Round1Bcast, map[key]sharing.ShamirShare, error) {
	cm, pm, err := r.inner.Round1(ctx, c, p)
	r.mu.Lock()
	r.rec.inCast, r.rec.inP2P = cm, pm
	r.mu.Unlock()
	return cm, pm, err
}

func (r *recTransport) Round2(ctx context.Context, c map[key]frost.Round2Bcast) (map[key]frost.Round2Bcast, error) {
	res, err := r.inner.Round2(ctx, c)
	r.mu.Lock()
	r.rec.inR2 = res
	r.mu.Unlock()
	return res, err
}

// p2pNode is the receive side of one node: real callbacks writing into harness channels (a*), and
// the channels the real frostP2P collects from (b*).
type p2pNode struct {
	id         int
	a1c, b1c   chan *pb.FrostRound1Casts
	a1p, b1p   chan *pb.FrostRound1P2P
	a2c, b2c   chan *pb.FrostRound2Casts
	bcastCb    bcast.Callback
	p2pCb      p2p.HandlerFunc
	queued     map[string]int  // kind -> messages queued
	queuedFrom map[string]int  // kind|from -> messages queued
	seenFrom   map[string]bool // kind|from -> some message bearing that sender was delivered
	genuine    map[string]bool // kind|from -> the genuine message of that member was delivered
}

type pool struct {
	mu  sync.Mutex
	r1  map[int]*pb.FrostRound1Casts
	r2  map[int]*pb.FrostRound2Casts
	p2p map[[2]int]*pb.FrostRound1P2P // (from, to)
	ev  chan struct{}
}

func (p *pool) signal() {
	select {
	case p.ev <- struct{}{}:
	default:
	}
}

type ceremony struct {
	n, t, nv int
	tp       *memTransport
	ok       bool
	x        map[int]tbls.PrivateKey
	cbOnly   bool
	peers    []peer.ID
	peerMap  map[peer.ID]cluster.NodeIdx
	outsider []peer.ID
	nd       map[int]*p2pNode
	pool     *pool
	ctx      context.Context
	cancel   context.CancelFunc
	mn       mocknet.Mocknet
	wg       sync.WaitGroup
	mu       sync.Mutex
	finished bool
}

var r1CastID, r1P2PID, r2CastID = dkg.VerifFrostIDs()

func newKeyID() (*k1.PrivateKey, peer.ID) {
	k, err := k1.GeneratePrivateKey()
	hx.Must(err)
	id, err := peer.IDFromPrivateKey(libp2pcrypto.PrivKey((*libp2pcrypto.Secp256k1PrivateKey)(k)))
	hx.Must(err)
	return k, id
}

func (c *ceremony) close() {
	if c == nil {
		return
	}
	if c.cancel != nil {
		c.cancel()
	}
	if c.mn != nil {
		_ = c.mn.Close()
	}
}

func newNode(c *ceremony, id int, h host.Host) *p2pNode {
	capB := 16*c.n + 64
	nd := &p2pNode{id: id,
		a1c: make(chan *pb.FrostRound1Casts, 4), b1c: make(chan *pb.FrostRound1Casts, capB),
		a1p: make(chan *pb.FrostRound1P2P, 4), b1p: make(chan *pb.FrostRound1P2P, capB),
		a2c: make(chan *pb.FrostRound2Casts, 4), b2c: make(chan *pb.FrostRound2Casts, capB),
		queued: map[string]int{}, queuedFrom: map[string]int{}, seenFrom: map[string]bool{}, genuine: map[string]bool{}}
	nd.bcastCb = dkg.VerifNewBcastCallback(c.peerMap, nd.a1c, nd.a2c, c.t, c.nv)
	nd.p2pCb = dkg.VerifNewP2PCallback(h, c.peerMap, nd.a1p, c.nv)
	return nd
}

// startCeremony builds n nodes with the real frostP2P and starts runFrostParallel on each.
func startCeremony(n, t, nv int, seed uint64) *ceremony {
	c := &ceremony{n: n, t: t, nv: nv, x: map[int]tbls.PrivateKey{}, tp: &memTransport{nodes: map[uint32]*nodeRec{}},
		peerMap: map[peer.ID]cluster.NodeIdx{}, nd: map[int]*p2pNode{},
		pool: &pool{r1: map[int]*pb.FrostRound1Casts{}, r2: map[int]*pb.FrostRound2Casts{}, p2p: map[[2]int]*pb.FrostRound1P2P{}, ev: make(chan struct{}, 1)}}
	c.ctx, c.cancel = context.WithTimeout(context.Background(), 120*time.Second)
	c.mn = mocknet.New()
	var hosts []host.Host
	for i := 0; i < n; i++ {
		k, _ := newKeyID()
		addr, err := ma.NewMultiaddr(fmt.Sprintf("/ip4/10.0.1.%d/tcp/3610", i+1))
		hx.Must(err)
		h, err := c.mn.AddPeer(libp2pcrypto.PrivKey((*libp2pcrypto.Secp256k1PrivateKey)(k)), addr)
		hx.Must(err)
		hosts = append(hosts, h)
		c.peers = append(c.peers, h.ID())
		c.peerMap[h.ID()] = cluster.NodeIdx{PeerIdx: i, ShareIdx: i + 1}
	}
	for i := 0; i < 2; i++ {
		_, id := newKeyID()
		c.outsider = append(c.outsider, id)
	}
	hx.Must(c.mn.LinkAll())
	hx.Must(c.mn.ConnectAllButSelf())
	for i, h := range hosts {
		j := i + 1
		nd := newNode(c, j, h)
		c.nd[j] = nd
		c.tp.nodes[uint32(j)] = &nodeRec{}
		// the harness is the receiving end of the real p2p.Send
		p2p.RegisterHandler("verif", h, r1P2PID, func() proto.Message { return new(pb.FrostRound1P2P) },
			func(_ context.Context, pID peer.ID, req proto.Message) (proto.Message, bool, error) {
				from := c.peerMap[pID].ShareIdx
				c.pool.mu.Lock()
				c.pool.p2p[[2]int{from, j}] = req.(*pb.FrostRound1P2P)
				c.pool.mu.Unlock()
				c.pool.signal()
				return nil, false, nil
			})
		bcastFunc := func(_ context.Context, msgID string, msg proto.Message) error {
			c.pool.mu.Lock()
			switch msgID {
			case r1CastID:
				c.pool.r1[j] = proto.Clone(msg).(*pb.FrostRound1Casts)
			case r2CastID:
				c.pool.r2[j] = proto.Clone(msg).(*pb.FrostRound2Casts)
			}
			c.pool.mu.Unlock()
			c.pool.signal()
			return nil
		}
		tp := &recTransport{inner: dkg.VerifNewFrostP2P(h, c.peerMap, bcastFunc, nd.b1c, nd.b1p, nd.b2c), rec: c.tp.nodes[uint32(j)], mu: &c.mu}
		c.wg.Add(1)
		go func() {
			defer c.wg.Done()
			var sh []share.Share
			var err error
			func() {
				defer func() {
					if p := recover(); p != nil {
						err = fmt.Errorf("panic: %v", p)
					}
				}()
				sh, err = dkg.VerifRunFrostParallel(c.ctx, tp, uint32(nv), uint32(n), uint32(t), uint32(j), strconv.FormatUint(seed%200, 10))
			}()
			c.mu.Lock()
			c.tp.nodes[uint32(j)].shares, c.tp.nodes[uint32(j)].err = sh, err
			c.mu.Unlock()
			c.pool.signal()
		}()
	}
	return c
}

// waitFor polls cond (under the pool lock) until it holds, an event timeout or a node failure.
func (c *ceremony) waitFor(cond func() bool, d time.Duration) bool {
	// the budget counts only time in which this process was running: an interval in which a 20 ms nap took
	// more than 2 s (frozen or starved machine) is given back, and the budget is generous (x4)
	budget := 4 * d
	deadline := make(chan struct{})
	done := make(chan struct{})
	defer close(done)
	go func() {
		var spent time.Duration
		for spent < budget {
			t0 := time.Now()
			select {
			case <-done:
				return
			case <-time.After(20 * time.Millisecond):
			}
			if dt := time.Since(t0); dt < 2*time.Second {
				spent += dt
			}
		}
		close(deadline)
	}()
	for {
		c.pool.mu.Lock()
		ok := cond()
		c.pool.mu.Unlock()
		if ok {
			return true
		}
		c.mu.Lock()
		failed := false
		for _, r := range c.tp.nodes {
			if r.err != nil {
				failed = true
			}
		}
		c.mu.Unlock()
		if failed {
			return false
		}
		select {
		case <-c.pool.ev:
		case <-time.After(20 * time.Millisecond):
		case <-deadline:
			return false
		}
	}
}

func mkKey(v, src, tgt int) *pb.FrostMsgKey {
	return &pb.FrostMsgKey{ValIdx: uint32(v), SourceId: uint32(src), TargetId: uint32(tgt)}
}

// synthetic genuine messages (callback-only episodes): right keys, t commitments, dummy bytes.
func (c *ceremony) synthetic(kind string, src, j int) proto.Message {
	switch kind {
	case "c1":
		m := new(pb.FrostRound1Casts)
		for v := 0; v < c.nv; v++ {
			cast := &pb.FrostRound1Cast{Key: mkKey(v, src, 0), Wi: make([]byte, 32), Ci: make([]byte, 32)}
			for k := 0; k < c.t; k++ {
				cast.Commitments = append(cast.Commitments, bytes.Repeat([]byte{byte(src)}, 48))
			}
			m.Casts = append(m.Casts, cast)
		}
		return m
	case "p":
		m := new(pb.FrostRound1P2P)
		for v := 0; v < c.nv; v++ {
			m.Shares = append(m.Shares, &pb.FrostRound1ShamirShare{Key: mkKey(v, src, j), Id: uint32(j), Value: bytes.Repeat([]byte{byte(src)}, 32)})
		}
		return m
	default:
		m := new(pb.FrostRound2Casts)
		for v := 0; v < c.nv; v++ {
			m.Casts = append(m.Casts, &pb.FrostRound2Cast{Key: mkKey(v, src, 0), VerificationKey: make([]byte, 48), VkShare: bytes.Repeat([]byte{byte(src)}, 48)})
		}
		return m
	}
}

func keysOf(m proto.Message) []*pb.FrostMsgKey {
	var ks []*pb.FrostMsgKey
	switch x := m.(type) {
	case *pb.FrostRound1Casts:
		for _, e := range x.Casts {
			ks = append(ks, e.Key)
		}
	case *pb.FrostRound1P2P:
		for _, e := range x.Shares {
			ks = append(ks, e.Key)
		}
	case *pb.FrostRound2Casts:
		for _, e := range x.Casts {
			ks = append(ks, e.Key)
		}
	}
	return ks
}

// alter applies a variant to a clone of the genuine message.
func (c *ceremony) alter(kind, variant string, m proto.Message, src, j int) proto.Message {
	m = proto.Clone(m)
	ks := keysOf(m)
	switch variant {
	case "g":
	case "ws":
		for _, k := range ks {
			k.SourceId = uint32(src%c.n + 1)
		}
	case "wt":
		for _, k := range ks {
			if kind == "p" {
				k.TargetId = uint32(j%c.n + 1)
			} else {
				k.TargetId = uint32(j)
			}
		}
	case "wv":
		if len(ks) > 0 {
			ks[len(ks)-1].ValIdx = uint32(c.nv)
		}
	case "wc":
		if x, ok := m.(*pb.FrostRound1Casts); ok && len(x.Casts) > 0 {
			x.Casts[0].Commitments = append(x.Casts[0].Commitments, x.Casts[0].Commitments[0])
		}
	case "fv":
		switch x := m.(type) {
		case *pb.FrostRound1Casts:
			if len(x.Casts) > 0 {
				x.Casts = x.Casts[:len(x.Casts)-1]
			}
		case *pb.FrostRound1P2P:
			if len(x.Shares) > 0 {
				x.Shares = x.Shares[:len(x.Shares)-1]
			}
		case *pb.FrostRound2Casts:
			if len(x.Casts) > 0 {
				x.Casts = x.Casts[:len(x.Casts)-1]
			}
		}
	default:
		// ws<k> / wt<k> / wv<k>: exactly the entry at position k is altered
		if len(variant) < 3 {
			panic("bad variant " + variant)
		}
		k, err := strconv.Atoi(variant[2:])
		if err != nil {
			panic("bad variant " + variant)
		}
		if k < len(ks) {
			switch variant[:2] {
			case "ws":
				ks[k].SourceId = uint32(src%c.n + 1)
			case "wt":
				if kind == "p" {
					ks[k].TargetId = uint32(j%c.n + 1)
				} else {
					ks[k].TargetId = uint32(j)
				}
			case "wv":
				ks[k].ValIdx = uint32(c.nv)
			default:
				panic("bad variant " + variant)
			}
		}
	}
	return m
}

func errClass(err error) string {
	s := err.Error()
	switch {
	case strings.Contains(s, "unknown"):
		return "unknown"
	case strings.Contains(s, "source ID"):
		return "source"
	case strings.Contains(s, "target ID"):
		return "target"
	case strings.Contains(s, "validator index"):
		return "val"
	case strings.Contains(s, "amount of commitments"):
		return "commit"
	}
	return "other:" + strings.ReplaceAll(s, " ", "_")
}

// genuineWellFormed checks that a genuine message of src has exactly the keys round1/round2 file.
func (c *ceremony) genuineWellFormed(kind string, m proto.Message, src, j int) bool {
	ks := keysOf(m)
	if len(ks) != c.nv {
		return false
	}
	seen := map[uint32]bool{}
	for _, k := range ks {
		tgt := 0
		if kind == "p" {
			tgt = j
		}
		if int(k.SourceId) != src || int(k.TargetId) != tgt || int(k.ValIdx) >= c.nv || seen[k.ValIdx] {
			return false
		}
		seen[k.ValIdx] = true
	}
	if x, ok := m.(*pb.FrostRound1Casts); ok {
		for _, e := range x.Casts {
			if len(e.Commitments) != c.t {
				return false
			}
		}
	}
	return true
}

// complete says whether every other member's genuine messages of the given kinds reached node j.
func (c *ceremony) complete(j int, kinds ...string) bool {
	nd := c.nd[j]
	for _, k := range kinds {
		for i := 1; i <= c.n; i++ {
			if i != j && !nd.genuine[fmt.Sprintf("%s|%d", k, i)] {
				return false
			}
		}
	}
	return true
}

// deliver performs op `d j kind from variant`.
func (c *ceremony) deliver(run *hx.Run, j int, kind string, from int, variant string) string {
	if c.nd[j] == nil {
		panic("no such node")
	}
	member := from >= 1 && from <= c.n
	src := from
	if !member {
		src = j%c.n + 1
	}
	genuine, okG := c.genuineMsg(run, j, kind, src)
	if !okG {
		return "unavailable"
	}
	return c.deliverMsg(run, j, kind, from, variant, src, member, genuine)
}

// genuineMsg returns the genuine message of member src (for node j), waiting for it if needed.
func (c *ceremony) genuineMsg(run *hx.Run, j int, kind string, src int) (proto.Message, bool) {
	var genuine proto.Message
	if c.cbOnly {
		genuine = c.synthetic(kind, src, j)
	} else {
		ok := c.waitFor(func() bool {
			switch kind {
			case "c1":
				genuine = c.pool.r1[src]
				return c.pool.r1[src] != nil
			case "p":
				genuine = c.pool.p2p[[2]int{src, j}]
				return c.pool.p2p[[2]int{src, j}] != nil
			default:
				genuine = c.pool.r2[src]
				return c.pool.r2[src] != nil
			}
		}, func() time.Duration {
			if kind == "c2" && !c.complete(src, "c1", "p") {
				return 300 * time.Millisecond // the sender cannot have finished round 1 (replay of a reduced op list)
			}
			return 30 * time.Second
		}())
		if !ok {
			if kind != "c2" || c.complete(src, "c1", "p") {
				run.Violate("frostp2p:ceremony_stalled", fmt.Sprintf("node %d: %s message of node %d never became available", j, kind, src))
			}
			return nil, false
		}
		if !c.genuineWellFormed(kind, genuine, src, j) {
			run.Violate("frostp2p:genuine_message_malformed", fmt.Sprintf("%s message of node %d for node %d: keys %v", kind, src, j, keysOf(genuine)))
		}
	}
	return genuine, true
}

func (c *ceremony) pid(from int) peer.ID {
	if from >= 1 && from <= c.n {
		return c.peers[from-1]
	}
	return c.outsider[(from-c.n-1)%len(c.outsider)]
}

func (c *ceremony) deliverMsg(run *hx.Run, j int, kind string, from int, variant string, src int, member bool, genuine proto.Message) string {
	nd := c.nd[j]
	msg := c.alter(kind, variant, genuine, src, j)
	var pID peer.ID
	if member {
		pID = c.peers[from-1]
	} else {
		pID = c.outsider[(from-c.n-1)%len(c.outsider)]
	}
	// synchronous call of the real callback
	var err error
	done := make(chan struct{})
	go func() {
		defer close(done)
		ctx, cancel := context.WithTimeout(context.Background(), 10*time.Second)
		defer cancel()
		switch kind {
		case "c1":
			err = nd.bcastCb(ctx, pID, r1CastID, msg)
		case "c2":
			err = nd.bcastCb(ctx, pID, r2CastID, msg)
		default:
			_, _, err = nd.p2pCb(ctx, pID, msg)
		}
	}()
	<-done
	// what did it queue?
	got := map[string]int{}
	for {
		select {
		case m := <-nd.a1c:
			got["c1"]++
			nd.b1c <- m
			continue
		case m := <-nd.a1p:
			got["p"]++
			nd.b1p <- m
			continue
		case m := <-nd.a2c:
			got["c2"]++
			nd.b2c <- m
			continue
		default:
		}
		break
	}
	desc := fmt.Sprintf("node %d, %s from %d variant %s", j, kind, from, variant)
	for k, cnt := range got {
		if k != kind || cnt > 1 {
			run.Violate("frostp2p:wrong_queue", fmt.Sprintf("%s: %d message(s) pushed to the %s queue", desc, cnt, k))
		}
	}
	queued := got[kind] > 0
	fk := fmt.Sprintf("%s|%d", kind, from)
	invalid := !member || (variant != "g" && variant != "fv" && !proto.Equal(msg, genuine))
	seenBefore := nd.seenFrom[fk]
	nd.seenFrom[fk] = true
	if member && variant == "g" {
		nd.genuine[fk] = true
	}
	run.Count("d:" + kind + ":" + variant)
	switch {
	case err != nil:
		if member && variant == "g" {
			run.Violate("frostp2p:genuine_message_refused", fmt.Sprintf("%s: %v", desc, err))
		}
		if queued {
			run.Violate("frostp2p:invalid_message_queued", desc+": refused with an error and queued")
		}
		run.Count("d:err")
		return "err " + errClass(err)
	case queued:
		if invalid {
			run.Violate("frostp2p:invalid_message_queued", desc)
		}
		if nd.queuedFrom[fk] > 0 {
			run.Violate("frostp2p:duplicate_queued", fmt.Sprintf("%s: a message of this peer is already queued; a duplicate takes the place of another peer's message", desc))
		}
		nd.queued[kind]++
		nd.queuedFrom[fk]++
		run.Count("d:queued")
		run.Case(fmt.Sprintf("q:%s:%s:%d:%d", kind, variant, c.n, nd.queued[kind]))
		return fmt.Sprintf("q %d", nd.queued[kind])
	default:
		// silently dropped: must be explained by de-duplication
		explained := nd.queuedFrom[fk] > 0 || (kind != "p" && seenBefore)
		if !explained {
			if member && variant == "g" {
				run.Violate("frostp2p:genuine_message_dropped", desc)
			} else {
				run.Violate("frostp2p:invalid_message_not_refused", desc+": neither refused nor a duplicate")
			}
		}
		if kind == "p" && invalid {
			run.Violate("frostp2p:invalid_message_not_refused", desc+": the p2p callback validates before de-duplicating")
		}
		run.Count("d:dup")
		return "dup"
	}
}

// race performs op `race j kind from`: two overlapping callback invocations with the identical
// genuine cast of member `from`. The hand-over channel is kept full so that the first invocation
// cannot leave the callback before the second one has started.
func (c *ceremony) race(run *hx.Run, j int, kind string, from int) string {
	nd := c.nd[j]
	if nd == nil || from < 1 || from > c.n || (kind != "c1" && kind != "c2") {
		panic("bad race op")
	}
	genuine, ok := c.genuineMsg(run, j, kind, from)
	if !ok {
		return "unavailable"
	}
	msgID := r1CastID
	if kind == "c2" {
		msgID = r2CastID
	}
	// fill the callback-side channel of that kind with placeholders
	fill := 0
	for {
		full := false
		if kind == "c1" {
			select {
			case nd.a1c <- nil:
				fill++
			default:
				full = true
			}
		} else {
			select {
			case nd.a2c <- nil:
				fill++
			default:
				full = true
			}
		}
		if full {
			break
		}
	}
	errs := make([]error, 2)
	var wg sync.WaitGroup
	for i := 0; i < 2; i++ {
		wg.Add(1)
		go func() {
			defer wg.Done()
			ctx, cancel := context.WithTimeout(context.Background(), 20*time.Second)
			defer cancel()
			errs[i] = nd.bcastCb(ctx, c.pid(from), msgID, proto.Clone(genuine))
		}()
		time.Sleep(8 * time.Millisecond) // let it reach the hand-over (or the lock)
	}
	// release: drain until both invocations have returned
	finished := make(chan struct{})
	go func() { wg.Wait(); close(finished) }()
	queued := 0
	drain := func() bool {
		if kind == "c1" {
			select {
			case m := <-nd.a1c:
				if m != nil {
					queued++
					nd.b1c <- m
				}
				return true
			default:
			}
		} else {
			select {
			case m := <-nd.a2c:
				if m != nil {
					queued++
					nd.b2c <- m
				}
				return true
			default:
			}
		}
		return false
	}
	deadline := time.After(25 * time.Second)
	done := false
	for !done {
		if drain() {
			continue
		}
		select {
		case <-finished:
			done = true
		case <-deadline:
			run.Violate("frostp2p:callback_blocked", fmt.Sprintf("node %d: overlapping %s deliveries from %d did not return", j, kind, from))
			done = true
		case <-time.After(time.Millisecond):
		}
	}
	for drain() {
	}
	desc := fmt.Sprintf("node %d, two overlapping deliveries of the %s cast of %d", j, kind, from)
	fk := fmt.Sprintf("%s|%d", kind, from)
	seenBefore := nd.seenFrom[fk]
	nd.seenFrom[fk] = true
	nd.genuine[fk] = true
	run.Count("race:" + kind)
	for _, e := range errs {
		if e != nil {
			run.Violate("frostp2p:genuine_message_refused", fmt.Sprintf("%s: %v", desc, e))
			return "err " + errClass(e)
		}
	}
	var res []string
	for i := 0; i < queued; i++ {
		if nd.queuedFrom[fk] > 0 {
			run.Violate("frostp2p:duplicate_queued", fmt.Sprintf("%s: a message of this peer is already queued; a duplicate takes the place of another peer's message", desc))
		}
		nd.queued[kind]++
		nd.queuedFrom[fk]++
		res = append(res, fmt.Sprintf("q %d", nd.queued[kind]))
	}
	if queued == 0 && !seenBefore {
		run.Violate("frostp2p:genuine_message_dropped", desc)
	}
	for len(res) < 2 {
		res = append(res, "dup")
	}
	run.Case(fmt.Sprintf("race:%s:%d:%d", kind, c.n, queued))
	return strings.Join(res, " | ")
}

func srcSet[T any](m map[key]T) string {
	set := map[int]bool{}
	for k := range m {
		set[int(k.SourceID)] = true
	}
	var ids []int
	for i := range set {
		ids = append(ids, i)
	}
	sort.Ints(ids)
	return fmt.Sprintf("[%s]#%d", idsStr(ids), len(m))
}

// finish waits for all nodes and renders what the real Round1 / Round2 returned.
func (c *ceremony) finish(run *hx.Run) string {
	waited := make(chan struct{})
	go func() { c.wg.Wait(); close(waited) }()
	allDelivered := true
	for j := 1; j <= c.n; j++ {
		if !c.complete(j, "c1", "p", "c2") {
			allDelivered = false
		}
	}
	patience := 40 * time.Second
	if !allDelivered {
		patience = 300 * time.Millisecond // replay of a reduced op list: nodes legitimately still wait
	}
	select {
	case <-waited:
	case <-time.After(patience):
		if allDelivered {
			run.Violate("frostp2p:ceremony_stalled", "nodes did not finish after all messages were delivered")
		}
		c.cancel()
		<-waited
	}
	if !allDelivered {
		var outs []string
		for j := 1; j <= c.n; j++ {
			outs = append(outs, fmt.Sprintf("%d:wait", j))
		}
		c.finished = true
		return strings.Join(outs, " ")
	}
	c.finished = true
	var outs []string
	allOK := true
	var all, others []int
	for i := 1; i <= c.n; i++ {
		all = append(all, i)
	}
	for j := 1; j <= c.n; j++ {
		r := c.tp.nodes[uint32(j)]
		if r.err != nil || len(r.shares) != c.nv {
			allOK = false
			run.Violate("frost:ceremony_failed", fmt.Sprintf("n=%d t=%d vals=%d node %d: %v", c.n, c.t, c.nv, j, r.err))
			outs = append(outs, fmt.Sprintf("%d:err", j))
			continue
		}
		others = others[:0]
		for i := 1; i <= c.n; i++ {
			if i != j {
				others = append(others, i)
			}
		}
		c1, p, c2 := srcSet(r.inCast), srcSet(r.inP2P), srcSet(r.inR2)
		if c1 != fmt.Sprintf("[%s]#%d", idsStr(all), c.n*c.nv) || p != fmt.Sprintf("[%s]#%d", idsStr(others), (c.n-1)*c.nv) {
			run.Violate("frostp2p:round1_set_wrong", fmt.Sprintf("node %d: Round1 returned casts of %s and shares of %s", j, c1, p))
		}
		if c2 != fmt.Sprintf("[%s]#%d", idsStr(all), c.n*c.nv) {
			run.Violate("frostp2p:round2_set_wrong", fmt.Sprintf("node %d: Round2 returned casts of %s", j, c2))
		}
		outs = append(outs, fmt.Sprintf("%d:c1=%s,p=%s,c2=%s", j, c1, p, c2))
	}
	c.ok = allOK
	if allOK {
		c.monitors(run)
	}
	return strings.Join(outs, " ")
}

func sortedKeys[T any](m map[key]T) []key {
	ks := make([]key, 0, len(m))
	for k := range m {
		ks = append(ks, k)
	}
	sort.Slice(ks, func(a, b int) bool { return keyLess(ks[a], ks[b]) })
	return ks
}

func keysStr(ks []key) string {
	sort.Slice(ks, func(a, b int) bool { return keyLess(ks[a], ks[b]) })
	p := make([]string, len(ks))
	for i, k := range ks {
		p[i] = keyStr(k)
	}
	if len(p) == 0 {
		return "-"
	}
	return strings.Join(p, ",")
}

var curve = curves.BLS12381G1()

// monitors on the ceremony result (independent of the model).
func (c *ceremony) monitors(run *hx.Run) {
	n, nv := c.n, c.nv
	first := c.tp.nodes[1]
	groupKeys := map[tbls.PublicKey]bool{}
	for v := 0; v < nv; v++ {
		ref := first.shares[v]
		groupKeys[ref.PubKey] = true
		ids := make([]int, 0, len(ref.PublicShares))
		for id := range ref.PublicShares {
			ids = append(ids, id)
		}
		sort.Ints(ids)
		okKeys := len(ids) == n
		for i, id := range ids {
			if id != i+1 {
				okKeys = false
			}
		}
		if !okKeys {
			run.Violate("frost:pubshare_ids_not_1_to_n", fmt.Sprintf("validator %d: PublicShares keys %v, n=%d", v, ids, n))
		}
		for j := 1; j <= n; j++ {
			sh := c.tp.nodes[uint32(j)].shares[v]
			if sh.PubKey != ref.PubKey {
				run.Violate("frost:group_key_disagreement", fmt.Sprintf("validator %d: node %d holds group key %x, node 1 holds %x", v, j, sh.PubKey[:6], ref.PubKey[:6]))
			}
			same := len(sh.PublicShares) == len(ref.PublicShares)
			for id, pk := range ref.PublicShares {
				if sh.PublicShares[id] != pk {
					same = false
				}
			}
			if !same {
				run.Violate("frost:pubshares_disagreement", fmt.Sprintf("validator %d: node %d and node 1 hold different public shares", v, j))
			}
			pk, err := tbls.SecretToPublicKey(sh.SecretShare)
			if err != nil || pk != ref.PublicShares[j] {
				run.Violate("frost:secret_share_pubshare_mismatch", fmt.Sprintf("validator %d: node %d's secret share does not match PublicShares[%d]", v, j, j))
			}
		}
		// Feldman: public share j must be sum_i sum_k j^k A_{i,k}; group key must be sum_i A_{i,0}
		casts := map[uint32]frost.Round1Bcast{}
		for k, cst := range first.inCast {
			if int(k.ValIdx) == v {
				casts[k.SourceID] = cst
			}
		}
		if len(casts) == n {
			var gk curves.Point
			for i := 1; i <= n; i++ {
				a0 := casts[uint32(i)].Verifiers.Commitments[0]
				if gk == nil {
					gk = a0
				} else {
					gk = gk.Add(a0)
				}
			}
			if !bytes.Equal(gk.ToAffineCompressed(), ref.PubKey[:]) {
				run.Violate("frost:group_key_not_commitment_sum", fmt.Sprintf("validator %d", v))
			}
			for j := 1; j <= n; j++ {
				var acc curves.Point
				x := curve.Scalar.New(j)
				for i := 1; i <= n; i++ {
					comms := casts[uint32(i)].Verifiers.Commitments
					// Horner in the exponent
					var e curves.Point
					for k := len(comms) - 1; k >= 0; k-- {
						if e == nil {
							e = comms[k]
						} else {
							e = e.Mul(x).Add(comms[k])
						}
					}
					if acc == nil {
						acc = e
					} else {
						acc = acc.Add(e)
					}
				}
				want := ref.PublicShares[j]
				if !bytes.Equal(acc.ToAffineCompressed(), want[:]) {
					run.Violate("frost:share_sum_mismatch", fmt.Sprintf("validator %d: public share of node %d is not the sum of the dealers' committed evaluations at %d", v, j, j))
				}
			}
		} else {
			run.Violate("frost:round1_casts_incomplete", fmt.Sprintf("validator %d: node 1 received %d casts", v, len(casts)))
		}
	}
	if len(groupKeys) != nv {
		run.Violate("frost:validators_share_key", fmt.Sprintf("%d validators, %d distinct group keys", nv, len(groupKeys)))
	}
	// every round-1 share delivered to node j must carry identifier j
	for j := 1; j <= n; j++ {
		for k, s := range c.tp.nodes[uint32(j)].inP2P {
			if int(s.Id) != j || int(k.TargetID) != j {
				run.Violate("frost:share_misrouted", fmt.Sprintf("node %d received share with id %d under key %s", j, s.Id, keyStr(k)))
			}
		}
	}
}

func hexOf(b []byte) string {
	if len(b) == 0 {
		return "-"
	}
	return hex.EncodeToString(b)
}

func unhex(s string) []byte {
	if s == "-" {
		return nil
	}
	b, err := hex.DecodeString(s)
	hx.Must(err)
	return b
}

func b01(b bool) string {
	if b {
		return "1"
	}
	return "0"
}

func parseIDs(s string) []int {
	var out []int
	for _, f := range strings.Split(s, ",") {
		v, err := strconv.Atoi(f)
		hx.Must(err)
		out = append(out, v)
	}
	return out
}

func idsStr(ids []int) string {
	p := make([]string, len(ids))
	for i, v := range ids {
		p[i] = strconv.Itoa(v)
	}
	return strings.Join(p, ",")
}

type item struct {
	kind    string
	from    int
	variant string
	early   bool
}

func main() {
	a := hx.ParseArgs()
	hx.Must(log.InitLogger(log.Config{Level: "fatal", Format: "console", Color: "disable"}))
	run := hx.NewRun(a.Dir)
	defer run.Close()
	var cer *ceremony

	exec := func(op string) {
		f := strings.Fields(op)
		switch f[0] {
		case "p2pcer":
			cer.close()
			n, _ := strconv.Atoi(f[1])
			t, _ := strconv.Atoi(f[2])
			nv, _ := strconv.Atoi(f[3])
			seed, _ := strconv.ParseUint(f[4], 10, 64)
			valid := t >= 2 && t <= n && n >= 2 && nv >= 1
			cer = startCeremony(n, t, nv, seed)
			run.Count("p2pcer")
			ok := cer.waitFor(func() bool { return len(cer.pool.r1) == n && len(cer.pool.p2p) == n*(n-1) }, 30*time.Second)
			// a starved machine can make a send over the mock network or a wait time out: a valid ceremony is started
			// afresh (twice at most) before its failure is believed
			for attempt := 0; !ok && valid && attempt < 2; attempt++ {
				run.Count("p2pcer:retried")
				cer.close()
				time.Sleep(time.Duration(attempt+1) * 2 * time.Second)
				cer = startCeremony(n, t, nv, seed)
				ok = cer.waitFor(func() bool { return len(cer.pool.r1) == n && len(cer.pool.p2p) == n*(n-1) }, 60*time.Second)
			}
			if !ok {
				if valid {
					run.Violate("frost:ceremony_failed", fmt.Sprintf("n=%d t=%d vals=%d: round 1 messages were not all sent", n, t, nv))
				}
				cer.close()
				cer = nil
				run.Op(op, "err")
				return
			}
			run.Case(fmt.Sprintf("p2pcer:%d:%d:%d", n, t, nv))
			run.Op(op, "ok")
			return
		case "cb":
			cer.close()
			n, _ := strconv.Atoi(f[1])
			t, _ := strconv.Atoi(f[2])
			nv, _ := strconv.Atoi(f[3])
			self, _ := strconv.Atoi(f[4])
			cer = &ceremony{n: n, t: t, nv: nv, cbOnly: true, peerMap: map[peer.ID]cluster.NodeIdx{}, nd: map[int]*p2pNode{}}
			for i := 0; i < n; i++ {
				_, id := newKeyID()
				cer.peers = append(cer.peers, id)
				cer.peerMap[id] = cluster.NodeIdx{PeerIdx: i, ShareIdx: i + 1}
			}
			for i := 0; i < 2; i++ {
				_, id := newKeyID()
				cer.outsider = append(cer.outsider, id)
			}
			selfIdx := self
			if selfIdx < 1 || selfIdx > n {
				selfIdx = 1
			}
			cer.nd[self] = newNode(cer, self, bcast.VerifStubHost(cer.peers[selfIdx-1]))
			run.Count("cb")
			run.Op(op, "ok")
			return
		}
		if cer == nil {
			panic("op without episode: " + op)
		}
		switch f[0] {
		case "d":
			j, _ := strconv.Atoi(f[1])
			from, _ := strconv.Atoi(f[3])
			run.Op(op, cer.deliver(run, j, f[2], from, f[4]))
		case "race":
			j, _ := strconv.Atoi(f[1])
			from, _ := strconv.Atoi(f[3])
			run.Op(op, cer.race(run, j, f[2], from))
		case "fin":
			run.Count("fin")
			run.Op(op, cer.finish(run))
		case "val":
			if !cer.ok {
				panic("val without finished ceremony")
			}
			v, _ := strconv.Atoi(f[1])
			var p2p, sks []string
			all := map[int]tbls.PrivateKey{}
			for j := 1; j <= cer.n; j++ {
				r := cer.tp.nodes[uint32(j)]
				for _, k := range sortedKeys(r.inP2P) {
					if int(k.ValIdx) == v {
						p2p = append(p2p, fmt.Sprintf("%d>%d:%s", k.SourceID, k.TargetID, hexOf(r.inP2P[k].Value)))
					}
				}
				sk := r.shares[v].SecretShare
				sks = append(sks, fmt.Sprintf("%d:%x", j, sk[:]))
				all[j] = sk
			}
			x, err := tbls.RecoverSecret(all, uint(cer.n), uint(cer.t))
			out := "err"
			if err == nil {
				cer.x[v] = x
				pk, err := tbls.SecretToPublicKey(x)
				okPK := err == nil && pk == cer.tp.nodes[1].shares[v].PubKey
				if !okPK {
					run.Violate("frost:group_key_not_key_of_shared_secret", fmt.Sprintf("validator %d: the secret interpolated from all secret shares does not have the group public key", v))
				}
				out = fmt.Sprintf("x=%x pk=%s", x[:], b01(okPK))
			} else {
				run.Violate("frost:recover_error", fmt.Sprintf("validator %d: %v", v, err))
			}
			run.Count("val")
			run.Op(fmt.Sprintf("val %d %s %s", v, strings.Join(p2p, ","), strings.Join(sks, ",")), out)
		case "rec":
			v, _ := strconv.Atoi(f[1])
			ids := parseIDs(f[2])
			ref := cer.tp.nodes[1].shares[v]
			sub := map[int]tbls.PrivateKey{}
			pub := map[int]tbls.PublicKey{}
			for _, j := range ids {
				sub[j] = cer.tp.nodes[uint32(j)].shares[v].SecretShare
				// public shares as held by some *other* node
				other := cer.tp.nodes[uint32(j%cer.n+1)].shares[v]
				pub[j] = other.PublicShares[j]
			}
			rec, err := tbls.RecoverSecret(sub, uint(cer.n), uint(cer.t))
			if err != nil {
				run.Op(op, "err")
				return
			}
			rpk, err := tbls.RecoverPubkey(pub)
			okR := err == nil && rpk == ref.PubKey
			if len(sub) >= cer.t {
				if !okR {
					run.Violate("frost:pubshares_do_not_reconstruct_group_key", fmt.Sprintf("validator %d ids=%v", v, ids))
				}
				if x, ok := cer.x[v]; ok && rec != x {
					run.Violate("frost:subset_recovers_other_secret", fmt.Sprintf("validator %d ids=%v", v, ids))
				}
				run.Case(fmt.Sprintf("rec:%d:%d:%s", cer.n, cer.t, f[2]))
			} else {
				if x, ok := cer.x[v]; ok && (rec == x || okR) {
					run.Violate("frost:below_threshold_recovers", fmt.Sprintf("validator %d: %d < t=%d shares %v reconstruct the group key", v, len(sub), cer.t, ids))
				}
				run.Count("rec:below_threshold")
			}
			run.Count("rec")
			run.Op(op, fmt.Sprintf("%x rpk=%s", rec[:], b01(okR)))
		case "sig":
			v, _ := strconv.Atoi(f[1])
			ids := parseIDs(f[2])
			msg := unhex(f[3])
			ref := cer.tp.nodes[1].shares[v]
			parts := map[int]tbls.Signature{}
			for _, j := range ids {
				s, err := tbls.Sign(cer.tp.nodes[uint32(j)].shares[v].SecretShare, msg)
				hx.Must(err)
				parts[j] = s
				other := cer.tp.nodes[uint32(j%cer.n+1)].shares[v]
				if tbls.Verify(other.PublicShares[j], msg, s) != nil {
					run.Violate("frost:partial_rejected_under_pubshare", fmt.Sprintf("validator %d node %d", v, j))
				}
			}
			sig, err := tbls.ThresholdAggregate(parts)
			if err != nil {
				run.Op(op, "err")
				return
			}
			ver := tbls.Verify(ref.PubKey, msg, sig) == nil
			agg := false
			if x, ok := cer.x[v]; ok {
				full, err := tbls.Sign(x, msg)
				agg = err == nil && full == sig
			}
			if len(parts) >= cer.t {
				if !ver {
					run.Violate("frost:threshold_signature_rejected", fmt.Sprintf("validator %d ids=%v: aggregate of partial signatures does not verify under the group key", v, ids))
				}
				run.Case(fmt.Sprintf("sig:%d:%d:%s", cer.n, cer.t, f[2]))
			} else {
				run.Count("sig:below_threshold")
			}
			run.Count("sig")
			run.Op(op, fmt.Sprintf("agg=%s ver=%s", b01(agg), b01(ver)))
		default:
			panic("bad op " + op)
		}
	}

	if a.Mode == "exec" {
		for _, op := range hx.ReadOps(a.Ops) {
			exec(op)
		}
		cer.close()
		return
	}

	if a.Tier == "search" && a.N > 8000 {
		a.N = 8000 // the search for a failing input after a broken obligation must end within minutes
	}
	rng := hx.NewRng(a.Seed)
	pick := func(xs []int) int { return xs[rng.Intn(len(xs))] }
	insertAfter := func(s []item, pos int, it item) []item { // at a random position > pos
		at := pos + 1 + rng.Intn(len(s)-pos)
		s = append(s, item{})
		copy(s[at+1:], s[at:])
		s[at] = it
		return s
	}
	indexOf := func(s []item, kind string, from int) int {
		for i, it := range s {
			if it.kind == kind && it.from == from && it.variant == "g" {
				return i
			}
		}
		return -1
	}
	curNV := 1
	badVariants := func(kind string) []string {
		vs := []string{"ws", "wt", "wv"}
		if kind == "c1" {
			vs = append(vs, "wc")
		}
		// exactly one entry at a non-first position altered (needs >= 2 validators); weighted up
		for rep := 0; rep < 2; rep++ {
			for k := 1; k < curNV; k++ {
				vs = append(vs, fmt.Sprintf("ws%d", k), fmt.Sprintf("wt%d", k), fmt.Sprintf("wv%d", k))
			}
		}
		return vs
	}
	// script of one round for node j: genuine messages shuffled, one slow peer last, duplicates of
	// identical messages before it, junk interleaved.
	roundScript := func(n, j int, kinds []string) []item {
		var others []int
		for i := 1; i <= n; i++ {
			if i != j {
				others = append(others, i)
			}
		}
		var s []item
		for _, k := range kinds {
			for _, i := range others {
				s = append(s, item{kind: k, from: i, variant: "g"})
			}
		}
		for i := len(s) - 1; i > 0; i-- {
			x := rng.Intn(i + 1)
			s[i], s[x] = s[x], s[i]
		}
		castKind := kinds[0]
		slow := -1
		if rng.Chance(3, 4) {
			slow = pick(others)
			at := indexOf(s, castKind, slow)
			it := s[at]
			s = append(s[:at], s[at+1:]...)
			defer func() {}()
			// junk first, slow cast appended below
			s = append(s, it) // temporarily last; junk is inserted before it
		}
		limit := func() int { // junk goes before the slow peer's cast
			if slow >= 0 {
				return len(s) - 1
			}
			return len(s)
		}
		insertBeforeLimit := func(pos int, it item) {
			lim := limit()
			at := pos + 1
			if lim > at {
				at += rng.Intn(lim - at + 1)
			}
			s = append(s, item{})
			copy(s[at+1:], s[at:])
			s[at] = it
		}
		// re-deliveries of identical messages
		for k := 0; k < 1+rng.Intn(3); k++ {
			kind := kinds[rng.Intn(len(kinds))]
			p := pick(others)
			if p == slow && kind == castKind {
				continue
			}
			at := indexOf(s, kind, p)
			insertBeforeLimit(at, item{kind: kind, from: p, variant: "g"})
		}
		if slow >= 0 && len(others) > 1 { // a duplicate cast right before the slow peer's cast
			p := pick(others)
			for p == slow {
				p = pick(others)
			}
			lim := limit()
			s = append(s, item{})
			copy(s[lim+1:], s[lim:])
			s[lim] = item{kind: castKind, from: p, variant: "g"}
			if rng.Chance(1, 2) {
				s = append(s, item{})
				copy(s[lim+1:], s[lim:])
				s[lim] = item{kind: castKind, from: p, variant: "g"}
			}
		}
		// non-member senders, any content
		for k := 0; k < rng.Intn(3); k++ {
			kind := kinds[rng.Intn(len(kinds))]
			v := "g"
			if rng.Chance(1, 2) {
				v = pick2(rng, badVariants(kind))
			}
			insertBeforeLimit(-1, item{kind: kind, from: n + 1 + rng.Intn(2), variant: v})
		}
		// forged share messages of members: refused whenever they arrive
		for _, kind := range kinds {
			if kind != "p" {
				continue
			}
			for k := 0; k < rng.Intn(3); k++ {
				insertBeforeLimit(-1, item{kind: "p", from: pick(others), variant: pick2(rng, badVariants("p"))})
			}
		}
		// malformed broadcast of a member after its genuine one: dropped as a duplicate
		if rng.Chance(1, 2) {
			p := pick(others)
			if !(p == slow) {
				at := indexOf(s, castKind, p)
				insertBeforeLimit(at, item{kind: castKind, from: p, variant: pick2(rng, badVariants(castKind))})
			}
		}
		// late re-deliveries after everything arrived
		for k := 0; k < rng.Intn(3); k++ {
			kind := kinds[rng.Intn(len(kinds))]
			s = append(s, item{kind: kind, from: pick(others), variant: "g"})
		}
		_ = insertAfter
		// overlapping deliveries: some genuine casts (first delivery or re-delivery) arrive twice at once
		for i := range s {
			if s[i].kind == castKind && s[i].variant == "g" && s[i].from != slow && s[i].from <= n && rng.Chance(1, 4) {
				s[i].variant = "race"
			}
		}
		return s
	}

	type shape struct{ n, t int }
	var shapes []shape
	for n := 3; n <= 5; n++ {
		for t := 2; t <= n; t++ {
			shapes = append(shapes, shape{n, t})
		}
	}
	popcount := func(m int) int {
		c := 0
		for ; m != 0; m &= m - 1 {
			c++
		}
		return c
	}
	for run.NOps < a.N && !run.Enough() {
		if rng.Chance(2, 5) {
			// ---- callback-only episode: arbitrary sequences, including what an honest run never sees
			n := 3 + rng.Intn(3)
			t := 2 + rng.Intn(n-1)
			nv := 1 + rng.Intn(3)
			curNV = nv
			self := 1 + rng.Intn(n)
			exec(fmt.Sprintf("cb %d %d %d %d", n, t, nv, self))
			kinds := []string{"c1", "p", "c2"}
			for k := 0; k < 30+rng.Intn(30); k++ {
				kind := kinds[rng.Intn(3)]
				from := 1 + rng.Intn(n)
				if rng.Chance(1, 6) {
					from = n + 1 + rng.Intn(2)
				}
				v := "g"
				if rng.Chance(2, 5) {
					v = pick2(rng, append(badVariants(kind), "fv"))
				}
				if kind != "p" && from >= 1 && from <= n && rng.Chance(1, 8) {
					exec(fmt.Sprintf("race %d %s %d", self, kind, from))
					continue
				}
				exec(fmt.Sprintf("d %d %s %d %s", self, kind, from, v))
			}
			continue
		}
		sh := shapes[rng.Intn(len(shapes))]
		n, t := sh.n, sh.t
		nv := 1 + rng.Intn(3)
		curNV = nv
		exec(fmt.Sprintf("p2pcer %d %d %d %d", n, t, nv, rng.U64()%1000000))
		if cer == nil {
			continue
		}
		scripts := map[int][]item{}
		total := 0
		for j := 1; j <= n; j++ {
			r1 := roundScript(n, j, []string{"c1", "p"})
			r2 := roundScript(n, j, []string{"c2"})
			if rng.Chance(1, 3) && len(r1) > 2 { // a round-2 cast that overtakes the end of round 1
				at := len(r1) - 1 - rng.Intn(2)
				e := r2[0]
				e.early = true
				r2 = r2[1:]
				r1 = append(r1[:at], append([]item{e}, r1[at:]...)...)
			}
			scripts[j] = append(r1, r2...)
			total += len(scripts[j])
		}
		avail := func(j int, it item) bool {
			if it.kind != "c2" {
				return true
			}
			cer.pool.mu.Lock()
			defer cer.pool.mu.Unlock()
			src := it.from
			if src < 1 || src > n {
				src = j%n + 1
			}
			if it.early {
				return cer.pool.r2[src] != nil
			}
			return len(cer.pool.r2) == n
		}
		stalled := false
		for total > 0 && !stalled {
			progressed := false
			for _, jj := range rng.Perm(n) {
				j := jj + 1
				s := scripts[j]
				idx := -1
				for i, it := range s {
					if avail(j, it) {
						idx = i
						break
					}
				}
				if idx < 0 {
					continue
				}
				it := s[idx]
				scripts[j] = append(append([]item{}, s[:idx]...), s[idx+1:]...)
				total--
				if it.variant == "race" {
					exec(fmt.Sprintf("race %d %s %d", j, it.kind, it.from))
				} else {
					exec(fmt.Sprintf("d %d %s %d %s", j, it.kind, it.from, it.variant))
				}
				progressed = true
				break
			}
			if !progressed {
				deadline := time.Now().Add(30 * time.Second)
				for {
					any := false
					for j := 1; j <= n && !any; j++ {
						for _, it := range scripts[j] {
							if avail(j, it) {
								any = true
								break
							}
						}
					}
					if any {
						break
					}
					failed := false
					cer.mu.Lock()
					for _, r := range cer.tp.nodes {
						if r.err != nil {
							failed = true
						}
					}
					cer.mu.Unlock()
					if failed || time.Now().After(deadline) {
						stalled = true
						break
					}
					select {
					case <-cer.pool.ev:
					case <-time.After(20 * time.Millisecond):
					}
				}
			}
		}
		exec("fin")
		if !cer.ok {
			continue
		}
		for v := 0; v < nv; v++ {
			exec(fmt.Sprintf("val %d", v))
			full := 1<<n - 1
			msg := make([]byte, 1+rng.Intn(32))
			for i := range msg {
				msg[i] = byte(rng.U64())
			}
			for m := 1; m <= full; m++ {
				if popcount(m) < t || (popcount(m) > t && m != full && !rng.Chance(1, 3)) {
					continue
				}
				var ids []int
				for i := 0; i < n; i++ {
					if m&(1<<i) != 0 {
						ids = append(ids, i+1)
					}
				}
				exec(fmt.Sprintf("rec %d %s", v, idsStr(ids)))
				exec(fmt.Sprintf("sig %d %s %s", v, idsStr(ids), hexOf(msg)))
			}
		}
	}
	cer.close()
}

func pick2(rng *hx.Rng, xs []string) string { return xs[rng.Intn(len(xs))] }
