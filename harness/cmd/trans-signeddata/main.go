// trans-signeddata: translator T-signeddata for C14 (consequences for C09/C10); go/ast + go/types via
// go/packages; fails closed on any statement shape it does not understand.
//
// Type-checks package core of the repo at -repo (plus eth2util and go-eth2-client/spec, whose methods
// some accessors delegate to) and, for EVERY named type that implements core.SignedData, interprets the
// bodies of Signature(), SetSignature(), MessageRoot(), Clone()/clone(), MarshalJSON() and UnmarshalJSON()
// with one small walker (guards, `switch x.Version`, `if x.Blinded`), and emits one row per
// (type, fork version[, blinded]) into lean/CharonV/Generated/SignedData.lean:
//
//	getSig    field path (embedded promotions made explicit) Signature() reads
//	setSig    field path SetSignature() writes
//	setOn     clone | receiver | param | mixed: which object is written and returned
//	rootKind  htr | htrWith | composite | func (a charon function of fields; its text is pinned) | field | unsupported
//	rootPaths the field paths MessageRoot() hashes
//	cloneKind ssz | json | bytescopy | structcopy
//	jsonEnc   the field MarshalJSON serialises for that version; jsonDec the field UnmarshalJSON fills
//
// and one row (type, cloneKind) per implementation of core.UnsignedData, plus the normalised text of
// the helper functions every row relies on (cloneSSZMarshaler, cloneJSONMarshaler, SigFromETH2,
// Signature.ToETH2, and the charon-side hashers reached by MessageRoot).
package main

import (
	"bytes"
	"flag"
	"fmt"
	"go/ast"
	"go/printer"
	"go/token"
	"go/types"
	"os"
	"sort"
	"strings"

	"golang.org/x/tools/go/packages"
)

func fail(f string, a ...any) {
	fmt.Fprintf(os.Stderr, "trans-signeddata: "+f+"\n", a...)
	os.Exit(1)
}

const (
	corePath = "github.com/obolnetwork/charon/core"
	modPath  = "github.com/obolnetwork/charon/"
)

// pkgCtx is one source-checked package.
type pkgCtx struct {
	pk    *packages.Package
	decls map[string]*ast.FuncDecl // "Recv.Name" or "Name"
}

var pkgs = map[string]*pkgCtx{}

func str(fset *token.FileSet, n ast.Node) string {
	var b bytes.Buffer
	_ = printer.Fprint(&b, fset, n)
	return strings.Join(strings.Fields(b.String()), " ")
}

func (c *pkgCtx) s(n ast.Node) string { return str(c.pk.Fset, n) }

func recvName(fd *ast.FuncDecl) string {
	t := fd.Recv.List[0].Type
	if st, ok := t.(*ast.StarExpr); ok {
		t = st.X
	}
	if id, ok := t.(*ast.Ident); ok {
		return id.Name
	}
	return ""
}

func index(pk *packages.Package) *pkgCtx {
	c := &pkgCtx{pk: pk, decls: map[string]*ast.FuncDecl{}}
	for _, f := range pk.Syntax {
		if strings.HasSuffix(pk.Fset.Position(f.Pos()).Filename, "_test.go") {
			continue
		}
		for _, d := range f.Decls {
			fd, ok := d.(*ast.FuncDecl)
			if !ok || fd.Body == nil {
				continue
			}
			if fd.Recv == nil {
				c.decls[fd.Name.Name] = fd
			} else if len(fd.Recv.List) == 1 {
				c.decls[recvName(fd)+"."+fd.Name.Name] = fd
			}
		}
	}
	return c
}

// recvObj is the receiver variable of a method declaration (nil when unnamed).
func (c *pkgCtx) recvObj(fd *ast.FuncDecl) types.Object {
	if fd.Recv == nil || len(fd.Recv.List[0].Names) == 0 {
		return nil
	}
	return c.pk.TypesInfo.Defs[fd.Recv.List[0].Names[0]]
}

func (c *pkgCtx) obj(id *ast.Ident) types.Object {
	if o := c.pk.TypesInfo.Uses[id]; o != nil {
		return o
	}
	return c.pk.TypesInfo.Defs[id]
}

func deref(t types.Type) types.Type {
	if p, ok := t.Underlying().(*types.Pointer); ok {
		return p.Elem()
	}
	return t
}

// implicit walks the index path of a selection and returns the names of the fields it goes through
// (all of them for a field selection, all but the method for a method selection) and the type reached.
func implicit(sel *types.Selection) ([]string, types.Type) {
	t := sel.Recv()
	idx := sel.Index()
	n := len(idx)
	if sel.Kind() != types.FieldVal {
		n--
	}
	var names []string
	for i := 0; i < n; i++ {
		st, ok := deref(t).Underlying().(*types.Struct)
		if !ok {
			fail("selection through a non-struct %s", t)
		}
		f := st.Field(idx[i])
		names = append(names, f.Name())
		t = f.Type()
	}
	return names, t
}

// path resolves a chain of field selections x.A.B to (object of x, [A B]) with promoted fields explicit.
func (c *pkgCtx) path(e ast.Expr) (types.Object, []string, bool) {
	switch x := e.(type) {
	case *ast.Ident:
		o := c.obj(x)
		if _, isVar := o.(*types.Var); !isVar {
			return nil, nil, false
		}
		return o, nil, true
	case *ast.ParenExpr:
		return c.path(x.X)
	case *ast.StarExpr:
		return c.path(x.X)
	case *ast.SelectorExpr:
		base, names, ok := c.path(x.X)
		if !ok {
			return nil, nil, false
		}
		sel := c.pk.TypesInfo.Selections[x]
		if sel == nil || sel.Kind() != types.FieldVal {
			return nil, nil, false
		}
		more, _ := implicit(sel)
		return base, append(append([]string{}, names...), more...), true
	}
	return nil, nil, false
}

// methodCall: e is a call x.A.B.M(args) of a method; returns base object, field path up to the method's
// receiver (promotions explicit), the method and the arguments.
func (c *pkgCtx) methodCall(e ast.Expr) (types.Object, []string, *types.Func, []ast.Expr, bool) {
	call, ok := e.(*ast.CallExpr)
	if !ok {
		return nil, nil, nil, nil, false
	}
	se, ok := call.Fun.(*ast.SelectorExpr)
	if !ok {
		return nil, nil, nil, nil, false
	}
	sel := c.pk.TypesInfo.Selections[se]
	if sel == nil || sel.Kind() != types.MethodVal {
		return nil, nil, nil, nil, false
	}
	base, names, ok := c.path(se.X)
	if !ok {
		return nil, nil, nil, nil, false
	}
	more, _ := implicit(sel)
	return base, append(append([]string{}, names...), more...), sel.Obj().(*types.Func), call.Args, true
}

// funcCall: e is a call of a package-level function; returns its object and arguments.
func (c *pkgCtx) funcCall(e ast.Expr) (*types.Func, []ast.Expr, bool) {
	call, ok := e.(*ast.CallExpr)
	if !ok {
		return nil, nil, false
	}
	var id *ast.Ident
	switch f := call.Fun.(type) {
	case *ast.Ident:
		id = f
	case *ast.SelectorExpr:
		if c.pk.TypesInfo.Selections[f] != nil {
			return nil, nil, false
		}
		id = f.Sel
	default:
		return nil, nil, false
	}
	fn, ok := c.obj(id).(*types.Func)
	if !ok {
		return nil, nil, false
	}
	return fn, call.Args, true
}

func methodRecvNamed(fn *types.Func) *types.Named {
	sig := fn.Type().(*types.Signature)
	if sig.Recv() == nil {
		return nil
	}
	n, _ := deref(sig.Recv().Type()).(*types.Named)
	return n
}

// declOf finds the source of a method in one of the source-checked packages (by package path, receiver
// type name and method name; nil when the package was not loaded from source).
func declOf(fn *types.Func) (*pkgCtx, *ast.FuncDecl) {
	if fn.Pkg() == nil {
		return nil, nil
	}
	c := pkgs[fn.Pkg().Path()]
	if c == nil {
		return nil, nil
	}
	key := fn.Name()
	if n := methodRecvNamed(fn); n != nil {
		key = n.Obj().Name() + "." + fn.Name()
	}
	return c, c.decls[key]
}

// ---- the walker --------------------------------------------------------------------------------

type leafFn func(variant string, st ast.Stmt)

func isNilIdent(e ast.Expr) bool { id, ok := e.(*ast.Ident); return ok && id.Name == "nil" }

func (c *pkgCtx) isBlinded(e ast.Expr) bool {
	se, ok := e.(*ast.SelectorExpr)
	return ok && se.Sel.Name == "Blinded" && c.pk.TypesInfo.Selections[se] != nil
}

// isGuard: `x == nil`, `err != nil`, `!ok`, `x.IsEmpty()`.
func (c *pkgCtx) isGuard(e ast.Expr) bool {
	switch x := e.(type) {
	case *ast.BinaryExpr:
		return (x.Op == token.EQL || x.Op == token.NEQ) && isNilIdent(x.Y)
	case *ast.UnaryExpr:
		_, ok := x.X.(*ast.Ident)
		return x.Op == token.NOT && ok
	case *ast.CallExpr:
		se, ok := x.Fun.(*ast.SelectorExpr)
		return ok && se.Sel.Name == "IsEmpty" && len(x.Args) == 0
	}
	return false
}

func isPanic(st ast.Stmt) bool {
	es, ok := st.(*ast.ExprStmt)
	if !ok {
		return false
	}
	call, ok := es.X.(*ast.CallExpr)
	if !ok {
		return false
	}
	id, ok := call.Fun.(*ast.Ident)
	return ok && id.Name == "panic"
}

// terminates: the list is [log calls…] then a return or a panic.
func terminates(list []ast.Stmt) bool {
	if len(list) == 0 {
		return false
	}
	for _, st := range list[:len(list)-1] {
		es, ok := st.(*ast.ExprStmt)
		if !ok {
			return false
		}
		call, ok := es.X.(*ast.CallExpr)
		if !ok {
			return false
		}
		se, ok := call.Fun.(*ast.SelectorExpr)
		if !ok {
			return false
		}
		if id, ok := se.X.(*ast.Ident); !ok || id.Name != "log" {
			return false
		}
	}
	last := list[len(list)-1]
	_, isRet := last.(*ast.ReturnStmt)
	return isRet || isPanic(last)
}

func versionName(where string, e ast.Expr) string {
	var n string
	switch x := e.(type) {
	case *ast.SelectorExpr:
		n = x.Sel.Name
	case *ast.Ident:
		n = x.Name
	default:
		fail("%s: case label not understood", where)
	}
	for _, p := range []string{"DataVersion", "BuilderVersion"} {
		if strings.HasPrefix(n, p) && len(n) > len(p) {
			return strings.ToLower(n[len(p):])
		}
	}
	fail("%s: case label %s is not a version constant", where, n)
	return ""
}

// walk interprets a statement list. guardLeaf (may be nil) sees the Init statement of guards
// (`if err := f(...); err != nil`).
func (c *pkgCtx) walk(where string, list []ast.Stmt, variant string, leaf leafFn) {
	for i := 0; i < len(list); i++ {
		switch st := list[i].(type) {
		case *ast.IfStmt:
			switch {
			case st.Init == nil && c.isBlinded(st.Cond):
				if strings.Contains(variant, "+blinded") {
					fail("%s: nested blinded test", where)
				}
				c.walk(where, st.Body.List, variant+"+blinded", leaf)
				switch el := st.Else.(type) {
				case nil:
					if !terminates(st.Body.List) {
						fail("%s: blinded branch without else does not return", where)
					}
					c.walk(where, list[i+1:], variant, leaf)
					return
				case *ast.BlockStmt:
					c.walk(where, el.List, variant, leaf)
					if i != len(list)-1 {
						fail("%s: statements after a blinded if/else", where)
					}
				default:
					fail("%s: else-if after blinded test", where)
				}
			case c.isGuard(st.Cond) && st.Else == nil && terminates(st.Body.List):
				if st.Init != nil {
					leaf(variant, st.Init)
				}
			default:
				fail("%s: if statement not understood: %s", where, c.s(st.Cond))
			}
		case *ast.SwitchStmt:
			tag, ok := st.Tag.(*ast.SelectorExpr)
			if !ok || tag.Sel.Name != "Version" || st.Init != nil {
				fail("%s: switch not on a Version field", where)
			}
			if variant != "" {
				fail("%s: nested version switch", where)
			}
			for _, cl := range st.Body.List {
				cc := cl.(*ast.CaseClause)
				if cc.List == nil {
					if !terminates(cc.Body) {
						fail("%s: default branch does not return an error or panic", where)
					}
					continue
				}
				if len(cc.List) != 1 {
					fail("%s: case with several labels", where)
				}
				c.walk(where, cc.Body, versionName(where, cc.List[0]), leaf)
			}
		case *ast.EmptyStmt:
		default:
			leaf(variant, st)
		}
	}
}

// ---- per-method interpretation -----------------------------------------------------------------

// pathsByVariant: a value that is a field path of the receiver, possibly different per version.
type pathsByVariant map[string][]string

// delegate interprets a library/eth2util accessor `func (v *T) M() (X, error)` whose leaves are
// `return v.<path>, nil`, and returns the per-version path prefixed by `prefix`.
func delegate(where string, fn *types.Func, prefix []string) pathsByVariant {
	c, fd := declOf(fn)
	if fd == nil {
		fail("%s: source of %s not available", where, fn.FullName())
	}
	recv := c.recvObj(fd)
	out := pathsByVariant{}
	w := where + " -> " + fn.FullName()
	c.walk(w, fd.Body.List, "", func(variant string, st ast.Stmt) {
		ret, ok := st.(*ast.ReturnStmt)
		if !ok || len(ret.Results) != 2 || !isNilIdent(ret.Results[1]) {
			fail("%s: statement not understood: %s", w, c.s(st))
		}
		base, p, ok := c.path(ret.Results[0])
		if !ok || base != recv {
			fail("%s: returns %s, not a field of the receiver", w, c.s(ret.Results[0]))
		}
		if _, dup := out[variant]; dup {
			fail("%s: two results for version %q", w, variant)
		}
		out[variant] = append(append([]string{}, prefix...), p...)
	})
	if len(out) == 0 {
		fail("%s: no result", w)
	}
	return out
}

type methodInfo struct {
	variants map[string]bool
}

type typeInfo struct {
	name      string
	getSig    pathsByVariant
	bareGet   bool // Signature() returns the receiver itself
	setSig    pathsByVariant
	setBase   map[string]string // per variant: clone | receiver
	setRet    string            // clone | receiver | param
	rootKind  map[string]string
	rootPaths map[string][][]string
	cloneKind string
	jsonEnc   pathsByVariant
	jsonDec   pathsByVariant
}

var pinned = map[string]string{} // helper name -> normalised text

func pin(c *pkgCtx, key string) {
	fd := c.decls[key]
	if fd == nil {
		fail("helper %s not found in %s", key, c.pk.PkgPath)
	}
	name := c.pk.Name + "." + key
	pinned[name] = c.s(fd.Body)
}

func mustDecl(c *pkgCtx, typ, m string) *ast.FuncDecl {
	fd := c.decls[typ+"."+m]
	if fd == nil {
		fail("%s.%s: not declared in package core", typ, m)
	}
	return fd
}

func setOnce(where string, m pathsByVariant, v string, p []string) {
	if _, dup := m[v]; dup {
		fail("%s: two results for version %q", where, v)
	}
	m[v] = p
}

// expand: a result recorded under variant "" while the method has per-version delegates.
func isSigFromETH2(c *pkgCtx, e ast.Expr) (ast.Expr, bool) {
	fn, args, ok := c.funcCall(e)
	if !ok || fn.Name() != "SigFromETH2" || fn.Pkg().Path() != corePath || len(args) != 1 {
		return nil, false
	}
	return args[0], true
}

func (t *typeInfo) doSignature(c *pkgCtx) {
	fd := mustDecl(c, t.name, "Signature")
	where := t.name + ".Signature"
	recv := c.recvObj(fd)
	local := map[types.Object]pathsByVariant{}
	t.getSig = pathsByVariant{}
	c.walk(where, fd.Body.List, "", func(variant string, st ast.Stmt) {
		switch s := st.(type) {
		case *ast.ReturnStmt:
			if len(s.Results) != 1 {
				break
			}
			if id, ok := s.Results[0].(*ast.Ident); ok && recv != nil && c.obj(id) == recv {
				t.bareGet = true
				setOnce(where, t.getSig, variant, []string{})
				return
			}
			arg, ok := isSigFromETH2(c, s.Results[0])
			if !ok {
				break
			}
			if id, ok := arg.(*ast.Ident); ok {
				if d, ok := local[c.obj(id)]; ok && variant == "" {
					for v, p := range d {
						setOnce(where, t.getSig, v, p)
					}
					return
				}
			}
			base, p, ok := c.path(arg)
			if !ok || base != recv {
				break
			}
			setOnce(where, t.getSig, variant, p)
			return
		case *ast.AssignStmt:
			// sig, err := a.X.Signature()   (delegation to the wrapped library type)
			if s.Tok == token.DEFINE && len(s.Lhs) == 2 && len(s.Rhs) == 1 && variant == "" {
				base, p, fn, args, ok := c.methodCall(s.Rhs[0])
				if ok && base == recv && len(args) == 0 && fn.Pkg().Path() != corePath {
					local[c.pk.TypesInfo.Defs[s.Lhs[0].(*ast.Ident)]] = delegate(where, fn, p)
					return
				}
			}
		}
		fail("%s: statement not understood: %s", where, c.s(st))
	})
}

func (t *typeInfo) doSetSignature(c *pkgCtx) {
	fd := mustDecl(c, t.name, "SetSignature")
	where := t.name + ".SetSignature"
	recv := c.recvObj(fd)
	if len(fd.Type.Params.List) != 1 || len(fd.Type.Params.List[0].Names) != 1 {
		fail("%s: parameters not understood", where)
	}
	param := c.pk.TypesInfo.Defs[fd.Type.Params.List[0].Names[0]]
	var cloneVar types.Object
	t.setSig = pathsByVariant{}
	t.setBase = map[string]string{}
	c.walk(where, fd.Body.List, "", func(variant string, st ast.Stmt) {
		switch s := st.(type) {
		case *ast.AssignStmt:
			if s.Tok == token.DEFINE && len(s.Lhs) == 2 && len(s.Rhs) == 1 && variant == "" {
				base, p, fn, args, ok := c.methodCall(s.Rhs[0])
				if ok && recv != nil && base == recv && len(p) == 0 && len(args) == 0 && fn.Pkg().Path() == corePath &&
					(fn.Name() == "clone" || fn.Name() == "Clone") && cloneVar == nil {
					cloneVar = c.pk.TypesInfo.Defs[s.Lhs[0].(*ast.Ident)]
					return
				}
			}
			if s.Tok == token.ASSIGN && len(s.Lhs) == 1 && len(s.Rhs) == 1 {
				b, p, fn, args, ok := c.methodCall(s.Rhs[0])
				if !ok || b != param || len(p) != 0 || fn.Name() != "ToETH2" || len(args) != 0 {
					break
				}
				base, lp, ok := c.path(s.Lhs[0])
				if !ok || len(lp) == 0 {
					break
				}
				switch {
				case cloneVar != nil && base == cloneVar:
					t.setBase[variant] = "clone"
				case recv != nil && base == recv:
					t.setBase[variant] = "receiver"
				default:
					fail("%s: writes into %s, neither the clone nor the receiver", where, c.s(s.Lhs[0]))
				}
				setOnce(where, t.setSig, variant, lp)
				return
			}
		case *ast.ReturnStmt:
			if len(s.Results) == 2 && isNilIdent(s.Results[1]) && variant == "" && t.setRet == "" {
				if id, ok := s.Results[0].(*ast.Ident); ok {
					switch o := c.obj(id); {
					case o == param:
						t.setRet = "param"
						return
					case cloneVar != nil && o == cloneVar:
						t.setRet = "clone"
						return
					case recv != nil && o == recv:
						t.setRet = "receiver"
						return
					}
				}
			}
		}
		fail("%s: statement not understood: %s", where, c.s(st))
	})
	if t.setRet == "" {
		fail("%s: no result", where)
	}
}

// hashWithFields: the fields of the receiver a charon-side HashTreeRootWith reads.
func hashWithFields(where string, named *types.Named) [][]string {
	c := pkgs[named.Obj().Pkg().Path()]
	if c == nil {
		fail("%s: package %s not loaded", where, named.Obj().Pkg().Path())
	}
	tn := named.Obj().Name()
	h := c.decls[tn+".HashTreeRoot"]
	hw := c.decls[tn+".HashTreeRootWith"]
	if h == nil || hw == nil {
		fail("%s: %s.HashTreeRoot / HashTreeRootWith not found", where, tn)
	}
	// HashTreeRoot must be `return ssz.HashWithDefaultHasher(recv)`
	okShape := false
	if len(h.Body.List) == 1 {
		if ret, ok := h.Body.List[0].(*ast.ReturnStmt); ok && len(ret.Results) == 1 {
			if fn, args, ok := c.funcCall(ret.Results[0]); ok && fn.Name() == "HashWithDefaultHasher" && len(args) == 1 {
				if id, ok := args[0].(*ast.Ident); ok && c.obj(id) == c.recvObj(h) {
					okShape = true
				}
			}
		}
	}
	if !okShape {
		fail("%s: %s.HashTreeRoot is not ssz.HashWithDefaultHasher(receiver)", where, tn)
	}
	pin(c, tn+".HashTreeRootWith")
	recv := c.recvObj(hw)
	seen := map[string]bool{}
	var out [][]string
	ast.Inspect(hw.Body, func(n ast.Node) bool {
		se, ok := n.(*ast.SelectorExpr)
		if !ok {
			return true
		}
		base, p, ok := c.path(se)
		if ok && base == recv && len(p) > 0 {
			if k := strings.Join(p, "."); !seen[k] {
				seen[k] = true
				out = append(out, p)
			}
			return false
		}
		return true
	})
	// any other use of the receiver (passing it whole) is not understood
	uses := 0
	ast.Inspect(hw.Body, func(n ast.Node) bool {
		if id, ok := n.(*ast.Ident); ok && c.pk.TypesInfo.Uses[id] == recv {
			uses++
		}
		return true
	})
	sels := 0
	ast.Inspect(hw.Body, func(n ast.Node) bool {
		if se, ok := n.(*ast.SelectorExpr); ok {
			if base, p, ok := c.path(se); ok && base == recv && len(p) > 0 {
				sels++
				return false
			}
		}
		return true
	})
	if uses != sels || len(out) == 0 {
		fail("%s: %s.HashTreeRootWith uses the receiver other than through field reads", where, tn)
	}
	return out
}

func (t *typeInfo) doMessageRoot(c *pkgCtx) {
	fd := mustDecl(c, t.name, "MessageRoot")
	where := t.name + ".MessageRoot"
	recv := c.recvObj(fd)
	localDel := map[types.Object]pathsByVariant{}
	localLit := map[types.Object][][]string{}
	t.rootKind = map[string]string{}
	t.rootPaths = map[string][][]string{}
	set := func(v, kind string, paths [][]string) {
		if _, dup := t.rootKind[v]; dup {
			fail("%s: two results for version %q", where, v)
		}
		t.rootKind[v] = kind
		t.rootPaths[v] = paths
	}
	c.walk(where, fd.Body.List, "", func(variant string, st ast.Stmt) {
		switch s := st.(type) {
		case *ast.ReturnStmt:
			if len(s.Results) == 2 { // value, error
				if _, isLit := s.Results[0].(*ast.CompositeLit); isLit && !isNilIdent(s.Results[1]) && variant == "" {
					set(variant, "unsupported", nil)
					return
				}
				if isNilIdent(s.Results[1]) {
					if base, p, ok := c.path(s.Results[0]); ok && recv != nil && base == recv && len(p) > 0 {
						set(variant, "field", [][]string{p})
						return
					}
				}
				break
			}
			if len(s.Results) != 1 {
				break
			}
			if base, p, fn, args, ok := c.methodCall(s.Results[0]); ok && fn.Name() == "HashTreeRoot" && len(args) == 0 {
				if base == recv {
					named := methodRecvNamed(fn)
					if named != nil && named.Obj().Pkg() != nil && strings.HasPrefix(named.Obj().Pkg().Path()+"/", modPath) {
						// a charon-side hasher: which fields does it hash?
						var paths [][]string
						for _, f := range hashWithFields(where, named) {
							paths = append(paths, append(append([]string{}, p...), f...))
						}
						set(variant, "htrWith", paths)
						return
					}
					if len(p) == 0 {
						break
					}
					set(variant, "htr", [][]string{p})
					return
				}
				if len(p) == 0 && variant == "" {
					if d, ok := localDel[base]; ok {
						for v, dp := range d {
							set(v, "htr", [][]string{dp})
						}
						return
					}
					if l, ok := localLit[base]; ok {
						set(variant, "composite", l)
						return
					}
				}
				break
			}
			if fn, args, ok := c.funcCall(s.Results[0]); ok && fn.Pkg() != nil && strings.HasPrefix(fn.Pkg().Path()+"/", modPath) && len(args) > 0 {
				var paths [][]string
				for _, a := range args {
					base, p, ok := c.path(a)
					if !ok || base != recv || len(p) == 0 {
						fail("%s: argument %s of %s is not a field of the receiver", where, c.s(a), fn.Name())
					}
					paths = append(paths, p)
				}
				fc, ffd := declOf(fn)
				if ffd == nil {
					fail("%s: source of %s not available", where, fn.FullName())
				}
				pin(fc, fn.Name())
				set(variant, "func", paths)
				return
			}
		case *ast.AssignStmt:
			if s.Tok != token.DEFINE || len(s.Rhs) != 1 || variant != "" {
				break
			}
			if len(s.Lhs) == 2 { // data, err := a.Data()
				base, p, fn, args, ok := c.methodCall(s.Rhs[0])
				if ok && base == recv && len(args) == 0 && fn.Pkg().Path() != corePath {
					localDel[c.pk.TypesInfo.Defs[s.Lhs[0].(*ast.Ident)]] = delegate(where, fn, p)
					return
				}
			}
			if lit, ok := s.Rhs[0].(*ast.CompositeLit); ok && len(s.Lhs) == 1 {
				var paths [][]string
				for _, el := range lit.Elts {
					kv, ok := el.(*ast.KeyValueExpr)
					if !ok {
						fail("%s: composite literal without keys", where)
					}
					base, p, ok := c.path(kv.Value)
					if !ok || base != recv || len(p) == 0 {
						fail("%s: literal field %s is not a field of the receiver", where, c.s(kv.Value))
					}
					paths = append(paths, p)
				}
				if len(paths) == 0 {
					break
				}
				localLit[c.pk.TypesInfo.Defs[s.Lhs[0].(*ast.Ident)]] = paths
				return
			}
		}
		fail("%s: statement not understood: %s", where, c.s(st))
	})
}

// cloneBody classifies the statements of a clone()/Clone() body.
func cloneBody(c *pkgCtx, where string, fd *ast.FuncDecl, depth int) string {
	recv := c.recvObj(fd)
	var respVar types.Object
	kind, returned, loopClone := "", "", false
	for _, st := range fd.Body.List {
		switch s := st.(type) {
		case *ast.DeclStmt: // var resp T
			gd, ok := s.Decl.(*ast.GenDecl)
			if !ok || gd.Tok != token.VAR || len(gd.Specs) != 1 || respVar != nil {
				fail("%s: declaration not understood", where)
			}
			vs := gd.Specs[0].(*ast.ValueSpec)
			if len(vs.Names) != 1 || len(vs.Values) != 0 {
				fail("%s: declaration not understood", where)
			}
			respVar = c.pk.TypesInfo.Defs[vs.Names[0]]
		case *ast.AssignStmt:
			if s.Tok == token.DEFINE && len(s.Lhs) == 1 && len(s.Rhs) == 1 {
				if fn, args, ok := c.funcCall(s.Rhs[0]); ok && fn.Pkg() != nil && fn.Pkg().Path() == corePath &&
					(fn.Name() == "cloneSSZMarshaler" || fn.Name() == "cloneJSONMarshaler") && len(args) == 2 && kind == "" {
					a0, ok0 := args[0].(*ast.Ident)
					a1, ok1 := args[1].(*ast.UnaryExpr)
					if ok0 && ok1 && a1.Op == token.AND && recv != nil && c.obj(a0) == recv {
						if id, ok := a1.X.(*ast.Ident); ok && respVar != nil && c.obj(id) == respVar {
							kind = map[string]string{"cloneSSZMarshaler": "ssz", "cloneJSONMarshaler": "json"}[fn.Name()]
							continue
						}
					}
				}
				// resp := make(T, len(s)) / make(T, 0, len(s))
				if call, ok := s.Rhs[0].(*ast.CallExpr); ok {
					if id, ok := call.Fun.(*ast.Ident); ok && id.Name == "make" && respVar == nil {
						respVar = c.pk.TypesInfo.Defs[s.Lhs[0].(*ast.Ident)]
						continue
					}
				}
			}
			fail("%s: statement not understood: %s", where, c.s(st))
		case *ast.ExprStmt: // copy(resp, s)
			if call, ok := s.X.(*ast.CallExpr); ok && len(call.Args) == 2 {
				if id, ok := call.Fun.(*ast.Ident); ok && id.Name == "copy" {
					d, ok0 := call.Args[0].(*ast.Ident)
					sr, ok1 := call.Args[1].(*ast.Ident)
					if ok0 && ok1 && respVar != nil && c.obj(d) == respVar && c.obj(sr) == recv && kind == "" {
						if b, ok := recv.Type().Underlying().(*types.Slice); ok {
							if bt, ok := b.Elem().Underlying().(*types.Basic); ok && bt.Kind() == types.Byte {
								kind = "bytescopy"
								continue
							}
						}
					}
				}
			}
			fail("%s: statement not understood: %s", where, c.s(st))
		case *ast.RangeStmt: // for _, e := range recv { c, err := e.Clone(); …; resp = append(resp, c') }
			if id, ok := s.X.(*ast.Ident); !ok || c.obj(id) != recv || s.Value == nil {
				fail("%s: range not over the receiver", where)
			}
			elem := c.pk.TypesInfo.Defs[s.Value.(*ast.Ident)]
			calls, appends := false, false
			ast.Inspect(s.Body, func(n ast.Node) bool {
				if call, ok := n.(*ast.CallExpr); ok {
					if b, p, fn, _, ok := c.methodCall(call); ok && b == elem && len(p) == 0 && fn.Name() == "Clone" {
						calls = true
					}
					if id, ok := call.Fun.(*ast.Ident); ok && id.Name == "append" && len(call.Args) == 2 {
						if d, ok := call.Args[0].(*ast.Ident); ok && respVar != nil && c.obj(d) == respVar {
							if a, ok := call.Args[1].(*ast.Ident); ok && c.obj(a) != elem {
								appends = true
							}
						}
					}
				}
				return true
			})
			if !calls || !appends {
				fail("%s: range body not understood", where)
			}
			loopClone = true
		case *ast.IfStmt:
			if !(c.isGuard(s.Cond) && s.Else == nil && s.Init == nil && terminates(s.Body.List)) {
				fail("%s: if statement not understood: %s", where, c.s(s.Cond))
			}
		case *ast.ReturnStmt:
			if len(s.Results) == 0 {
				fail("%s: bare return", where)
			}
			if len(s.Results) == 2 && !isNilIdent(s.Results[1]) {
				fail("%s: return not understood: %s", where, c.s(st))
			}
			r := s.Results[0]
			if id, ok := r.(*ast.Ident); ok {
				switch o := c.obj(id); {
				case respVar != nil && o == respVar:
					returned = "resp"
				case recv != nil && o == recv:
					returned = "receiver"
				default:
					fail("%s: returns %s", where, id.Name)
				}
				continue
			}
			// return x.clone() / return x.clone(), nil
			if b, p, fn, args, ok := c.methodCall(r); ok && b == recv && len(p) == 0 && len(args) == 0 && fn.Name() == "clone" && depth == 0 {
				cc, cfd := declOf(fn)
				if cfd == nil {
					fail("%s: clone not found", where)
				}
				return cloneBody(cc, where+" -> clone", cfd, 1)
			}
			fail("%s: return not understood: %s", where, c.s(st))
		default:
			fail("%s: statement not understood: %s", where, c.s(st))
		}
	}
	switch {
	case returned == "receiver":
		return "structcopy"
	case returned == "resp" && loopClone && kind == "":
		return "elementwise"
	case returned == "resp" && kind != "" && !loopClone:
		return kind
	}
	fail("%s: does not return a copy made by a clone helper", where)
	return ""
}

// doJSON: which field MarshalJSON serialises / UnmarshalJSON fills, per version.
func (t *typeInfo) doJSON(c *pkgCtx) {
	t.jsonEnc, t.jsonDec = pathsByVariant{}, pathsByVariant{}
	// MarshalJSON
	fd := mustDecl(c, t.name, "MarshalJSON")
	where := t.name + ".MarshalJSON"
	recv := c.recvObj(fd)
	var marshVar types.Object
	c.walk(where, fd.Body.List, "", func(variant string, st ast.Stmt) {
		switch s := st.(type) {
		case *ast.DeclStmt:
			if gd, ok := s.Decl.(*ast.GenDecl); ok && gd.Tok == token.VAR && len(gd.Specs) == 1 {
				if vs := gd.Specs[0].(*ast.ValueSpec); len(vs.Names) == 1 && vs.Names[0].Name == "marshaller" {
					marshVar = c.pk.TypesInfo.Defs[vs.Names[0]]
				}
			}
		case *ast.AssignStmt: // marshaller = p.X
			if s.Tok == token.ASSIGN && len(s.Lhs) == 1 && len(s.Rhs) == 1 {
				if id, ok := s.Lhs[0].(*ast.Ident); ok && marshVar != nil && c.obj(id) == marshVar {
					base, p, ok := c.path(s.Rhs[0])
					if !ok || base != recv || len(p) == 0 {
						fail("%s: marshaller = %s not understood", where, c.s(s.Rhs[0]))
					}
					setOnce(where, t.jsonEnc, variant, p)
				}
			}
		case *ast.ReturnStmt: // return s.X.MarshalJSON()
			if len(s.Results) == 1 && variant == "" {
				if base, p, fn, args, ok := c.methodCall(s.Results[0]); ok && base == recv && fn.Name() == "MarshalJSON" && len(args) == 0 && len(p) > 0 {
					setOnce(where, t.jsonEnc, variant, p)
				}
			}
		}
	})
	// UnmarshalJSON
	fd = mustDecl(c, t.name, "UnmarshalJSON")
	where = t.name + ".UnmarshalJSON"
	recv = c.recvObj(fd)
	var respVar types.Object
	var respInto []string
	newVars := map[types.Object]bool{}
	pend := pathsByVariant{}
	c.walk(where, fd.Body.List, "", func(variant string, st ast.Stmt) {
		switch s := st.(type) {
		case *ast.AssignStmt:
			if len(s.Lhs) != 1 || len(s.Rhs) != 1 {
				return
			}
			if s.Tok == token.DEFINE {
				id := s.Lhs[0].(*ast.Ident)
				if call, ok := s.Rhs[0].(*ast.CallExpr); ok {
					if f, ok := call.Fun.(*ast.Ident); ok && f.Name == "new" {
						newVars[c.pk.TypesInfo.Defs[id]] = true
						return
					}
				}
				if _, ok := s.Rhs[0].(*ast.CompositeLit); ok && variant == "" && id.Name == "resp" {
					respVar = c.pk.TypesInfo.Defs[id]
				}
				return
			}
			if s.Tok != token.ASSIGN {
				return
			}
			base, p, ok := c.path(s.Lhs[0])
			if !ok {
				return
			}
			if rid, ok := s.Rhs[0].(*ast.Ident); ok {
				ro := c.obj(rid)
				if respVar != nil && base == respVar && newVars[ro] && len(p) > 0 { // resp.X = block
					setOnce(where, pend, variant, p)
					return
				}
				if base == recv && respVar != nil && ro == respVar && variant == "" { // p.Embedded = resp
					respInto = p
				}
			}
		case *ast.ReturnStmt: // return s.X.UnmarshalJSON(b)
			if len(s.Results) == 1 && variant == "" {
				if base, p, fn, args, ok := c.methodCall(s.Results[0]); ok && base == recv && fn.Name() == "UnmarshalJSON" && len(args) == 1 && len(p) > 0 {
					setOnce(where, t.jsonDec, variant, p)
				}
			}
		}
	})
	for v, p := range pend {
		if respInto == nil {
			fail("%s: the decoded value is not stored into the receiver", where)
		}
		t.jsonDec[v] = append(append([]string{}, respInto...), p...)
	}
}

// ---- main ---------------------------------------------------------------------------------------

func lstr(p []string) string {
	q := make([]string, len(p))
	for i, s := range p {
		q[i] = fmt.Sprintf("%q", s)
	}
	return "[" + strings.Join(q, ", ") + "]"
}

func llstr(pp [][]string) string {
	q := make([]string, len(pp))
	for i, p := range pp {
		q[i] = lstr(p)
	}
	return "[" + strings.Join(q, ", ") + "]"
}

var versionRank = map[string]int{"": 0, "v1": 0, "phase0": 1, "altair": 2, "bellatrix": 3, "capella": 4, "deneb": 5, "electra": 6, "fulu": 7}

func sortedVariants(m map[string]bool) []string {
	var vs []string
	for v := range m {
		vs = append(vs, v)
	}
	rank := func(v string) int {
		b := strings.TrimSuffix(v, "+blinded")
		r, ok := versionRank[b]
		if !ok {
			fail("unknown version name %q", b)
		}
		r *= 2
		if b != v {
			r++
		}
		return r
	}
	sort.Slice(vs, func(i, j int) bool { return rank(vs[i]) < rank(vs[j]) })
	return vs
}

func implementers(pk *packages.Package, ifaceName string) []string {
	obj := pk.Types.Scope().Lookup(ifaceName)
	if obj == nil {
		fail("core.%s not found", ifaceName)
	}
	iface, ok := obj.Type().Underlying().(*types.Interface)
	if !ok {
		fail("core.%s is not an interface", ifaceName)
	}
	var out []string
	names := pk.Types.Scope().Names()
	sort.Strings(names)
	for _, n := range names {
		tn, ok := pk.Types.Scope().Lookup(n).(*types.TypeName)
		if !ok || tn.IsAlias() {
			continue
		}
		if _, isIface := tn.Type().Underlying().(*types.Interface); isIface {
			continue
		}
		if types.Implements(tn.Type(), iface) {
			out = append(out, n)
		} else if types.Implements(types.NewPointer(tn.Type()), iface) {
			fail("%s implements core.%s only through its pointer", n, ifaceName)
		}
	}
	if len(out) == 0 {
		fail("no implementation of core.%s found", ifaceName)
	}
	return out
}

func keys(m pathsByVariant) map[string]bool {
	o := map[string]bool{}
	for k := range m {
		o[k] = true
	}
	return o
}

func sameKeys(a, b map[string]bool) bool {
	if len(a) != len(b) {
		return false
	}
	for k := range a {
		if !b[k] {
			return false
		}
	}
	return true
}

func main() {
	repo := flag.String("repo", "/repo", "repository root")
	out := flag.String("out", "", "output .lean file")
	flag.Parse()
	if *out == "" {
		fail("-out required")
	}
	cfg := &packages.Config{Dir: *repo, Env: append(os.Environ(), "GOFLAGS=-mod=mod", "GOPROXY=off"),
		Mode: packages.NeedName | packages.NeedFiles | packages.NeedCompiledGoFiles | packages.NeedImports | packages.NeedTypes |
			packages.NeedTypesSizes | packages.NeedSyntax | packages.NeedTypesInfo}
	loaded, err := packages.Load(cfg, "./core", "./eth2util", "github.com/attestantio/go-eth2-client/spec")
	if err != nil || len(loaded) != 3 {
		fail("load: %v (%d packages)", err, len(loaded))
	}
	for _, pk := range loaded {
		if len(pk.Errors) > 0 {
			fail("package %s: %v", pk.PkgPath, pk.Errors[0])
		}
		pkgs[pk.PkgPath] = index(pk)
	}
	core := pkgs[corePath]
	if core == nil {
		fail("package core not loaded")
	}
	for _, h := range []string{"cloneSSZMarshaler", "cloneJSONMarshaler", "SigFromETH2", "Signature.ToETH2"} {
		pin(core, h)
	}

	type rowT struct {
		typ, variant     string
		getSig, setSig   []string
		setOn, rootKind  string
		rootPaths        [][]string
		cloneKind        string
		jsonEnc, jsonDec []string
	}
	var rows []rowT
	for _, n := range implementers(core.pk, "SignedData") {
		t := &typeInfo{name: n}
		t.doSignature(core)
		t.doSetSignature(core)
		t.doMessageRoot(core)
		t.cloneKind = cloneBody(core, n+".Clone", mustDecl(core, n, "Clone"), 0)
		t.doJSON(core)
		vs := keys(t.getSig)
		if t.setRet == "param" {
			// bare signature: SetSignature returns its argument, nothing is written
			if len(t.setSig) != 0 || !t.bareGet || len(vs) != 1 || !vs[""] {
				fail("%s: SetSignature returns its parameter but the type is not a bare signature", n)
			}
			t.setSig[""] = []string{}
			t.setBase[""] = "param"
		}
		rk := map[string]bool{}
		for k := range t.rootKind {
			rk[k] = true
		}
		// a method that does not distinguish versions applies to all of them
		spread := func(m pathsByVariant) pathsByVariant {
			if p, ok := m[""]; ok && len(m) == 1 && !vs[""] {
				o := pathsByVariant{}
				for v := range vs {
					o[v] = p
				}
				return o
			}
			return m
		}
		if len(rk) == 1 && rk[""] && !vs[""] {
			for v := range vs {
				t.rootKind[v], t.rootPaths[v] = t.rootKind[""], t.rootPaths[""]
			}
			delete(t.rootKind, "")
			rk = vs
		}
		t.jsonEnc, t.jsonDec = spread(t.jsonEnc), spread(t.jsonDec)
		if !sameKeys(vs, keys(t.setSig)) || !sameKeys(vs, rk) {
			fail("%s: Signature / SetSignature / MessageRoot distinguish different sets of versions: %v / %v / %v", n, sortedVariants(vs), sortedVariants(keys(t.setSig)), sortedVariants(rk))
		}
		if t.setRet != "param" && (!sameKeys(vs, keys(t.jsonEnc)) || !sameKeys(vs, keys(t.jsonDec))) {
			fail("%s: MarshalJSON / UnmarshalJSON distinguish other versions than Signature: %v / %v / %v", n, sortedVariants(vs), sortedVariants(keys(t.jsonEnc)), sortedVariants(keys(t.jsonDec)))
		}
		for _, v := range sortedVariants(vs) {
			on := t.setBase[v]
			switch {
			case on == "param":
			case on == "clone" && t.setRet == "clone":
			case on == "receiver" && t.setRet == "receiver":
			default:
				on = "mixed"
			}
			rows = append(rows, rowT{n, v, t.getSig[v], t.setSig[v], on, t.rootKind[v], t.rootPaths[v], t.cloneKind, t.jsonEnc[v], t.jsonDec[v]})
		}
	}
	type urowT struct{ typ, cloneKind string }
	var urows []urowT
	for _, n := range implementers(core.pk, "UnsignedData") {
		urows = append(urows, urowT{n, cloneBody(core, n+".Clone", mustDecl(core, n, "Clone"), 0)})
	}

	var b strings.Builder
	b.WriteString("/- GENERATED by harness/cmd/trans-signeddata (translator T-signeddata) from core/signeddata.go,\n   core/unsigneddata.go, eth2util and go-eth2-client/spec. Not committed; regenerated on every check run. Plain data only. -/\n")
	b.WriteString("namespace CharonV.Generated.SignedData\n\n")
	b.WriteString("/-- one row per implementation of core.SignedData and fork version (\"+blinded\" = the blinded form):\n")
	b.WriteString("(type, version, path read by Signature(), path written by SetSignature(), object written and returned,\n kind of MessageRoot(), paths it hashes, kind of Clone(), field MarshalJSON serialises, field UnmarshalJSON fills) -/\n")
	b.WriteString("def rows : List (String × String × List String × List String × String × String × List (List String) × String × List String × List String) := [")
	for i, r := range rows {
		if i > 0 {
			b.WriteString(",")
		}
		fmt.Fprintf(&b, "\n  (%q, %q, %s, %s, %q, %q, %s, %q, %s, %s)", r.typ, r.variant, lstr(r.getSig), lstr(r.setSig), r.setOn, r.rootKind, llstr(r.rootPaths), r.cloneKind, lstr(r.jsonEnc), lstr(r.jsonDec))
	}
	b.WriteString("]\n\n/-- (implementation of core.UnsignedData, kind of its Clone()) -/\n")
	b.WriteString("def unsignedRows : List (String × String) := [")
	for i, r := range urows {
		if i > 0 {
			b.WriteString(",")
		}
		fmt.Fprintf(&b, "\n  (%q, %q)", r.typ, r.cloneKind)
	}
	b.WriteString("]\n\n/-- normalised body text (go/printer, whitespace collapsed, comments dropped) of the helpers the rows rely on -/\n")
	b.WriteString("def helperText : List (String × String) := [")
	var hs []string
	for k := range pinned {
		hs = append(hs, k)
	}
	sort.Strings(hs)
	for i, k := range hs {
		if i > 0 {
			b.WriteString(",")
		}
		fmt.Fprintf(&b, "\n  (%q, %q)", k, pinned[k])
	}
	b.WriteString("]\n\nend CharonV.Generated.SignedData\n")
	old, _ := os.ReadFile(*out)
	if string(old) != b.String() {
		if err := os.WriteFile(*out, []byte(b.String()), 0o644); err != nil {
			fail("write: %v", err)
		}
	}
	for _, r := range rows {
		fmt.Printf("%-38s %-18s get=%-40s set=%-40s on=%-8s root=%s%v clone=%s json=%s/%s\n", r.typ, r.variant, strings.Join(r.getSig, "."), strings.Join(r.setSig, "."),
			r.setOn, r.rootKind, r.rootPaths, r.cloneKind, strings.Join(r.jsonEnc, "."), strings.Join(r.jsonDec, "."))
	}
	for _, r := range urows {
		fmt.Printf("unsigned %-38s clone=%s\n", r.typ, r.cloneKind)
	}
}
