// drive-signing: correspondence driver for the signing-input computation (stream `signing`, C10/C09).
//
// Runs the real signing.GetDomain / signing.GetDataRoot (eth2util/signing/signing.go) over
//   - client=mock:    a beaconmock.Mock (what the other drivers use), and
//   - client=adapter: eth2wrap.AdaptEth2HTTP(go-eth2-client http service against the same mock
//                     server) with SetForkVersion — the production client, whose Domain method
//                     computes the voluntary-exit domain for the network's Capella fork
// with random fork schedules, genesis validators roots and network fork versions, all twelve
// DomainName constants, epochs at / before / after every fork boundary, random object roots, and
// compares domain and data root BIT FOR BIT (hex) with the Lean model (lean/Driver/Signing.lean).
//
//	cfg client=<mock|adapter> net=<hex4> gvr=<hex32> cap=<none|x|hex4> sched=<prev.cur.epoch,…|-> spec=<idx:hex4|idx:x,…>
//	     cap and spec are read from the real code / the client (CapellaFork(net), Spec()); exec mode
//	     recomputes them
//	get <nameIdx> <epoch> <objectRoot hex32>   →   <domain hex|err> <data root hex|err>
//
// Monitors: signing:domain_mismatch_independent (the harness's own crypto/sha256 recomputation of
// compute_domain / signing root with its own fork choice), signing:type_prefix (the first four bytes
// of every domain are the domain type of the spec).
package main

import (
	"context"
	"crypto/sha256"
	"encoding/hex"
	"fmt"
	"strconv"
	"strings"
	"time"

	eth2api "github.com/attestantio/go-eth2-client/api"
	eth2http "github.com/attestantio/go-eth2-client/http"
	eth2p0 "github.com/attestantio/go-eth2-client/spec/phase0"

	"github.com/obolnetwork/charon/app/eth2wrap"
	"github.com/obolnetwork/charon/app/log"
	"github.com/obolnetwork/charon/eth2util"
	"github.com/obolnetwork/charon/eth2util/signing"
	"github.com/obolnetwork/charon/testutil/beaconmock"

	"verifharness/hx"
)

var names = []signing.DomainName{signing.DomainBeaconProposer, signing.DomainBeaconAttester, signing.DomainRandao, signing.DomainExit,
	signing.DomainApplicationBuilder, signing.DomainSelectionProof, signing.DomainAggregateAndProof, signing.DomainSyncCommittee,
	signing.DomainSyncCommitteeSelectionProof, signing.DomainContributionAndProof, signing.DomainDeposit, signing.DomainBlobSidecar}

type fork struct {
	prev, cur [4]byte
	epoch     uint64
}

type cfg struct {
	client string
	net    [4]byte
	gvr    [32]byte
	sched  []fork
}

func (c cfg) schedStr() string {
	var ps []string
	for _, f := range c.sched {
		ps = append(ps, fmt.Sprintf("%x.%x.%d", f.prev, f.cur, f.epoch))
	}
	if len(ps) == 0 {
		return "-"
	}
	return strings.Join(ps, ",")
}

func (c cfg) schedJSON() string {
	var ps []string
	for _, f := range c.sched {
		ps = append(ps, fmt.Sprintf(`{"previous_version":"%#x","current_version":"%#x","epoch":"%d"}`, f.prev, f.cur, f.epoch))
	}
	return `{"data":[` + strings.Join(ps, ",") + `]}`
}

type episode struct {
	cfg    cfg
	client eth2wrap.Client
	spec   map[int]*[4]byte
	cap    *[4]byte // Capella version of the configured network (nil: unknown network)
	cancel context.CancelFunc
}

func kv(tok, key string) string {
	if !strings.HasPrefix(tok, key+"=") {
		panic("expected " + key + "= in " + tok)
	}
	return strings.TrimPrefix(tok, key+"=")
}

func unhexN(s string, n int) []byte {
	b, err := hex.DecodeString(s)
	if err != nil || len(b) != n {
		panic("bad hex " + s)
	}
	return b
}

func parseCfg(f []string) cfg {
	if len(f) < 6 {
		panic("bad cfg")
	}
	var c cfg
	c.client = kv(f[1], "client")
	copy(c.net[:], unhexN(kv(f[2], "net"), 4))
	copy(c.gvr[:], unhexN(kv(f[3], "gvr"), 32))
	if s := kv(f[5], "sched"); s != "-" {
		for _, p := range strings.Split(s, ",") {
			q := strings.Split(p, ".")
			var fk fork
			copy(fk.prev[:], unhexN(q[0], 4))
			copy(fk.cur[:], unhexN(q[1], 4))
			fk.epoch, _ = strconv.ParseUint(q[2], 10, 64)
			c.sched = append(c.sched, fk)
		}
	}
	return c
}

// newEpisode starts a beacon mock for the configuration; ok=false if the client cannot even be
// created for it (then the configuration is skipped).
func newEpisode(run *hx.Run, c cfg) (*episode, bool) {
	ctx, cancel := context.WithCancel(context.Background())
	mock, err := beaconmock.New(ctx,
		beaconmock.WithEndpoint("/eth/v1/config/fork_schedule", c.schedJSON()),
		beaconmock.WithGenesisValidatorsRoot(c.gvr))
	for try := 0; err != nil && try < 5; try++ {
		// a loaded machine can make the mock's own http client time out: try again before giving up
		cancel()
		time.Sleep(time.Duration(100*(try+1)) * time.Millisecond)
		ctx, cancel = context.WithCancel(context.Background())
		mock, err = beaconmock.New(ctx,
			beaconmock.WithEndpoint("/eth/v1/config/fork_schedule", c.schedJSON()),
			beaconmock.WithGenesisValidatorsRoot(c.gvr))
	}
	if err != nil {
		cancel()
		run.Count("cfg:mock-rejected")
		return nil, false
	}
	e := &episode{cfg: c, cancel: cancel, spec: map[int]*[4]byte{}}
	switch c.client {
	case "mock":
		e.client = mock
	case "adapter":
		svc, err := eth2http.New(ctx, eth2http.WithLogLevel(1), eth2http.WithAddress(mock.Address()))
		if err != nil {
			cancel()
			run.Count("cfg:http-client-rejected")
			return nil, false
		}
		cl := eth2wrap.AdaptEth2HTTP(svc.(*eth2http.Service), nil, 5*time.Second)
		cl.SetForkVersion(c.net)
		e.client = cl
	default:
		panic("bad client " + c.client)
	}
	resp, err := e.client.Spec(ctx, &eth2api.SpecOpts{})
	hx.Must(err)
	var specParts []string
	for i, n := range names {
		if v, ok := resp.Data[string(n)].(eth2p0.DomainType); ok {
			t := [4]byte(v)
			e.spec[i] = &t
			specParts = append(specParts, fmt.Sprintf("%d:%x", i, t))
		} else {
			specParts = append(specParts, fmt.Sprintf("%d:x", i))
		}
	}
	capStr := "none"
	if c.client == "adapter" {
		capStr = "x"
		if h, err := eth2util.CapellaFork(fmt.Sprintf("%#x", c.net)); err == nil {
			b := unhexN(strings.TrimPrefix(h, "0x"), 4)
			var v [4]byte
			copy(v[:], b)
			e.cap = &v
			capStr = hex.EncodeToString(b)
		}
	}
	run.Op(fmt.Sprintf("cfg client=%s net=%x gvr=%x cap=%s sched=%s spec=%s", c.client, c.net, c.gvr, capStr, c.schedStr(), strings.Join(specParts, ",")), "ok")
	return e, true
}

// ---- the harness's own recomputation (crypto/sha256, written from the consensus spec) ----------

func ownForkDataRoot(v [4]byte, gvr [32]byte) [32]byte {
	var buf [64]byte
	copy(buf[:4], v[:])
	copy(buf[32:], gvr[:])
	return sha256.Sum256(buf[:])
}

func ownDomain(ty, v [4]byte, gvr [32]byte) [32]byte {
	r := ownForkDataRoot(v, gvr)
	var d [32]byte
	copy(d[:4], ty[:])
	copy(d[4:], r[:28])
	return d
}

// ownVersionAt: the version in force at epoch e — the current version of the last fork that starts
// at or before e, reading the schedule up to the first fork that starts later; the previous version
// of the first fork if even that one starts later.
func ownVersionAt(s []fork, e uint64) ([4]byte, bool) {
	if len(s) == 0 {
		return [4]byte{}, false
	}
	if s[0].epoch > e {
		return s[0].prev, true
	}
	v := s[0].cur
	for _, f := range s {
		if f.epoch > e {
			break
		}
		v = f.cur
	}
	return v, true
}

func (e *episode) ownDomainFor(i int, epoch uint64) ([32]byte, bool) {
	ty := e.spec[i]
	if ty == nil {
		return [32]byte{}, false
	}
	gvr := e.cfg.gvr
	if *ty == [4]byte{0, 0, 0, 1} {
		gvr = [32]byte{}
	}
	switch {
	case names[i] == signing.DomainApplicationBuilder:
		v, ok := ownVersionAt(e.cfg.sched, 0)
		if !ok {
			return [32]byte{}, false
		}
		if len(e.cfg.sched) > 0 { // genesis: the first entry of the schedule, whatever comes later
			v = e.cfg.sched[0].cur
			if e.cfg.sched[0].epoch > 0 {
				v = e.cfg.sched[0].prev
			}
		}
		return ownDomain(*ty, v, gvr), true
	case e.cfg.client == "adapter" && *ty == [4]byte{4, 0, 0, 0}:
		exitTy := e.spec[3]
		if e.cap == nil || exitTy == nil {
			return [32]byte{}, false
		}
		return ownDomain(*exitTy, *e.cap, e.cfg.gvr), true
	}
	v, ok := ownVersionAt(e.cfg.sched, epoch)
	if !ok {
		return [32]byte{}, false
	}
	return ownDomain(*ty, v, gvr), true
}

func (e *episode) get(run *hx.Run, i int, epoch uint64, obj [32]byte) {
	ctx := context.Background()
	dom, derr := signing.GetDomain(ctx, e.client, names[i], eth2p0.Epoch(epoch))
	root, rerr := signing.GetDataRoot(ctx, e.client, names[i], eth2p0.Epoch(epoch), obj)
	ds, rs := "err", "err"
	if derr == nil {
		ds = hex.EncodeToString(dom[:])
	}
	if rerr == nil {
		rs = hex.EncodeToString(root[:])
	}
	// monitors
	own, ok := e.ownDomainFor(i, epoch)
	switch {
	case ok != (derr == nil):
		run.Violate("signing:domain_mismatch_independent", fmt.Sprintf("%s epoch %d: GetDomain error=%v, independent computation defined=%v", names[i], epoch, derr, ok))
	case ok && own != [32]byte(dom):
		run.Violate("signing:domain_mismatch_independent", fmt.Sprintf("%s epoch %d: GetDomain %x, independent %x", names[i], epoch, dom, own))
	}
	if derr == nil && e.spec[i] != nil && [4]byte(dom[:4]) != *e.spec[i] {
		run.Violate("signing:type_prefix", fmt.Sprintf("%s: domain %x does not start with its type %x", names[i], dom, *e.spec[i]))
	}
	if ok && rerr == nil {
		var buf [64]byte
		copy(buf[:32], obj[:])
		copy(buf[32:], own[:])
		if sha256.Sum256(buf[:]) != root {
			run.Violate("signing:domain_mismatch_independent", fmt.Sprintf("%s epoch %d: GetDataRoot differs from the independent signing root", names[i], epoch))
		}
	}
	if (derr == nil) != (rerr == nil) {
		run.Violate("signing:domain_mismatch_independent", "GetDomain and GetDataRoot disagree on failure")
	}
	run.Count("name:" + string(names[i]))
	if derr != nil {
		run.Count("result:err")
	} else {
		run.Count("result:ok")
	}
	run.Case(fmt.Sprintf("%s/%s/%d/%v", e.cfg.client, names[i], len(e.cfg.sched), e.relation(epoch)))
	run.Op(fmt.Sprintf("get %d %d %x", i, epoch, obj), ds+" "+rs)
}

// relation of an epoch to the schedule (for the distribution statistics).
func (e *episode) relation(epoch uint64) string {
	for _, f := range e.cfg.sched {
		switch {
		case f.epoch == epoch:
			return "at-boundary"
		case f.epoch == epoch+1:
			return "just-before"
		case f.epoch+1 == epoch:
			return "just-after"
		}
	}
	return "inside"
}

var networks = [][4]byte{{0, 0, 0, 0}, {0, 0, 0x10, 0x20}, {0, 0, 0, 0x64}, {0, 0, 0, 0x6f}, {0x90, 0, 0, 0x69}, {0x10, 0, 0x09, 0x10}}

func randCfg(r *hx.Rng) cfg {
	var c cfg
	c.client = []string{"mock", "adapter"}[r.Intn(2)]
	c.net = networks[r.Intn(len(networks))]
	if r.Chance(1, 6) {
		c.net = [4]byte{byte(r.U64()), 1, 2, 3} // no supported network
	}
	for i := range c.gvr {
		c.gvr[i] = byte(r.U64())
	}
	n := 1 + r.Intn(7)
	if r.Chance(1, 12) {
		n = 0
	}
	epoch := uint64(0)
	if r.Chance(1, 4) {
		epoch = uint64(1 + r.Intn(50)) // the first fork starts after genesis
	}
	prev := c.net
	for i := 0; i < n; i++ {
		var f fork
		f.prev = prev
		f.cur = [4]byte{byte(i + 1), byte(r.U64()), c.net[2], c.net[3]}
		if i == 0 && epoch == 0 && r.Chance(1, 2) {
			f.cur = c.net
		}
		f.epoch = epoch
		c.sched = append(c.sched, f)
		prev = f.cur
		switch r.Intn(5) {
		case 0: // two forks in the same epoch
		case 1:
			epoch++
		default:
			epoch += uint64(1 + r.Intn(3000))
		}
	}
	if n >= 2 && r.Chance(1, 10) { // a schedule that is not sorted
		i := r.Intn(n - 1)
		c.sched[i], c.sched[i+1] = c.sched[i+1], c.sched[i]
	}
	return c
}

func (e *episode) epochs(r *hx.Rng) []uint64 {
	set := map[uint64]bool{0: true, 1: true}
	for _, f := range e.cfg.sched {
		set[f.epoch] = true
		set[f.epoch+1] = true
		if f.epoch > 0 {
			set[f.epoch-1] = true
		}
		set[f.epoch+uint64(r.Intn(1000))] = true
	}
	set[uint64(r.U64()>>20)] = true
	var out []uint64
	for k := range set {
		out = append(out, k)
	}
	// deterministic order
	for i := 1; i < len(out); i++ {
		for j := i; j > 0 && out[j] < out[j-1]; j-- {
			out[j], out[j-1] = out[j-1], out[j]
		}
	}
	return out
}

func generate(run *hx.Run, a hx.Args) {
	r := hx.NewRng(a.Seed)
	left := a.N
	for left > 0 {
		e, ok := newEpisode(run, randCfg(r))
		if !ok {
			continue
		}
		left--
		for _, ep := range e.epochs(r) {
			for i := range names {
				if left <= 0 {
					break
				}
				// every name at every boundary epoch for the first names; the rest sampled
				if i > 4 && !r.Chance(1, 3) {
					continue
				}
				var obj [32]byte
				for k := range obj {
					obj[k] = byte(r.U64())
				}
				e.get(run, i, ep, obj)
				left--
			}
		}
		e.cancel()
	}
}

func execute(run *hx.Run, ops []string) {
	var e *episode
	for _, line := range ops {
		f := strings.Fields(line)
		if len(f) == 0 {
			continue
		}
		switch f[0] {
		case "cfg":
			if e != nil {
				e.cancel()
			}
			var ok bool
			e, ok = newEpisode(run, parseCfg(f))
			if !ok {
				e = nil
			}
		case "get":
			if e == nil {
				continue
			}
			i, _ := strconv.Atoi(f[1])
			ep, _ := strconv.ParseUint(f[2], 10, 64)
			var obj [32]byte
			copy(obj[:], unhexN(f[3], 32))
			e.get(run, i, ep, obj)
		default:
			panic("unknown op " + f[0])
		}
	}
}

func main() {
	a := hx.ParseArgs()
	hx.Must(log.InitLogger(log.Config{Level: "fatal", Format: "console", Color: "disable"}))
	run := hx.NewRun(a.Dir)
	defer run.Close()
	if a.Mode == "exec" {
		execute(run, hx.ReadOps(a.Ops))
		return
	}
	generate(run, a)
}
