// trans-wire: translator T-wire (C18, C01): go/ast over core/interfaces.go, func Wire.
//
// Emits lean/CharonV/Generated/Wire.lean with the subscription graph of the core workflow:
//
//	def wireEdges : List (String × String × String × String)
//	    = (producerComponent, subscribeMethod, consumerComponent, consumerMethod), in source order
//	def wireComponents : List String       -- the component parameters of Wire, in order
//	def wireFuncFields : List (String × String × String)  -- wireFuncs field ↦ (component, method)
//
// Component names are the parameter names of Wire (sched, fetch, cons, dutyDB, vapi, parSigDB,
// parSigEx, sigAgg, aggSigDB, bcast). The only Go it understands:
//
//	w := wireFuncs{ Field: <param>.<Method>, ... }         (every element of this form)
//	for _, opt := range opts { opt(&w) }                   (exactly)
//	w.<FieldA>(w.<FieldB>)                                 edge fields[A] -> fields[B]
//	w.<FieldA>(func(...) ... { return w.<FieldB>(...) })   edge fields[A] -> fields[B]  (adapter dropping arguments)
//	x := w.<Field>   |   x := func(...) ... { return w.<Field>(...) }
//	    a local defined once; `x` in callee / argument / adapter-callee position stands for its definition
//
// Anything else makes it exit 1 (fail closed): the obligation is then reported as not shown.
package main

import (
	"flag"
	"fmt"
	"go/ast"
	"go/parser"
	"go/token"
	"os"
	"path/filepath"
	"strings"
)

func fail(f string, a ...any) {
	fmt.Fprintf(os.Stderr, "trans-wire: "+f+"\n", a...)
	os.Exit(1)
}

type cm struct{ comp, method string }

func main() {
	repo := flag.String("repo", envOr("VERIF_REPO", "/repo"), "repository root")
	out := flag.String("out", "", "output .lean file")
	flag.Parse()
	if *out == "" {
		fail("-out required")
	}

	path := filepath.Join(*repo, "core", "interfaces.go")
	fset := token.NewFileSet()
	file, err := parser.ParseFile(fset, path, nil, parser.SkipObjectResolution)
	if err != nil {
		fail("parse %s: %v", path, err)
	}
	pos := func(n ast.Node) string { return fset.Position(n.Pos()).String() }

	var wire *ast.FuncDecl
	for _, d := range file.Decls {
		if fd, ok := d.(*ast.FuncDecl); ok && fd.Recv == nil && fd.Name.Name == "Wire" {
			if wire != nil {
				fail("two functions named Wire")
			}
			wire = fd
		}
	}
	if wire == nil || wire.Body == nil {
		fail("func Wire not found in %s", path)
	}

	// ---- parameters: components (every parameter but the trailing variadic options)
	var comps []string
	isComp := map[string]bool{}
	optsName := ""
	params := wire.Type.Params.List
	for i, f := range params {
		if _, variadic := f.Type.(*ast.Ellipsis); variadic {
			if i != len(params)-1 || len(f.Names) != 1 {
				fail("%s: unexpected variadic parameter position", pos(f))
			}
			optsName = f.Names[0].Name
			continue
		}
		if _, ok := f.Type.(*ast.Ident); !ok {
			fail("%s: component parameter type is not a plain interface name", pos(f))
		}
		for _, n := range f.Names {
			comps = append(comps, n.Name)
			isComp[n.Name] = true
		}
	}
	if optsName == "" {
		fail("Wire has no variadic options parameter")
	}

	stmts := wire.Body.List
	if len(stmts) < 3 {
		fail("Wire body too short")
	}

	// ---- statement 1: w := wireFuncs{...}
	as, ok := stmts[0].(*ast.AssignStmt)
	if !ok || as.Tok != token.DEFINE || len(as.Lhs) != 1 || len(as.Rhs) != 1 {
		fail("%s: first statement is not `w := wireFuncs{...}`", pos(stmts[0]))
	}
	wIdent, ok := as.Lhs[0].(*ast.Ident)
	if !ok {
		fail("%s: lhs is not an identifier", pos(as))
	}
	wName := wIdent.Name
	lit, ok := as.Rhs[0].(*ast.CompositeLit)
	if !ok {
		fail("%s: rhs is not a composite literal", pos(as))
	}
	if t, ok := lit.Type.(*ast.Ident); !ok || t.Name != "wireFuncs" {
		fail("%s: composite literal is not of type wireFuncs", pos(lit))
	}
	fields := map[string]cm{}
	var fieldOrder []string
	for _, e := range lit.Elts {
		kv, ok := e.(*ast.KeyValueExpr)
		if !ok {
			fail("%s: wireFuncs element is not key: value", pos(e))
		}
		k, ok := kv.Key.(*ast.Ident)
		if !ok {
			fail("%s: wireFuncs key is not an identifier", pos(kv))
		}
		sel, ok := kv.Value.(*ast.SelectorExpr)
		if !ok {
			fail("%s: value of %s is not <component>.<Method>", pos(kv), k.Name)
		}
		x, ok := sel.X.(*ast.Ident)
		if !ok || !isComp[x.Name] {
			fail("%s: value of %s does not select a method of a Wire parameter", pos(kv), k.Name)
		}
		if _, dup := fields[k.Name]; dup {
			fail("%s: duplicate field %s", pos(kv), k.Name)
		}
		fields[k.Name] = cm{x.Name, sel.Sel.Name}
		fieldOrder = append(fieldOrder, k.Name)
	}
	// the struct type must declare exactly these fields (no field left at its zero value)
	declared := wireFuncsFields(file)
	if declared == nil {
		fail("type wireFuncs struct not found")
	}
	for _, f := range declared {
		if _, ok := fields[f]; !ok {
			fail("wireFuncs field %s is not initialised in Wire", f)
		}
	}
	if len(declared) != len(fields) {
		fail("wireFuncs literal has %d fields, the type declares %d", len(fields), len(declared))
	}

	// ---- statement 2: for _, opt := range opts { opt(&w) }
	rs, ok := stmts[1].(*ast.RangeStmt)
	if !ok {
		fail("%s: second statement is not the options loop", pos(stmts[1]))
	}
	{
		k, kok := rs.Key.(*ast.Ident)
		v, vok := rs.Value.(*ast.Ident)
		x, xok := rs.X.(*ast.Ident)
		if !kok || !vok || !xok || k.Name != "_" || x.Name != optsName || rs.Tok != token.DEFINE || len(rs.Body.List) != 1 {
			fail("%s: options loop has an unexpected shape", pos(rs))
		}
		es, ok := rs.Body.List[0].(*ast.ExprStmt)
		if !ok {
			fail("%s: options loop body is not a call", pos(rs))
		}
		c, ok := es.X.(*ast.CallExpr)
		if !ok || len(c.Args) != 1 {
			fail("%s: options loop body is not opt(&w)", pos(rs))
		}
		fn, fok := c.Fun.(*ast.Ident)
		u, uok := c.Args[0].(*ast.UnaryExpr)
		if !fok || fn.Name != v.Name || !uok || u.Op != token.AND {
			fail("%s: options loop body is not opt(&w)", pos(rs))
		}
		if id, ok := u.X.(*ast.Ident); !ok || id.Name != wName {
			fail("%s: options loop body is not opt(&w)", pos(rs))
		}
	}

	// ---- remaining statements: subscriptions, and single-definition locals bound to what a
	// subscription may take as its argument (`x := w.<Field>` or `x := func(...) { return w.<Field>(...) }`).
	// Such a local is resolved to its defining expression wherever it is used. The statement forms
	// accepted below leave no room for a second assignment to it or for taking its address (both
	// would be "not a subscription call" / "unknown argument shape"), and `w` itself is not written
	// after the options loop, so evaluating `w.<Field>` at the definition or at the use is the same.
	locals := map[string]ast.Expr{}
	wField := func(e ast.Expr) (string, bool) {
		sel, ok := e.(*ast.SelectorExpr)
		if !ok {
			return "", false
		}
		x, ok := sel.X.(*ast.Ident)
		if !ok || x.Name != wName {
			return "", false
		}
		if _, ok := fields[sel.Sel.Name]; !ok {
			fail("%s: %s.%s is not a wireFuncs field", pos(e), wName, sel.Sel.Name)
		}
		return sel.Sel.Name, true
	}
	// resolve follows an identifier that names a local of the form above (not shadowed by one of `shadow`).
	resolve := func(e ast.Expr, shadow map[string]bool) ast.Expr {
		for i := 0; i < 8; i++ {
			id, ok := e.(*ast.Ident)
			if !ok || shadow[id.Name] {
				return e
			}
			d, ok := locals[id.Name]
			if !ok {
				return e
			}
			e = d
		}
		return e
	}
	// consumer gives the wireFuncs field an argument expression hands the event to.
	consumer := func(at ast.Node, e ast.Expr) string {
		switch arg := resolve(e, nil).(type) {
		case *ast.SelectorExpr:
			b, ok := wField(arg)
			if !ok {
				fail("%s: argument is not %s.<Field>", pos(at), wName)
			}
			return b
		case *ast.FuncLit:
			if len(arg.Body.List) != 1 {
				fail("%s: adapter function has more than one statement", pos(arg))
			}
			ret, ok := arg.Body.List[0].(*ast.ReturnStmt)
			if !ok || len(ret.Results) != 1 {
				fail("%s: adapter function is not a single return", pos(arg))
			}
			inner, ok := ret.Results[0].(*ast.CallExpr)
			if !ok {
				fail("%s: adapter function does not return a call", pos(arg))
			}
			params := map[string]bool{}
			for _, f := range arg.Type.Params.List {
				for _, n := range f.Names {
					params[n.Name] = true
				}
			}
			if params[wName] {
				fail("%s: adapter parameter shadows %s", pos(arg), wName)
			}
			b, ok := wField(resolve(inner.Fun, params))
			if !ok {
				fail("%s: adapter function does not call %s.<Field>", pos(arg), wName)
			}
			// adapter arguments must be plain parameters of the adapter (no other component is reached)
			for _, ia := range inner.Args {
				id, ok := ia.(*ast.Ident)
				if !ok {
					fail("%s: adapter passes a non-parameter expression", pos(ia))
				}
				if !params[id.Name] {
					if _, isLocal := locals[id.Name]; isLocal || id.Name == wName || id.Name == optsName || isComp[id.Name] {
						fail("%s: adapter passes %s, which is not one of its parameters", pos(ia), id.Name)
					}
				}
			}
			return b
		default:
			fail("%s: unknown argument shape %T", pos(at), arg)
		}
		return ""
	}
	type edge struct{ a, b string }
	var edges []edge
	for _, st := range stmts[2:] {
		if as, ok := st.(*ast.AssignStmt); ok {
			if as.Tok != token.DEFINE || len(as.Lhs) != 1 || len(as.Rhs) != 1 {
				fail("%s: statement is neither a subscription call nor `x := <adapter>`", pos(st))
			}
			id, ok := as.Lhs[0].(*ast.Ident)
			if !ok || id.Name == "_" || id.Name == wName || id.Name == optsName || isComp[id.Name] {
				fail("%s: local definition has an unexpected left-hand side", pos(st))
			}
			if _, dup := locals[id.Name]; dup {
				fail("%s: local %s is defined twice", pos(st), id.Name)
			}
			consumer(st, as.Rhs[0]) // the bound expression must itself be an understood consumer
			locals[id.Name] = resolve(as.Rhs[0], nil)
			continue
		}
		es, ok := st.(*ast.ExprStmt)
		if !ok {
			fail("%s: statement is not a subscription call", pos(st))
		}
		call, ok := es.X.(*ast.CallExpr)
		if !ok || len(call.Args) != 1 || call.Ellipsis != token.NoPos {
			fail("%s: statement is not a one-argument call", pos(st))
		}
		a, ok := wField(resolve(call.Fun, nil))
		if !ok {
			fail("%s: callee is not %s.<Field>", pos(st), wName)
		}
		edges = append(edges, edge{a, consumer(st, call.Args[0])})
	}
	if len(edges) == 0 {
		fail("no subscription found")
	}

	// ---- emit
	var sb strings.Builder
	sb.WriteString("/- GENERATED by harness/cmd/trans-wire (translator T-wire, C18 / C01). Do not edit, not committed.\n")
	sb.WriteString("Source: core/interfaces.go, func Wire. -/\n")
	sb.WriteString("namespace CharonV.Generated.Wire\n\n")
	sb.WriteString("/-- the component parameters of `core.Wire`, in order. -/\n")
	sb.WriteString("def wireComponents : List String := [" + quoteList(comps) + "]\n\n")
	sb.WriteString("/-- `wireFuncs` field ↦ (component, method), in source order. -/\n")
	sb.WriteString("def wireFuncFields : List (String × String × String) := [\n")
	for i, f := range fieldOrder {
		sep := ","
		if i == len(fieldOrder)-1 {
			sep = ""
		}
		fmt.Fprintf(&sb, "  (%q, %q, %q)%s\n", f, fields[f].comp, fields[f].method, sep)
	}
	sb.WriteString("]\n\n")
	sb.WriteString("/-- subscription edges (producerComponent, subscribeMethod, consumerComponent, consumerMethod), in source order. -/\n")
	sb.WriteString("def wireEdges : List (String × String × String × String) := [\n")
	for i, e := range edges {
		sep := ","
		if i == len(edges)-1 {
			sep = ""
		}
		fmt.Fprintf(&sb, "  (%q, %q, %q, %q)%s\n", fields[e.a].comp, fields[e.a].method, fields[e.b].comp, fields[e.b].method, sep)
	}
	sb.WriteString("]\n\nend CharonV.Generated.Wire\n")

	// write only when changed (keeps lake from rebuilding dependants needlessly)
	if old, err := os.ReadFile(*out); err == nil && string(old) == sb.String() {
		fmt.Printf("trans-wire: %d edges, %d fields (unchanged)\n", len(edges), len(fields))
		return
	}
	if err := os.MkdirAll(filepath.Dir(*out), 0o755); err != nil {
		fail("%v", err)
	}
	tmp := *out + ".tmp"
	if err := os.WriteFile(tmp, []byte(sb.String()), 0o644); err != nil {
		fail("%v", err)
	}
	if err := os.Rename(tmp, *out); err != nil {
		fail("%v", err)
	}
	fmt.Printf("trans-wire: %d edges, %d fields\n", len(edges), len(fields))
}

func wireFuncsFields(file *ast.File) []string {
	for _, d := range file.Decls {
		gd, ok := d.(*ast.GenDecl)
		if !ok || gd.Tok != token.TYPE {
			continue
		}
		for _, sp := range gd.Specs {
			ts := sp.(*ast.TypeSpec)
			if ts.Name.Name != "wireFuncs" {
				continue
			}
			st, ok := ts.Type.(*ast.StructType)
			if !ok {
				return nil
			}
			var out []string
			for _, f := range st.Fields.List {
				for _, n := range f.Names {
					out = append(out, n.Name)
				}
			}
			return out
		}
	}
	return nil
}

func quoteList(xs []string) string {
	q := make([]string, len(xs))
	for i, x := range xs {
		q[i] = fmt.Sprintf("%q", x)
	}
	return strings.Join(q, ", ")
}

func envOr(k, d string) string {
	if v := os.Getenv(k); v != "" {
		return v
	}
	return d
}
