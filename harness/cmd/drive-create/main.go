// drive-create: correspondence driver + monitors for the glue of `charon create cluster`
// (cmd/createcluster.go) and `charon combine` (cmd/combine/combine.go) — property C12, model
// lean/CharonV/Model/CreateGlue.lean, line driver lean/Driver/CreateGlue.lean (`drv-create`).
//
// One episode = the REAL `charon create cluster` (cobra root command of package cmd, in process) on a
// generated configuration: flags or --definition-file (versions v1.5 .. v1.11), fresh keys or
// --split-existing-keys, invalid configurations, pre-seeded obstacles that make one write fail. What
// was written is loaded again (cluster.LoadClusterLock, keystore.LoadFilesUnordered, deposit.ReadDepositDataFiles),
// every key / share / signature is replaced by what the harness recomputed it to be with tbls alone,
// and the Lean model predicts that rendering from the configuration. Then the REAL combine.Combine runs
// on directories assembled from the written artifacts (honest subsets, swapped / replaced / missing /
// extra keystores, tampered, foreign and missing locks, --no-verify, --force, existing output).
//
// ops (every line is answered by the Lean driver):
//
//	create k=v ...       episode start (reset op): run create cluster          -> ok | err <class>
//	art <i>              canonical artifacts of node i
//	val <k> imp=<hex|-> <j:sk,..>   key shares the keystores hold for validator k -> x=<group secret> pk=<0|1> imp=<0|1|->
//	rec <k> <ids>        tbls.RecoverSecret of that subset                      -> x=<hex> same=<0|1>
//	gv pk=.. sets=.. dd=.. regs=..  getValidators (hook) on permuted / incomplete inputs -> ok <validators> | err <class>
//	alt <n> <t> <v>      a second cluster (material for foreign locks and shares) -> ok
//	comb nv=<b> f=<b> out=<b> dirs=<L:K/...>   combine.Combine on an assembled input directory -> ok <secrets> | err <class>
//	disk                 after a failed create: what exists per node
//	pcomb                after a failed create: combine.Combine on the cluster directory -> ok .. | err <class>
//	forge k= kind= i= j= a re-hashed, re-signed lock with shifted public shares: VerifyHashes+VerifySignatures -> accept | reject
package main

import (
	"fmt"
	"os"
	"path/filepath"
	"runtime/pprof"
	"strconv"
	"strings"

	"github.com/obolnetwork/charon/app/log"

	"verifharness/hx"
)

type params struct {
	id       int
	mode     string // flags | def
	n, t     int
	tf       bool // --threshold given
	v        int
	fa, wa   int   // number of fee recipient / withdrawal addresses
	am       []int // ETH
	comp     bool
	split    bool
	sdir     bool // --split-keys-dir given
	nk       int  // keystores in the split dir
	gap      bool // file indices 0..nk-2, nk
	dupk     bool // keystore 1 holds the secret of keystore 0
	ins      bool
	net      string
	ver      int // definition version v1.<ver>.0 (def mode)
	gas      int
	kma, kmt int  // keymanager addresses / tokens
	kmbad    bool // the first keymanager address does not parse
	kmr      string
	proto    bool // consensus protocol supported
	name     bool // definition has a name
	defok    bool // definition file unaltered after hashing
	distinct bool // definition addresses pairwise different
	addrs    int  // entries of the definition's validator address list
	ex       int  // node index with an existing cluster-lock.json (-1 none)
	fail     string
	order    []int // split mode: lock validator k holds the order[k]-th key of the split-keys directory (observed, not chosen)
}

func b01(b bool) string {
	if b {
		return "1"
	}
	return "0"
}

func intsStr(xs []int, sep string) string {
	if len(xs) == 0 {
		return "-"
	}
	p := make([]string, len(xs))
	for i, x := range xs {
		p[i] = strconv.Itoa(x)
	}
	return strings.Join(p, sep)
}

func parseInts(s, sep string) []int {
	if s == "-" || s == "" {
		return nil
	}
	var out []int
	for _, f := range strings.Split(s, sep) {
		x, err := strconv.Atoi(f)
		hx.Must(err)
		out = append(out, x)
	}
	return out
}

func (p params) line() string {
	ex := "-"
	if p.ex >= 0 {
		ex = strconv.Itoa(p.ex)
	}
	kmr := p.kmr
	if kmr == "" {
		kmr = "-"
	}
	return fmt.Sprintf("create id=%d m=%s n=%d t=%d tf=%s v=%d fa=%d wa=%d am=%s comp=%s split=%s sdir=%s nk=%d gap=%s dupk=%s ins=%s net=%s ver=%d gas=%d kma=%d kmt=%d kmbad=%s kmr=%s proto=%s name=%s defok=%s distinct=%s addrs=%d ex=%s fail=%s order=%s",
		p.id, p.mode, p.n, p.t, b01(p.tf), p.v, p.fa, p.wa, intsStr(p.am, "+"), b01(p.comp), b01(p.split), b01(p.sdir), p.nk, b01(p.gap), b01(p.dupk),
		b01(p.ins), p.net, p.ver, p.gas, p.kma, p.kmt, b01(p.kmbad), kmr, b01(p.proto), b01(p.name), b01(p.defok), b01(p.distinct), p.addrs, ex, p.fail, intsStr(p.order, ","))
}

func parseParams(line string) params {
	p := params{ex: -1, fail: "-"}
	for _, kv := range strings.Fields(line)[1:] {
		i := strings.IndexByte(kv, '=')
		if i < 0 {
			panic("bad create op " + line)
		}
		k, v := kv[:i], kv[i+1:]
		n, _ := strconv.Atoi(v)
		switch k {
		case "id":
			p.id = n
		case "m":
			p.mode = v
		case "n":
			p.n = n
		case "t":
			p.t = n
		case "tf":
			p.tf = v == "1"
		case "v":
			p.v = n
		case "fa":
			p.fa = n
		case "wa":
			p.wa = n
		case "am":
			p.am = parseInts(v, "+")
		case "comp":
			p.comp = v == "1"
		case "split":
			p.split = v == "1"
		case "sdir":
			p.sdir = v == "1"
		case "nk":
			p.nk = n
		case "gap":
			p.gap = v == "1"
		case "dupk":
			p.dupk = v == "1"
		case "ins":
			p.ins = v == "1"
		case "net":
			p.net = v
		case "ver":
			p.ver = n
		case "gas":
			p.gas = n
		case "kma":
			p.kma = n
		case "kmt":
			p.kmt = n
		case "kmbad":
			p.kmbad = v == "1"
		case "kmr":
			if v != "-" {
				p.kmr = v
			}
		case "proto":
			p.proto = v == "1"
		case "name":
			p.name = v == "1"
		case "defok":
			p.defok = v == "1"
		case "distinct":
			p.distinct = v == "1"
		case "addrs":
			p.addrs = n
		case "ex":
			if v != "-" {
				p.ex = n
			}
		case "fail":
			p.fail = v
		}
	}
	return p
}

// drv is the state of a run: the current episode's clusters.
type drv struct {
	run       *hx.Run
	rng       *hx.Rng
	dir       string
	own       *clu // cluster of the current episode (nil after a failed create)
	alt       *clu
	failed    *params // parameters of the current episode's failed create
	failedClu *clu
	epDir     string
	combSeq   int
	valSeen   map[int]bool
}

func (d *drv) exec(op string) {
	f := strings.Fields(op)
	if len(f) == 0 {
		return
	}
	d.run.Begin(op)
	switch f[0] {
	case "create":
		d.opCreate(parseParams(op))
	case "alt":
		n, _ := strconv.Atoi(f[1])
		t, _ := strconv.Atoi(f[2])
		v, _ := strconv.Atoi(f[3])
		d.opAlt(op, n, t, v)
	case "art", "val", "rec", "gv", "comb", "forge":
		if d.own == nil {
			d.run.Op(op, "bad-op")
			return
		}
		switch f[0] {
		case "art":
			i, _ := strconv.Atoi(f[1])
			if i < 0 || i >= d.own.n {
				d.run.Op(op, "bad-op")
				return
			}
			d.run.Count("art")
			d.run.Op(op, d.own.artStr(i))
		case "val":
			k, _ := strconv.Atoi(f[1])
			d.opVal(k)
		case "rec":
			k, _ := strconv.Atoi(f[1])
			d.opRec(op, k, parseInts(f[2], ","))
		case "gv":
			d.opGV(op, f[1:])
		case "comb":
			d.opComb(op, f[1:])
		case "forge":
			d.opForge(op, f[1:])
		}
	case "disk":
		if d.failed == nil {
			d.run.Op(op, "bad-op")
			return
		}
		d.opDisk(op)
	case "pcomb":
		if d.failed == nil {
			d.run.Op(op, "bad-op")
			return
		}
		d.opPComb(op)
	default:
		panic("bad op " + op)
	}
}

func main() {
	a := hx.ParseArgs()
	if pf := os.Getenv("VERIF_PROF"); pf != "" {
		f, err := os.Create(pf)
		hx.Must(err)
		hx.Must(pprof.StartCPUProfile(f))
		defer pprof.StopCPUProfile()
	}
	hx.Must(log.InitLogger(log.Config{Level: "fatal", Format: "console", Color: "disable"}))
	run := hx.NewRun(a.Dir)
	defer run.Close()
	abs, err := filepath.Abs(a.Dir)
	hx.Must(err)
	d := &drv{run: run, rng: hx.NewRng(a.Seed), dir: filepath.Join(abs, "work")}
	_ = os.RemoveAll(d.dir)
	hx.Must(os.MkdirAll(d.dir, 0o755))
	defer os.RemoveAll(d.dir)
	if a.Mode == "exec" {
		for _, op := range hx.ReadOps(a.Ops) {
			d.exec(op)
		}
		return
	}
	d.gen(a)
}
