package main

import (
	"bytes"
	"context"
	"crypto/rand"
	"encoding/hex"
	"encoding/json"
	"fmt"
	"os"
	"path/filepath"
	"sort"
	"strconv"
	"strings"
	"testing"
	"time"

	eth2v1 "github.com/attestantio/go-eth2-client/api/v1"
	eth2p0 "github.com/attestantio/go-eth2-client/spec/phase0"
	keystorev4 "github.com/wealdtech/go-eth2-wallet-encryptor-keystorev4"

	"github.com/obolnetwork/charon/cluster"
	"github.com/obolnetwork/charon/cmd"
	"github.com/obolnetwork/charon/eth2util"
	"github.com/obolnetwork/charon/eth2util/deposit"
	"github.com/obolnetwork/charon/eth2util/keystore"
	"github.com/obolnetwork/charon/tbls"

	"verifharness/hx"
)

// clu is a created cluster as the harness recomputed it from what was written.
type clu struct {
	p        params
	tag      string // "" own cluster, "a" the alt cluster (prefix of its symbolic names)
	dir      string
	n, t     int
	lock     cluster.Lock
	lockRaw  [][]byte
	lockOK   []bool
	sk       [][]tbls.PrivateKey // [node][keystore position]
	P        [][]tbls.PublicKey
	X        []tbls.PrivateKey // group secret per keystore position (zero if not recoverable)
	G        []tbls.PublicKey
	imported []tbls.PrivateKey
	wd, fee  []string
	comp     bool
	net      string
	fork     []byte
	genesis  time.Time
	start    time.Time
	end      time.Time
	files    [][][]eth2p0.DepositData
	kms      []*kmServer
}

func randAddr() string {
	b := make([]byte, 20)
	_, _ = rand.Read(b)
	a, err := eth2util.ChecksumAddress("0x" + hex.EncodeToString(b))
	hx.Must(err)
	return a
}

// ---- reference signing roots (consensus spec, go-eth2-client SSZ only) ----

func computeDomain(domainType [4]byte, forkVersion []byte) eth2p0.Domain {
	var fv eth2p0.Version
	copy(fv[:], forkVersion)
	root, err := (&eth2p0.ForkData{CurrentVersion: fv}).HashTreeRoot() // genesis validators root is zero
	hx.Must(err)
	var d eth2p0.Domain
	copy(d[0:], domainType[:])
	copy(d[4:], root[:])
	return d
}

func signingRoot(objRoot [32]byte, domain eth2p0.Domain) []byte {
	r, err := (&eth2p0.SigningData{ObjectRoot: objRoot, Domain: domain}).HashTreeRoot()
	hx.Must(err)
	return r[:]
}

func withdrawalCreds(addr string, compounding bool) []byte {
	b, err := hex.DecodeString(strings.TrimPrefix(addr, "0x"))
	hx.Must(err)
	creds := make([]byte, 32)
	creds[0] = 0x01
	if compounding {
		creds[0] = 0x02
	}
	copy(creds[12:], b)
	return creds
}

func (c *clu) depositRoot(pk []byte, creds []byte, amount eth2p0.Gwei) []byte {
	var bpk eth2p0.BLSPubKey
	copy(bpk[:], pk)
	msg := eth2p0.DepositMessage{PublicKey: bpk, WithdrawalCredentials: creds, Amount: amount}
	r, err := msg.HashTreeRoot()
	hx.Must(err)
	return signingRoot(r, computeDomain([4]byte{0x03, 0, 0, 0}, c.fork))
}

func (c *clu) regRoot(pk []byte, fee []byte, gas uint64, ts time.Time) []byte {
	var bpk eth2p0.BLSPubKey
	copy(bpk[:], pk)
	msg := eth2v1.ValidatorRegistration{GasLimit: gas, Timestamp: ts, Pubkey: bpk}
	copy(msg.FeeRecipient[:], fee)
	r, err := msg.HashTreeRoot()
	hx.Must(err)
	return signingRoot(r, computeDomain([4]byte{0, 0, 0, 1}, c.fork))
}

// ---- symbolic names ----

func (c *clu) pkID(b []byte) string {
	for k, g := range c.G {
		if bytes.Equal(b, g[:]) {
			return fmt.Sprintf("%sg%d", c.tag, k)
		}
	}
	return "?"
}

func (c *clu) psID(b []byte) string {
	for j := range c.P {
		for k, p := range c.P[j] {
			if bytes.Equal(b, p[:]) {
				return fmt.Sprintf("%ss%d.%d", c.tag, j+1, k)
			}
		}
	}
	return "?"
}

func (c *clu) wcID(b []byte) string {
	for k := range c.wd {
		if bytes.Equal(b, withdrawalCreds(c.wd[k], c.comp)) {
			return fmt.Sprintf("w%d", k)
		}
	}
	return "w?"
}

func (c *clu) feeID(b []byte) string {
	for k := range c.fee {
		if strings.EqualFold("0x"+hex.EncodeToString(b), c.fee[k]) {
			return fmt.Sprintf("f%d", k)
		}
	}
	return "f?"
}

func (c *clu) tsID(ts time.Time) string {
	switch {
	case ts.Equal(c.genesis):
		return "gen"
	case !ts.Before(c.start.Add(-2*time.Second)) && !ts.After(c.end.Add(2*time.Second)):
		return "now"
	}
	return "?"
}

func sigClass(pk []byte, root []byte, sig []byte) string {
	var p tbls.PublicKey
	var s tbls.Signature
	if len(pk) != len(p) || len(sig) != len(s) {
		return "B"
	}
	copy(p[:], pk)
	copy(s[:], sig)
	if tbls.Verify(p, root, s) != nil {
		return "B"
	}
	return "G"
}

func (c *clu) ddStr(pk, creds []byte, amount eth2p0.Gwei, sig []byte) string {
	return fmt.Sprintf("%d/%s/%s", amount, c.wcID(creds), sigClass(pk, c.depositRoot(pk, creds, amount), sig))
}

func (c *clu) dvStr(v cluster.DistValidator) string {
	var ps, dd []string
	for _, p := range v.PubShares {
		ps = append(ps, c.psID(p))
	}
	for _, d := range v.PartialDepositData {
		s := c.ddStr(d.PubKey, d.WithdrawalCredentials, eth2p0.Gwei(d.Amount), d.Signature)
		if !bytes.Equal(d.PubKey, v.PubKey) {
			s += "/otherkey"
		}
		dd = append(dd, s)
	}
	reg := "-"
	if !v.ZeroRegistration() {
		r := v.BuilderRegistration
		reg = fmt.Sprintf("%s/%d/%s/%s", c.feeID(r.Message.FeeRecipient), r.Message.GasLimit, c.tsID(r.Message.Timestamp),
			sigClass(v.PubKey, c.regRoot(r.Message.PubKey, r.Message.FeeRecipient, uint64(r.Message.GasLimit), r.Message.Timestamp), r.Signature))
		if !bytes.Equal(r.Message.PubKey, v.PubKey) {
			reg += "/otherkey"
		}
	}
	return fmt.Sprintf("%s ps=%s dd=%s reg=%s", c.pkID(v.PubKey), dash(strings.Join(ps, ",")), dash(strings.Join(dd, ",")), reg)
}

func dash(s string) string {
	if s == "" {
		return "-"
	}
	return s
}

func dvsStr(c *clu, vs []cluster.DistValidator) string {
	var out []string
	for _, v := range vs {
		out = append(out, c.dvStr(v))
	}
	return dash(strings.Join(out, " | "))
}

// artStr: canonical rendering of what node i holds.
func (c *clu) artStr(i int) string {
	var lock cluster.Lock
	lockStr := "nolock"
	if c.lockRaw[i] != nil && json.Unmarshal(c.lockRaw[i], &lock) == nil {
		lockStr = fmt.Sprintf("lock m=%s n=%d t=%d nv=%d ver=%s ns=%d | %s", minorOf(lock.Version), len(lock.Operators), lock.Threshold, lock.NumValidators,
			b01(c.lockOK[i]), len(lock.NodeSignatures), dvsStr(c, lock.Validators))
	}
	var ks []string
	for _, s := range c.sk[i] {
		p, err := tbls.SecretToPublicKey(s)
		hx.Must(err)
		ks = append(ks, c.psID(p[:]))
	}
	fs := append([][]eth2p0.DepositData(nil), c.files[i]...)
	sort.Slice(fs, func(a, b int) bool { return len(fs[a]) > 0 && len(fs[b]) > 0 && fs[a][0].Amount < fs[b][0].Amount })
	var files []string
	for _, f := range fs {
		var ents []string
		amt := eth2p0.Gwei(0)
		for _, d := range f {
			amt = f[0].Amount
			ents = append(ents, c.pkID(d.PublicKey[:])+"/"+strings.SplitN(c.ddStr(d.PublicKey[:], d.WithdrawalCredentials, d.Amount, d.Signature[:]), "/", 2)[1])
		}
		sort.Strings(ents) // the file is ordered by public key bytes; the canonical form by name
		files = append(files, fmt.Sprintf("%d:%s", amt, strings.Join(ents, ",")))
	}
	return fmt.Sprintf("%s || ks=%s || dep=%s", lockStr, dash(strings.Join(ks, ",")), dash(strings.Join(files, ";")))
}

func minorOf(ver string) string {
	f := strings.Split(ver, ".")
	if len(f) == 3 && f[0] == "v1" {
		return f[1]
	}
	return "?"
}

// ---- keystore files written by the harness ----

// writeKeystore stores one secret as an insecure-cost EIP-2335 keystore `name`.json with its password file.
func writeKeystore(dir, name string, secret tbls.PrivateKey, wrongPassword bool) {
	pw := hex.EncodeToString(secret[:8]) + "pw"
	store, err := keystore.Encrypt(secret, pw, rand.Reader, keystorev4.WithCost(new(testing.T), 4))
	hx.Must(err)
	b, err := json.Marshal(store)
	hx.Must(err)
	hx.Must(os.WriteFile(filepath.Join(dir, name+".json"), b, 0o644))
	if wrongPassword {
		pw = "wrong"
	}
	hx.Must(os.WriteFile(filepath.Join(dir, name+".txt"), []byte(pw), 0o644))
}

func loadKeys(dir string) ([]tbls.PrivateKey, error) {
	kf, err := keystore.LoadFilesUnordered(dir)
	if err != nil {
		return nil, err
	}
	return kf.SequencedKeys()
}

// ---- running create cluster ----

var versionsByMinor = map[int]string{5: "v1.5.0", 6: "v1.6.0", 7: "v1.7.0", 8: "v1.8.0", 9: "v1.9.0", 10: "v1.10.0", 11: "v1.11.0"}

func classifyCreateErr(err error) string {
	m := err.Error()
	has := func(s string) bool { return strings.Contains(m, s) }
	switch {
	case has("threshold below minimum"):
		return "thresholdLow"
	case has("threshold exceeds number of nodes"):
		return "thresholdHigh"
	case has("read definition"), has("unmarshal definition"), has("no validators specified in the given definition"),
		has("invalid config hash"), has("invalid definition hash"):
		return "defLoad"
	case has("missing --nodes flag"):
		return "missingNodes"
	case has("get network config"), has("invalid fork version"), has("invalid network"):
		return "network"
	case has("existing node directory found"):
		return "existingNodeDir"
	case has("does not match number of --keymanager-auth-tokens"):
		return "kmTokens"
	case has("each partial deposit amount must be greater than 1ETH"):
		return "amountSmall"
	case has("single partial deposit amount is too large"):
		return "amountLarge"
	case has("sum of partial deposit amounts must be at least 32ETH"):
		return "amountSum"
	case has("parse keymanager address"):
		return "kmAddr"
	case has("--num-validators not supported with --split-existing-keys"):
		return "numValsWithSplit"
	case has("missing --num-validators flag"):
		return "missingNumVals"
	case has("number of operators is below minimum"), has("insufficient number of nodes"):
		return "tooFewNodes"
	case has("unsupported consensus protocol"):
		return "protocol"
	case has("--split-keys-dir required"):
		return "splitDir"
	case has("no keys found"), has("out of sequence keystore index"), has("unknown keystore index"), has("duplicate keystore index"),
		has("keystore decryption"), has("walk directory"):
		return "keysLoad"
	case has("duplicate validator key in split keys directory"):
		return "dupKey"
	case has("invalid threshold in cluster definition"):
		return "defThreshold"
	case has("--num-validators not set, specify at least one"):
		return "defNoValidators"
	case has("number of keymanager addresses does not match number of operators"):
		return "kmCount"
	case has("insecure keys not supported on mainnet"):
		return "insecureMainnet"
	case has("name not provided"):
		return "noName"
	case has("invalid withdrawal address"), has("invalid checksummed address"), has("zero address forbidden"):
		return "wdAddr"
	case has("mismatching --num-validators and --fee-recipient-addresses"):
		return "feeCount"
	case has("mismatching --num-validators and --withdrawal-addresses"):
		return "wdCount"
	case has("insufficient fee-recipient addresses"):
		return "defAddrCount"
	case has("target gas limit not set"):
		return "gasUnset"
	case has("number of keys read from disk differs from cluster definition"):
		return "keyCount"
	case has("threshold has to be greater than 1"):
		return "split"
	case has("create charon-enr-private-key"):
		return "io:p2p"
	case has("readdir"), has("non-empty directory"), has("write keystore"), has("keystore dir"), has("mkdir"):
		return "io:keys"
	case has("ping address"):
		return "io:kmping"
	case has("post validator keys to keymanager"), has("post keys to keymanager failed"):
		return "io:kmimp"
	case has("write deposit data"):
		return "io:dep"
	case has("write cluster lock"):
		return "io:lock"
	case has("insufficient withdrawal addresses"):
		return "wdLen"
	case has("empty deposit amounts"):
		return "noAmounts"
	case has("insufficient fee addresses"):
		return "feeLen"
	case has("validator registration not found"):
		return "noreg"
	case has("deposit data not found"):
		return "nodd"
	}
	return "other:" + strings.ReplaceAll(m, " ", "_")
}

// setupEpisode prepares the directories, the split-keys directory, the definition file, the keymanagers and the
// obstacles of one create run and returns the command line.
func (d *drv) setup(p params, dir string, c *clu) []string {
	args := []string{"create", "cluster", "--cluster-dir", dir}
	if p.ins {
		args = append(args, "--insecure-keys")
	}
	// addresses
	nf, nw := p.fa, p.wa
	if p.mode == "def" {
		nf, nw = p.addrs, p.addrs
		if !p.distinct {
			nf, nw = 1, 1
		}
	}
	for i := 0; i < nf; i++ {
		c.fee = append(c.fee, randAddr())
	}
	for i := 0; i < nw; i++ {
		c.wd = append(c.wd, randAddr())
	}
	if p.split {
		args = append(args, "--split-existing-keys")
		if p.sdir {
			sd := filepath.Join(dir, "..", fmt.Sprintf("split-%d", p.id))
			_ = os.RemoveAll(sd)
			hx.Must(os.MkdirAll(sd, 0o755))
			for k := 0; k < p.nk; k++ {
				s, err := tbls.GenerateSecretKey()
				hx.Must(err)
				if p.dupk && k == 1 {
					s = c.imported[0]
				}
				c.imported = append(c.imported, s)
				idx := k
				if p.gap && k == p.nk-1 {
					idx = k + 1
				}
				writeKeystore(sd, fmt.Sprintf("keystore-insecure-%d", idx), s, false)
			}
			args = append(args, "--split-keys-dir", sd)
		}
	}
	for i := 0; i < p.kma; i++ {
		addr := "http://127.0.0.1:1"
		if i < len(p.kmr) {
			km := newKMServer(p.kmr[i])
			c.kms = append(c.kms, km)
			addr = km.srv.URL
		}
		if i == 0 && p.kmbad {
			addr = "::bad"
		}
		if i == 0 {
			args = append(args, "--keymanager-addresses")
			args = append(args, addr)
		} else {
			args[len(args)-1] += "," + addr
		}
	}
	for i := 0; i < p.kmt; i++ {
		if i == 0 {
			args = append(args, "--keymanager-auth-tokens", kmToken)
		} else {
			args[len(args)-1] += "," + kmToken
		}
	}
	if p.tf {
		args = append(args, "--threshold", strconv.Itoa(p.t))
	}
	if p.mode == "flags" {
		args = append(args, "--name", "created")
		if p.n > 0 {
			args = append(args, "--nodes", strconv.Itoa(p.n))
		}
		if p.v > 0 {
			args = append(args, "--num-validators", strconv.Itoa(p.v))
		}
		if nf > 0 {
			args = append(args, "--fee-recipient-addresses", strings.Join(c.fee, ","))
		}
		if nw > 0 {
			args = append(args, "--withdrawal-addresses", strings.Join(c.wd, ","))
		}
		args = append(args, "--network", p.net)
		if len(p.am) > 0 {
			args = append(args, "--deposit-amounts", intsStr(p.am, ","))
		}
		if p.comp {
			args = append(args, "--compounding")
		}
		if p.gas != 60000000 {
			args = append(args, "--target-gas-limit", strconv.Itoa(p.gas))
		}
		if !p.proto {
			args = append(args, "--consensus-protocol", "bogus")
		}
	} else {
		forkHex, err := eth2util.NetworkToForkVersion(p.net)
		hx.Must(err)
		var fees, wds []string
		for k := 0; k < p.v; k++ {
			if p.distinct {
				fees, wds = append(fees, c.fee[k%len(c.fee)]), append(wds, c.wd[k%len(c.wd)])
			} else {
				fees, wds = append(fees, c.fee[0]), append(wds, c.wd[0])
			}
		}
		ops := make([]cluster.Operator, p.n)
		name := "created"
		proto := ""
		if !p.proto {
			proto = "bogus"
		}
		opts := []func(*cluster.Definition){cluster.WithVersion(versionsByMinor[p.ver]), func(df *cluster.Definition) {
			if !p.name {
				df.Name = ""
			}
			if p.addrs < len(df.ValidatorAddresses) {
				df.ValidatorAddresses = df.ValidatorAddresses[:p.addrs]
			}
			for len(df.ValidatorAddresses) < p.addrs {
				df.ValidatorAddresses = append(df.ValidatorAddresses, df.ValidatorAddresses[0])
			}
		}}
		def, err := cluster.NewDefinition(name, p.v, p.t, fees, wds, forkHex, cluster.Creator{}, ops, p.am, proto, uint(p.gas), p.comp, rand.Reader, opts...)
		hx.Must(err)
		b, err := json.Marshal(def)
		hx.Must(err)
		if !p.defok {
			b = bytes.Replace(b, []byte(`"num_validators":`), []byte(`"num_validators":1`), 1)
		}
		df := filepath.Join(dir, "..", fmt.Sprintf("def-%d.json", p.id))
		hx.Must(os.WriteFile(df, b, 0o644))
		args = append(args, "--definition-file", df)
	}
	// pre-existing lock, obstacles
	nodeDir := func(i int) string { return filepath.Join(dir, fmt.Sprintf("node%d", i)) }
	if p.ex >= 0 {
		hx.Must(os.MkdirAll(nodeDir(p.ex), 0o755))
		hx.Must(os.WriteFile(filepath.Join(nodeDir(p.ex), "cluster-lock.json"), []byte("{}"), 0o644))
	}
	if f := strings.Split(p.fail, ":"); p.fail != "-" {
		i, _ := strconv.Atoi(f[len(f)-1])
		hx.Must(os.MkdirAll(nodeDir(i), 0o755))
		switch f[0] {
		case "p2p":
			hx.Must(os.MkdirAll(filepath.Join(nodeDir(i), "charon-enr-private-key"), 0o755))
		case "keys":
			hx.Must(os.WriteFile(filepath.Join(nodeDir(i), "validator_keys"), []byte("x"), 0o644))
		case "dep":
			a, _ := strconv.ParseUint(f[1], 10, 64)
			hx.Must(os.MkdirAll(deposit.GetDepositFilePath(nodeDir(i), eth2p0.Gwei(a)), 0o755))
		case "lock":
			hx.Must(os.Symlink(filepath.Join(dir, "no-such-dir", "lock.json"), filepath.Join(nodeDir(i), "cluster-lock.json")))
		}
	}
	return args
}

func (d *drv) runCreate(p params, dir string, tag string) (*clu, error) {
	c := &clu{p: p, tag: tag, dir: dir, comp: p.comp, net: p.net}
	_ = os.RemoveAll(dir)
	hx.Must(os.MkdirAll(dir, 0o755))
	args := d.setup(p, dir, c)
	if fb, err := eth2util.NetworkToForkVersionBytes(p.net); err == nil {
		c.fork = fb
		if g, err := eth2util.ForkVersionToGenesisTime(fb); err == nil {
			c.genesis = g
		}
	}
	root := cmd.New()
	root.SetArgs(args)
	var out bytes.Buffer
	root.SetOut(&out)
	root.SetErr(&out)
	ctx, cancel := context.WithTimeout(context.Background(), 5*time.Minute)
	defer cancel()
	c.start = time.Now()
	var err error
	func() {
		defer func() {
			if r := recover(); r != nil {
				err = fmt.Errorf("panic: %v", r)
			}
		}()
		err = root.ExecuteContext(ctx)
	}()
	c.end = time.Now()
	for _, km := range c.kms {
		km.srv.Close()
	}
	return c, err
}

// load reads what every node holds with the loaders of `charon run` / `charon combine`.
func (c *clu) load(n int) {
	c.lockRaw = make([][]byte, n)
	c.lockOK = make([]bool, n)
	c.sk = make([][]tbls.PrivateKey, n)
	c.P = make([][]tbls.PublicKey, n)
	c.files = make([][][]eth2p0.DepositData, n)
	for i := 0; i < n; i++ {
		nd := filepath.Join(c.dir, fmt.Sprintf("node%d", i))
		if raw, err := os.ReadFile(filepath.Join(nd, "cluster-lock.json")); err == nil {
			c.lockRaw[i] = raw
			_, err := cluster.LoadClusterLock(context.Background(), filepath.Join(nd, "cluster-lock.json"), false, nil)
			c.lockOK[i] = err == nil
		}
		if i < len(c.kms) {
			c.sk[i], _, _ = c.kms[i].secrets()
		} else if ks, err := loadKeys(filepath.Join(nd, "validator_keys")); err == nil {
			c.sk[i] = ks
		}
		for _, s := range c.sk[i] {
			p, err := tbls.SecretToPublicKey(s)
			hx.Must(err)
			c.P[i] = append(c.P[i], p)
		}
		if fs, err := deposit.ReadDepositDataFiles(nd); err == nil {
			c.files[i] = fs
		}
	}
}

// derive computes the group secrets from the keystores and evaluates the artifact monitors.
func (c *clu) derive(run *hx.Run) bool {
	p := c.p
	descr := p.line()
	if c.lockRaw[0] == nil || json.Unmarshal(c.lockRaw[0], &c.lock) != nil {
		run.Violate("create:lock_missing", descr+": node0 has no readable cluster-lock.json after a successful run")
		return false
	}
	c.n, c.t = len(c.lock.Operators), c.lock.Threshold
	nv := len(c.lock.Validators)
	for i := 0; i < c.n; i++ {
		if !bytes.Equal(c.lockRaw[i], c.lockRaw[0]) {
			run.Violate("create:locks_differ", fmt.Sprintf("%s: node%d's lock file differs from node0's", descr, i))
		}
		if !c.lockOK[i] {
			switch {
			case c.t > c.n:
				run.Violate("create:lock_threshold_exceeds_nodes", fmt.Sprintf("%s: create cluster succeeded and wrote a lock with threshold %d for %d operators that cluster.LoadClusterLock rejects (node%d)", descr, c.t, c.n, i))
			case p.dupk:
				run.Violate("create:duplicate_split_key_lock_invalid", fmt.Sprintf("%s: create cluster succeeded on a split-keys directory holding one key twice and wrote a lock that cluster.LoadClusterLock rejects (node%d)", descr, i))
			default:
				run.Violate("create:lock_not_verifying", fmt.Sprintf("%s: node%d's lock is rejected by cluster.LoadClusterLock", descr, i))
			}
		}
		if len(c.sk[i]) != nv {
			run.Violate("create:keystore_count", fmt.Sprintf("%s: node%d holds %d key shares for %d validators", descr, i, len(c.sk[i]), nv))
			return false
		}
	}
	// group secrets from the first t nodes' key shares
	c.X = make([]tbls.PrivateKey, nv)
	c.G = make([]tbls.PublicKey, nv)
	for k := 0; k < nv; k++ {
		if c.t >= 1 && c.t <= c.n {
			m := map[int]tbls.PrivateKey{}
			for j := 0; j < c.t; j++ {
				m[j+1] = c.sk[j][k]
			}
			x, err := tbls.RecoverSecret(m, uint(c.n), uint(c.t))
			hx.Must(err)
			c.X[k] = x
			g, err := tbls.SecretToPublicKey(x)
			hx.Must(err)
			c.G[k] = g
		} else {
			copy(c.G[k][:], c.lock.Validators[k].PubKey)
		}
		if !bytes.Equal(c.lock.Validators[k].PubKey, c.G[k][:]) {
			run.Violate("create:subset_recombines_other_key", fmt.Sprintf("%s: the first %d key shares of validator %d recombine to a key that is not the lock's validator key", descr, c.t, k))
		}
	}
	// split mode: the key shares recombine to the keys of the split-keys directory — in file-index order when
	// the addresses differ per validator (strict sequence), in any order otherwise (keystore.LoadFilesRecursively
	// returns the files in completion order of its workers)
	if p.split && len(c.imported) == 0 {
		// an empty split-keys directory with a definition file: runCreateCluster generates fresh keys (len(secrets) == 0)
		run.Count("create:split_empty_dir_fresh_keys")
	}
	if p.split && len(c.imported) > 0 {
		used := map[int]bool{}
		c.p.order = nil
		for k := 0; k < nv; k++ {
			found := -1
			for i := range c.imported {
				if pk, _ := tbls.SecretToPublicKey(c.imported[i]); !used[i] && (c.imported[i] == c.X[k] || (c.t > c.n && bytes.Equal(pk[:], c.lock.Validators[k].PubKey))) {
					found = i
					break
				}
			}
			if found < 0 {
				run.Violate("create:split_key_not_preserved", fmt.Sprintf("%s: the key shares of validator %d recombine to no key of the split-keys directory", descr, k))
				return false
			}
			used[found] = true
			c.p.order = append(c.p.order, found)
			if c.t > c.n {
				c.X[k] = c.imported[found]
				c.G[k], _ = tbls.SecretToPublicKey(c.X[k])
			}
			if c.seqRequired() && found != k {
				run.Violate("create:split_key_order", fmt.Sprintf("%s: addresses differ per validator but lock validator %d holds key file %d", descr, k, found))
			}
		}
	}
	c.monitors(run)
	return true
}

// seqRequired: does create cluster promise that lock validator k is key file k?
func (c *clu) seqRequired() bool {
	p := c.p
	if p.mode == "flags" {
		return p.fa > 1 || p.wa > 1
	}
	return p.distinct && p.addrs > 1
}

func dedupSorted(xs []eth2p0.Gwei) []eth2p0.Gwei {
	seen := map[eth2p0.Gwei]bool{}
	var out []eth2p0.Gwei
	for _, x := range xs {
		if !seen[x] {
			seen[x] = true
			out = append(out, x)
		}
	}
	sort.Slice(out, func(i, j int) bool { return out[i] < out[j] })
	return out
}

// monitors: the clauses of C12 about create cluster, on what was written, with tbls and SSZ only.
func (c *clu) monitors(run *hx.Run) {
	p := c.p
	descr := p.line()
	nv := len(c.lock.Validators)
	mv, _ := strconv.Atoi(minorOf(c.lock.Version))
	// (1) share placement
	for i := 0; i < c.n; i++ {
		for k := 0; k < nv; k++ {
			v := c.lock.Validators[k]
			if i >= len(v.PubShares) || !bytes.Equal(v.PubShares[i], c.P[i][k][:]) {
				run.Violate("create:share_not_matching_pubshare", fmt.Sprintf("%s: key share %d of node%d is not public share %d of lock validator %d", descr, k, i, i, k))
			}
		}
	}
	// (2) every threshold subset recombines to the validator key
	if c.t >= 1 && c.t <= c.n && !p.dupk {
		for k := 0; k < nv; k++ {
			check := func(idx []int) {
				m := map[int]tbls.PrivateKey{}
				for _, i := range idx {
					m[i+1] = c.sk[i][k]
				}
				x, err := tbls.RecoverSecret(m, uint(c.n), uint(c.t))
				if err != nil || x != c.X[k] {
					run.Violate("create:subset_recombines_other_key", fmt.Sprintf("%s: key shares of nodes %v of validator %d recombine to another key (%v)", descr, idx, k, err))
				}
				run.Count("create:subset_recombined")
			}
			if c.n <= 6 {
				subsets(c.n, c.t, check)
			} else {
				for s := 0; s < 10; s++ {
					check(permOf(c.n, uint64(k*131+s*17+p.id))[:c.t])
				}
			}
		}
	}
	// (3) deposit data and registrations
	want := deposit.EthsToGweis(p.am)
	if len(want) == 0 {
		want = deposit.DefaultDepositAmounts(p.comp)
	}
	want = dedupSorted(want)
	inLock := want
	switch {
	case mv < 6:
		inLock = nil
	case mv < 8:
		inLock = want[:1]
	}
	wdOf := func(k int) string {
		if len(c.wd) == 1 {
			return c.wd[0]
		}
		return c.wd[k%len(c.wd)]
	}
	feeOf := func(k int) string {
		if len(c.fee) == 1 {
			return c.fee[0]
		}
		return c.fee[k%len(c.fee)]
	}
	checkDD := func(where string, k int, pk, creds []byte, amt eth2p0.Gwei, sig []byte) {
		if !bytes.Equal(pk, c.G[k][:]) || !bytes.Equal(creds, withdrawalCreds(wdOf(k), p.comp)) ||
			sigClass(c.G[k][:], c.depositRoot(c.G[k][:], withdrawalCreds(wdOf(k), p.comp), amt), sig) != "G" {
			run.Violate("create:deposit_not_verifying", fmt.Sprintf("%s: %s: deposit data of validator %d for %d Gwei is not a valid deposit of the validator key to its configured withdrawal address", descr, where, k, amt))
		}
		run.Count("create:deposit_checked")
	}
	if !p.dupk {
		for k, v := range c.lock.Validators {
			var got []eth2p0.Gwei
			for _, dd := range v.PartialDepositData {
				got = append(got, eth2p0.Gwei(dd.Amount))
				checkDD("lock", k, dd.PubKey, dd.WithdrawalCredentials, eth2p0.Gwei(dd.Amount), dd.Signature)
			}
			if fmt.Sprint(got) != fmt.Sprint(inLock) {
				run.Violate("create:deposit_amounts", fmt.Sprintf("%s: lock validator %d has deposit data for %v, configured (deduplicated) %v", descr, k, got, inLock))
			}
		}
		for i := 0; i < c.n; i++ {
			var got []eth2p0.Gwei
			for _, f := range c.files[i] {
				if len(f) != nv {
					run.Violate("create:deposit_amounts", fmt.Sprintf("%s: a deposit-data file of node%d has %d entries for %d validators", descr, i, len(f), nv))
					continue
				}
				got = append(got, f[0].Amount)
				for _, dd := range f {
					k := -1
					for x := range c.G {
						if bytes.Equal(dd.PublicKey[:], c.G[x][:]) {
							k = x
						}
					}
					if k < 0 {
						run.Violate("create:deposit_not_verifying", fmt.Sprintf("%s: deposit-data file of node%d has an entry for an unknown key", descr, i))
						continue
					}
					if i == 0 || i == c.n-1 {
						checkDD(fmt.Sprintf("file of node%d", i), k, dd.PublicKey[:], dd.WithdrawalCredentials, dd.Amount, dd.Signature[:])
					}
				}
			}
			sort.Slice(got, func(a, b int) bool { return got[a] < got[b] })
			if fmt.Sprint(got) != fmt.Sprint(want) {
				run.Violate("create:deposit_amounts", fmt.Sprintf("%s: node%d has deposit-data files for %v, configured (deduplicated) %v", descr, i, got, want))
			}
		}
		if mv >= 7 {
			gas := p.gas
			if gas == 0 {
				gas = 30000000
			}
			for k, v := range c.lock.Validators {
				r := v.BuilderRegistration
				wantTS := "gen"
				if p.split {
					wantTS = "now"
				}
				if !bytes.Equal(r.Message.PubKey, c.G[k][:]) || !strings.EqualFold("0x"+hex.EncodeToString(r.Message.FeeRecipient), feeOf(k)) ||
					r.Message.GasLimit != gas || c.tsID(r.Message.Timestamp) != wantTS {
					run.Violate("create:registration_fields", fmt.Sprintf("%s: builder registration of validator %d: key / fee recipient / gas limit %d / timestamp %s not as configured (gas %d, %s)", descr, k, r.Message.GasLimit, c.tsID(r.Message.Timestamp), gas, wantTS))
				}
				if sigClass(c.G[k][:], c.regRoot(c.G[k][:], r.Message.FeeRecipient, uint64(r.Message.GasLimit), r.Message.Timestamp), r.Signature) != "G" {
					run.Violate("create:registration_not_verifying", fmt.Sprintf("%s: builder registration of validator %d is not signed by the validator key", descr, k))
				}
				run.Count("create:registration_checked")
			}
		}
	}
	// keystore encryption round trip (assumption of the model)
	rt := filepath.Join(c.dir, "roundtrip")
	hx.Must(os.MkdirAll(rt, 0o755))
	rtKeys := c.X
	if c.t > c.n {
		rtKeys = c.sk[0] // no group secret can be computed: use node0's key shares
	}
	for k, x := range rtKeys {
		writeKeystore(rt, fmt.Sprintf("keystore-insecure-%d", k), x, false)
	}
	if back, err := loadKeys(rt); err != nil || len(back) != len(rtKeys) {
		run.Violate("keystore:roundtrip", fmt.Sprintf("%s: %d keystores stored, %d loaded (%v)", descr, len(rtKeys), len(back), err))
	} else {
		for k := range back {
			if back[k] != rtKeys[k] {
				run.Violate("keystore:roundtrip", fmt.Sprintf("%s: keystore %d decrypts to another secret", descr, k))
			}
		}
	}
	_ = os.RemoveAll(rt)
}

func subsets(n, k int, f func([]int)) {
	idx := make([]int, k)
	var rec func(start, depth int)
	rec = func(start, depth int) {
		if depth == k {
			f(append([]int(nil), idx...))
			return
		}
		for i := start; i <= n-(k-depth); i++ {
			idx[depth] = i
			rec(i+1, depth+1)
		}
	}
	rec(0, 0)
}

func permOf(n int, seed uint64) []int { return hx.NewRng(seed).Perm(n) }

// ---- ops ----

func (d *drv) opCreate(p params) {
	for _, c := range []*clu{d.own, d.alt} {
		if c != nil {
			_ = os.RemoveAll(filepath.Dir(c.dir))
		}
	}
	if d.epDir != "" {
		_ = os.RemoveAll(d.epDir)
	}
	d.own, d.alt, d.failed, d.valSeen, d.combSeq = nil, nil, nil, map[int]bool{}, 0
	d.epDir = filepath.Join(d.dir, fmt.Sprintf("e%d", p.id))
	d.run.Count("create")
	d.run.Count("create:mode:" + p.mode)
	c, err := d.runCreate(p, filepath.Join(d.epDir, "cluster"), "")
	if err != nil {
		class := classifyCreateErr(err)
		if os.Getenv("VERIF_DEBUG") != "" {
			fmt.Fprintf(os.Stderr, "create error: %v => %s\n", err, class)
		}
		d.run.Count("create:err:" + class)
		d.run.Case("create:err:" + class + ":" + p.mode)
		pp := p
		d.failed = &pp
		d.own = nil
		d.failedClu = c
		d.run.Op(p.line(), "err "+class)
		return
	}
	n := p.n
	c.load(n)
	if !c.derive(d.run) {
		d.run.Op(p.line(), "ok")
		return
	}
	d.own = c
	d.run.Count("create:ok")
	d.run.Case(fmt.Sprintf("create:ok:%s:n%d:t%d:v%d:am%v:c%v:s%v:ver%d", p.mode, p.n, c.t, len(c.X), p.am, p.comp, p.split, p.ver))
	d.run.Op(c.p.line(), "ok")
}

func (d *drv) opAlt(op string, n, t, v int) {
	p := params{id: 9000 + d.combSeq, mode: "flags", n: n, t: t, tf: true, v: v, fa: 1, wa: 1, ins: true, net: "goerli", ver: 11, gas: 60000000, proto: true, name: true, defok: true, ex: -1, fail: "-"}
	c, err := d.runCreate(p, filepath.Join(d.epDir, "alt"), "a")
	if err != nil {
		d.run.Violate("create:failed_valid_config", fmt.Sprintf("%s: %v", p.line(), err))
		d.run.Op(op, "err")
		return
	}
	c.load(n)
	if !c.derive(d.run) {
		d.run.Op(op, "err")
		return
	}
	d.alt = c
	d.run.Count("alt")
	d.run.Op(op, "ok")
}

func (d *drv) opVal(k int) {
	c := d.own
	if k < 0 || k >= len(c.X) {
		d.run.Op(fmt.Sprintf("val %d imp=- -", k), "bad-op")
		return
	}
	var sks []string
	for j := 0; j < c.n; j++ {
		sks = append(sks, fmt.Sprintf("%d:%x", j+1, c.sk[j][k][:]))
	}
	imp, impOut := "-", "-"
	if c.p.split && k < len(c.p.order) {
		imp = hex.EncodeToString(c.imported[c.p.order[k]][:])
		impOut = b01(c.X[k] == c.imported[c.p.order[k]])
	}
	okPK := bytes.Equal(c.lock.Validators[k].PubKey, c.G[k][:])
	d.valSeen[k] = true
	d.run.Count("val")
	d.run.Op(fmt.Sprintf("val %d imp=%s %s", k, imp, strings.Join(sks, ",")), fmt.Sprintf("x=%x pk=%s imp=%s", c.X[k][:], b01(okPK), impOut))
}

func (d *drv) opRec(op string, k int, ids []int) {
	c := d.own
	if !d.valSeen[k] || len(ids) == 0 {
		d.run.Op(op, "bad-op")
		return
	}
	sub := map[int]tbls.PrivateKey{}
	for _, j := range ids {
		if j < 1 || j > c.n {
			d.run.Op(op, "bad-op")
			return
		}
		sub[j] = c.sk[j-1][k]
	}
	x, err := tbls.RecoverSecret(sub, uint(c.n), uint(c.t))
	if err != nil {
		d.run.Op(op, "err")
		return
	}
	same := x == c.X[k]
	if len(sub) >= c.t && !same {
		d.run.Violate("create:subset_recombines_other_key", fmt.Sprintf("%s: key shares %v of validator %d recombine to another key", c.p.line(), ids, k))
	}
	if len(sub) < c.t && same {
		d.run.Violate("create:below_threshold_recombines", fmt.Sprintf("%s: %d < t=%d key shares %v of validator %d recombine to the validator key", c.p.line(), len(sub), c.t, ids, k))
	}
	d.run.Count("rec")
	d.run.Case(fmt.Sprintf("rec:n%d:t%d:%d", c.n, c.t, len(sub)))
	d.run.Op(op, fmt.Sprintf("x=%x same=%s", x[:], b01(same)))
}

// opDisk: what exists per node after a failed create.
func (d *drv) opDisk(op string) {
	p := *d.failed
	dir := filepath.Join(d.epDir, "cluster")
	var p2p, ks, dep, lock []string
	for i := 0; i < p.n; i++ {
		nd := filepath.Join(dir, fmt.Sprintf("node%d", i))
		st, err := os.Stat(filepath.Join(nd, "charon-enr-private-key"))
		p2p = append(p2p, b01(err == nil && !st.IsDir()))
		keys, _ := filepath.Glob(filepath.Join(nd, "validator_keys", "keystore-*.json"))
		ks = append(ks, strconv.Itoa(len(keys)))
		var amts []int
		dfs, _ := filepath.Glob(filepath.Join(nd, "deposit-data*.json"))
		for _, df := range dfs {
			var ents []struct {
				Amount uint64 `json:"amount"`
			}
			if b, err := os.ReadFile(df); err == nil && json.Unmarshal(b, &ents) == nil && len(ents) > 0 {
				amts = append(amts, int(ents[0].Amount))
			}
		}
		sort.Ints(amts)
		dep = append(dep, intsStr(amts, "+"))
		lst, err := os.Stat(filepath.Join(nd, "cluster-lock.json"))
		hasLock := err == nil && !lst.IsDir() && p.ex != i
		lock = append(lock, b01(hasLock))
		// property (5): a node directory that carries a lock is complete and consistent
		if hasLock {
			l, err := cluster.LoadClusterLock(context.Background(), filepath.Join(nd, "cluster-lock.json"), false, nil)
			if err != nil {
				d.run.Violate("create:partial_lock_not_verifying", fmt.Sprintf("%s: after the failed run node%d carries a lock that does not verify: %v", p.line(), i, err))
			} else {
				secrets, err := loadKeys(filepath.Join(nd, "validator_keys"))
				if p.kma == 0 && (err != nil || len(secrets) != len(l.Validators)) {
					d.run.Violate("create:partial_accepted_by_run", fmt.Sprintf("%s: after the failed run node%d carries a valid lock but %d key shares (%v)", p.line(), i, len(secrets), err))
				}
				for k, s := range secrets {
					pk, _ := tbls.SecretToPublicKey(s)
					if k < len(l.Validators) && !bytes.Equal(pk[:], l.Validators[k].PubShares[i]) {
						d.run.Violate("create:partial_accepted_by_run", fmt.Sprintf("%s: after the failed run node%d carries a valid lock whose public share %d of validator %d is not its key share", p.line(), i, i, k))
					}
				}
			}
		}
	}
	d.run.Count("disk")
	d.run.Op(op, fmt.Sprintf("p2p=%s ks=%s dep=%s lock=%s", strings.Join(p2p, ""), strings.Join(ks, ","), strings.Join(dep, ","), strings.Join(lock, "")))
}
