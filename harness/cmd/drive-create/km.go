package main

// Keymanager mode of create cluster (--keymanager-addresses / --keymanager-auth-tokens, writeKeysToKeymanager):
// one HTTP keymanager per node inside the driver. Modes (one letter per node in the `kmr=` field):
// a accepts, e answers 500, d is down (the listener is closed before the run: the ping fails).

import (
	"encoding/json"
	"fmt"
	"io"
	"net/http"
	"net/http/httptest"
	"sync"

	keystorev4 "github.com/wealdtech/go-eth2-wallet-encryptor-keystorev4"

	"github.com/obolnetwork/charon/eth2util/keystore"
	"github.com/obolnetwork/charon/tbls"
	"github.com/obolnetwork/charon/tbls/tblsconv"
)

const kmToken = "verif-keymanager-token"

type kmImport struct {
	Keystores []string `json:"keystores"`
	Passwords []string `json:"passwords"`
}

type kmServer struct {
	mode     byte
	srv      *httptest.Server
	mu       sync.Mutex
	requests int
	accepted []kmImport
}

func newKMServer(mode byte) *kmServer {
	k := &kmServer{mode: mode}
	k.srv = httptest.NewServer(http.HandlerFunc(func(w http.ResponseWriter, r *http.Request) {
		body, _ := io.ReadAll(r.Body)
		k.mu.Lock()
		defer k.mu.Unlock()
		k.requests++
		status := http.StatusOK
		switch {
		case r.Method != http.MethodPost || r.URL.Path != "/eth/v1/keystores":
			status = http.StatusNotFound
		case r.Header.Get("Authorization") != "Bearer "+kmToken:
			status = http.StatusUnauthorized
		case k.mode == 'e':
			status = http.StatusInternalServerError
		}
		var imp kmImport
		if status == http.StatusOK && (json.Unmarshal(body, &imp) != nil || len(imp.Keystores) != len(imp.Passwords)) {
			status = http.StatusBadRequest
		}
		if status == http.StatusOK {
			k.accepted = append(k.accepted, imp)
		}
		w.WriteHeader(status)
		_, _ = w.Write([]byte(`{"data":[]}`))
	}))
	if mode == 'd' {
		k.srv.Close()
	}
	return k
}

// secrets decrypts what the keymanager accepted (the last accepted import).
func (k *kmServer) secrets() ([]tbls.PrivateKey, []string, error) {
	k.mu.Lock()
	defer k.mu.Unlock()
	if len(k.accepted) == 0 {
		return nil, nil, fmt.Errorf("no accepted import")
	}
	imp := k.accepted[len(k.accepted)-1]
	var out []tbls.PrivateKey
	var pubs []string
	for i, ksJSON := range imp.Keystores {
		var store keystore.Keystore
		if err := json.Unmarshal([]byte(ksJSON), &store); err != nil {
			return nil, nil, err
		}
		b, err := keystorev4.New().Decrypt(store.Crypto, imp.Passwords[i])
		if err != nil {
			return nil, nil, err
		}
		sk, err := tblsconv.PrivkeyFromBytes(b)
		if err != nil {
			return nil, nil, err
		}
		out = append(out, sk)
		pubs = append(pubs, store.Pubkey)
	}
	return out, pubs, nil
}
