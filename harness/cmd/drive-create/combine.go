package main

import (
	"bytes"
	"context"
	"encoding/json"
	"fmt"
	"os"
	"path/filepath"
	"regexp"
	"sort"
	"strconv"
	"strings"

	eth2p0 "github.com/attestantio/go-eth2-client/spec/phase0"

	"github.com/obolnetwork/charon/cluster"
	"github.com/obolnetwork/charon/cmd"
	"github.com/obolnetwork/charon/cmd/combine"
	"github.com/obolnetwork/charon/core"
	"github.com/obolnetwork/charon/eth2util"
	"github.com/obolnetwork/charon/tbls"

	"verifharness/hx"
)

func classifyCombineErr(err error) string {
	m := err.Error()
	has := func(s string) bool { return strings.Contains(m, s) }
	switch {
	case has("panic"):
		return "panic"
	case has("manifest load error"):
		return "manifestLoad"
	case has("mismatching last mutation hash"):
		return "lockMismatch"
	case has("no manifest file found"):
		return "noManifest"
	case has("load private key share"):
		return "loadKeys"
	case has("order private key shares"):
		return "sequence"
	case has("insufficient private key shares"):
		return "insufficient"
	case has("secret key share not found"):
		return "notFound"
	case has("recover private key share"):
		return "recover"
	case has("unexpected resulting combined validator public key"):
		return "keyMismatch"
	case has("refusing to overwrite"):
		return "exists"
	}
	return "other:" + strings.ReplaceAll(m, " ", "_")
}

func runCombine(in, out string, force, noverify bool) (err error) {
	defer func() {
		if r := recover(); r != nil {
			err = fmt.Errorf("panic: %v", r)
		}
	}()
	return combine.Combine(context.Background(), in, out, force, noverify, "", eth2util.Network{}, combine.WithInsecureKeysForT(nil))
}

func listing(dir string) string {
	var out []string
	_ = filepath.Walk(dir, func(p string, info os.FileInfo, err error) error {
		if err == nil {
			out = append(out, fmt.Sprintf("%s:%d", strings.TrimPrefix(p, dir), info.Size()))
		}
		return nil
	})
	return strings.Join(out, "|")
}

// tamper edits the lock JSON without touching the stored hashes.
func tamper(kind byte, raw []byte, t int) []byte {
	switch kind {
	case 'U':
		re := regexp.MustCompile(`("name"\s*:\s*")`)
		if loc := re.FindIndex(raw); loc != nil {
			return append(append(append([]byte(nil), raw[:loc[1]]...), 'x'), raw[loc[1]:]...)
		}
	case 'T':
		re := regexp.MustCompile(`"threshold"\s*:\s*` + strconv.Itoa(t))
		if loc := re.FindIndex(raw); loc != nil {
			return append(append(append([]byte(nil), raw[:loc[0]]...), []byte(fmt.Sprintf(`"threshold": %d`, t-1))...), raw[loc[1]:]...)
		}
	case 'P':
		re := regexp.MustCompile(`"public_shares"\s*:\s*\[\s*("0x[0-9a-f]+")\s*,\s*("0x[0-9a-f]+")`)
		if loc := re.FindSubmatchIndex(raw); loc != nil {
			a, b := string(raw[loc[2]:loc[3]]), string(raw[loc[4]:loc[5]])
			out := append([]byte(nil), raw[:loc[2]]...)
			out = append(out, []byte(b)...)
			out = append(out, raw[loc[3]:loc[4]]...)
			out = append(out, []byte(a)...)
			return append(out, raw[loc[5]:]...)
		}
	}
	panic("tamper: pattern not found")
}

type keyEnt struct {
	idx    int // -1: file name without index
	secret tbls.PrivateKey
	wrong  bool
}

type combDir struct {
	lockKind byte
	lockRaw  []byte
	ents     []keyEnt
	honest   int // node index whose complete, unaltered directory this is (-1 otherwise)
}

// opComb: `comb nv=<b> f=<b> out=<b> dirs=<L:K/...>`.
func (d *drv) opComb(op string, f []string) {
	c := d.own
	var noverify, force, outExists bool
	var spec string
	for _, kv := range f {
		switch {
		case strings.HasPrefix(kv, "nv="):
			noverify = kv[3:] == "1"
		case strings.HasPrefix(kv, "f="):
			force = kv[2:] == "1"
		case strings.HasPrefix(kv, "out="):
			outExists = kv[4:] == "1"
		case strings.HasPrefix(kv, "dirs="):
			spec = kv[5:]
		}
	}
	d.combSeq++
	base := filepath.Join(d.epDir, fmt.Sprintf("comb-%d", d.combSeq))
	in, out := filepath.Join(base, "in"), filepath.Join(base, "out")
	hx.Must(os.MkdirAll(in, 0o755))
	defer os.RemoveAll(base)
	var dirs []combDir
	for i, ds := range strings.Split(spec, "/") {
		lk := strings.SplitN(ds, ":", 2)
		if len(lk) != 2 || len(lk[0]) != 1 {
			d.run.Op(op, "bad-op")
			return
		}
		cd := combDir{lockKind: lk[0][0], honest: -1}
		name := filepath.Join(in, fmt.Sprintf("d%02d", i))
		if cd.lockKind == 'N' {
			hx.Must(os.WriteFile(name, []byte("not a directory"), 0o644))
			dirs = append(dirs, cd)
			continue
		}
		hx.Must(os.MkdirAll(name, 0o755))
		switch cd.lockKind {
		case 'L', 'K':
			cd.lockRaw = c.lockRaw[0]
		case 'A':
			if d.alt == nil {
				d.run.Op(op, "bad-op")
				return
			}
			cd.lockRaw = d.alt.lockRaw[0]
		case 'U', 'T', 'P':
			cd.lockRaw = tamper(cd.lockKind, c.lockRaw[0], c.t)
		case 'J':
			cd.lockRaw = []byte("this is not json")
		case '-':
		default:
			d.run.Op(op, "bad-op")
			return
		}
		if cd.lockRaw != nil {
			hx.Must(os.WriteFile(filepath.Join(name, "cluster-lock.json"), cd.lockRaw, 0o644))
		}
		if cd.lockKind == 'K' {
			dirs = append(dirs, cd)
			continue
		}
		kd := filepath.Join(name, "validator_keys")
		hx.Must(os.MkdirAll(kd, 0o755))
		nox := 0
		honestNode, honest := -1, cd.lockKind == 'L'
		if lk[1] != "-" {
			for pos, es := range strings.Split(lk[1], ",") {
				kv := strings.SplitN(es, "=", 2)
				if len(kv) != 2 {
					d.run.Op(op, "bad-op")
					return
				}
				e := keyEnt{idx: -1}
				fname := ""
				if kv[0] == "x" {
					fname = fmt.Sprintf("keystore-foo%c", 'a'+nox)
					nox++
					honest = false
				} else {
					e.idx, _ = strconv.Atoi(kv[0])
					fname = fmt.Sprintf("keystore-insecure-%d", e.idx)
				}
				src := kv[1]
				if strings.HasPrefix(src, "!") {
					e.wrong = true
					src = src[1:]
				}
				from := c
				switch {
				case strings.HasPrefix(src, "r"):
					s, err := tbls.GenerateSecretKey()
					hx.Must(err)
					e.secret = s
					honest = false
				default:
					if strings.HasPrefix(src, "a") {
						from = d.alt
						src = src[1:]
						honest = false
					}
					jk := strings.Split(src, ".")
					if from == nil || len(jk) != 2 {
						d.run.Op(op, "bad-op")
						return
					}
					j, _ := strconv.Atoi(jk[0])
					k, _ := strconv.Atoi(jk[1])
					if j < 1 || j > from.n || k < 0 || k >= len(from.X) {
						d.run.Op(op, "bad-op")
						return
					}
					e.secret = from.sk[j-1][k]
					if e.idx != k || e.idx != pos || e.wrong || (honestNode >= 0 && honestNode != j-1) {
						honest = false
					}
					honestNode = j - 1
				}
				writeKeystore(kd, fname, e.secret, e.wrong)
				cd.ents = append(cd.ents, e)
			}
		} else {
			honest = false
		}
		if honest && len(cd.ents) == len(c.X) {
			cd.honest = honestNode
		}
		dirs = append(dirs, cd)
	}
	if outExists {
		hx.Must(os.MkdirAll(out, 0o755))
		hx.Must(os.WriteFile(filepath.Join(out, "keystore-0.json"), []byte("previous"), 0o644))
		hx.Must(os.WriteFile(filepath.Join(out, "keystore-0.txt"), []byte("previous"), 0o644))
		hx.Must(os.WriteFile(filepath.Join(out, "keystore-insecure-7.json"), []byte("previous"), 0o644))
	}
	before := listing(out)
	cerr := runCombine(in, out, force, noverify)
	descr := fmt.Sprintf("%s: %s", c.p.line(), op)

	// what the harness knows about the input, independent of the model
	var considered []combDir
	for _, cd := range dirs {
		if cd.lockKind != 'N' && cd.lockKind != 'K' {
			considered = append(considered, cd)
		}
	}
	res := ""
	if cerr != nil {
		res = "err " + classifyCombineErr(cerr)
		if after := listing(out); after != before {
			d.run.Violate("combine:partial_output_on_error", fmt.Sprintf("%s: combine failed (%v) but the output directory changed: before [%s] after [%s]", descr, cerr, before, after))
		}
		// liveness: complete unaltered directories of at least threshold different nodes must be combined
		nodes := map[int]bool{}
		allHonest := len(considered) > 0
		for _, cd := range considered {
			if cd.honest < 0 {
				allHonest = false
			}
			nodes[cd.honest] = true
		}
		if allHonest && len(nodes) == len(considered) && len(nodes) >= c.t && (!outExists || force) && c.lockOK[0] {
			d.run.Violate("combine:refused_honest_threshold", fmt.Sprintf("%s: combine refused the unaltered directories of %d >= t=%d nodes: %v", descr, len(nodes), c.t, cerr))
		}
	} else {
		var used cluster.Lock
		usedRaw := considered[len(considered)-1].lockRaw
		hx.Must(json.Unmarshal(usedRaw, &used))
		if !noverify {
			for _, cd := range considered {
				var l cluster.Lock
				if cd.lockRaw == nil || json.Unmarshal(cd.lockRaw, &l) != nil || !bytes.Equal(l.LockHash, used.LockHash) || (cd.lockKind != 'L' && cd.lockKind != 'A') {
					d.run.Violate("combine:accepted_mismatching_lock", fmt.Sprintf("%s: combine accepted although the directories carry different / altered locks (kind %c)", descr, cd.lockKind))
					break
				}
			}
		}
	foreign:
		for _, cd := range considered {
			for _, e := range cd.ents {
				pk, _ := tbls.SecretToPublicKey(e.secret)
				found := false
				if e.idx >= 0 && e.idx < len(used.Validators) {
					for _, ps := range used.Validators[e.idx].PubShares {
						found = found || bytes.Equal(ps, pk[:])
					}
				}
				if !found {
					d.run.Violate("combine:accepted_foreign_share", fmt.Sprintf("%s: combine accepted although keystore %d of a directory holds a secret that is no share of lock validator %d", descr, e.idx, e.idx))
					break foreign
				}
			}
		}
		ks, err := loadKeys(out)
		if err != nil {
			d.run.Violate("keystore:roundtrip", fmt.Sprintf("%s: the combined keystores cannot be loaded: %v", descr, err))
		}
		var names []string
		for k, s := range ks {
			pk, _ := tbls.SecretToPublicKey(s)
			name := "?"
			for x := range c.X {
				if c.X[x] == s {
					name = fmt.Sprintf("v%d", x)
				}
			}
			if d.alt != nil {
				for x := range d.alt.X {
					if d.alt.X[x] == s {
						name = fmt.Sprintf("av%d", x)
					}
				}
			}
			names = append(names, name)
			if k >= len(used.Validators) || !bytes.Equal(pk[:], used.Validators[k].PubKey) || (bytes.Equal(usedRaw, c.lockRaw[0]) && s != c.X[k]) {
				d.run.Violate("combine:wrong_secret", fmt.Sprintf("%s: combined keystore %d is not the secret of lock validator %d", descr, k, k))
			}
		}
		if outExists && !force {
			d.run.Violate("combine:overwrote_without_force", descr)
		}
		res = "ok " + dash(strings.Join(names, ","))
	}
	d.run.Count("comb")
	d.run.Count("comb:" + strings.Fields(res)[0] + ":" + strings.Join(strings.Fields(res)[1:2], ""))
	d.run.Case("comb:" + lockKinds(dirs) + ":" + res + fmt.Sprintf(":nv%v", noverify))
	d.run.Op(op, res)
}

func lockKinds(dirs []combDir) string {
	var b []byte
	for _, cd := range dirs {
		b = append(b, cd.lockKind)
	}
	sort.Slice(b, func(i, j int) bool { return b[i] < b[j] })
	return string(b)
}

// opPComb: combine on the cluster directory a failed create left behind.
func (d *drv) opPComb(op string) {
	p := *d.failed
	in := filepath.Join(d.epDir, "cluster")
	out := filepath.Join(d.epDir, "pcomb-out")
	res := "err noManifest"
	if _, err := os.Stat(in); err == nil {
		cerr := runCombine(in, out, false, false)
		if cerr == nil {
			res = "ok"
			d.run.Violate("create:partial_accepted_by_combine", fmt.Sprintf("%s: combine accepts the cluster directory the failed run left behind", p.line()))
		} else {
			res = "err " + classifyCombineErr(cerr)
			if strings.Contains(cerr.Error(), "read directory") {
				res = "err noManifest"
			}
		}
	}
	_ = os.RemoveAll(out)
	d.run.Count("pcomb:" + res)
	d.run.Op(op, res)
}

// opGV: getValidators (hook) on inputs assembled from the episode's cluster:
// `gv pk=<k,..|-> sets=<m> dd=<amount:k.k;..|-> regs=<k,..|->` (k = `x`: a key of no validator).
func (d *drv) opGV(op string, f []string) {
	c := d.own
	if c.t > c.n {
		d.run.Op(op, "bad-op")
		return
	}
	var pkS, ddS, regS string
	m := 0
	for _, kv := range f {
		switch {
		case strings.HasPrefix(kv, "pk="):
			pkS = kv[3:]
		case strings.HasPrefix(kv, "sets="):
			m, _ = strconv.Atoi(kv[5:])
		case strings.HasPrefix(kv, "dd="):
			ddS = kv[3:]
		case strings.HasPrefix(kv, "regs="):
			regS = kv[5:]
		}
	}
	nv := len(c.X)
	foreign, err := tbls.GenerateSecretKey()
	hx.Must(err)
	secOf := func(s string) (tbls.PrivateKey, int, bool) {
		if s == "x" {
			return foreign, 0, true
		}
		k, err := strconv.Atoi(s)
		if err != nil || k < 0 || k >= nv {
			return tbls.PrivateKey{}, 0, false
		}
		return c.X[k], k, true
	}
	wdOf := func(k int) string { return c.wd[k%len(c.wd)] }
	feeOf := func(k int) string { return c.fee[k%len(c.fee)] }
	if len(c.wd) == 1 {
		wdOf = func(int) string { return c.wd[0] }
	}
	if len(c.fee) == 1 {
		feeOf = func(int) string { return c.fee[0] }
	}
	var pubkeys []tbls.PublicKey
	if pkS != "-" {
		for _, s := range strings.Split(pkS, ",") {
			sec, _, ok := secOf(s)
			if !ok {
				d.run.Op(op, "bad-op")
				return
			}
			pk, _ := tbls.SecretToPublicKey(sec)
			pubkeys = append(pubkeys, pk)
		}
	}
	var sets [][]tbls.PrivateKey
	for k := 0; k < m && k < nv; k++ {
		var set []tbls.PrivateKey
		for i := 0; i < c.n; i++ {
			set = append(set, c.sk[i][k])
		}
		sets = append(sets, set)
	}
	var dds [][]eth2p0.DepositData
	if ddS != "-" {
		for _, g := range strings.Split(ddS, ";") {
			ak := strings.SplitN(g, ":", 2)
			if len(ak) != 2 {
				d.run.Op(op, "bad-op")
				return
			}
			amt, _ := strconv.ParseUint(ak[0], 10, 64)
			var group []eth2p0.DepositData
			if ak[1] != "" {
				for _, s := range strings.Split(ak[1], ".") {
					sec, k, ok := secOf(s)
					if !ok {
						d.run.Op(op, "bad-op")
						return
					}
					one, err := cmd.VerifCreateDepositDatas([]string{wdOf(k)}, c.net, []tbls.PrivateKey{sec}, []eth2p0.Gwei{eth2p0.Gwei(amt)}, c.comp)
					if err != nil {
						d.run.Op(op, "bad-op")
						return
					}
					group = append(group, one[0][0])
				}
			}
			dds = append(dds, group)
		}
	}
	var regs []core.VersionedSignedValidatorRegistration
	if regS != "-" {
		for _, s := range strings.Split(regS, ",") {
			sec, k, ok := secOf(s)
			if !ok {
				d.run.Op(op, "bad-op")
				return
			}
			one, err := cmd.VerifCreateValidatorRegistrations(context.Background(), []string{feeOf(k)}, []tbls.PrivateKey{sec}, c.fork, false, 0)
			hx.Must(err)
			regs = append(regs, one[0])
		}
	}
	var vals []cluster.DistValidator
	func() {
		defer func() {
			if r := recover(); r != nil {
				err = fmt.Errorf("panic: %v", r)
			}
		}()
		vals, err = cmd.VerifGetValidators(pubkeys, sets, dds, regs)
	}()
	res := ""
	if err != nil {
		switch {
		case strings.Contains(err.Error(), "panic"):
			res = "err panic"
		default:
			res = "err " + classifyCreateErr(err)
		}
	} else {
		// the registrations made here are of the genesis time and the default gas limit
		res = "ok " + dvsStr(c, vals)
	}
	d.run.Count("gv:" + strings.Join(strings.Fields(res)[:1], ""))
	if err != nil {
		d.run.Count("gv:" + res)
	}
	d.run.Op(op, res)
}
