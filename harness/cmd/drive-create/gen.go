package main

import (
	"fmt"
	"sort"
	"strings"

	"verifharness/hx"
)

func (d *drv) randAmounts(comp bool) []int {
	max := 32
	if comp {
		max = 64
	}
	var am []int
	sum := 0
	for i := 1 + d.rng.Intn(4); i > 0; i-- {
		a := 1 + d.rng.Intn(max)
		if len(am) > 0 && d.rng.Chance(2, 5) {
			a = am[d.rng.Intn(len(am))] // repetition is allowed and de-duplicated
		}
		am = append(am, a)
		sum += a
	}
	for sum < 32 {
		a := 32 - sum
		if a > max {
			a = max
		}
		am = append(am, a)
		sum += a
	}
	return am
}

// validParams: a configuration create cluster must accept.
func (d *drv) validParams(id int, tier string) params {
	r := d.rng
	p := params{id: id, ins: true, proto: true, name: true, defok: true, ex: -1, fail: "-", gas: 60000000, ver: 11}
	maxN := 7
	if tier == "thorough" || r.Chance(1, 5) {
		maxN = 10
	}
	p.n = 3 + r.Intn(maxN-2)
	p.v = 1 + r.Intn(4)
	p.net = []string{"goerli", "sepolia", "hoodi", "chiado"}[r.Intn(4)]
	p.mode = "flags"
	if r.Chance(2, 5) {
		p.mode = "def"
	}
	if p.mode == "flags" {
		if r.Chance(3, 5) {
			p.tf, p.t = true, 2+r.Intn(p.n-1)
		}
		p.comp = r.Chance(1, 4)
		if r.Chance(3, 5) {
			p.am = d.randAmounts(p.comp)
		}
		if r.Chance(1, 3) {
			p.gas = []int{30000000, 36000000, 45000000}[r.Intn(3)]
		}
		p.fa, p.wa = 1, 1
		if r.Chance(1, 2) {
			p.fa = p.v
		}
		if r.Chance(1, 2) {
			p.wa = p.v
		}
	} else {
		p.t = 2 + r.Intn(p.n-1)
		p.ver = 5 + r.Intn(7)
		if r.Chance(1, 3) {
			p.ver = 8 + r.Intn(4)
		}
		p.gas = 0
		if p.ver >= 10 {
			p.gas = []int{30000000, 36000000, 60000000}[r.Intn(3)]
			p.comp = r.Chance(1, 4)
		}
		if p.ver >= 8 && r.Chance(3, 5) {
			p.am = d.randAmounts(p.comp)
		}
		p.addrs = p.v
		p.distinct = r.Chance(1, 2)
	}
	if r.Chance(3, 10) {
		p.split, p.sdir, p.nk = true, true, p.v
		if p.mode == "flags" {
			p.v = 0
			if p.fa > 1 {
				p.fa = p.nk
			}
			if p.wa > 1 {
				p.wa = p.nk
			}
		}
	}
	return p
}

func (p params) numVals() int {
	if p.split && p.mode == "flags" {
		return p.nk
	}
	return p.v
}

// invalidParams: one thing wrong with (or unusual about) an otherwise valid configuration.
func (d *drv) invalidParams(id int, tier string) params {
	r := d.rng
	p := d.validParams(id, tier)
	flags := p.mode == "flags"
	switch r.Intn(30) {
	case 0:
		if flags {
			p.n, p.tf, p.t = 0, false, 0
		} else {
			p.name = false
		}
	case 1:
		if flags {
			p.n, p.tf, p.t = 2, false, 0
		} else {
			p.n, p.t = 2, 2
		}
	case 2:
		if flags {
			p.net = "bogus"
		} else {
			p.net, p.ins = "mainnet", true
		}
	case 3:
		p.ex = r.Intn(p.n + 1)
	case 4:
		p.kma, p.kmt = 1+r.Intn(3), 0
	case 5:
		p.kma, p.kmt, p.kmbad = p.n, p.n, true
	case 6:
		p.am = []int{0, 32}
		if !flags && p.ver < 8 {
			p.ver = 8
		}
	case 7:
		p.am, p.comp = []int{33, 1}, false
		if !flags && p.ver < 8 {
			p.ver = 8
		}
	case 8:
		p.am = []int{8, 8, 8}
		if !flags && p.ver < 8 {
			p.ver = 8
		}
	case 9:
		if p.split && flags {
			p.v = 1 + r.Intn(3)
		} else if flags {
			p.v = 0
		} else {
			p.defok = false
		}
	case 10:
		p.proto = false
		if !flags && p.ver < 9 {
			p.ver = 9 + r.Intn(3)
			if p.ver >= 10 {
				p.gas = 30000000
			}
		}
	case 11:
		p.split, p.sdir = true, false
		if flags {
			p.v = 0
		}
	case 12: // a gap in the key file indices
		p.split, p.sdir, p.gap = true, true, true
		if flags {
			p.nk = 2 + r.Intn(3)
			p.v = 0
			p.fa, p.wa = 1, 1
			if r.Chance(1, 2) {
				p.wa = p.nk // distinct addresses: strict file order is required
			}
		} else {
			p.nk = p.v
			if p.nk < 2 {
				p.nk, p.v, p.addrs = 2, 2, 2
			}
		}
	case 13:
		p.split, p.sdir, p.nk = true, true, 0
		if flags {
			p.v = 0
		}
	case 14:
		if flags {
			p.fa = p.numVals() + 1
			if p.fa == 1 {
				p.fa = 3
			}
		} else {
			p.kma, p.kmt = p.n+1, p.n+1
		}
	case 15:
		if flags {
			p.wa = 0
		} else {
			p.split, p.sdir, p.nk = true, true, p.v+1
		}
	case 16:
		if flags {
			p.gas = 0
		} else {
			p.t = 1
		}
	case 17:
		if flags {
			p.tf, p.t = true, 1
		} else {
			p.t = p.n + 1 + r.Intn(2)
		}
	case 18:
		if flags {
			p.tf, p.t = true, p.n+1
		} else {
			p.tf = true // --threshold with a definition file: compared with the (absent) --nodes flag
		}
	case 19:
		if !flags {
			p.addrs = p.v + 1
			if p.v > 1 && r.Chance(1, 2) {
				p.addrs = p.v - 1
			}
		} else {
			p.split, p.sdir, p.dupk = true, true, true
			p.nk, p.v = 2+r.Intn(2), 0
			p.fa, p.wa = 1, 1
		}
	case 20, 21, 22, 23: // an obstacle makes one write fail
		i := r.Intn(p.n)
		switch r.Intn(4) {
		case 0:
			p.fail = fmt.Sprintf("p2p:%d", i)
		case 1:
			p.fail = fmt.Sprintf("keys:%d", i)
		case 2:
			am := p.am
			if len(am) == 0 {
				am = []int{1, 32}
				if p.comp {
					am = []int{1, 8, 32, 256}
				}
			}
			p.fail = fmt.Sprintf("dep:%d000000000:%d", am[r.Intn(len(am))], i)
		case 3:
			p.fail = fmt.Sprintf("lock:%d", i)
		}
	case 24, 25, 26: // keymanager mode
		p.kma, p.kmt = p.n, p.n
		modes := []byte(strings.Repeat("a", p.n))
		switch r.Intn(3) {
		case 1:
			modes[r.Intn(p.n)] = 'e'
		case 2:
			modes[r.Intn(p.n)] = 'd'
		}
		p.kmr = string(modes)
	case 27:
		p.gap = false
		if flags && !p.split {
			p.fa, p.wa = 1, 1
			if p.v > 1 {
				p.fa = p.v - 1
				if p.fa == 1 {
					p.fa = p.v + 2
				}
			}
		}
	case 28: // the same key in two keystores of the split-keys directory (refused since c6adf89)
		p.split, p.sdir, p.dupk, p.gap = true, true, true, false
		if flags {
			p.nk, p.v = 2+r.Intn(2), 0
			p.fa, p.wa = 1, 1
			if r.Chance(1, 3) {
				p.wa = p.nk
			}
		} else {
			if p.v < 2 {
				p.v, p.addrs = 2, 2
			}
			p.nk = p.v
		}
	default:
		if !flags {
			p.v, p.addrs = 0, 0
			p.split = false
		}
	}
	return p
}

func (d *drv) honestKeys(c *clu, j int) string {
	var e []string
	for k := range c.X {
		e = append(e, fmt.Sprintf("%d=%d.%d", k, j+1, k))
	}
	return strings.Join(e, ",")
}

func (d *drv) pick(n, k int) []int {
	idx := d.rng.Perm(n)[:k]
	sort.Ints(idx)
	return idx
}

// combSpecs: the combine episodes of a created cluster.
func (d *drv) combSpecs(c *clu, hasAlt bool, count int) []string {
	r := d.rng
	n, t, nv := c.n, c.t, len(c.X)
	honest := func(nodes []int, lock string) []string {
		var ds []string
		for _, j := range nodes {
			ds = append(ds, lock+":"+d.honestKeys(c, j))
		}
		return ds
	}
	mk := func(nvf, f, out bool, dirs []string) string {
		return fmt.Sprintf("comb nv=%s f=%s out=%s dirs=%s", b01(nvf), b01(f), b01(out), strings.Join(dirs, "/"))
	}
	var specs []string
	specs = append(specs, mk(false, false, false, honest(d.pick(n, t), "L")))
	if t >= 2 {
		specs = append(specs, mk(false, false, false, honest(d.pick(n, t-1), "L")))
	}
	for len(specs) < count {
		size := t
		if n > t && r.Chance(1, 3) {
			size = t + 1 + r.Intn(n-t)
		}
		nodes := r.Perm(n)[:size] // any order of the directories
		ds := honest(nodes, "L")
		nvf := r.Chance(1, 4)
		switch r.Intn(22) {
		case 0:
			specs = append(specs, mk(nvf, false, false, ds))
		case 1: // all nodes
			specs = append(specs, mk(false, r.Chance(1, 2), false, honest(r.Perm(n), "L")))
		case 2: // keystores of different nodes in one directory (the files of two nodes exchanged per validator)
			if nv >= 2 {
				perm := r.Perm(size)
				for i := range ds {
					var e []string
					for k := 0; k < nv; k++ {
						j := nodes[i]
						if k%2 == 1 {
							j = nodes[perm[i]]
						}
						e = append(e, fmt.Sprintf("%d=%d.%d", k, j+1, k))
					}
					ds[i] = "L:" + strings.Join(e, ",")
				}
			}
			specs = append(specs, mk(nvf, false, false, ds))
		case 3: // keystores of two validators exchanged inside one node
			if nv >= 2 {
				i := r.Intn(size)
				a, b := 0, 1+r.Intn(nv-1)
				var e []string
				for k := 0; k < nv; k++ {
					src := k
					if k == a {
						src = b
					} else if k == b {
						src = a
					}
					e = append(e, fmt.Sprintf("%d=%d.%d", k, nodes[i]+1, src))
				}
				ds[i] = "L:" + strings.Join(e, ",")
			}
			specs = append(specs, mk(nvf, false, false, ds))
		case 4: // one share replaced by a foreign secret
			i, k := r.Intn(size), r.Intn(nv)
			src := "r1"
			if hasAlt && r.Chance(1, 2) {
				src = fmt.Sprintf("a%d.%d", 1+r.Intn(d.alt.n), r.Intn(len(d.alt.X)))
			}
			var e []string
			for x := 0; x < nv; x++ {
				if x == k {
					e = append(e, fmt.Sprintf("%d=%s", x, src))
				} else {
					e = append(e, fmt.Sprintf("%d=%d.%d", x, nodes[i]+1, x))
				}
			}
			ds[i] = "L:" + strings.Join(e, ",")
			specs = append(specs, mk(nvf, false, false, ds))
		case 5, 6, 7: // one altered / missing lock
			i := r.Intn(size)
			kind := []string{"U", "T", "P", "J", "-"}[r.Intn(5)]
			ds[i] = kind + ds[i][1:]
			specs = append(specs, mk(r.Chance(1, 2), false, false, ds))
		case 8: // the altered lock with exactly threshold-1 directories
			if t >= 3 {
				ds = honest(r.Perm(n)[:t-1], "L")
				i := r.Intn(len(ds))
				ds[i] = "T" + ds[i][1:]
				specs = append(specs, mk(true, false, false, ds))
			}
		case 9, 10: // the lock of another cluster
			if hasAlt {
				i := r.Intn(size)
				ds[i] = "A" + ds[i][1:]
				if r.Chance(1, 4) {
					for x := range ds {
						ds[x] = "A" + ds[x][1:]
					}
				}
				specs = append(specs, mk(r.Chance(1, 2), false, false, ds))
			}
		case 11: // one node's directory twice
			if t >= 2 {
				ds = honest(r.Perm(n)[:t-1], "L")
				ds = append(ds, ds[r.Intn(len(ds))])
				specs = append(specs, mk(nvf, false, false, ds))
			}
		case 12: // fewer keystores than validators in every directory
			if nv >= 2 {
				keep := 1 + r.Intn(nv-1)
				for i := range ds {
					var e []string
					for k := 0; k < keep; k++ {
						e = append(e, fmt.Sprintf("%d=%d.%d", k, nodes[i]+1, k))
					}
					ds[i] = "L:" + strings.Join(e, ",")
				}
				if r.Chance(1, 3) { // one directory complete
					ds[0] = "L:" + d.honestKeys(c, nodes[0])
				}
				specs = append(specs, mk(nvf, false, false, ds))
			}
		case 13: // one keystore more than validators
			for i := range ds {
				ds[i] += fmt.Sprintf(",%d=%d.%d", nv, nodes[i]+1, 0)
				if r.Chance(1, 3) {
					break
				}
			}
			specs = append(specs, mk(nvf, false, false, ds))
		case 14: // a gap in the file indices, a file without index
			i := r.Intn(size)
			if r.Chance(1, 2) {
				ds[i] = fmt.Sprintf("L:0=%d.0,%d=%d.0", nodes[i]+1, 2+r.Intn(2), nodes[i]+1)
			} else {
				ds[i] += fmt.Sprintf(",x=%d.0", nodes[i]+1)
			}
			specs = append(specs, mk(nvf, false, false, ds))
		case 15: // no keystore / an undecryptable keystore
			i := r.Intn(size)
			if r.Chance(1, 2) {
				ds[i] = "L:-"
			} else {
				ds[i] = fmt.Sprintf("L:0=!%d.0", nodes[i]+1)
			}
			specs = append(specs, mk(nvf, false, false, ds))
		case 16: // entries that are no node directories
			ds = append(ds, "N:-", "K:-")
			perm := r.Perm(len(ds))
			var sh []string
			for _, x := range perm {
				sh = append(sh, ds[x])
			}
			specs = append(specs, mk(nvf, false, false, sh))
		case 17:
			specs = append(specs, mk(nvf, false, true, ds))
		case 18:
			specs = append(specs, mk(nvf, true, true, ds))
		case 19:
			specs = append(specs, mk(nvf, false, false, []string{"K:-", "N:-"}))
		case 20: // a share of another validator position of another node
			if nv >= 2 {
				i := r.Intn(size)
				ds[i] = fmt.Sprintf("L:0=%d.1,1=%d.0", nodes[i]+1, nodes[(i+1)%size]+1)
				specs = append(specs, mk(nvf, false, false, ds))
			}
		case 21: // altered lock last / first
			i := []int{0, size - 1}[r.Intn(2)]
			kind := []string{"U", "T", "P"}[r.Intn(3)]
			ds[i] = kind + ds[i][1:]
			specs = append(specs, mk(true, false, false, ds))
		}
	}
	return specs
}

func (d *drv) gvSpecs(c *clu) []string {
	r := d.rng
	nv := len(c.X)
	all := func() []string {
		var s []string
		for k := 0; k < nv; k++ {
			s = append(s, fmt.Sprint(k))
		}
		return s
	}
	amounts := []string{"1000000000", "32000000000"}
	mk := func(pk []string, sets int, dd []string, regs []string) string {
		return fmt.Sprintf("gv pk=%s sets=%d dd=%s regs=%s", dash(strings.Join(pk, ",")), sets, dash(strings.Join(dd, ";")), dash(strings.Join(regs, ",")))
	}
	shuffle := func(s []string) []string {
		out := make([]string, len(s))
		for i, x := range r.Perm(len(s)) {
			out[i] = s[x]
		}
		return out
	}
	ddAll := func() []string {
		var dd []string
		for _, a := range amounts {
			dd = append(dd, a+":"+strings.Join(shuffle(all()), "."))
		}
		return dd
	}
	specs := []string{mk(all(), nv, ddAll(), shuffle(all()))}
	for i := 0; i < 3; i++ {
		pk, sets, dd, regs := all(), nv, ddAll(), shuffle(all())
		switch r.Intn(7) {
		case 0: // a registration missing
			regs = regs[:len(regs)-1]
		case 1: // deposit data of one validator missing for every amount
			k := fmt.Sprint(r.Intn(nv))
			for x := range dd {
				var keep []string
				for _, e := range strings.Split(strings.SplitN(dd[x], ":", 2)[1], ".") {
					if e != k {
						keep = append(keep, e)
					}
				}
				dd[x] = strings.SplitN(dd[x], ":", 2)[0] + ":" + strings.Join(keep, ".")
			}
		case 2: // fewer share sets than keys
			sets = nv - 1
		case 3: // a key of no validator
			pk[r.Intn(nv)] = "x"
		case 4: // the same key twice, registrations twice
			pk = append(pk, pk[0])
			sets = nv
			regs = append(regs, regs...)
		case 5: // one amount only, keys permuted
			dd = dd[:1]
			pk = shuffle(pk)
		case 6: // a repeated amount group
			dd = append(dd, dd[0])
		}
		specs = append(specs, mk(pk, sets, dd, regs))
	}
	return specs
}

func (d *drv) gen(a hx.Args) {
	r := d.rng
	for ep := 0; ep < a.N && !d.run.Enough(); ep++ {
		var p params
		if r.Chance(11, 20) {
			p = d.validParams(ep, a.Tier)
		} else {
			p = d.invalidParams(ep, a.Tier)
		}
		d.exec(p.line())
		if d.own == nil {
			if d.failed != nil {
				d.exec("disk")
				d.exec("pcomb")
			}
			continue
		}
		c := d.own
		nv := len(c.X)
		nodes := []int{0, c.n - 1, r.Intn(c.n)}
		if c.n <= 4 {
			nodes = nil
			for i := 0; i < c.n; i++ {
				nodes = append(nodes, i)
			}
		}
		for _, i := range nodes {
			d.exec(fmt.Sprintf("art %d", i))
		}
		for k := 0; k < nv; k++ {
			d.exec(fmt.Sprintf("val %d", k))
		}
		if c.t > c.n || c.p.kma > 0 {
			continue // nothing to recombine / no keystores on disk
		}
		for k := 0; k < nv; k++ {
			sizes := []int{c.t, c.n}
			if c.t > 1 {
				sizes = append(sizes, c.t-1)
			}
			if c.t+1 < c.n {
				sizes = append(sizes, c.t+1)
			}
			for _, s := range sizes {
				ids := r.Perm(c.n)[:s]
				for x := range ids {
					ids[x]++
				}
				d.exec(fmt.Sprintf("rec %d %s", k, intsStr(ids, ",")))
			}
		}
		if !c.p.dupk {
			for _, s := range d.gvSpecs(c) {
				d.exec(s)
			}
		}
		if !c.lockOK[0] {
			continue
		}
		// forged locks: shifted public shares, re-hashed and re-signed
		d.exec(fmt.Sprintf("forge k=%d kind=none i=0 j=0", r.Intn(nv)))
		d.exec(fmt.Sprintf("forge k=%d kind=one i=%d j=0", r.Intn(nv), 1+r.Intn(c.n)))
		if c.n > c.t {
			d.exec(fmt.Sprintf("forge k=%d kind=one i=%d j=0", r.Intn(nv), c.t+1+r.Intn(c.n-c.t)))
		}
		if c.n >= c.t+2 {
			for x := 0; x < 2; x++ {
				ex := r.Perm(c.n - c.t)
				d.exec(fmt.Sprintf("forge k=%d kind=two i=%d j=%d", r.Intn(nv), c.t+1+ex[0], c.t+1+ex[1]))
			}
		}
		if c.n >= 3 && r.Chance(1, 2) { // any two shares (n-of-n: every such pair is another sharing of the same key)
			pr := r.Perm(c.n)
			d.exec(fmt.Sprintf("forge k=%d kind=two i=%d j=%d", r.Intn(nv), pr[0]+1, pr[1]+1))
		}
		hasAlt := false
		if r.Chance(3, 5) {
			an := 3 + r.Intn(3)
			d.exec(fmt.Sprintf("alt %d %d %d", an, 2+r.Intn(an-1), 1+r.Intn(2)))
			hasAlt = d.alt != nil
		}
		count := 12
		if a.Tier == "thorough" {
			count = 20
		}
		for _, s := range d.combSpecs(c, hasAlt, count) {
			d.exec(s)
		}
	}
}
