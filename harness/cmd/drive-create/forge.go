package main

// Forged locks: the lock of the episode with one or two PUBLIC shares of a validator moved off the sharing polynomial
// (the harness holds every secret share: it shifts the secret shares in Fr and derives the public shares), then
// re-hashed (Lock.SetLockHash), re-signed by every current key share (aggSign hook) and by every node key
// (k1util.Sign) — a lock whose hashes and signatures are all genuine. Two shifts of shares with index > t that cancel at 0
// under the Lagrange coefficients of ALL n identifiers (δ_i·L_i(0) + δ_j·L_j(0) = 0 mod r) are what ONE interpolation
// over all n public shares cannot see; the per-share check of cluster/lock.go verifySharesReconstruct can.
//
//	forge k=<validator> kind=<none|one|two> i=<share index> j=<share index>   -> accept | reject
//
// Monitor create:inconsistent_shares_lock_accepted: VerifyHashes + VerifySignatures accept although some threshold
// subset of the lock's public shares recovers (tbls.RecoverPubkey) a key that is not the validator key.

import (
	"bytes"
	"fmt"
	"math/big"
	"path/filepath"
	"strconv"
	"strings"

	"github.com/obolnetwork/charon/app/k1util"
	"github.com/obolnetwork/charon/cluster"
	"github.com/obolnetwork/charon/cmd"
	"github.com/obolnetwork/charon/tbls"

	"verifharness/hx"
)

var frOrder, _ = new(big.Int).SetString("73eda753299d7d483339d80809a1d80553bda402fffe5bfeffffffff00000001", 16)

// lagrange0 is L_x(0) over the identifiers 1..n in Fr.
func lagrange0(x, n int) *big.Int {
	num, den := big.NewInt(1), big.NewInt(1)
	for m := 1; m <= n; m++ {
		if m == x {
			continue
		}
		num.Mul(num, big.NewInt(int64(m))).Mod(num, frOrder)
		d := big.NewInt(int64(m - x))
		d.Mod(d, frOrder)
		den.Mul(den, d).Mod(den, frOrder)
	}
	return num.Mul(num, new(big.Int).ModInverse(den, frOrder)).Mod(num, frOrder)
}

func shiftShare(s tbls.PrivateKey, delta *big.Int) tbls.PrivateKey {
	v := new(big.Int).SetBytes(s[:])
	v.Add(v, delta).Mod(v, frOrder)
	var out tbls.PrivateKey
	v.FillBytes(out[:])
	return out
}

func (d *drv) opForge(op string, f []string) {
	c := d.own
	var k, i, j int
	kind := ""
	for _, kv := range f {
		switch {
		case strings.HasPrefix(kv, "k="):
			k, _ = strconv.Atoi(kv[2:])
		case strings.HasPrefix(kv, "i="):
			i, _ = strconv.Atoi(kv[2:])
		case strings.HasPrefix(kv, "j="):
			j, _ = strconv.Atoi(kv[2:])
		case strings.HasPrefix(kv, "kind="):
			kind = kv[5:]
		}
	}
	n := c.n
	if k < 0 || k >= len(c.X) || (kind != "none" && (i < 1 || i > n)) || (kind == "two" && (j < 1 || j > n || j == i)) || c.p.kma > 0 {
		d.run.Op(op, "bad-op")
		return
	}
	// the key shares of every validator, validator k's shifted
	sets := make([][]tbls.PrivateKey, len(c.X))
	for kk := range c.X {
		for node := 0; node < n; node++ {
			sets[kk] = append(sets[kk], c.sk[node][kk])
		}
	}
	switch kind {
	case "one":
		sets[k][i-1] = shiftShare(sets[k][i-1], big.NewInt(1))
	case "two":
		di := big.NewInt(int64(1 + d.combSeq%7))
		// δ_j = -δ_i · L_i(0) / L_j(0)
		dj := new(big.Int).Mul(di, lagrange0(i, n))
		dj.Mul(dj, new(big.Int).ModInverse(lagrange0(j, n), frOrder)).Neg(dj).Mod(dj, frOrder)
		sets[k][i-1] = shiftShare(sets[k][i-1], di)
		sets[k][j-1] = shiftShare(sets[k][j-1], dj)
	}
	lock := c.lock
	lock.Validators = append([]cluster.DistValidator(nil), c.lock.Validators...)
	var ps [][]byte
	for _, s := range sets[k] {
		p, err := tbls.SecretToPublicKey(s)
		hx.Must(err)
		ps = append(ps, append([]byte(nil), p[:]...))
	}
	lock.Validators[k].PubShares = ps
	lock, err := lock.SetLockHash()
	hx.Must(err)
	lock.SignatureAggregate, err = cmd.VerifAggSign(sets, lock.LockHash)
	hx.Must(err)
	if len(c.lock.NodeSignatures) > 0 {
		lock.NodeSignatures = nil
		for node := 0; node < n; node++ {
			key, err := k1util.Load(filepath.Join(c.dir, fmt.Sprintf("node%d", node), "charon-enr-private-key"))
			hx.Must(err)
			sig, err := k1util.Sign(key, lock.LockHash)
			hx.Must(err)
			lock.NodeSignatures = append(lock.NodeSignatures, sig)
		}
	}
	errH := lock.VerifyHashes()
	var errS error
	if errH == nil {
		errS = lock.VerifySignatures(nil)
	}
	res := "accept"
	if errH != nil || errS != nil {
		res = "reject"
	}
	// independent of the model: do all threshold subsets of the forged lock's public shares recover the validator key?
	if res == "accept" && c.t >= 1 && c.t <= n {
		check := func(idx []int) {
			m := map[int]tbls.PublicKey{}
			for _, x := range idx {
				var p tbls.PublicKey
				copy(p[:], lock.Validators[k].PubShares[x])
				m[x+1] = p
			}
			rec, err := tbls.RecoverPubkey(m)
			if err != nil || !bytes.Equal(rec[:], lock.Validators[k].PubKey) {
				d.run.Violate("create:inconsistent_shares_lock_accepted", fmt.Sprintf("%s: %s: Lock.VerifyHashes and Lock.VerifySignatures accept the re-hashed, re-signed lock although the public shares %v of validator %d recover another key", c.p.line(), op, idx, k))
			}
		}
		if n <= 7 {
			subsets(n, c.t, check)
		} else {
			for s := 0; s < 12; s++ {
				check(permOf(n, uint64(s*31+d.combSeq))[:c.t])
			}
			for _, x := range []int{i, j} { // the first t-1 shares with a shifted one
				if x > c.t {
					idx := []int{x - 1}
					for y := 0; y < c.t-1; y++ {
						idx = append(idx, y)
					}
					check(idx)
				}
			}
		}
	}
	d.combSeq++
	d.run.Count("forge:" + kind + ":" + res)
	d.run.Case(fmt.Sprintf("forge:%s:n%d:t%d:%v:%v:%s", kind, n, c.t, i > c.t, j > c.t, res))
	d.run.Op(op, res)
}
