// drive-timer: correspondence driver for the round timers of core/consensus/timer/roundtimer.go
// (stream "roundtimer" of C04).
//
// Every op is self-contained: it builds fresh REAL timer objects on clockwork fake clocks, performs
// a sequence of Timer(round) calls and reports, per call, the duration in ns after which the
// returned channel fires. That duration is MEASURED, not read from the implementation: for call i
// the member's history (its earlier calls, at their clock values, with their feature flag) is
// replayed on a fresh object and fresh clock, the call is made, the clock is advanced by a
// candidate duration and the channel is polled; the smallest firing candidate is found by binary
// search. A second, live object per member receives the whole sequence and the instants delivered
// on its channels are compared with the binary-search result (harness self-check).
//
// ops (times are ns after the base instant B = 2024-01-01T00:00:00Z at which every fake clock starts):
//
//	t <kind> <dutyType> <slot> <genesis|-> <slotDur> <member>:<round>:<now>:<pt>,...
//	      kind inc|eager|linear; genesis "-" = zero time.Time; per member `now` is non-decreasing
//	      -> <dur>,<dur>,...            ("inf" = not fired within 2^56 ns)
//	sel <linear> <eager> <dutyType>    features `linear` / `eager_double_linear` set, then
//	      GetRoundTimerFunc(genesis, 12s)(duty)   -> <Type()> <Type().Eager()>
//
// The ProposalTimeout feature (pt) is process-global and read at every Timer call; it is switched
// through the non-test API featureset.Init (Enabled / Disabled lists), so both settings are covered.
//
// Monitors (independent of the Lean model; expectations recomputed here from literal numbers, not
// from the package constants):
//
//	timer:fires_early   measured duration < expected
//	timer:fires_late    measured duration > expected
//	timer:not_aligned   eager type with genesis+slotDuration: two members' first calls for the same
//	                    round (same flag), both still pending, fire at different absolute instants
//	timer:no_doubling   eager type: a member's repeated call for a round does not move the deadline
//	                    past the first one although the doubled deadline still lies ahead
//	timer:wrong_selection   GetRoundTimerFunc hands a duty another timer type than the features say
//	timer:measure_inconsistent   live object and replayed object disagree (harness self-check)
package main

import (
	"context"
	"fmt"
	"strconv"
	"strings"
	"time"

	"github.com/jonboulle/clockwork"

	"github.com/obolnetwork/charon/app/featureset"
	"github.com/obolnetwork/charon/core"
	"github.com/obolnetwork/charon/core/consensus/timer"

	"verifharness/hx"
)

var base = time.Date(2024, 1, 1, 0, 0, 0, 0, time.UTC)

const maxProbe = int64(1) << 56

type cfg struct {
	kind    string
	duty    int
	slot    uint64
	hasGen  bool
	genesis int64
	slotDur int64
}

type call struct {
	member int
	round  int64
	now    int64
	pt     bool
}

// ---- feature flags -------------------------------------------------------------------------

var curFeat = map[string]int{} // 0 unknown, 1 off, 2 on

func setFeature(name string, on bool) {
	want := 1
	if on {
		want = 2
	}
	if curFeat[name] == want {
		return
	}
	c := featureset.Config{MinStatus: "stable"}
	if on {
		c.Enabled = []string{name}
	} else {
		c.Disabled = []string{name}
	}
	hx.Must(featureset.Init(context.Background(), c))
	curFeat[name] = want
}

// ---- real objects --------------------------------------------------------------------------

func build(c cfg, clock clockwork.Clock) timer.RoundTimer {
	duty := core.Duty{Slot: c.slot, Type: core.DutyType(c.duty)}
	zeroDuty := c.duty == 0 && c.slot == 0
	switch c.kind {
	case "inc":
		if zeroDuty {
			return timer.NewIncreasingRoundTimerWithClock(clock)
		}
		return timer.NewIncreasingRoundTimerWithDutyAndClock(duty, clock)
	case "linear":
		if zeroDuty {
			return timer.NewLinearRoundTimerWithClock(clock)
		}
		return timer.NewLinearRoundTimerWithDutyAndClock(duty, clock)
	case "eager":
		if !c.hasGen && c.slotDur == 0 {
			if zeroDuty {
				return timer.NewDoubleEagerLinearRoundTimerWithClock(clock)
			}
			return timer.NewDoubleEagerLinearRoundTimerWithDutyAndClock(duty, clock)
		}
		var g time.Time
		if c.hasGen {
			g = base.Add(time.Duration(c.genesis))
		}
		return timer.NewDoubleEagerLinearRoundTimerWithDutyTimingAndClock(duty, g, time.Duration(c.slotDur), clock)
	}
	panic("bad kind " + c.kind)
}

func ready(ch <-chan time.Time) (time.Time, bool) {
	select {
	case t := <-ch:
		return t, true
	default:
		return time.Time{}, false
	}
}

// probe replays `hist` on a fresh object, makes call k, advances the clock by d and reports
// whether k's channel has fired.
func probe(c cfg, hist []call, k call, d int64) bool {
	clock := clockwork.NewFakeClockAt(base)
	rt := build(c, clock)
	cur := int64(0)
	for _, h := range hist {
		clock.Advance(time.Duration(h.now - cur))
		cur = h.now
		setFeature(string(featureset.ProposalTimeout), h.pt)
		_, stop := rt.Timer(h.round)
		stop()
	}
	clock.Advance(time.Duration(k.now - cur))
	setFeature(string(featureset.ProposalTimeout), k.pt)
	ch, stop := rt.Timer(k.round)
	defer stop()
	if d > 0 {
		clock.Advance(time.Duration(d))
	}
	_, ok := ready(ch)
	return ok
}

// measure returns the smallest d >= 0 such that the channel has fired after advancing by d
// (-1 if it has not fired after maxProbe).
func measure(c cfg, hist []call, k call) int64 {
	if probe(c, hist, k, 0) {
		return 0
	}
	if !probe(c, hist, k, maxProbe) {
		return -1
	}
	lo, hi := int64(0), maxProbe // not fired at lo, fired at hi
	for hi-lo > 1 {
		mid := lo + (hi-lo)/2
		if probe(c, hist, k, mid) {
			hi = mid
		} else {
			lo = mid
		}
	}
	return hi
}

// ---- independent expectation ------------------------------------------------------------------

func expTimeout(kind string, duty int, pt bool, r int64) int64 {
	proposerExtra := pt && duty == 1
	switch kind {
	case "inc": // 1 s, 1.25 s, 1.5 s, ... ; proposer with the feature: 1.5 s in round 1 only
		if proposerExtra && r == 1 {
			return 1_500_000_000
		}
		return 750_000_000 + r*250_000_000
	case "linear": // 1 s, then 400 ms, 600 ms, ...
		if r == 1 {
			if proposerExtra {
				return 1_500_000_000
			}
			return 1_000_000_000
		}
		return r * 200_000_000
	case "eager": // r seconds (+ 0.5 s for proposer with the feature, every round)
		if proposerExtra {
			return r*1_000_000_000 + 500_000_000
		}
		return r * 1_000_000_000
	}
	panic("kind")
}

func expDutyStart(c cfg) int64 {
	delay := int64(0)
	switch c.duty {
	case 2: // attester: a third into the slot
		delay = c.slotDur / 3
	case 9, 12: // aggregator, sync contribution: two thirds into the slot
		delay = 2 * c.slotDur / 3
	}
	return c.genesis + int64(c.slot)*c.slotDur + delay
}

// ---- one op ---------------------------------------------------------------------------------------

func durStr(d int64) string {
	if d < 0 {
		return "inf"
	}
	return strconv.FormatInt(d, 10)
}

func doTimer(run *hx.Run, c cfg, calls []call) string {
	timed := c.kind == "eager" && c.hasGen && c.slotDur > 0
	hist := map[int][]call{}
	type firstInfo struct {
		abs     int64 // absolute fire instant of the member's first call for the round (-1 unknown)
		pt      bool
		expDl   int64 // expected stored first deadline
		pending bool  // measured dur > 0
	}
	firsts := map[int]map[int64]*firstInfo{}
	// live objects (self-check of the measurement method)
	type liveCall struct {
		ch  <-chan time.Time
		now int64
		dur int64
	}
	liveClock := map[int]*clockwork.FakeClock{}
	liveObj := map[int]timer.RoundTimer{}
	liveNow := map[int]int64{}
	var lives []liveCall

	outs := make([]string, 0, len(calls))
	for _, k := range calls {
		h := hist[k.member]
		if len(h) > 0 && h[len(h)-1].now > k.now {
			panic("clock of a member must not go backwards: " + fmt.Sprint(k))
		}
		d := measure(c, h, k)
		hist[k.member] = append(h, k)
		outs = append(outs, durStr(d))

		// live object
		if liveObj[k.member] == nil {
			liveClock[k.member] = clockwork.NewFakeClockAt(base)
			liveObj[k.member] = build(c, liveClock[k.member])
		}
		liveClock[k.member].Advance(time.Duration(k.now - liveNow[k.member]))
		liveNow[k.member] = k.now
		setFeature(string(featureset.ProposalTimeout), k.pt)
		ch, _ := liveObj[k.member].Timer(k.round)
		lives = append(lives, liveCall{ch, k.now, d})

		// expectation
		to := expTimeout(c.kind, c.duty, k.pt, k.round)
		exp := to
		repeat := false
		if c.kind == "eager" {
			if firsts[k.member] == nil {
				firsts[k.member] = map[int64]*firstInfo{}
			}
			fi := firsts[k.member][k.round]
			var dl int64
			if fi == nil {
				if timed {
					dl = expDutyStart(c) + to
				} else {
					dl = k.now + to
				}
				fi = &firstInfo{abs: -1, pt: k.pt, expDl: dl, pending: d > 0}
				if d > 0 {
					fi.abs = k.now + d
				}
				firsts[k.member][k.round] = fi
				if timed && d > 0 {
					for m, fm := range firsts {
						if o := fm[k.round]; m != k.member && o != nil && o.pending && o.pt == k.pt && o.abs != fi.abs {
							run.Violate("timer:not_aligned", fmt.Sprintf("eager timer with genesis and slot duration: first Timer(%d) of member %d fires at %d, of member %d at %d", k.round, m, o.abs, k.member, fi.abs))
						}
					}
				}
			} else {
				repeat = true
				dl = fi.expDl + to
				if fi.pending && k.now < fi.abs+to && (d == 0 || (d > 0 && k.now+d <= fi.abs)) {
					run.Violate("timer:no_doubling", fmt.Sprintf("eager timer: repeated Timer(%d) at %d fires at %d, not later than the first deadline %d", k.round, k.now, k.now+d, fi.abs))
				}
			}
			exp = dl - k.now
			if exp < 0 {
				exp = 0
			}
		}
		switch {
		case d < 0 || d > exp:
			run.Violate("timer:fires_late", fmt.Sprintf("%s timer duty %d pt=%v Timer(%d) at %d (repeat=%v): fires after %s ns, expected %d", c.kind, c.duty, k.pt, k.round, k.now, repeat, durStr(d), exp))
		case d < exp:
			run.Violate("timer:fires_early", fmt.Sprintf("%s timer duty %d pt=%v Timer(%d) at %d (repeat=%v): fires after %d ns, expected %d", c.kind, c.duty, k.pt, k.round, k.now, repeat, d, exp))
		}

		// distribution
		cls := "first"
		if repeat {
			cls = "repeat"
		}
		zero := ""
		if d == 0 {
			zero = ":immediate"
			if c.kind == "eager" {
				run.Count("eager:zero_length_round")
			}
		}
		run.Count("call:" + c.kind + ":" + cls + zero)
		rb := k.round
		if rb > 8 {
			rb = 9
		}
		run.Case(fmt.Sprintf("%s:%d:%v:%s:%d:%v:%v", c.kind, c.duty, k.pt, cls, rb, d == 0, timed))
	}

	// self-check: the live objects' channels deliver the same instants
	for m, cl := range liveClock {
		cl.Advance(time.Duration(maxProbe))
		_ = m
	}
	for i, l := range lives {
		t, ok := ready(l.ch)
		switch {
		case !ok && l.dur >= 0:
			run.Violate("timer:measure_inconsistent", fmt.Sprintf("call %d: live channel never fired, replay measured %d", i, l.dur))
		case ok && l.dur < 0:
			run.Violate("timer:measure_inconsistent", fmt.Sprintf("call %d: live channel fired, replay measured inf", i))
		case ok && t.Sub(base).Nanoseconds() != l.now+l.dur:
			run.Violate("timer:measure_inconsistent", fmt.Sprintf("call %d: live channel delivered %d, replay measured %d+%d", i, t.Sub(base).Nanoseconds(), l.now, l.dur))
		}
	}
	return strings.Join(outs, ",")
}

func doSel(run *hx.Run, linear, eager bool, duty int) string {
	setFeature(string(featureset.Linear), linear)
	setFeature(string(featureset.EagerDoubleLinear), eager)
	f := timer.GetRoundTimerFunc(base, 12*time.Second)
	rt := f(core.Duty{Slot: 1, Type: core.DutyType(duty)})
	ty := rt.Type()
	e := "0"
	if ty.Eager() {
		e = "1"
	}
	// independent expectation: linear only for proposer duties under the `linear` feature
	want := "inc"
	switch {
	case linear && duty == 1:
		want = "linear"
	case eager:
		want = "eager_dlinear"
	}
	if string(ty) != want || ty.Eager() != (want == "eager_dlinear") {
		run.Violate("timer:wrong_selection", fmt.Sprintf("GetRoundTimerFunc with linear=%v eager=%v gives duty type %d a %q timer (Eager()=%v), expected %q", linear, eager, duty, ty, ty.Eager(), want))
	}
	run.Count("sel:" + string(ty))
	run.Case(fmt.Sprintf("sel:%v:%v:%d", linear, eager, duty))
	// restore defaults (eager_double_linear is stable, linear is alpha)
	setFeature(string(featureset.Linear), false)
	setFeature(string(featureset.EagerDoubleLinear), true)
	return string(ty) + " " + e
}

// ---- parsing / formatting -----------------------------------------------------------------------------

func b01(b bool) string {
	if b {
		return "1"
	}
	return "0"
}

func fmtOp(c cfg, calls []call) string {
	g := "-"
	if c.hasGen {
		g = strconv.FormatInt(c.genesis, 10)
	}
	parts := make([]string, len(calls))
	for i, k := range calls {
		parts[i] = fmt.Sprintf("%d:%d:%d:%s", k.member, k.round, k.now, b01(k.pt))
	}
	return fmt.Sprintf("t %s %d %d %s %d %s", c.kind, c.duty, c.slot, g, c.slotDur, strings.Join(parts, ","))
}

func mustInt(s string) int64 {
	v, err := strconv.ParseInt(s, 10, 64)
	hx.Must(err)
	return v
}

func parseOp(f []string) (cfg, []call) {
	c := cfg{kind: f[1], duty: int(mustInt(f[2])), slot: uint64(mustInt(f[3])), slotDur: mustInt(f[5])}
	if f[4] != "-" {
		c.hasGen = true
		c.genesis = mustInt(f[4])
	}
	var calls []call
	for _, tok := range strings.Split(f[6], ",") {
		p := strings.Split(tok, ":")
		calls = append(calls, call{int(mustInt(p[0])), mustInt(p[1]), mustInt(p[2]), p[3] == "1"})
	}
	return c, calls
}

// ---- generator ----------------------------------------------------------------------------------------------

func genOp(rng *hx.Rng) string {
	if rng.Chance(1, 25) {
		return fmt.Sprintf("sel %d %d %d", rng.Intn(2), rng.Intn(2), []int{1, 1, 2, 9, 12, 0, 7, 13}[rng.Intn(8)])
	}
	var c cfg
	c.kind = []string{"eager", "eager", "inc", "linear"}[rng.Intn(4)]
	c.duty = []int{1, 1, 1, 2, 2, 9, 12, 0, 3, 7, 10, 13}[rng.Intn(12)]
	switch rng.Intn(4) {
	case 0:
		c.slot = uint64(rng.Intn(4))
	case 1:
		c.slot = uint64(rng.Intn(1 << 20))
	default:
		c.slot = uint64(rng.Intn(1000))
	}
	if c.kind == "eager" {
		c.slotDur = []int64{12e9, 12e9, 12e9, 6e9, 5e9, 2e9, 1e9, 12e9 + 1, 1000000007, 4, 0}[rng.Intn(11)]
		if !rng.Chance(1, 6) {
			c.hasGen = true
			c.genesis = int64(rng.Intn(1000)) * 1e9
			if rng.Chance(1, 3) {
				c.genesis += int64(rng.Intn(1e9))
			}
		}
		if rng.Chance(1, 12) { // plain constructors (no duty timing at all)
			c.hasGen, c.genesis, c.slotDur = false, 0, 0
			if rng.Chance(1, 2) {
				c.duty, c.slot = 0, 0
			}
		}
	} else if rng.Chance(1, 10) {
		c.duty, c.slot = 0, 0
	}
	timed := c.kind == "eager" && c.hasGen && c.slotDur > 0
	basePt := rng.Chance(1, 2)
	nm := 1 + rng.Intn(3)
	ncalls := 1 + rng.Intn(6)
	ds := int64(0)
	if timed {
		ds = expDutyStart(c)
	}
	memNow := make([]int64, nm)
	memRound := make([]int64, nm)
	memFire := make([]int64, nm) // expected instant at which the member's latest timer fires
	for m := range memNow {
		// start of consensus at this member: around the duty start
		switch rng.Intn(6) {
		case 0:
			memNow[m] = ds
		case 1:
			memNow[m] = ds - int64(rng.Intn(2e9))
		case 2:
			memNow[m] = ds + int64(rng.Intn(5e9))
		case 3:
			memNow[m] = ds + int64(1+rng.Intn(4))*1e9 + int64(rng.Intn(3)) - 1
		default:
			memNow[m] = ds + int64(rng.Intn(9e8))
		}
		if memNow[m] < 0 {
			memNow[m] = 0
		}
		memRound[m] = 0
		memFire[m] = -1
	}
	firstDl := make([]map[int64]int64, nm)
	for m := range firstDl {
		firstDl[m] = map[int64]int64{}
	}
	var calls []call
	for i := 0; i < ncalls; i++ {
		m := rng.Intn(nm)
		pt := basePt
		if rng.Chance(1, 10) {
			pt = !pt
		}
		var r int64
		switch x := rng.Intn(20); {
		case memRound[m] == 0:
			r = 1
			if rng.Chance(1, 8) {
				r = int64(1 + rng.Intn(6))
			}
		case x < 6: // same round again (justified pre-prepare): somewhere before the timer fires
			r = memRound[m]
			if memFire[m] > memNow[m] {
				memNow[m] += int64(rng.Intn(int(memFire[m]-memNow[m]) + 1))
			}
		case x < 15: // round timeout: next round at the instant the timer fires
			r = memRound[m] + 1
			if memFire[m] > memNow[m] {
				memNow[m] = memFire[m]
			}
			if rng.Chance(1, 5) {
				memNow[m] += int64(rng.Intn(3e6)) // scheduling lag
			}
		case x < 17: // jump to a future round (F+1 round changes)
			r = memRound[m] + int64(1+rng.Intn(4))
			memNow[m] += int64(rng.Intn(1e9))
		case x < 18: // unusual round numbers
			r = []int64{1, 2, 50, 1000, 1000000}[rng.Intn(5)]
			memNow[m] += int64(rng.Intn(3e9))
		default: // an earlier round again (not what QBFT does; the map still answers)
			r = int64(1 + rng.Intn(int(memRound[m])))
			memNow[m] += int64(rng.Intn(2e9))
		}
		if rng.Chance(1, 12) && memFire[m] > 0 { // exactly at / around a boundary
			t := memFire[m] + int64(rng.Intn(3)) - 1
			if t >= memNow[m] {
				memNow[m] = t
			}
		}
		memRound[m] = r
		// expectation only to steer the generator (the monitors recompute on their own)
		to := expTimeout(c.kind, c.duty, pt, r)
		fire := memNow[m] + to
		if c.kind == "eager" {
			if f, ok := firstDl[m][r]; ok {
				fire = f + to
			} else {
				if timed {
					fire = ds + to
				}
				firstDl[m][r] = fire
			}
		}
		memFire[m] = fire
		calls = append(calls, call{m, r, memNow[m], pt})
	}
	return fmtOp(c, calls)
}

func main() {
	a := hx.ParseArgs()
	run := hx.NewRun(a.Dir)
	defer run.Close()
	exec := func(op string) {
		f := strings.Fields(op)
		switch f[0] {
		case "t":
			c, calls := parseOp(f)
			run.Op(op, doTimer(run, c, calls))
		case "sel":
			run.Op(op, doSel(run, f[1] == "1", f[2] == "1", int(mustInt(f[3]))))
		default:
			panic("bad op " + op)
		}
	}
	if a.Mode == "exec" {
		for _, op := range hx.ReadOps(a.Ops) {
			exec(op)
		}
		return
	}
	rng := hx.NewRng(a.Seed)
	for run.NOps < a.N && !run.Enough() {
		exec(genOp(rng))
	}
}
