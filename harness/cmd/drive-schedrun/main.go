// drive-schedrun: correspondence driver for Scheduler.Run (core/scheduler/scheduler.go) — property C15, stream
// `schedrun`, model lean/CharonV/Model/SchedRun.lean.
//
// The REAL Run() is started in a goroutine on a scheduler built by the hook scheduler.NewVerif (fake clock,
// injected delay function). Everything Run and the goroutines it spawns can block on belongs to the harness:
//   - the beacon mock's Genesis / NodeSyncing / validators / SubmitValidatorRegistrations calls are gates that
//     wait for the op that scripts their answer (gen / syn / rel / regans),
//   - the clock is clockwork's fake clock behind a wrapper that records who sleeps (Sleep of the wait loops,
//     After of the slot ticker and of the delayed registration goroutine) before delegating,
//   - after every op the driver waits until every goroutine with a frame in core/scheduler/scheduler.go is blocked
//     (one stop-the-world stack dump in which none is running or runnable: nothing can move until the next op).
//
// Ops:
//
//	cfg <spe> <durMs> <startMs> <genesisMs> <builder 0|1> <nsubs> <nvals>
//	gen ok|fail | syn ok|syncing|fail | adv <ms> | back <ms> (the clock steps back) | hold | rel | failv <bits> | stop | regans ok|fail
//
// Answer per op: `<phase> tk=<ticker> t=<slots received> d=<duties triggered slot/type> sub=<subscriber calls>
// reg=<waiting>/<in flight>/<submissions so far> re=<resolvedEpoch>`:
// phase = where the Run goroutine is blocked (G Genesis of waitChainStart, Zgb<i> backoff sleep with the retry index
// recovered from the sleep's duration, Zgd sleep until genesis, S NodeSyncing, Zsf<i> / Zsy<i>, T Genesis of
// newSlotTicker, I the select, B<slot> inside the handler's validators call, R0 / R1 returned nil / error);
// ticker = w<n> waiting for slot n (from the deadline of its clock.After), o offering, x gone; slots received = the
// `Slot ticked` lines Run logs, in order.
package main

import (
	"bytes"
	"context"
	"encoding/binary"
	"errors"
	"fmt"
	"os"
	"regexp"
	"runtime"
	"sort"
	"strconv"
	"strings"
	"sync"
	"time"

	eth2api "github.com/attestantio/go-eth2-client/api"
	eth2v1 "github.com/attestantio/go-eth2-client/api/v1"
	eth2p0 "github.com/attestantio/go-eth2-client/spec/phase0"
	"github.com/jonboulle/clockwork"

	"github.com/obolnetwork/charon/app/eth2wrap"
	"github.com/obolnetwork/charon/app/featureset"
	"github.com/obolnetwork/charon/app/log"
	"github.com/obolnetwork/charon/core"
	"github.com/obolnetwork/charon/core/scheduler"
	"github.com/obolnetwork/charon/testutil/beaconmock"

	"verifharness/hx"
)

const maxInt64 = uint64(1<<63 - 1)

var (
	base    = time.Date(2024, 1, 1, 0, 0, 0, 0, time.UTC)
	errFail = errors.New("scripted beacon node failure")
	errDead = errors.New("episode over")
	fastHi  = []int64{121, 193, 309, 493, 788, 1260, 2015, 3223, 5156}
	defHi   = []int64{1201, 1921, 3073, 4917, 7866, 12584, 20134, 32214, 51541, 82465, 131943}
	logFile *os.File
	logOff  int64
	reSlot  = regexp.MustCompile(`Slot ticked[^\n]*?"slot":\s*(\d+)`)
	reSub   = regexp.MustCompile(`Submitted validator registrations[^\n]*?"epoch":\s*(\d+)`)
)

func hiOf(fast bool, i int) int64 {
	if fast {
		if i < len(fastHi) {
			return fastHi[i]
		}
		return 6001
	}
	if i < len(defHi) {
		return defHi[i]
	}
	return 144001
}

type note struct{ sig, descr string }

type episode struct {
	fc      *clockwork.FakeClock
	genesis time.Time
	spe     uint64
	dur     time.Duration
	builder bool
	nsubs   int
	nvals   int
	sched   *scheduler.Scheduler
	dead    chan struct{}
	done    chan struct{}

	mu        sync.Mutex
	runAt     string // "", G, T, S, Z…, B
	runAns    chan string
	lastAns   string
	relCh     chan struct{}
	hold      bool
	parked    bool
	failV     []bool
	returned  bool
	retErr    error
	stopped   bool
	tkSeen    bool
	tkFired   bool // the ticker's timer has fired (stays so when the clock steps back)
	tkDl      time.Time
	inflight  []chan string
	calls     int
	subCalls  int
	lastSlot  uint64
	trigs     [][2]uint64
	notes     []note
	gOk, sOk  bool
	ticked    []uint64
	firsts    int
	seenDuty  map[[2]uint64]bool
	okByLabel map[uint64]int
	totalSubs int
}

func (e *episode) note(sig, descr string) { e.notes = append(e.notes, note{sig, descr}) }

// callerKind names the scheduler function the current call comes from.
func callerKind() string {
	pcs := make([]uintptr, 32)
	n := runtime.Callers(2, pcs)
	frames := runtime.CallersFrames(pcs[:n])
	for {
		f, more := frames.Next()
		switch {
		case strings.Contains(f.Function, "waitChainStart"):
			return "G"
		case strings.Contains(f.Function, "waitBeaconSync"):
			return "S"
		case strings.Contains(f.Function, "submitValidatorRegistrationsDelayed"):
			return "D"
		case strings.Contains(f.Function, "newSlotTicker"):
			return "T"
		}
		if !more {
			return "?"
		}
	}
}

// gclock is the scheduler's clock: the fake clock, with Sleep and After observed.
type gclock struct {
	*clockwork.FakeClock
	e *episode
}

func inferIdx(d time.Duration, baseDelay, maxDelay float64) int {
	nom := baseDelay
	for i := 0; i < 40; i++ {
		if i == 0 && float64(d) == baseDelay {
			return 0
		}
		if i > 0 && float64(d) >= 0.8*nom-1e6 && float64(d) <= 1.2*nom+1e6 {
			return i
		}
		if nom < maxDelay {
			nom *= 1.6
		}
		if nom > maxDelay {
			nom = maxDelay
		}
	}
	return -1
}

func (g gclock) Sleep(d time.Duration) {
	e := g.e
	kind := callerKind()
	e.mu.Lock()
	switch {
	case kind == "G" && e.lastAns == "ok":
		if want := e.genesis.Sub(g.Now()); d != want {
			e.note("schedrun:chainstart_sleep_not_until_genesis", fmt.Sprintf("slept %v, genesis is %v away", d, want))
		}
		e.runAt = "Zgd"
	case kind == "G":
		i := inferIdx(d, 100e6, 5e9)
		if i < 0 {
			e.note("schedrun:backoff_out_of_range", fmt.Sprintf("waitChainStart slept %v", d))
		}
		e.runAt = fmt.Sprintf("Zgb%d", min(max(i, 0), 8))
	case kind == "S" && e.lastAns == "fail":
		i := inferIdx(d, 100e6, 5e9)
		if i < 0 {
			e.note("schedrun:backoff_out_of_range", fmt.Sprintf("waitBeaconSync slept %v after an error", d))
		}
		e.runAt = fmt.Sprintf("Zsf%d", min(max(i, 0), 8))
	case kind == "S":
		i := inferIdx(d, 1e9, 120e9)
		if i < 0 {
			e.note("schedrun:backoff_out_of_range", fmt.Sprintf("waitBeaconSync slept %v while syncing", d))
		}
		e.runAt = fmt.Sprintf("Zsy%d", min(max(i, 0), 10))
	default:
		e.note("schedrun:unexpected_sleep", "clock.Sleep called from "+kind)
	}
	e.mu.Unlock()
	select {
	case <-g.FakeClock.After(d):
	case <-e.dead:
	}
	e.mu.Lock()
	e.runAt = ""
	e.mu.Unlock()
}

func (g gclock) After(d time.Duration) <-chan time.Time {
	e := g.e
	kind := callerKind()
	e.mu.Lock()
	switch kind {
	case "T":
		e.tkSeen, e.tkDl, e.tkFired = true, g.Now().Add(d), false
	case "D":
		if d != e.dur*3/4 {
			e.note("schedrun:registration_delay_not_three_quarters", fmt.Sprintf("delay %v, slot %v", d, e.dur))
		}
	default:
		e.note("schedrun:unexpected_after", "clock.After called from "+kind)
	}
	e.mu.Unlock()
	return g.FakeClock.After(d)
}

// ask parks the Run goroutine at a gate until the op that scripts the answer arrives.
func (e *episode) ask(kind string) string {
	ch := make(chan string, 1)
	e.mu.Lock()
	e.runAt, e.runAns = kind, ch
	e.mu.Unlock()
	var a string
	select {
	case a = <-ch:
	case <-e.dead:
		a = "dead"
	}
	e.mu.Lock()
	e.runAt, e.runAns = "", nil
	e.mu.Unlock()
	return a
}

func (e *episode) bnGenesis(context.Context, *eth2api.GenesisOpts) (*eth2v1.Genesis, error) {
	kind := callerKind()
	if kind != "G" && kind != "T" {
		return &eth2v1.Genesis{GenesisTime: e.genesis}, nil
	}
	switch e.ask(kind) {
	case "ok":
		return &eth2v1.Genesis{GenesisTime: e.genesis}, nil
	case "dead":
		if kind == "T" {
			return nil, errDead
		}
		return &eth2v1.Genesis{GenesisTime: base.Add(-time.Hour)}, nil
	default:
		return nil, errFail
	}
}

func (e *episode) bnSyncing(context.Context, *eth2api.NodeSyncingOpts) (*eth2v1.SyncState, error) {
	switch e.ask("S") {
	case "ok", "dead":
		return &eth2v1.SyncState{IsSyncing: false}, nil
	case "syncing":
		return &eth2v1.SyncState{IsSyncing: true, SyncDistance: 10}, nil
	default:
		return nil, errFail
	}
}

func pkBytes(id uint64) eth2p0.BLSPubKey {
	var pk eth2p0.BLSPubKey
	pk[0] = 0xa5
	binary.BigEndian.PutUint64(pk[40:], id)
	return pk
}

func (e *episode) bnValidators(context.Context) (eth2wrap.ActiveValidators, eth2wrap.CompleteValidators, error) {
	e.mu.Lock()
	if e.hold {
		e.hold, e.parked = false, true
		e.runAt = "B"
		ch := make(chan struct{})
		e.relCh = ch
		e.mu.Unlock()
		select {
		case <-ch:
		case <-e.dead:
		}
		e.mu.Lock()
		e.runAt, e.parked, e.relCh = "", false, nil
	}
	fail := false
	if len(e.failV) > 0 {
		fail, e.failV = e.failV[0], e.failV[1:]
	}
	e.mu.Unlock()
	if fail {
		return nil, nil, errFail
	}
	active := make(eth2wrap.ActiveValidators)
	complete := make(eth2wrap.CompleteValidators)
	for i := 0; i < e.nvals; i++ {
		idx := eth2p0.ValidatorIndex(i)
		complete[idx] = &eth2v1.Validator{Index: idx, Balance: 32000000000, Status: eth2v1.ValidatorStateActiveOngoing,
			Validator: &eth2p0.Validator{PublicKey: pkBytes(uint64(100 + i)), ExitEpoch: 1 << 62, WithdrawableEpoch: 1 << 62, EffectiveBalance: 32000000000}}
		active[idx] = pkBytes(uint64(100 + i))
	}
	return active, complete, nil
}

func (e *episode) bnAttester(_ context.Context, epoch eth2p0.Epoch, _ []eth2p0.ValidatorIndex) (eth2wrap.AttesterDutyWithMeta, error) {
	var out []*eth2v1.AttesterDuty
	ep := uint64(epoch)
	for i := uint64(0); i < uint64(e.nvals); i++ {
		out = append(out, &eth2v1.AttesterDuty{PubKey: pkBytes(100 + i), Slot: eth2p0.Slot(ep*e.spe + (i+ep)%e.spe), ValidatorIndex: eth2p0.ValidatorIndex(i),
			CommitteeIndex: eth2p0.CommitteeIndex(i), CommitteeLength: i + 1, CommitteesAtSlot: e.spe, ValidatorCommitteeIndex: i})
	}
	return eth2wrap.AttesterDutyWithMeta{Duties: out}, nil
}

func (e *episode) bnProposer(_ context.Context, epoch eth2p0.Epoch, _ []eth2p0.ValidatorIndex) (eth2wrap.ProposerDutyWithMeta, error) {
	if e.nvals == 0 {
		return eth2wrap.ProposerDutyWithMeta{}, nil
	}
	ep := uint64(epoch)
	v := ep % uint64(e.nvals)
	return eth2wrap.ProposerDutyWithMeta{Duties: []*eth2v1.ProposerDuty{{PubKey: pkBytes(100 + v), Slot: eth2p0.Slot(ep*e.spe + (3*ep)%e.spe), ValidatorIndex: eth2p0.ValidatorIndex(v)}}}, nil
}

func (e *episode) bnSync(_ context.Context, epoch eth2p0.Epoch, _ []eth2p0.ValidatorIndex) (eth2wrap.SyncDutyWithMeta, error) {
	if e.nvals == 0 || uint64(epoch)%2 == 1 {
		return eth2wrap.SyncDutyWithMeta{}, nil
	}
	return eth2wrap.SyncDutyWithMeta{Duties: []*eth2v1.SyncCommitteeDuty{{PubKey: pkBytes(100), ValidatorIndex: 0,
		ValidatorSyncCommitteeIndices: []eth2p0.CommitteeIndex{7}}}}, nil
}

func (e *episode) bnSubmitRegs(context.Context, []*eth2api.VersionedSignedValidatorRegistration) error {
	ch := make(chan string, 1)
	e.mu.Lock()
	e.inflight = append(e.inflight, ch)
	e.calls++
	e.mu.Unlock()
	var a string
	select {
	case a = <-ch:
	case <-e.dead:
		a = "fail"
	}
	if a == "ok" {
		return nil
	}
	return errFail
}

type regProvider struct{}

func (regProvider) Registrations() []*eth2api.VersionedSignedValidatorRegistration { return nil }

var mocks = map[[2]int64]beaconmock.Mock{}

func baseMock(spe int, durMs int64) beaconmock.Mock {
	k := [2]int64{int64(spe), durMs}
	if m, ok := mocks[k]; ok {
		return m
	}
	m, err := beaconmock.New(context.Background(), beaconmock.WithGenesisTime(base),
		beaconmock.WithSlotDuration(time.Duration(durMs)*time.Millisecond), beaconmock.WithSlotsPerEpoch(spe))
	hx.Must(err)
	mocks[k] = m
	return m
}

func newEpisode(spe int, durMs, startMs, genMs int64, builder bool, nsubs, nvals int) *episode {
	e := &episode{spe: uint64(spe), dur: time.Duration(durMs) * time.Millisecond, builder: builder, nsubs: nsubs, nvals: nvals,
		dead: make(chan struct{}), done: make(chan struct{}), seenDuty: map[[2]uint64]bool{}, okByLabel: map[uint64]int{}}
	e.fc = clockwork.NewFakeClockAt(base.Add(time.Duration(startMs) * time.Millisecond))
	e.genesis = base.Add(time.Duration(genMs) * time.Millisecond)
	m := baseMock(spe, durMs)
	m.GenesisFunc = e.bnGenesis
	m.NodeSyncingFunc = e.bnSyncing
	m.CachedValidatorsFunc = e.bnValidators
	m.CachedAttesterDutiesFunc = e.bnAttester
	m.CachedProposerDutiesFunc = e.bnProposer
	m.CachedSyncCommDutiesFunc = e.bnSync
	m.SubmitValidatorRegistrationsFunc = e.bnSubmitRegs
	delay := func(core.Duty, time.Time) <-chan time.Time {
		ch := make(chan time.Time, 1)
		ch <- time.Time{}
		return ch
	}
	s, err := scheduler.NewVerif(gclock{FakeClock: e.fc, e: e}, delay, regProvider{}, m, builder)
	hx.Must(err)
	s.SubscribeDuties(func(_ context.Context, d core.Duty, _ core.DutyDefinitionSet) error {
		e.mu.Lock()
		defer e.mu.Unlock()
		k := [2]uint64{d.Slot, uint64(d.Type)}
		if e.seenDuty[k] {
			e.note("schedrun:duty_triggered_twice", fmt.Sprintf("duty %v triggered twice", d))
		}
		e.seenDuty[k] = true
		e.trigs = append(e.trigs, k)
		return nil
	})
	for k := 0; k < nsubs; k++ {
		k := k
		s.SubscribeSlots(func(_ context.Context, slot core.Slot) error {
			e.mu.Lock()
			e.subCalls++
			e.totalSubs++
			if k == 0 {
				e.lastSlot = slot.Slot
			}
			e.mu.Unlock()
			if k == 1 {
				return errFail // an error of one subscriber is only logged
			}
			if k == 2 {
				<-e.dead // a subscriber that never returns during the episode
			}
			return nil
		})
	}
	e.sched = s
	go func() {
		err := s.Run()
		e.mu.Lock()
		e.returned, e.retErr = true, err
		e.mu.Unlock()
		close(e.done)
	}()
	return e
}

// close ends the episode and waits for Run to return.
func (e *episode) close(run *hx.Run) {
	close(e.dead)
	e.mu.Lock()
	stopped := e.stopped
	e.stopped = true
	e.mu.Unlock()
	if !stopped {
		e.sched.Stop()
	}
	// Run may sit in a wait loop on the fake clock: the gates now answer "started" / "synced" / ticker error
	select {
	case <-e.done:
	case <-time.After(20 * time.Second):
		run.Violate("schedrun:run_did_not_return", "Run did not return within 20 s after Stop at the end of the episode")
	}
	quiesce()
}

var stackBuf = make([]byte, 1<<20)

func allStacks() []byte {
	for {
		n := runtime.Stack(stackBuf, true)
		if n < len(stackBuf) {
			return stackBuf[:n]
		}
		stackBuf = make([]byte, 2*len(stackBuf))
	}
}

// quiesce returns once every goroutine with a frame in core/scheduler/scheduler.go is blocked.
func quiesce() string {
	deadline := time.Now().Add(30 * time.Second)
	for {
		dump := allStacks()
		ok := true
		for i, blk := range bytes.Split(dump, []byte("\n\n")) {
			if i == 0 || !(bytes.Contains(blk, []byte("/core/scheduler/scheduler.go")) || bytes.Contains(blk, []byte("cmd/drive-schedrun/main.go"))) {
				continue
			}
			a, b := bytes.IndexByte(blk, '['), bytes.IndexByte(blk, ']')
			if a < 0 || b < a {
				ok = false
				break
			}
			st := string(blk[a+1 : b])
			if !(strings.HasPrefix(st, "chan receive") || strings.HasPrefix(st, "chan send") || strings.HasPrefix(st, "select")) {
				ok = false
				break
			}
		}
		if ok {
			return string(dump)
		}
		if time.Now().After(deadline) {
			panic("scheduler goroutines do not come to rest:\n" + string(dump))
		}
		runtime.Gosched()
		time.Sleep(20 * time.Microsecond)
	}
}

func readLog() string {
	st, err := logFile.Stat()
	hx.Must(err)
	if st.Size() <= logOff {
		return ""
	}
	buf := make([]byte, st.Size()-logOff)
	_, err = logFile.ReadAt(buf, logOff)
	hx.Must(err)
	logOff = st.Size()
	return string(buf)
}

// finish waits for rest, evaluates the monitors and renders the state.
func (e *episode) finish(run *hx.Run) string {
	dump := quiesce()
	logs := readLog()
	e.mu.Lock()
	defer e.mu.Unlock()
	var taken []string
	for _, m := range reSlot.FindAllStringSubmatch(logs, -1) {
		s, _ := strconv.ParseUint(m[1], 10, 64)
		taken = append(taken, m[1])
		if !e.gOk || !e.sOk {
			run.Violate("schedrun:slot_before_ready", fmt.Sprintf("slot %d handled before chain start (%v) and sync (%v) were reported", s, e.gOk, e.sOk))
		}
		for _, p := range e.ticked {
			if p == s {
				run.Violate("schedrun:slot_handled_twice", fmt.Sprintf("slot %d handled twice", s))
			}
		}
		if n := len(e.ticked); n > 0 && e.ticked[n-1] > s {
			run.Violate("schedrun:slot_out_of_order", fmt.Sprintf("slot %d handled after slot %d", s, e.ticked[n-1]))
		}
		if e.returned && e.stopped {
			// the log line precedes the return of the same op only if Run took a slot with quit closed; the generator
			// stops only when nothing is on offer, so a slot after Stop means the select ignored quit
			run.Violate("schedrun:slot_after_stop", fmt.Sprintf("slot %d handled after Stop", s))
		}
		e.ticked = append(e.ticked, s)
		if s%e.spe == 0 {
			e.firsts++
		}
		run.Count("slot_handled")
	}
	for _, m := range reSub.FindAllStringSubmatch(logs, -1) {
		l, _ := strconv.ParseUint(m[1], 10, 64)
		e.okByLabel[l]++
		if lim := map[bool]int{true: 2, false: 1}[l == 0]; e.okByLabel[l] > lim {
			run.Violate("schedrun:registration_twice_in_epoch", fmt.Sprintf("%d successful submissions for epoch %d", e.okByLabel[l], l))
		}
	}
	startup := 0
	if e.builder && e.sOk {
		startup = 1
	}
	if e.calls > startup+e.firsts {
		run.Violate("schedrun:registration_twice_in_epoch", fmt.Sprintf("%d submissions, but only %d first slots of an epoch were handled (+%d at start-up)", e.calls, e.firsts, startup))
	}
	if e.totalSubs != e.nsubs*len(e.ticked) {
		run.Violate("schedrun:slot_subscribers_count", fmt.Sprintf("%d subscriber calls for %d slots and %d subscribers", e.totalSubs, len(e.ticked), e.nsubs))
	}
	if len(e.trigs) > 0 && (!e.gOk || !e.sOk) {
		run.Violate("schedrun:slot_before_ready", "duty triggered before chain start and sync were reported")
	}
	if e.stopped && e.runAt == "" && !e.returned && e.tkSeen {
		run.Violate("schedrun:run_did_not_return", "Stop was called, Run rests in its select and has not returned")
	}
	for _, n := range e.notes {
		run.Violate(n.sig, n.descr)
	}
	e.notes = nil

	if e.tkSeen && !e.tkDl.After(e.fc.Now()) {
		e.tkFired = true
	}
	ph := e.runAt
	switch {
	case e.returned && e.retErr == nil:
		ph = "R0"
	case e.returned:
		ph = "R1"
	case ph == "":
		ph = "I"
	case ph == "B":
		ph = fmt.Sprintf("B%d", e.lastSlot)
	}
	tk := "-"
	switch {
	case e.returned:
		tk = "x"
		if strings.Contains(dump, "newSlotTicker") && e.liveTicker(dump) {
			run.Violate("schedrun:ticker_leaked", "the ticker goroutine is alive after Run returned")
		}
	case e.tkSeen && !e.tkFired && e.tkDl.After(e.fc.Now()):
		tk = fmt.Sprintf("w%d", e.tkDl.Sub(e.genesis)/e.dur)
	case e.tkSeen:
		tk = "o"
	}
	sort.Slice(e.trigs, func(i, j int) bool {
		if e.trigs[i][0] != e.trigs[j][0] {
			return e.trigs[i][0] < e.trigs[j][0]
		}
		return e.trigs[i][1] < e.trigs[j][1]
	})
	var ds []string
	for _, t := range e.trigs {
		ds = append(ds, fmt.Sprintf("%d/%d", t[0], t[1]))
	}
	waiting := 0
	for _, blk := range strings.Split(dump, "\n\n") {
		if strings.Contains(blk, "submitValidatorRegistrationsDelayed(") && !strings.Contains(blk, "bnSubmitRegs") {
			waiting++
		}
	}
	re := "-"
	if sn := e.sched.SnapshotVerif(); sn.ResolvedEpoch != maxInt64 {
		re = strconv.FormatUint(sn.ResolvedEpoch, 10)
	}
	if e.runAt == "B" {
		// the handler is inside its validators call: duties it has handed out already are reported when it returns
		ds = nil
	} else {
		e.trigs = nil
	}
	out := fmt.Sprintf("%s tk=%s t=%s d=%s sub=%d reg=%d/%d/%d re=%s", ph, tk, lst(taken), lst(ds), e.subCalls, waiting, len(e.inflight), e.calls, re)
	e.subCalls = 0
	return out
}

// liveTicker: a ticker goroutine of THIS episode cannot be told from a leaked one of an earlier episode by its
// stack; earlier episodes are closed with their Run returned, so any ticker goroutine is a leak.
func (e *episode) liveTicker(string) bool { return true }

func lst(l []string) string {
	if len(l) == 0 {
		return "-"
	}
	return strings.Join(l, ",")
}

func (e *episode) phase() string {
	e.mu.Lock()
	defer e.mu.Unlock()
	if e.returned {
		return "R"
	}
	if e.runAt == "" {
		return "I"
	}
	return e.runAt
}

func u64(s string) uint64 {
	v, err := strconv.ParseUint(s, 10, 64)
	hx.Must(err)
	return v
}

func main() {
	a := hx.ParseArgs()
	// Run logs every slot it receives and every successful submission: the log is the in-order record
	f, err := os.CreateTemp("", "schedrun-log-*")
	hx.Must(err)
	defer os.Remove(f.Name())
	logFile = f
	os.Stderr = f
	hx.Must(log.InitLogger(log.Config{Level: "debug", Format: "json", Color: "disable"}))
	hx.Must(featureset.Init(context.Background(), featureset.Config{MinStatus: "stable",
		Disabled: []string{string(featureset.FetchAttOnBlock), string(featureset.FetchAttOnBlockWithDelay)}}))
	run := hx.NewRun(a.Dir)
	defer run.Close()
	var ep *episode
	exec := func(op string) string {
		run.Begin(op)
		f := strings.Fields(op)
		if f[0] != "cfg" && ep == nil {
			panic("op before cfg: " + op)
		}
		var out string
		switch f[0] {
		case "cfg":
			if ep != nil {
				ep.close(run)
				readLog()
			}
			ep = newEpisode(int(u64(f[1])), int64(u64(f[2])), int64(u64(f[3])), int64(u64(f[4])), f[5] != "0", int(u64(f[6])), int(u64(f[7])))
			run.Count("cfg")
		case "gen", "syn":
			ep.mu.Lock()
			ch, at := ep.runAns, ep.runAt
			ok := ch != nil && ((f[0] == "gen" && (at == "G" || at == "T")) || (f[0] == "syn" && at == "S"))
			if ok {
				ep.lastAns = f[1]
				if at == "G" && f[1] == "ok" && !ep.fc.Now().Before(ep.genesis) {
					ep.gOk = true
				}
				if at == "S" && f[1] == "ok" {
					ep.sOk = true
				}
			}
			ep.mu.Unlock()
			if !ok {
				panic("no pending call for " + op)
			}
			run.Count(f[0] + ":" + at + ":" + f[1])
			ch <- f[1]
		case "adv":
			run.Count("adv@" + ep.phase()[:1])
			ep.fc.Advance(time.Duration(u64(f[1])) * time.Millisecond)
		case "back":
			// the wall clock is adjusted backwards: timers keep their deadlines
			run.Count("back@" + ep.phase()[:1])
			ep.fc.Advance(-time.Duration(u64(f[1])) * time.Millisecond)
		case "hold":
			ep.mu.Lock()
			ep.hold = true
			ep.mu.Unlock()
		case "rel":
			ep.mu.Lock()
			ch := ep.relCh
			ep.mu.Unlock()
			if ch == nil {
				panic("nothing parked: " + op)
			}
			run.Count("rel")
			close(ch)
		case "failv":
			ep.mu.Lock()
			ep.failV = nil
			for _, c := range f[1] {
				ep.failV = append(ep.failV, c == '1')
			}
			ep.mu.Unlock()
		case "stop":
			run.Count("stop@" + ep.phase()[:1])
			ep.mu.Lock()
			ep.stopped = true
			ep.mu.Unlock()
			ep.sched.Stop()
		case "regans":
			ep.mu.Lock()
			chs := ep.inflight
			ep.inflight = nil
			ep.mu.Unlock()
			for _, ch := range chs {
				ch <- f[1]
			}
			run.Count(fmt.Sprintf("regans:%s:%d", f[1], len(chs)))
		default:
			panic("bad op " + op)
		}
		out = ep.finish(run)
		run.Case(strings.Fields(out)[0] + "|" + f[0])
		run.Op(op, out)
		return out
	}
	if a.Mode == "exec" {
		for _, op := range hx.ReadOps(a.Ops) {
			exec(op)
		}
		if ep != nil {
			ep.close(run)
		}
		return
	}
	rng := hx.NewRng(a.Seed)
	for run.NOps < a.N && !run.Enough() {
		generateEpisode(rng, exec, func() *episode { return ep })
	}
	if ep != nil {
		ep.close(run)
	}
}

func generateEpisode(rng *hx.Rng, exec func(string) string, cur func() *episode) {
	spe := []int{2, 3, 4, 8}[rng.Intn(4)]
	dur := []int64{1000, 4000, 12000}[rng.Intn(3)]
	gen := int64(100000)
	var start int64
	switch rng.Intn(4) {
	case 0:
		start = gen - int64(1+rng.Intn(5000))
	case 1:
		start = gen
	default:
		start = gen + int64(rng.Intn(3*spe))*dur + int64(rng.Intn(int(dur)))
	}
	out := exec(fmt.Sprintf("cfg %d %d %d %d %d %d %d", spe, dur, start, gen, b2i(rng.Chance(3, 5)), 1+rng.Intn(3), rng.Intn(5)))
	now := start
	stoppedEarly, stopped := false, false
	after := 0
	holdArmed := false
	for n := 0; n < 25+rng.Intn(60); n++ {
		f := strings.Fields(out)
		ph := f[0]
		var infl int
		fmt.Sscanf(strings.Split(strings.TrimPrefix(f[5], "reg="), "/")[1], "%d", &infl)
		adv := func(ms int64) { now += ms; out = exec(fmt.Sprintf("adv %d", ms)) }
		switch {
		case ph == "G":
			if !stopped && rng.Chance(1, 30) {
				out, stopped, stoppedEarly = exec("stop"), true, true
			} else if rng.Chance(3, 4) {
				out = exec("gen ok")
			} else {
				out = exec("gen fail")
			}
		case ph == "T":
			if stoppedEarly || rng.Chance(1, 10) {
				out = exec("gen fail")
			} else {
				out = exec("gen ok")
			}
		case ph == "S":
			switch r := rng.Intn(20); {
			case r == 0 && !stopped:
				out, stopped, stoppedEarly = exec("stop"), true, true
			case r < 12:
				out = exec("syn ok")
			case r < 17:
				out = exec("syn syncing")
			default:
				out = exec("syn fail")
			}
		case ph == "Zgd":
			rem := gen - now
			if rng.Chance(1, 3) && rem > 1 {
				adv(rem / 2)
			} else {
				adv(rem + int64(rng.Intn(3))*int64(rng.Intn(2000)))
			}
		case strings.HasPrefix(ph, "Zgb"), strings.HasPrefix(ph, "Zsf"):
			i, _ := strconv.Atoi(ph[3:])
			adv(hiOf(true, i) + int64(rng.Intn(3))*int64(rng.Intn(3000)))
		case strings.HasPrefix(ph, "Zsy"):
			i, _ := strconv.Atoi(ph[3:])
			adv(hiOf(false, i) + int64(rng.Intn(2000)))
		case strings.HasPrefix(ph, "R"):
			after++
			if after > 2 {
				return
			}
			adv(dur * int64(1+rng.Intn(3)))
		case strings.HasPrefix(ph, "B") && f[1] == "tk=o" && rng.Chance(1, 4):
			// a slot is on offer while the handler is busy: the wall clock steps back by some tens of ms
			ms := int64(1 + rng.Intn(200))
			if off := (now - gen) % dur; now > gen && off+60 < dur && rng.Chance(2, 3) {
				ms = off + 1 + int64(rng.Intn(50)) // just across the start of the current slot
			}
			now -= ms
			out = exec(fmt.Sprintf("back %d", ms))
		case strings.HasPrefix(ph, "B"):
			switch r := rng.Intn(10); {
			case r < 4:
				out = exec("rel")
				holdArmed = false
			case r < 8:
				// the handler is busy while the clock moves on: less than a slot, a slot, several slots
				adv([]int64{dur / 3, dur, dur + dur/2, 3 * dur, int64(spe) * dur}[rng.Intn(5)])
			case r == 8:
				out = exec("failv " + bits(rng, 1+rng.Intn(3)))
			default:
				if infl > 0 {
					out = exec("regans " + []string{"ok", "fail"}[rng.Intn(2)])
				} else {
					out = exec("rel")
					holdArmed = false
				}
			}
		default: // I
			switch r := rng.Intn(40); {
			case r == 0 && !stopped:
				out, stopped = exec("stop"), true
			case r == 1 && rng.Chance(1, 3):
				ms := int64(1 + rng.Intn(int(dur)/2))
				now -= ms
				out = exec(fmt.Sprintf("back %d", ms))
			case r < 5 && !holdArmed:
				out, holdArmed = exec("hold"), true
			case r < 8:
				out = exec("failv " + bits(rng, 1+rng.Intn(4)))
			case r < 14 && infl > 0:
				out = exec("regans " + []string{"ok", "fail"}[rng.Intn(2)])
			case r < 30:
				adv(dur)
			case r < 34:
				adv(int64(1 + rng.Intn(int(dur))))
			case r < 37:
				adv(dur*int64(2+rng.Intn(2*spe)) + int64(rng.Intn(int(dur))))
			default:
				adv(dur*3/4 + int64(rng.Intn(2)))
			}
			if strings.HasPrefix(strings.Fields(out)[0], "B") {
				holdArmed = false
			}
		}
	}
	_ = cur
}

func bits(rng *hx.Rng, n int) string {
	var b strings.Builder
	for i := 0; i < n; i++ {
		b.WriteByte("01"[rng.Intn(2)])
	}
	return b.String()
}

func b2i(b bool) int {
	if b {
		return 1
	}
	return 0
}
