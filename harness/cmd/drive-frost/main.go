// drive-frost: correspondence driver for C11 (dkg/frost.go, dkg/frostp2p.go, dkg/share/share.go).
//
// Runs the REAL runFrostParallel (hook dkg.VerifRunFrostParallel) for n nodes in-process over an
// in-memory transport that mirrors frostP2P (messages go through the real proto conversions and
// makeRound1Response / makeRound2Response, are delivered in shuffled order, and nodes are released
// from each round in an adversarially chosen order, optionally one at a time) and records all
// traffic. The Lean model (lean/Driver/Frost.lean over Model/Fr.lean, Model/FrostGlue.lean)
// recomputes the routing (round1 keys, getRound2Inputs, makeShares) and the scalar layer
// (every node's secret share = sum of the round-1 shares sent to it, every dealer's shares on a
// polynomial of degree < t, group secret by interpolation) and predicts the group-level outcomes.
//
// ops (keys are "<valIdx>.<sourceID>.<targetID>"; scalars 32 byte big-endian hex):
//
//	cer <n> <t> <vals> <ctx> <sched>   run a ceremony (reset op)            -> ok | err
//	out <j>                            keys node j filed in round1()         -> c=[keys] p=[keys]
//	in <j> <castkeys> <key:share,..>   maps the transport returned to node j -> real getRound2Inputs per validator
//	                                                                           c:0=[src,..];.. s:0=[src:share,..];..
//	r2 <j> <key:pkid,..>               round-2 map returned to node j        -> node j's PublicShares per validator 0=[id:pkid,..];..
//	val <v> <src>tgt:share,..> <j:sk,..>  round-1 shares and final secret shares of validator v
//	                                   -> x=<RecoverSecret(all shares)> pk=<SecretToPublicKey(x)==group key>
//	rec <v> <ids>                      -> <RecoverSecret(ids)> rpk=<RecoverPubkey(pubshares ids)==group key>
//	sig <v> <ids> <msg>                -> agg=<ThresholdAggregate(partials)==Sign(x,msg)> ver=<Verify(group key)>
//
// Values produced by the ceremony come from crypto/rand inside kryptology: op lines carrying them
// are (re)written from the ceremony of the current run (exec mode re-runs the ceremony).
package main

import (
	"bytes"
	"context"
	"encoding/hex"
	"fmt"
	"sort"
	"strconv"
	"strings"
	"sync"
	"time"

	"github.com/coinbase/kryptology/pkg/core/curves"
	"github.com/coinbase/kryptology/pkg/dkg/frost"
	"github.com/coinbase/kryptology/pkg/sharing"
	"google.golang.org/protobuf/proto"

	"github.com/obolnetwork/charon/app/log"
	"github.com/obolnetwork/charon/dkg"
	pb "github.com/obolnetwork/charon/dkg/dkgpb/v1"
	"github.com/obolnetwork/charon/dkg/share"
	"github.com/obolnetwork/charon/tbls"

	"verifharness/hx"
)

type key = dkg.VerifMsgKey

func keyStr(k key) string { return fmt.Sprintf("%d.%d.%d", k.ValIdx, k.SourceID, k.TargetID) }

func keyLess(a, b key) bool {
	if a.ValIdx != b.ValIdx {
		return a.ValIdx < b.ValIdx
	}
	if a.SourceID != b.SourceID {
		return a.SourceID < b.SourceID
	}
	return a.TargetID < b.TargetID
}

// ---------------------------------------------------------------------------------------------
// transport

type nodeRec struct {
	outCast, outP2P []key
	inCast          map[key]frost.Round1Bcast
	inP2P           map[key]sharing.ShamirShare
	inR2            map[key]frost.Round2Bcast
	shares          []share.Share
	err             error
}

type memTransport struct {
	mu      sync.Mutex
	n       int
	rng     *hx.Rng // only used by the coordinator goroutine / under mu
	nodes   map[uint32]*nodeRec
	r1casts map[uint32][]byte            // source -> marshalled FrostRound1Casts
	r1p2p   map[uint32]map[uint32][]byte // target -> source -> marshalled FrostRound1P2P
	r2casts map[uint32][]byte
	gate1   map[uint32]chan struct{}
	gate2   map[uint32]chan struct{}
	event   chan string // "r1:<id>", "r2:<id>", "done:<id>"
	// fault injection (op fcer): the round-1 p2p message of node drop[0] to node drop[1] lacks the share of
	// validator drop[2] (a peer that sends an incomplete but otherwise well-formed message)
	drop *[3]uint32
}

func newTransport(n int, rng *hx.Rng) *memTransport {
	t := &memTransport{n: n, rng: rng, nodes: map[uint32]*nodeRec{}, r1casts: map[uint32][]byte{},
		r1p2p: map[uint32]map[uint32][]byte{}, r2casts: map[uint32][]byte{},
		gate1: map[uint32]chan struct{}{}, gate2: map[uint32]chan struct{}{}, event: make(chan string, 8*n+8)}
	for i := 1; i <= n; i++ {
		t.nodes[uint32(i)] = &nodeRec{}
		t.gate1[uint32(i)] = make(chan struct{})
		t.gate2[uint32(i)] = make(chan struct{})
	}
	return t
}

func sourceOf[T any](m map[key]T) uint32 {
	for k := range m {
		return k.SourceID
	}
	return 0
}

// Round1 mirrors frostP2P.Round1: build the broadcast and the per-target p2p protos with the real
// conversion functions, "send" them (marshalled), wait for release, then assemble the response with
// the real makeRound1Response from the received messages in shuffled order.
func (t *memTransport) Round1(ctx context.Context, castR1 map[key]frost.Round1Bcast, p2pR1 map[key]sharing.ShamirShare,
) (map[key]frost.Round1Bcast, map[key]sharing.ShamirShare, error) {
	self := sourceOf(castR1)
	casts := new(pb.FrostRound1Casts)
	for k, c := range castR1 {
		casts.Casts = append(casts.Casts, dkg.VerifRound1CastToProto(k, c))
	}
	cb, err := proto.Marshal(casts)
	if err != nil {
		return nil, nil, err
	}
	msgs := map[uint32]*pb.FrostRound1P2P{}
	for k, s := range p2pR1 {
		if t.drop != nil && k.SourceID == t.drop[0] && k.TargetID == t.drop[1] && k.ValIdx == t.drop[2] {
			continue
		}
		m, ok := msgs[k.TargetID]
		if !ok {
			m = new(pb.FrostRound1P2P)
			msgs[k.TargetID] = m
		}
		m.Shares = append(m.Shares, dkg.VerifShamirShareToProto(k, s))
	}
	t.mu.Lock()
	rec := t.nodes[self]
	for k := range castR1 {
		rec.outCast = append(rec.outCast, k)
	}
	for k := range p2pR1 {
		rec.outP2P = append(rec.outP2P, k)
	}
	t.r1casts[self] = cb
	for tgt, m := range msgs {
		b, err := proto.Marshal(m)
		if err != nil {
			t.mu.Unlock()
			return nil, nil, err
		}
		if t.r1p2p[tgt] == nil {
			t.r1p2p[tgt] = map[uint32][]byte{}
		}
		t.r1p2p[tgt][self] = b
	}
	t.mu.Unlock()
	t.event <- fmt.Sprintf("r1:%d", self)

	select {
	case <-ctx.Done():
		return nil, nil, ctx.Err()
	case <-t.gate1[self]:
	}

	t.mu.Lock()
	var castMsgs []*pb.FrostRound1Casts
	for _, src := range t.rng.Perm(t.n) {
		m := new(pb.FrostRound1Casts)
		if err := proto.Unmarshal(t.r1casts[uint32(src+1)], m); err != nil {
			t.mu.Unlock()
			return nil, nil, err
		}
		castMsgs = append(castMsgs, m)
	}
	var p2pMsgs []*pb.FrostRound1P2P
	for _, src := range t.rng.Perm(t.n) {
		b, ok := t.r1p2p[self][uint32(src+1)]
		if !ok {
			continue
		}
		m := new(pb.FrostRound1P2P)
		if err := proto.Unmarshal(b, m); err != nil {
			t.mu.Unlock()
			return nil, nil, err
		}
		p2pMsgs = append(p2pMsgs, m)
	}
	t.mu.Unlock()
	cm, pm, err := dkg.VerifMakeRound1Response(castMsgs, p2pMsgs)
	if err != nil {
		return nil, nil, err
	}
	t.mu.Lock()
	rec.inCast, rec.inP2P = cm, pm
	t.mu.Unlock()
	return cm, pm, nil
}

func (t *memTransport) Round2(ctx context.Context, castR2 map[key]frost.Round2Bcast) (map[key]frost.Round2Bcast, error) {
	self := sourceOf(castR2)
	casts := new(pb.FrostRound2Casts)
	for k, c := range castR2 {
		casts.Casts = append(casts.Casts, dkg.VerifRound2CastToProto(k, c))
	}
	cb, err := proto.Marshal(casts)
	if err != nil {
		return nil, err
	}
	t.mu.Lock()
	t.r2casts[self] = cb
	t.mu.Unlock()
	t.event <- fmt.Sprintf("r2:%d", self)

	select {
	case <-ctx.Done():
		return nil, ctx.Err()
	case <-t.gate2[self]:
	}

	t.mu.Lock()
	var msgs []*pb.FrostRound2Casts
	for _, src := range t.rng.Perm(t.n) {
		m := new(pb.FrostRound2Casts)
		if err := proto.Unmarshal(t.r2casts[uint32(src+1)], m); err != nil {
			t.mu.Unlock()
			return nil, err
		}
		msgs = append(msgs, m)
	}
	t.mu.Unlock()
	res, err := dkg.VerifMakeRound2Response(msgs)
	if err != nil {
		return nil, err
	}
	t.mu.Lock()
	t.nodes[self].inR2 = res
	t.mu.Unlock()
	return res, nil
}

// ---------------------------------------------------------------------------------------------
// ceremony

type ceremony struct {
	n, t, nv int
	tp       *memTransport
	ok       bool
	x        map[int]tbls.PrivateKey // group secret per validator (RecoverSecret over all shares)
	pkids    map[tbls.PublicKey]int  // interning of public shares for the r2 op
}

// runCeremony starts n nodes and coordinates the release order of the two rounds.
func runCeremony(n, t, nv int, dkgCtx string, sched uint64, drop *[3]uint32) *ceremony {
	rng := hx.NewRng(sched)
	tp := newTransport(n, hx.NewRng(sched^0x5eed)) // delivery-order PRNG, used only under tp.mu
	tp.drop = drop
	c := &ceremony{n: n, t: t, nv: nv, tp: tp, x: map[int]tbls.PrivateKey{}, pkids: map[tbls.PublicKey]int{}}
	ctx, cancel := context.WithTimeout(context.Background(), 120*time.Second)
	defer cancel()

	var wg sync.WaitGroup
	for _, i := range rng.Perm(n) { // start order
		id := uint32(i + 1)
		wg.Add(1)
		go func() {
			defer wg.Done()
			var sh []share.Share
			var err error
			func() {
				defer func() {
					if p := recover(); p != nil {
						err = fmt.Errorf("panic: %v", p)
					}
				}()
				sh, err = dkg.VerifRunFrostParallel(ctx, tp, uint32(nv), uint32(n), uint32(t), id, dkgCtx)
			}()
			tp.mu.Lock()
			tp.nodes[id].shares, tp.nodes[id].err = sh, err
			tp.mu.Unlock()
			if err != nil {
				cancel()
			}
			tp.event <- fmt.Sprintf("done:%d", id)
		}()
	}

	// coordinator: release nodes from round 1 / round 2 in a scheduled order; a "gated" release waits
	// until the released node has reached its next step before the next node is released.
	seen := map[string]bool{}
	waitFor := func(ev string) bool {
		for !seen[ev] {
			select {
			case e := <-tp.event:
				seen[e] = true
			case <-ctx.Done():
				return false
			}
		}
		return true
	}
	alive := true
	for i := 1; i <= n && alive; i++ {
		alive = waitFor(fmt.Sprintf("r1:%d", i))
	}
	strict := rng.Intn(3) // 0: release all at once, 1: random gating, 2: strictly one at a time
	if alive {
		for _, i := range rng.Perm(n) {
			close(tp.gate1[uint32(i+1)])
			if strict == 2 || (strict == 1 && rng.Chance(1, 2)) {
				if !waitFor(fmt.Sprintf("r2:%d", i+1)) {
					alive = false
					break
				}
			}
		}
	}
	for i := 1; i <= n && alive; i++ {
		alive = waitFor(fmt.Sprintf("r2:%d", i))
	}
	if alive {
		for _, i := range rng.Perm(n) {
			close(tp.gate2[uint32(i+1)])
			if strict == 2 || (strict == 1 && rng.Chance(1, 2)) {
				if !waitFor(fmt.Sprintf("done:%d", i+1)) {
					alive = false
					break
				}
			}
		}
	}
	wg.Wait()
	c.ok = true
	for _, r := range tp.nodes {
		if r.err != nil || len(r.shares) != nv {
			c.ok = false
		}
	}
	return c
}

func sortedKeys[T any](m map[key]T) []key {
	ks := make([]key, 0, len(m))
	for k := range m {
		ks = append(ks, k)
	}
	sort.Slice(ks, func(a, b int) bool { return keyLess(ks[a], ks[b]) })
	return ks
}

func keysStr(ks []key) string {
	sort.Slice(ks, func(a, b int) bool { return keyLess(ks[a], ks[b]) })
	p := make([]string, len(ks))
	for i, k := range ks {
		p[i] = keyStr(k)
	}
	if len(p) == 0 {
		return "-"
	}
	return strings.Join(p, ",")
}

var curve = curves.BLS12381G1()

// monitors on the ceremony result (independent of the model).
func (c *ceremony) monitors(run *hx.Run) {
	n, nv := c.n, c.nv
	first := c.tp.nodes[1]
	groupKeys := map[tbls.PublicKey]bool{}
	for v := 0; v < nv; v++ {
		ref := first.shares[v]
		groupKeys[ref.PubKey] = true
		ids := make([]int, 0, len(ref.PublicShares))
		for id := range ref.PublicShares {
			ids = append(ids, id)
		}
		sort.Ints(ids)
		okKeys := len(ids) == n
		for i, id := range ids {
			if id != i+1 {
				okKeys = false
			}
		}
		if !okKeys {
			run.Violate("frost:pubshare_ids_not_1_to_n", fmt.Sprintf("validator %d: PublicShares keys %v, n=%d", v, ids, n))
		}
		for j := 1; j <= n; j++ {
			sh := c.tp.nodes[uint32(j)].shares[v]
			if sh.PubKey != ref.PubKey {
				run.Violate("frost:group_key_disagreement", fmt.Sprintf("validator %d: node %d holds group key %x, node 1 holds %x", v, j, sh.PubKey[:6], ref.PubKey[:6]))
			}
			same := len(sh.PublicShares) == len(ref.PublicShares)
			for id, pk := range ref.PublicShares {
				if sh.PublicShares[id] != pk {
					same = false
				}
			}
			if !same {
				run.Violate("frost:pubshares_disagreement", fmt.Sprintf("validator %d: node %d and node 1 hold different public shares", v, j))
			}
			pk, err := tbls.SecretToPublicKey(sh.SecretShare)
			if err != nil || pk != ref.PublicShares[j] {
				run.Violate("frost:secret_share_pubshare_mismatch", fmt.Sprintf("validator %d: node %d's secret share does not match PublicShares[%d]", v, j, j))
			}
		}
		// Feldman: public share j must be sum_i sum_k j^k A_{i,k}; group key must be sum_i A_{i,0}
		casts := map[uint32]frost.Round1Bcast{}
		for k, cst := range first.inCast {
			if int(k.ValIdx) == v {
				casts[k.SourceID] = cst
			}
		}
		if len(casts) == n {
			var gk curves.Point
			for i := 1; i <= n; i++ {
				a0 := casts[uint32(i)].Verifiers.Commitments[0]
				if gk == nil {
					gk = a0
				} else {
					gk = gk.Add(a0)
				}
			}
			if !bytes.Equal(gk.ToAffineCompressed(), ref.PubKey[:]) {
				run.Violate("frost:group_key_not_commitment_sum", fmt.Sprintf("validator %d", v))
			}
			for j := 1; j <= n; j++ {
				var acc curves.Point
				x := curve.Scalar.New(j)
				for i := 1; i <= n; i++ {
					comms := casts[uint32(i)].Verifiers.Commitments
					// Horner in the exponent
					var e curves.Point
					for k := len(comms) - 1; k >= 0; k-- {
						if e == nil {
							e = comms[k]
						} else {
							e = e.Mul(x).Add(comms[k])
						}
					}
					if acc == nil {
						acc = e
					} else {
						acc = acc.Add(e)
					}
				}
				want := ref.PublicShares[j]
				if !bytes.Equal(acc.ToAffineCompressed(), want[:]) {
					run.Violate("frost:share_sum_mismatch", fmt.Sprintf("validator %d: public share of node %d is not the sum of the dealers' committed evaluations at %d", v, j, j))
				}
			}
		} else {
			run.Violate("frost:round1_casts_incomplete", fmt.Sprintf("validator %d: node 1 received %d casts", v, len(casts)))
		}
	}
	if len(groupKeys) != nv {
		run.Violate("frost:validators_share_key", fmt.Sprintf("%d validators, %d distinct group keys", nv, len(groupKeys)))
	}
	// every round-1 share delivered to node j must carry identifier j
	for j := 1; j <= n; j++ {
		for k, s := range c.tp.nodes[uint32(j)].inP2P {
			if int(s.Id) != j || int(k.TargetID) != j {
				run.Violate("frost:share_misrouted", fmt.Sprintf("node %d received share with id %d under key %s", j, s.Id, keyStr(k)))
			}
		}
	}
}

func hexOf(b []byte) string {
	if len(b) == 0 {
		return "-"
	}
	return hex.EncodeToString(b)
}

func unhex(s string) []byte {
	if s == "-" {
		return nil
	}
	b, err := hex.DecodeString(s)
	hx.Must(err)
	return b
}

func b01(b bool) string {
	if b {
		return "1"
	}
	return "0"
}

func parseIDs(s string) []int {
	var out []int
	for _, f := range strings.Split(s, ",") {
		v, err := strconv.Atoi(f)
		hx.Must(err)
		out = append(out, v)
	}
	return out
}

func idsStr(ids []int) string {
	p := make([]string, len(ids))
	for i, v := range ids {
		p[i] = strconv.Itoa(v)
	}
	return strings.Join(p, ",")
}

func (c *ceremony) pkid(pk tbls.PublicKey) int {
	if id, ok := c.pkids[pk]; ok {
		return id
	}
	id := len(c.pkids) + 1
	c.pkids[pk] = id
	return id
}

func main() {
	a := hx.ParseArgs()
	hx.Must(log.InitLogger(log.Config{Level: "error", Format: "console", Color: "disable"}))
	run := hx.NewRun(a.Dir)
	defer run.Close()
	var cer *ceremony

	exec := func(op string) {
		f := strings.Fields(op)
		if f[0] == "cer" {
			n, _ := strconv.Atoi(f[1])
			t, _ := strconv.Atoi(f[2])
			nv, _ := strconv.Atoi(f[3])
			sched, _ := strconv.ParseUint(f[5], 10, 64)
			ctxs := f[4]
			if ctxs == "-" {
				ctxs = ""
			}
			cer = runCeremony(n, t, nv, ctxs, sched, nil)
			run.Count("cer")
			valid := t >= 2 && t <= n && n >= 2 && nv >= 1
			if !cer.ok {
				if valid {
					var errs []string
					for id, r := range cer.tp.nodes {
						if r.err != nil {
							errs = append(errs, fmt.Sprintf("node %d: %v", id, r.err))
						}
					}
					sort.Strings(errs)
					run.Violate("frost:ceremony_failed", fmt.Sprintf("n=%d t=%d vals=%d: %s", n, t, nv, strings.Join(errs, "; ")))
				}
				run.Count("cer:err")
				run.Op(op, "err")
				return
			}
			cer.monitors(run)
			run.Case(fmt.Sprintf("cer:%d:%d:%d", n, t, nv))
			run.Op(op, "ok")
			return
		}
		if f[0] == "fcer" {
			// a ceremony in which one peer's round-1 p2p message to one node lacks one validator's share: the receiver
			// cannot compute that validator's key with everybody's contribution, so the ceremony must not succeed;
			// if it does, the usual output monitors decide whether the nodes hold one consistent key
			n, _ := strconv.Atoi(f[1])
			t, _ := strconv.Atoi(f[2])
			nv, _ := strconv.Atoi(f[3])
			sched, _ := strconv.ParseUint(f[5], 10, 64)
			ctxs := f[4]
			if ctxs == "-" {
				ctxs = ""
			}
			var d [3]uint32
			for i := 0; i < 3; i++ {
				v, _ := strconv.Atoi(f[6+i])
				d[i] = uint32(v)
			}
			cer = runCeremony(n, t, nv, ctxs, sched, &d)
			run.Count("fcer")
			if !cer.ok {
				run.Case(fmt.Sprintf("fcer:%d:%d:%d", n, t, nv))
				run.Op(op, "err")
				return
			}
			run.Violate("frost:incomplete_round1_message_accepted", fmt.Sprintf("n=%d t=%d vals=%d: node %d's message to node %d lacked the share of validator %d and the ceremony succeeded on every node",
				n, t, nv, d[0], d[1], d[2]))
			cer.monitors(run)
			run.Op(op, "ok")
			cer = nil
			return
		}
		if cer == nil || !cer.ok {
			panic("op without successful ceremony: " + op)
		}
		switch f[0] {
		case "out":
			j, _ := strconv.Atoi(f[1])
			r := cer.tp.nodes[uint32(j)]
			run.Count("out")
			run.Op(op, fmt.Sprintf("c=[%s] p=[%s]", keysStr(r.outCast), keysStr(r.outP2P)))
		case "in":
			j, _ := strconv.Atoi(f[1])
			r := cer.tp.nodes[uint32(j)]
			var ents []string
			for _, k := range sortedKeys(r.inP2P) {
				ents = append(ents, keyStr(k)+":"+hexOf(r.inP2P[k].Value))
			}
			line := fmt.Sprintf("in %d %s %s", j, keysStr(sortedKeys(r.inCast)), strings.Join(ents, ","))
			var cs, ss []string
			for v := 0; v < cer.nv; v++ {
				cm, sm := dkg.VerifGetRound2Inputs(r.inCast, r.inP2P, uint32(v))
				var srcs []int
				for s := range cm {
					srcs = append(srcs, int(s))
				}
				sort.Ints(srcs)
				cs = append(cs, fmt.Sprintf("%d=[%s]", v, idsStr(srcs)))
				srcs = srcs[:0]
				for s := range sm {
					srcs = append(srcs, int(s))
				}
				sort.Ints(srcs)
				var parts []string
				for _, s := range srcs {
					parts = append(parts, fmt.Sprintf("%d:%s", s, hexOf(sm[uint32(s)].Value)))
				}
				ss = append(ss, fmt.Sprintf("%d=[%s]", v, strings.Join(parts, ",")))
			}
			run.Count("in")
			run.Op(line, "c:"+strings.Join(cs, ";")+" s:"+strings.Join(ss, ";"))
		case "r2":
			j, _ := strconv.Atoi(f[1])
			r := cer.tp.nodes[uint32(j)]
			var ents []string
			for _, k := range sortedKeys(r.inR2) {
				pk := *(*tbls.PublicKey)(r.inR2[k].VkShare.ToAffineCompressed())
				ents = append(ents, fmt.Sprintf("%s:%d", keyStr(k), cer.pkid(pk)))
			}
			var vs []string
			for v := 0; v < cer.nv; v++ {
				ps := r.shares[v].PublicShares
				var ids []int
				for id := range ps {
					ids = append(ids, id)
				}
				sort.Ints(ids)
				var parts []string
				for _, id := range ids {
					parts = append(parts, fmt.Sprintf("%d:%d", id, cer.pkid(ps[id])))
				}
				vs = append(vs, fmt.Sprintf("%d=[%s]", v, strings.Join(parts, ",")))
			}
			run.Count("r2")
			run.Op(fmt.Sprintf("r2 %d %s", j, strings.Join(ents, ",")), strings.Join(vs, ";"))
		case "val":
			v, _ := strconv.Atoi(f[1])
			var p2p, sks []string
			all := map[int]tbls.PrivateKey{}
			for j := 1; j <= cer.n; j++ {
				r := cer.tp.nodes[uint32(j)]
				for _, k := range sortedKeys(r.inP2P) {
					if int(k.ValIdx) == v {
						p2p = append(p2p, fmt.Sprintf("%d>%d:%s", k.SourceID, k.TargetID, hexOf(r.inP2P[k].Value)))
					}
				}
				sk := r.shares[v].SecretShare
				sks = append(sks, fmt.Sprintf("%d:%x", j, sk[:]))
				all[j] = sk
			}
			x, err := tbls.RecoverSecret(all, uint(cer.n), uint(cer.t))
			out := "err"
			if err == nil {
				cer.x[v] = x
				pk, err := tbls.SecretToPublicKey(x)
				okPK := err == nil && pk == cer.tp.nodes[1].shares[v].PubKey
				if !okPK {
					run.Violate("frost:group_key_not_key_of_shared_secret", fmt.Sprintf("validator %d: the secret interpolated from all secret shares does not have the group public key", v))
				}
				out = fmt.Sprintf("x=%x pk=%s", x[:], b01(okPK))
			} else {
				run.Violate("frost:recover_error", fmt.Sprintf("validator %d: %v", v, err))
			}
			run.Count("val")
			run.Op(fmt.Sprintf("val %d %s %s", v, strings.Join(p2p, ","), strings.Join(sks, ",")), out)
		case "rec":
			v, _ := strconv.Atoi(f[1])
			ids := parseIDs(f[2])
			ref := cer.tp.nodes[1].shares[v]
			sub := map[int]tbls.PrivateKey{}
			pub := map[int]tbls.PublicKey{}
			for _, j := range ids {
				sub[j] = cer.tp.nodes[uint32(j)].shares[v].SecretShare
				// public shares as held by some *other* node
				other := cer.tp.nodes[uint32(j%cer.n+1)].shares[v]
				pub[j] = other.PublicShares[j]
			}
			rec, err := tbls.RecoverSecret(sub, uint(cer.n), uint(cer.t))
			if err != nil {
				run.Op(op, "err")
				return
			}
			rpk, err := tbls.RecoverPubkey(pub)
			okR := err == nil && rpk == ref.PubKey
			if len(sub) >= cer.t {
				if !okR {
					run.Violate("frost:pubshares_do_not_reconstruct_group_key", fmt.Sprintf("validator %d ids=%v", v, ids))
				}
				if x, ok := cer.x[v]; ok && rec != x {
					run.Violate("frost:subset_recovers_other_secret", fmt.Sprintf("validator %d ids=%v", v, ids))
				}
				run.Case(fmt.Sprintf("rec:%d:%d:%s", cer.n, cer.t, f[2]))
			} else {
				if x, ok := cer.x[v]; ok && (rec == x || okR) {
					run.Violate("frost:below_threshold_recovers", fmt.Sprintf("validator %d: %d < t=%d shares %v reconstruct the group key", v, len(sub), cer.t, ids))
				}
				run.Count("rec:below_threshold")
			}
			run.Count("rec")
			run.Op(op, fmt.Sprintf("%x rpk=%s", rec[:], b01(okR)))
		case "sig":
			v, _ := strconv.Atoi(f[1])
			ids := parseIDs(f[2])
			msg := unhex(f[3])
			ref := cer.tp.nodes[1].shares[v]
			parts := map[int]tbls.Signature{}
			for _, j := range ids {
				s, err := tbls.Sign(cer.tp.nodes[uint32(j)].shares[v].SecretShare, msg)
				hx.Must(err)
				parts[j] = s
				other := cer.tp.nodes[uint32(j%cer.n+1)].shares[v]
				if tbls.Verify(other.PublicShares[j], msg, s) != nil {
					run.Violate("frost:partial_rejected_under_pubshare", fmt.Sprintf("validator %d node %d", v, j))
				}
			}
			sig, err := tbls.ThresholdAggregate(parts)
			if err != nil {
				run.Op(op, "err")
				return
			}
			ver := tbls.Verify(ref.PubKey, msg, sig) == nil
			agg := false
			if x, ok := cer.x[v]; ok {
				full, err := tbls.Sign(x, msg)
				agg = err == nil && full == sig
			}
			if len(parts) >= cer.t {
				if !ver {
					run.Violate("frost:threshold_signature_rejected", fmt.Sprintf("validator %d ids=%v: aggregate of partial signatures does not verify under the group key", v, ids))
				}
				run.Case(fmt.Sprintf("sig:%d:%d:%s", cer.n, cer.t, f[2]))
			} else {
				run.Count("sig:below_threshold")
			}
			run.Count("sig")
			run.Op(op, fmt.Sprintf("agg=%s ver=%s", b01(agg), b01(ver)))
		default:
			panic("bad op " + op)
		}
	}

	if a.Mode == "exec" {
		for _, op := range hx.ReadOps(a.Ops) {
			exec(op)
		}
		return
	}

	if a.Tier == "search" && a.N > 3000 {
		a.N = 3000 // the search for a failing input after a broken obligation must end within minutes
	}
	rng := hx.NewRng(a.Seed)
	type shape struct{ n, t int }
	var shapes []shape
	for n := 3; n <= 8; n++ {
		for t := 2; t <= n; t++ {
			shapes = append(shapes, shape{n, t})
		}
	}
	ctxs := []string{"-", "7", "0x5a3c8d1f00aa", "255", "ctx"}
	popcount := func(m int) int {
		c := 0
		for ; m != 0; m &= m - 1 {
			c++
		}
		return c
	}
	for run.NOps < a.N && !run.Enough() {
		for _, si := range rng.Perm(len(shapes)) {
			if run.NOps >= a.N {
				break
			}
			n, t := shapes[si].n, shapes[si].t
			nv := 1 + rng.Intn(4)
			if a.Tier == "quick" && n >= 7 && nv > 2 {
				nv = 1 + rng.Intn(2) // large ceremonies are slow; keep the quick tier short
			}
			if nv >= 2 && rng.Chance(1, 6) { // one incomplete round-1 message: must not yield a successful ceremony
				src := 1 + rng.Intn(n)
				tgt := 1 + rng.Intn(n-1)
				if tgt >= src {
					tgt++
				}
				exec(fmt.Sprintf("fcer %d %d %d %s %d %d %d %d", n, t, nv, ctxs[rng.Intn(len(ctxs))], rng.U64()%1000000, src, tgt, rng.Intn(nv)))
				continue
			}
			if rng.Chance(1, 25) { // invalid thresholds must be refused
				bad := []int{1, n + 1, 0}[rng.Intn(3)]
				exec(fmt.Sprintf("cer %d %d %d - %d", n, bad, nv, rng.U64()%1000000))
				continue
			}
			exec(fmt.Sprintf("cer %d %d %d %s %d", n, t, nv, ctxs[rng.Intn(len(ctxs))], rng.U64()%1000000))
			if cer == nil || !cer.ok {
				continue
			}
			for j := 1; j <= n; j++ {
				exec(fmt.Sprintf("out %d", j))
			}
			for j := 1; j <= n; j++ {
				exec(fmt.Sprintf("in %d", j))
			}
			for j := 1; j <= n; j++ {
				exec(fmt.Sprintf("r2 %d", j))
			}
			for v := 0; v < nv; v++ {
				exec(fmt.Sprintf("val %d", v))
				full := 1<<n - 1
				var masks []int
				if n <= 6 {
					for m := 1; m <= full; m++ {
						if popcount(m) >= t {
							masks = append(masks, m)
						}
					}
				} else {
					masks = append(masks, full)
					for k := 0; k < 24; k++ {
						m := 0
						want := t
						if rng.Chance(1, 2) {
							want = t + rng.Intn(n-t+1)
						}
						for _, i := range rng.Perm(n)[:want] {
							m |= 1 << i
						}
						masks = append(masks, m)
					}
				}
				// one below-threshold probe
				{
					m := 0
					for _, i := range rng.Perm(n)[:t-1] {
						m |= 1 << i
					}
					masks = append(masks, m)
				}
				msg := make([]byte, 1+rng.Intn(48))
				for i := range msg {
					msg[i] = byte(rng.U64())
				}
				for _, m := range masks {
					var ids []int
					for i := 0; i < n; i++ {
						if m&(1<<i) != 0 {
							ids = append(ids, i+1)
						}
					}
					exec(fmt.Sprintf("rec %d %s", v, idsStr(ids)))
					exec(fmt.Sprintf("sig %d %s %s", v, idsStr(ids), hexOf(msg)))
				}
			}
		}
	}
}
