package main

import (
	"context"
	"fmt"
	"sort"
	"strconv"
	"strings"
	"sync"
	"time"

	eth2api "github.com/attestantio/go-eth2-client/api"
	eth2v1 "github.com/attestantio/go-eth2-client/api/v1"
	eth2spec "github.com/attestantio/go-eth2-client/spec"
	eth2p0 "github.com/attestantio/go-eth2-client/spec/phase0"
	libp2pcrypto "github.com/libp2p/go-libp2p/core/crypto"
	"github.com/libp2p/go-libp2p/core/host"
	"github.com/libp2p/go-libp2p/core/peer"
	mocknet "github.com/libp2p/go-libp2p/p2p/net/mock"
	ma "github.com/multiformats/go-multiaddr"

	"github.com/obolnetwork/charon/cluster"
	"github.com/obolnetwork/charon/core"
	"github.com/obolnetwork/charon/dkg"
	"github.com/obolnetwork/charon/dkg/share"
	"github.com/obolnetwork/charon/tbls"
	"github.com/obolnetwork/charon/tbls/tblsconv"

	"verifharness/hx"
)

// ---- symbolic description of partial signatures (op lines never carry raw values) ----
//
//	data  = <key>:<ent>,<ent>;<key>:..      key = validator index the list is filed under, or x (a key of no validator)
//	ent   = <idx>=<signer>/<val>/<msg>      a ParSignedData with ShareIdx idx whose signature node <signer> (1-based)
//	                                        made with its share of validator <val> over <msg>
//	msg   = L | R<k> | D<k>-<i>             lock hash | registration of validator k | deposit of validator k, amount index i

type ent struct {
	idx, signer, val int
	msg              string
}

type keyed struct {
	key  string // validator index or "x"
	ents []ent
}

func parseData(s string) []keyed {
	var out []keyed
	if s == "-" {
		return out
	}
	for _, part := range strings.Split(s, ";") {
		kv := strings.SplitN(part, ":", 2)
		kd := keyed{key: kv[0]}
		if len(kv) == 2 && kv[1] != "" {
			for _, e := range strings.Split(kv[1], ",") {
				a := strings.SplitN(e, "=", 2)
				b := strings.SplitN(a[1], "/", 3)
				idx, err := strconv.Atoi(a[0])
				hx.Must(err)
				sg, err := strconv.Atoi(b[0])
				hx.Must(err)
				v, err := strconv.Atoi(b[1])
				hx.Must(err)
				kd.ents = append(kd.ents, ent{idx, sg, v, b[2]})
			}
		}
		out = append(out, kd)
	}
	return out
}

func dataStr(d []keyed) string {
	if len(d) == 0 {
		return "-"
	}
	var parts []string
	for _, kd := range d {
		var es []string
		for _, e := range kd.ents {
			es = append(es, fmt.Sprintf("%d=%d/%d/%s", e.idx, e.signer, e.val, e.msg))
		}
		parts = append(parts, kd.key+":"+strings.Join(es, ","))
	}
	return strings.Join(parts, ";")
}

// msgRoot returns the bytes signed for a symbolic message.
func (ce *cer) msgRoot(msg string) []byte {
	switch msg[0] {
	case 'L':
		return ce.locks[0].LockHash
	case 'R':
		k, err := strconv.Atoi(msg[1:])
		hx.Must(err)
		return ce.regRoot(ce.G[k], k)
	case 'D':
		f := strings.Split(msg[1:], "-")
		k, err := strconv.Atoi(f[0])
		hx.Must(err)
		i, err := strconv.Atoi(f[1])
		hx.Must(err)
		return ce.depositRoot(ce.G[k], k, ce.amounts[i])
	}
	panic("bad msg " + msg)
}

var foreignKey = func() tbls.PublicKey {
	sk, err := tbls.GenerateSecretKey()
	hx.Must(err)
	pk, err := tbls.SecretToPublicKey(sk)
	hx.Must(err)
	return pk
}()

func (ce *cer) keyOf(key string) core.PubKey {
	if key == "x" {
		return core.PubKeyFrom48Bytes(foreignKey)
	}
	k, err := strconv.Atoi(key)
	hx.Must(err)
	return core.PubKeyFrom48Bytes(ce.G[k])
}

func (ce *cer) parSig(e ent) core.ParSignedData {
	s, err := tbls.Sign(ce.sk[e.signer-1][e.val], ce.msgRoot(e.msg))
	hx.Must(err)
	return core.NewPartialSignature(tblsconv.SigToCore(s), e.idx)
}

func (ce *cer) realData(d []keyed) map[core.PubKey][]core.ParSignedData {
	out := map[core.PubKey][]core.ParSignedData{}
	for _, kd := range d {
		var l []core.ParSignedData
		for _, e := range kd.ents {
			l = append(l, ce.parSig(e))
		}
		out[ce.keyOf(kd.key)] = l
	}
	return out
}

// kindMsg: the message validator k's partial signatures of an aggregation kind are over.
func kindMsg(kind string, k int) string {
	switch kind[0] {
	case 'L':
		return "L"
	case 'R':
		return fmt.Sprintf("R%d", k)
	default:
		return fmt.Sprintf("D%d-%s", k, kind[1:])
	}
}

func (ce *cer) honestData(kind string) []keyed {
	var out []keyed
	for k := 0; k < ce.c.nv; k++ {
		kd := keyed{key: strconv.Itoa(k)}
		for i := 1; i <= ce.c.n; i++ {
			kd.ents = append(kd.ents, ent{i, i, k, kindMsg(kind, k)})
		}
		out = append(out, kd)
	}
	return out
}

func errClass(err error) string {
	m := err.Error()
	switch {
	case strings.Contains(m, "deposit message not found"), strings.Contains(m, "validator registration not found"):
		return "nomsg"
	case strings.Contains(m, "deposit data not found"):
		return "nodd"
	case strings.Contains(m, "invalid pubkey in"):
		return "nopk"
	case strings.Contains(m, "invalid pubshare"):
		return "noshare"
	case strings.Contains(m, "partial signature from peer"):
		return "badpartial"
	case strings.Contains(m, "aggregated signature"):
		return "badagg"
	}
	return "other"
}

// agg runs one of the three aggregation functions of dkg/dkg.go at node j on the described partials.
func (ce *cer) agg(run *hx.Run, kind string, j int, d []keyed) string {
	data := ce.realData(d)
	shares := ce.shares[j]
	honest := dataStr(d) == dataStr(ce.honestData(kind))
	var out string
	var err error
	switch kind[0] {
	case 'L':
		m := map[core.PubKey]share.Share{}
		for _, s := range shares {
			m[core.PubKeyFrom48Bytes(s.PubKey)] = s
		}
		var sig tbls.Signature
		var pks []tbls.PublicKey
		sig, pks, err = dkg.VerifAggLockHashSig(data, m, ce.locks[0].LockHash)
		if err == nil {
			var ids []string
			var ref []tbls.Signature
			known := true
			for _, p := range pks {
				id := ce.psID(p[:])
				ids = append(ids, id)
				found := false
				for jj := range ce.P {
					for k := range ce.P[jj] {
						if ce.P[jj][k] == p && !found {
							s, e := tbls.Sign(ce.sk[jj][k], ce.locks[0].LockHash)
							hx.Must(e)
							ref = append(ref, s)
							found = true
						}
					}
				}
				known = known && found
			}
			sort.Strings(ids)
			okSig := false
			if known && len(ref) > 0 {
				a, e := tbls.Aggregate(ref)
				okSig = e == nil && a == sig
			}
			if !okSig || tbls.VerifyAggregate(pks, sig, ce.locks[0].LockHash) != nil {
				run.Violate("dkgrun:lock_aggregate_not_over_returned_shares", fmt.Sprintf("aggLockHashSig at node %d returned a signature that is not the aggregate of the returned public shares' signatures", j))
			}
			out = fmt.Sprintf("ok pks=%s sig=%s", strings.Join(ids, ","), b01(okSig))
		}
	case 'R':
		_, msgs, e := dkg.VerifSignValidatorRegistrations(shares, j+1, ce.fee, ce.gas, ce.def.ForkVersion)
		hx.Must(e)
		var regs []core.VersionedSignedValidatorRegistration
		regs, err = dkg.VerifAggValidatorRegistrations(data, shares, msgs, ce.def.ForkVersion)
		if err == nil {
			var ents []string
			for _, r := range regs {
				pk, e := r.PubKey()
				hx.Must(e)
				fee, e := r.FeeRecipient()
				hx.Must(e)
				sig := r.Signature()
				id := ce.regSigID(sig[:])
				ents = append(ents, fmt.Sprintf("%s:%s:%s", ce.pkID(pk[:]), ce.feeID(fee[:]), id))
				if id == "?" {
					run.Violate("dkgrun:aggregate_accepted_not_group_signature", fmt.Sprintf("aggValidatorRegistrations at node %d returned a registration whose signature is not the group key's", j))
				}
			}
			sort.Strings(ents)
			out = "ok " + strings.Join(ents, ",")
		}
	case 'D':
		i, e := strconv.Atoi(kind[1:])
		hx.Must(e)
		_, msgs, e := dkg.VerifSignDepositMsgs(shares, j+1, ce.wd, ce.net.Name, ce.amounts[i], ce.c.comp)
		hx.Must(e)
		var dds []eth2p0.DepositData
		dds, err = dkg.VerifAggDepositData(data, shares, msgs, ce.net.Name)
		if err == nil {
			var ents []string
			for _, dd := range dds {
				id := ce.depSigID(dd.Signature[:])
				ents = append(ents, fmt.Sprintf("%s:%s:%s:%s", amtStr(dd.Amount), ce.pkID(dd.PublicKey[:]), ce.wcID(dd.WithdrawalCredentials), id))
				if id == "?" {
					run.Violate("dkgrun:aggregate_accepted_not_group_signature", fmt.Sprintf("aggDepositData at node %d returned deposit data whose signature is not the group key's", j))
				}
			}
			sort.Strings(ents)
			out = "ok " + strings.Join(ents, ",")
		}
	default:
		panic("bad kind " + kind)
	}
	if err != nil {
		if honest {
			run.Violate("dkgrun:honest_partials_refused", fmt.Sprintf("%s aggregation at node %d refuses the partial signatures of an honest exchange: %v", kind, j, err))
		}
		return "err " + errClass(err)
	}
	// independent monitor: a partial signature that does not verify under the public share of its
	// claimed index must make the aggregation fail
	for _, kd := range d {
		for _, e := range kd.ents {
			bad := kd.key == "x" || e.idx < 1 || e.idx > ce.c.n
			if !bad {
				k, _ := strconv.Atoi(kd.key)
				ps := ce.parSig(e)
				sig, e2 := tblsconv.SignatureFromBytes(ps.Signature())
				hx.Must(e2)
				bad = tbls.Verify(ce.P[e.idx-1][k], ce.msgRoot(kindMsg(kind, k)), sig) != nil
			}
			if bad {
				run.Violate("dkgrun:invalid_partial_accepted", fmt.Sprintf("%s aggregation at node %d accepted partial %d=%d/%d/%s filed under %s", kind, j, e.idx, e.signer, e.val, e.msg, kd.key))
			}
		}
	}
	return out
}

// ---- createDistValidators on permuted inputs ----

func parseOrder(s string) []int {
	var out []int
	if s == "-" || s == "" {
		return out
	}
	for _, f := range strings.Split(s, ",") {
		v, err := strconv.Atoi(f)
		hx.Must(err)
		out = append(out, v)
	}
	return out
}

func orderStr(o []int) string {
	if len(o) == 0 {
		return "-"
	}
	p := make([]string, len(o))
	for i, v := range o {
		p[i] = strconv.Itoa(v)
	}
	return strings.Join(p, ",")
}

// cdv: ddspec = <amount index>:<validators in list order>;..  regspec = <validators in list order>
func (ce *cer) cdv(run *hx.Run, j int, ddspec, regspec string) string {
	var dds [][]eth2p0.DepositData
	if ddspec != "-" {
		for _, part := range strings.Split(ddspec, ";") {
			kv := strings.SplitN(part, ":", 2)
			i, err := strconv.Atoi(kv[0])
			hx.Must(err)
			var l []eth2p0.DepositData
			for _, k := range parseOrder(kv[1]) {
				l = append(l, eth2p0.DepositData{
					PublicKey:             eth2p0.BLSPubKey(ce.G[k]),
					WithdrawalCredentials: withdrawalCreds(ce.wd[k], ce.c.comp),
					Amount:                ce.amounts[i],
					Signature:             eth2p0.BLSSignature(ce.refDep[k][i]),
				})
			}
			dds = append(dds, l)
		}
	}
	var regs []core.VersionedSignedValidatorRegistration
	for _, k := range parseOrder(regspec) {
		msg := &eth2v1.ValidatorRegistration{GasLimit: ce.gas, Timestamp: time.Unix(ce.net.GenesisTimestamp, 0), Pubkey: eth2p0.BLSPubKey(ce.G[k])}
		copy(msg.FeeRecipient[:], unhex(strings.TrimPrefix(ce.fee[k], "0x")))
		r, err := core.NewVersionedSignedValidatorRegistration(&eth2api.VersionedSignedValidatorRegistration{
			Version: eth2spec.BuilderVersionV1,
			V1:      &eth2v1.SignedValidatorRegistration{Message: msg, Signature: eth2p0.BLSSignature(ce.refReg[k])},
		})
		hx.Must(err)
		regs = append(regs, r)
	}
	vals, err := dkg.VerifCreateDistValidators(ce.shares[j], dds, regs)
	if err != nil {
		m := err.Error()
		if strings.Contains(m, "validator registration not found") {
			return "err noreg"
		}
		return "err " + errClass(err)
	}
	for k, v := range vals {
		for i, p := range v.PubShares {
			if k < ce.c.nv && i < ce.c.n && ce.psID(p) != fmt.Sprintf("s%d.%d", i+1, k) {
				run.Violate("dkgrun:keystore_share_not_lock_pubshare", fmt.Sprintf("createDistValidators at node %d: public share %d of validator %d is %s", j, i, k, ce.psID(p)))
			}
		}
	}
	return "ok " + ce.dvsStr(vals)
}

// ---- the real exchanger over libp2p's in-memory network ----

type xnet struct {
	mn    mocknet.Mocknet
	hosts []host.Host
	ex    []*dkg.VerifExchanger
	pm    map[peer.ID]cluster.NodeIdx
	bad   map[string]bool // receiver/tau/validator/idx of injected mis-signed partials: the exchanger accepts them by design
}

func (ce *cer) xnew() *xnet {
	x := &xnet{mn: mocknet.New(), pm: map[peer.ID]cluster.NodeIdx{}, bad: map[string]bool{}}
	for i, k := range ce.keys {
		priv := libp2pcrypto.PrivKey((*libp2pcrypto.Secp256k1PrivateKey)(k))
		addr, err := ma.NewMultiaddr(fmt.Sprintf("/ip4/10.0.1.%d/tcp/3610", i+1))
		hx.Must(err)
		h, err := x.mn.AddPeer(priv, addr)
		hx.Must(err)
		x.hosts = append(x.hosts, h)
	}
	hx.Must(x.mn.LinkAll())
	hx.Must(x.mn.ConnectAllButSelf())
	for _, p := range ce.peers {
		idx, err := ce.def.NodeIdx(p)
		hx.Must(err)
		x.pm[p] = idx
	}
	for i := range ce.keys {
		e, err := dkg.VerifNewExchanger(x.hosts[i], i, ce.peers, x.pm, 20*time.Second)
		hx.Must(err)
		x.ex = append(x.ex, e)
	}
	return x
}

func (x *xnet) close() {
	if x != nil {
		_ = x.mn.Close()
	}
}

// tauKind: the aggregation kind whose messages a sigType carries ("" if none).
func (ce *cer) tauKind(tau int) string {
	lock, reg, dep := dkg.VerifSigTypes()
	switch {
	case tau == lock:
		return "L"
	case tau == reg:
		return "R"
	case tau >= dep && tau-dep < len(ce.amounts):
		return fmt.Sprintf("D%d", tau-dep)
	}
	return ""
}

// xinj delivers, at receiver r, a set from sender a that claims share index c for the validators ks.
func (ce *cer) xinj(run *hx.Run, x *xnet, r, a, c, tau int, ks []int, variant string) string {
	kind := ce.tauKind(tau)
	set := core.ParSignedDataSet{}
	for _, k := range ks {
		msg := "L"
		if kind != "" {
			msg = kindMsg(kind, k)
		}
		if variant == "b" { // a signature over another message under the claimed index
			if msg == "L" {
				msg = fmt.Sprintf("R%d", k)
			} else {
				msg = "L"
			}
		}
		set[core.PubKeyFrom48Bytes(ce.G[k])] = ce.parSig(ent{c, a + 1, k, msg})
	}
	err := x.ex[r].Handle(context.Background(), ce.peers[a], core.NewSignatureDuty(uint64(tau)), set)
	if err != nil {
		return "refused"
	}
	if c != a+1 {
		run.Violate("dkgrun:foreign_share_index_accepted", fmt.Sprintf("node %d accepted partial signatures from node %d filed under share index %d (sigType %d)", r, a, c, tau))
	}
	if variant == "b" {
		for _, k := range ks {
			x.bad[fmt.Sprintf("%d/%d/%d/%d", r, tau, k, c)] = true
		}
	}
	return "ok"
}

// xrun: every node calls the real exchange with its genuine set for the sigType.
func (ce *cer) xrun(run *hx.Run, x *xnet, tau int) string {
	kind := ce.tauKind(tau)
	if kind == "" {
		panic("xrun with a sigType of no kind")
	}
	n := ce.c.n
	res := make([]map[core.PubKey][]core.ParSignedData, n)
	errs := make([]error, n)
	var wg sync.WaitGroup
	ctx, cancel := context.WithTimeout(context.Background(), 60*time.Second)
	defer cancel()
	for j := 0; j < n; j++ {
		var set core.ParSignedDataSet
		var err error
		switch kind[0] {
		case 'L':
			set, err = dkg.VerifSignLockHash(j+1, ce.shares[j], ce.locks[0].LockHash)
		case 'R':
			set, _, err = dkg.VerifSignValidatorRegistrations(ce.shares[j], j+1, ce.fee, ce.gas, ce.def.ForkVersion)
		default:
			i, _ := strconv.Atoi(kind[1:])
			set, _, err = dkg.VerifSignDepositMsgs(ce.shares[j], j+1, ce.wd, ce.net.Name, ce.amounts[i], ce.c.comp)
		}
		hx.Must(err)
		wg.Add(1)
		go func() {
			defer wg.Done()
			res[j], errs[j] = x.ex[j].Exchange(ctx, tau, set)
		}()
	}
	wg.Wait()
	var outs []string
	for j := 0; j < n; j++ {
		if errs[j] != nil {
			run.Violate("dkgrun:exchange_blocked_timeout", fmt.Sprintf("node %d: exchange of sigType %d did not complete: %v", j, tau, errs[j]))
			outs = append(outs, "err")
			continue
		}
		var vals []string
		for k := 0; k < ce.c.nv; k++ {
			l := res[j][core.PubKeyFrom48Bytes(ce.G[k])]
			var es []string
			for _, p := range l {
				id := "?"
				for jj := 0; jj < n; jj++ {
					ref := ce.parSig(ent{p.ShareIdx, jj + 1, k, kindMsg(kind, k)})
					if string(ref.Signature()) == string(p.Signature()) {
						id = fmt.Sprintf("p%d", jj+1)
					}
				}
				es = append(es, fmt.Sprintf("%d=%s", p.ShareIdx, id))
				if id != fmt.Sprintf("p%d", p.ShareIdx) {
					if id == "?" && x.bad[fmt.Sprintf("%d/%d/%d/%d", j, tau, k, p.ShareIdx)] {
						// injected by the harness under the sender's own index; refused only at aggregation
					} else if id == "?" {
						run.Violate("dkgrun:exchange_returned_unsigned_partial", fmt.Sprintf("node %d sigType %d validator %d: the entry under share index %d is not a partial signature over the message", j, tau, k, p.ShareIdx))
					} else {
						run.Violate("dkgrun:foreign_share_index_accepted", fmt.Sprintf("node %d sigType %d validator %d: the entry under share index %d was signed by %s", j, tau, k, p.ShareIdx, id))
					}
				}
			}
			sort.Strings(es)
			vals = append(vals, fmt.Sprintf("%d:%s", k, strings.Join(es, ",")))
		}
		if len(res[j]) != ce.c.nv {
			run.Violate("dkgrun:exchange_result_incomplete", fmt.Sprintf("node %d sigType %d: %d validators in the result, %d expected", j, tau, len(res[j]), ce.c.nv))
		}
		outs = append(outs, strings.Join(vals, ";"))
	}
	return strings.Join(outs, " | ")
}
