package main

import (
	"fmt"
	"strconv"
	"strings"

	"github.com/obolnetwork/charon/dkg"

	"verifharness/hx"
)

var versions = []string{"v1.6.0", "v1.7.0", "v1.8.0", "v1.9.0", "v1.10.0", "v1.11.0"}

func randomCfg(rng *hx.Rng, maxN, maxV int) cfg {
	var c cfg
	c.n = 3 + rng.Intn(maxN-2)
	c.t = 2 + rng.Intn(c.n-1)
	c.nv = 1 + rng.Intn(maxV)
	c.alg = []string{"frost", "pedersen", "default", "frost", "pedersen"}[rng.Intn(5)]
	c.ver = versions[rng.Intn(len(versions))]
	if rng.Chance(1, 2) {
		c.ver = versions[2+rng.Intn(4)] // partial deposits need v1.8+
	}
	c.comp = verAtLeast(c.ver, 10) && rng.Chance(1, 3)
	c.noverify = rng.Chance(1, 3)
	c.sched = rng.U64() % 1000000
	if verAtLeast(c.ver, 8) && rng.Chance(3, 5) {
		max := 32
		if c.comp {
			max = 64
		}
		sum := 0
		for i := 1 + rng.Intn(3); i > 0; i-- {
			a := 1 + rng.Intn(max)
			if rng.Chance(1, 3) && len(c.amts) > 0 {
				a = c.amts[rng.Intn(len(c.amts))] // repetition is allowed and de-duplicated
			}
			c.amts = append(c.amts, a)
			sum += a
		}
		if sum < 32 {
			c.amts = append(c.amts, 32-sum)
		}
	}
	return c
}

func popcount(m int) int {
	c := 0
	for ; m != 0; m &= m - 1 {
		c++
	}
	return c
}

func cloneData(d []keyed) []keyed {
	out := make([]keyed, len(d))
	for i, kd := range d {
		out[i] = keyed{key: kd.key, ents: append([]ent(nil), kd.ents...)}
	}
	return out
}

// otherMsg: a message the partial of validator k is NOT supposed to be over in this kind.
func otherMsg(ce *cer, kind string, k int, rng *hx.Rng) string {
	switch kind[0] {
	case 'L':
		return fmt.Sprintf("R%d", k)
	case 'R':
		if ce.c.nv > 1 && rng.Chance(1, 2) {
			return fmt.Sprintf("R%d", (k+1)%ce.c.nv)
		}
		return "L"
	default:
		i, _ := strconv.Atoi(kind[1:])
		if len(ce.amounts) > 1 {
			return fmt.Sprintf("D%d-%d", k, (i+1)%len(ce.amounts)) // the same validator's deposit for another amount
		}
		return fmt.Sprintf("R%d", k)
	}
}

// aggVariants: the partial signatures of an honest exchange and single alterations of them.
func aggVariants(ce *cer, kind string, rng *hx.Rng) [][]keyed {
	n, nv := ce.c.n, ce.c.nv
	h := ce.honestData(kind)
	out := [][]keyed{h}
	// arrival order reversed, validators in another map order
	{
		d := cloneData(h)
		for i := range d {
			for a, b := 0, len(d[i].ents)-1; a < b; a, b = a+1, b-1 {
				d[i].ents[a], d[i].ents[b] = d[i].ents[b], d[i].ents[a]
			}
		}
		for a, b := 0, len(d)-1; a < b; a, b = a+1, b-1 {
			d[a], d[b] = d[b], d[a]
		}
		out = append(out, d)
	}
	k := rng.Intn(nv)
	a := rng.Intn(n)
	b := (a + 1 + rng.Intn(n-1)) % n
	type alt func(d []keyed)
	alts := []alt{
		func(d []keyed) { d[k].ents[a].idx, d[k].ents[b].idx = d[k].ents[b].idx, d[k].ents[a].idx }, // two senders' indices swapped
		func(d []keyed) { d[k].ents[a].signer = b + 1 },                                             // b's partial under a's index
		func(d []keyed) { d[k].ents[a].msg = otherMsg(ce, kind, k, rng) },                            // a signed another message
		func(d []keyed) { d[k].ents = append(d[k].ents[:a], d[k].ents[a+1:]...) },                    // a's partial missing
		func(d []keyed) { d[k].ents[a].idx = n + 1 },                                                 // an index of no node
		func(d []keyed) { d[k].ents[b] = d[k].ents[a] },                                              // a's entry twice, b's missing
		func(d []keyed) { // a key of no validator
			d[k].key = "x"
		},
	}
	if nv > 1 {
		k2 := (k + 1 + rng.Intn(nv-1)) % nv
		alts = append(alts,
			func(d []keyed) { d[k].ents, d[k2].ents = d[k2].ents, d[k].ents }, // validator k's partials filed under k2 and vice versa
			func(d []keyed) { d[k].ents[a].val = k2 },                         // a's share of another validator
		)
	}
	for _, i := range rng.Perm(len(alts))[:4] {
		d := cloneData(h)
		alts[i](d)
		out = append(out, d)
	}
	return out
}

func gen(a hx.Args, run *hx.Run, exec func(string), cur func() *cer, lastProtoOK func() bool) {
	protoDone := 0
	kmDone := false
	appendDone := false
	rng := hx.NewRng(a.Seed)
	maxN, maxV := 5, 3
	if a.Tier == "thorough" {
		maxN, maxV = 7, 3
	}
	if a.Tier == "search" && a.N > 12 {
		a.N = 12 // the search for a failing input after a broken obligation must end within minutes
	}
	lockTau, regTau, depTau := dkg.VerifSigTypes()
	done := 0
	for done < a.N && !run.Enough() {
		c := randomCfg(rng, maxN, maxV)
		if rng.Chance(1, 7) { // shapes that must be refused before any key generation
			switch rng.Intn(3) {
			case 0:
				c.t = 1
			case 1:
				c.t = c.n + 1
			default:
				if !verAtLeast(c.ver, 8) {
					c.ver = "v1.8.0"
					c.comp = false
				}
				c.amts = []int{1 + rng.Intn(15), 1 + rng.Intn(15)}
			}
			exec(c.opLine())
			continue
		}
		// keymanager mode: quick tier, odd seeds: one extra ceremony with a refusing keymanager (expected to fail at the
		// very end; the accepting nodes' imports are checked too); thorough tier: every fifth ceremony, half of them all-accepting
		quick := a.Tier == "quick" || a.Tier == "search"
		if (quick && a.Seed%2 == 1 && done == 1 && !kmDone) || (!quick && rng.Chance(1, 10)) {
			kc := c
			kc.sched = rng.U64() % 1000000
			modes := []byte(strings.Repeat("a", kc.n))
			modes[rng.Intn(kc.n)] = "uef"[rng.Intn(3)]
			kc.km = string(modes)
			kmDone = true
			exec(kc.opLine())
		}
		if !quick && rng.Chance(1, 10) {
			c.km = strings.Repeat("a", c.n)
		}
		exec(c.opLine())
		ce := cur()
		if ce == nil || !ce.ok {
			done++ // a failed ceremony is reported; do not loop on it
			continue
		}
		done++
		n, t, nv := c.n, c.t, c.nv
		for k := 0; k < nv; k++ {
			exec(fmt.Sprintf("val %d", k))
			full := 1<<n - 1
			var masks []int
			for m := 1; m <= full; m++ {
				if popcount(m) >= t && (n <= 6 || rng.Chance(1, 3)) {
					masks = append(masks, m)
				}
			}
			m := 0
			for _, i := range rng.Perm(n)[:t-1] {
				m |= 1 << i
			}
			masks = append(masks, m)
			msg := make([]byte, 1+rng.Intn(48))
			for i := range msg {
				msg[i] = byte(rng.U64())
			}
			for _, m := range masks {
				var ids []int
				for i := 0; i < n; i++ {
					if m&(1<<i) != 0 {
						ids = append(ids, i+1)
					}
				}
				exec(fmt.Sprintf("rec %d %s", k, idsStr(ids)))
				exec(fmt.Sprintf("sig %d %s %x", k, idsStr(ids), msg))
			}
		}
		for j := 0; j < n; j++ {
			exec(fmt.Sprintf("art %d", j))
		}
		// createDistValidators on the orders a Go map may hand the aggregated data over in
		j := rng.Intn(n)
		ddspec := func(outer []int, inner func(i int) []int) string {
			s := ""
			for x, i := range outer {
				if x > 0 {
					s += ";"
				}
				s += fmt.Sprintf("%d:%s", i, orderStr(inner(i)))
			}
			if s == "" {
				return "-"
			}
			return s
		}
		na := len(ce.amounts)
		ident := func(m int) []int {
			o := make([]int, m)
			for i := range o {
				o[i] = i
			}
			return o
		}
		exec(fmt.Sprintf("cdv %d %s %s", j, ddspec(ident(na), func(int) []int { return ident(nv) }), orderStr(ident(nv))))
		exec(fmt.Sprintf("cdv %d %s %s", rng.Intn(n), ddspec(ident(na), func(int) []int { return rng.Perm(nv) }), orderStr(rng.Perm(nv))))
		exec(fmt.Sprintf("cdv %d %s %s", rng.Intn(n), ddspec(rng.Perm(na), func(int) []int { return rng.Perm(nv) }), orderStr(rng.Perm(nv))))
		miss := rng.Intn(nv)
		without := func(o []int) []int {
			var r []int
			for _, v := range o {
				if v != miss {
					r = append(r, v)
				}
			}
			return r
		}
		exec(fmt.Sprintf("cdv %d %s %s", rng.Intn(n), ddspec(ident(na), func(int) []int { return rng.Perm(nv) }), orderStr(without(rng.Perm(nv)))))
		exec(fmt.Sprintf("cdv %d %s %s", rng.Intn(n), ddspec(ident(na), func(int) []int { return without(rng.Perm(nv)) }), orderStr(rng.Perm(nv))))
		if na > 1 { // the deposit of one amount is missing for one validator only: a shorter list, no error
			short := rng.Intn(na)
			exec(fmt.Sprintf("cdv %d %s %s", rng.Intn(n), ddspec(ident(na), func(i int) []int {
				if i == short {
					return without(ident(nv))
				}
				return ident(nv)
			}), orderStr(ident(nv))))
		}
		// the aggregation functions on honest and altered partial signatures
		kinds := []string{"L", "R", fmt.Sprintf("D%d", rng.Intn(na))}
		if na > 1 {
			kinds = append(kinds, fmt.Sprintf("D%d", rng.Intn(na)))
		}
		for _, kind := range kinds {
			for _, d := range aggVariants(ce, kind, rng) {
				exec(fmt.Sprintf("agg %s %d %s", kind, rng.Intn(n), dataStr(d)))
			}
		}
		// the real exchanger: early, foreign-index and mis-signed deliveries, then the honest exchange
		exec("xnew")
		taus := []int{lockTau, regTau, depTau + rng.Intn(na)}
		allK := orderStr(ident(nv))
		for x := 0; x < 6; x++ {
			r := rng.Intn(n)
			s := (r + 1 + rng.Intn(n-1)) % n
			claim := s + 1
			switch rng.Intn(4) {
			case 0:
				claim = r + 1 // the receiver's own index
			case 1:
				claim = (s+1+rng.Intn(n-1))%n + 1 // another node's index
			case 2:
				if rng.Chance(1, 3) {
					claim = 0
				}
			}
			tau := taus[rng.Intn(len(taus))]
			if rng.Chance(1, 6) {
				tau = []int{150, 0, depTau + na + rng.Intn(3), lockTau - 1}[rng.Intn(4)] // sigTypes of no exchange
			}
			ks := allK
			if nv > 1 && rng.Chance(1, 3) {
				ks = strconv.Itoa(rng.Intn(nv))
			}
			variant := "g"
			if rng.Chance(1, 4) {
				variant = "b"
			}
			exec(fmt.Sprintf("xinj %d %d %d %d %s %s", r, s, claim, tau, ks, variant))
		}
		for _, i := range rng.Perm(len(taus))[:2] {
			exec(fmt.Sprintf("xrun %d", taus[i]))
		}
		// cluster-changing protocols on what the ceremony wrote: one per quick seed, chains in the thorough tier
		if c.km != "" {
			continue // the key shares are in the keymanagers: the protocols below read keystores from disk
		}
		chain := 0
		if a.Tier == "quick" || a.Tier == "search" {
			if protoDone == 0 && verAtLeast(c.ver, 7) { // a v1.6.0 lock is refused by every protocol (known finding)
				chain = 1
			}
		} else {
			chain = 1 + rng.Intn(3)
			if !verAtLeast(c.ver, 7) {
				chain = 1
			}
		}
		cn, ct := n, t // shape of the latest generation
		for ; chain > 0; chain-- {
			var op string
			nn, nt := cn, ct
			switch kind := rng.Intn(8); {
			case kind <= 1:
				op = fmt.Sprintf("reshare %d", rng.U64()%1000000)
			case kind <= 3 && cn <= 6:
				k := 1 + rng.Intn(2)
				if cn+k > 7 {
					k = 1
				}
				op = fmt.Sprintf("addop %d %d", k, rng.U64()%1000000)
				nn = cn + k
			case kind <= 5 && cn >= 3:
				r := 1
				if cn >= 5 && rng.Chance(1, 2) {
					r = 2
				}
				rm := sortedInts(rng.Perm(cn)[:r])
				newN := cn - r
				var part []int
				if newN < ct { // the remaining operators alone cannot reshare: removed ones take part
					part = append(part, rm[:ct-newN]...)
				} else if rng.Chance(1, 4) {
					part = append(part, rm[0])
				}
				newT := 0
				if lo, hi := ceilThreshold(newN), newN-1; lo <= hi && rng.Chance(1, 2) {
					newT = lo + rng.Intn(hi-lo+1)
				}
				if rng.Chance(1, 8) {
					newT = newN // must be refused: the explicit threshold has to stay below the node count
				}
				ps := "-"
				if len(part) > 0 {
					ps = idsStr(part)
				}
				op = fmt.Sprintf("rmop %s %s %d %d", idsStr(rm), ps, newT, rng.U64()%1000000)
				nn, nt = newN, newT
				if newT == 0 {
					nt = ceilThreshold(newN)
				}
			case cn-1 >= ct:
				op = fmt.Sprintf("replop %d %d", rng.Intn(cn), rng.U64()%1000000)
			default:
				op = fmt.Sprintf("reshare %d", rng.U64()%1000000)
			}
			before := run.NOps
			exec(op)
			protoDone++
			_ = before
			if !lastProtoOK() {
				continue
			}
			cn, ct = nn, nt
			for k := 0; k < nv; k++ {
				exec(fmt.Sprintf("nval %d", k))
				full := 1<<cn - 1
				var masks []int
				for m := 1; m <= full; m++ {
					if popcount(m) >= ct && (cn <= 6 || rng.Chance(1, 3)) {
						masks = append(masks, m)
					}
				}
				if ct >= 2 {
					m := 0
					for _, i := range rng.Perm(cn)[:ct-1] {
						m |= 1 << i
					}
					masks = append(masks, m)
				}
				msg := make([]byte, 1+rng.Intn(48))
				for i := range msg {
					msg[i] = byte(rng.U64())
				}
				for _, m := range masks {
					var ids []int
					for i := 0; i < cn; i++ {
						if m&(1<<i) != 0 {
							ids = append(ids, i+1)
						}
					}
					exec(fmt.Sprintf("nrec %d %s", k, idsStr(ids)))
					exec(fmt.Sprintf("nsig %d %s %x", k, idsStr(ids), msg))
				}
			}
			for j := 0; j < cn; j++ {
				exec(fmt.Sprintf("part %d", j))
			}
		}
		// the add-validators ceremony on the latest generation: quick tier even seeds once, thorough tier every third ceremony
		if (quick && a.Seed%2 == 0 && !appendDone) || (!quick && rng.Chance(1, 3)) {
			appendDone = true
			extra := 1 + rng.Intn(2)
			exec(fmt.Sprintf("append %d %d", extra, rng.U64()%1000000))
			if lastProtoOK() {
				total := nv + extra
				for k := 0; k < total; k++ {
					exec(fmt.Sprintf("aval %d", k))
				}
				msg := make([]byte, 1+rng.Intn(48))
				for i := range msg {
					msg[i] = byte(rng.U64())
				}
				for _, k := range []int{rng.Intn(nv), nv, total - 1} {
					full := 1<<cn - 1
					for m := 1; m <= full; m++ {
						if popcount(m) == ct || (popcount(m) == ct-1 && rng.Chance(1, 6)) {
							var ids []int
							for i := 0; i < cn; i++ {
								if m&(1<<i) != 0 {
									ids = append(ids, i+1)
								}
							}
							exec(fmt.Sprintf("nrec %d %s", k, idsStr(ids)))
							exec(fmt.Sprintf("nsig %d %s %x", k, idsStr(ids), msg))
						}
					}
				}
				for j := 0; j < cn; j++ {
					exec(fmt.Sprintf("part %d", j))
				}
				if !quick && rng.Chance(1, 2) { // a reshare of the appended cluster
					exec(fmt.Sprintf("reshare %d", rng.U64()%1000000))
					if lastProtoOK() {
						for k := 0; k < total; k++ {
							exec(fmt.Sprintf("nval %d", k))
						}
						exec(fmt.Sprintf("part %d", rng.Intn(cn)))
					}
				}
			}
		}
	}
}
