package main

// The add-validators ceremony: dkg.Run with a non-empty AppendConfig (getExistingShares, the append
// branches of Run and signAndAggLockHash), set up the way dkg/dkg_test.go TestAppendDKG does it: every
// node gets the current lock, ITS current key shares and its deposit-data files; all nodes in one process.
//
//	append <extra> <sched>     -> ok | err
//	aval <k> <j:sk,..>         shares of validator k in the appended cluster -> x=<group secret> pk=b kept=b | new

import (
	"bytes"
	"context"
	"encoding/json"
	"fmt"
	"os"
	"path"
	"sync"
	"time"

	eth2p0 "github.com/attestantio/go-eth2-client/spec/phase0"
	"github.com/libp2p/go-libp2p/core/host"
	"github.com/libp2p/go-libp2p/core/peerstore"

	"github.com/obolnetwork/charon/app/k1util"
	"github.com/obolnetwork/charon/app/log"
	"github.com/obolnetwork/charon/cluster"
	"github.com/obolnetwork/charon/dkg"
	dkgsync "github.com/obolnetwork/charon/dkg/sync"
	"github.com/obolnetwork/charon/eth2util/deposit"
	"github.com/obolnetwork/charon/eth2util/keystore"
	"github.com/obolnetwork/charon/p2p"
	"github.com/obolnetwork/charon/tbls"

	"verifharness/hx"
)

func (ce *cer) runAppendOnce(g *genr, extra int, sched uint64, timeout time.Duration) (*genr, []error) {
	rng := hx.NewRng(sched)
	root := path.Join(ce.dir, fmt.Sprintf("gen%d-app%d", g.idx+1, rng.U64()%100000))
	hx.Must(os.MkdirAll(root, 0o755))
	ng := &genr{idx: g.idx + 1, n: g.n, t: g.t, nv: g.nv + extra, keys: g.keys, ids: g.ids, valSeen: map[int]bool{}, appended: extra}
	for i := 0; i < g.n; i++ {
		ng.prev = append(ng.prev, i)
		ng.dirs = append(ng.dirs, path.Join(root, fmt.Sprintf("node%d", i)))
	}
	var addrs []cluster.ValidatorAddresses
	for k := g.nv; k < g.nv+extra; k++ {
		addrs = append(addrs, cluster.ValidatorAddresses{FeeRecipientAddress: addrOf("fee", k), WithdrawalAddress: addrOf("wd", k)})
	}
	var mu sync.Mutex
	var hosts []host.Host
	cb := func(h host.Host) {
		mu.Lock()
		defer mu.Unlock()
		for _, x := range hosts {
			x.Peerstore().AddAddrs(h.ID(), h.Addrs(), peerstore.PermanentAddrTTL)
			h.Peerstore().AddAddrs(x.ID(), x.Addrs(), peerstore.PermanentAddrTTL)
		}
		hosts = append(hosts, h)
	}
	ctx, cancel := context.WithTimeout(context.Background(), 5*timeout)
	defer cancel()
	errs := make([]error, g.n)
	var wg sync.WaitGroup
	for x, i := range rng.Perm(g.n) {
		var lockCopy cluster.Lock
		hx.Must(json.Unmarshal(g.lockRaw[i], &lockCopy))
		dd, _ := deposit.ReadDepositDataFiles(g.dirs[i]) // nil when the previous generation wrote none
		conf := dkg.Config{
			DataDir: ng.dirs[i],
			P2P:     p2p.Config{TCPAddrs: []string{freeAddr()}},
			Log:     log.DefaultConfig(),
			TestConfig: dkg.TestConfig{
				P2PKey: g.keys[i],
				StoreKeysFunc: func(secrets []tbls.PrivateKey, dir string) error {
					return keystore.StoreKeysInsecure(secrets, dir, keystore.ConfirmInsecureKeys)
				},
				P2PNodeCallback: cb,
				SyncOpts:        []func(*dkgsync.Client){dkgsync.WithPeriod(50 * time.Millisecond)},
			},
			Timeout: timeout,
			AppendConfig: &dkg.AppendConfig{
				ClusterLock:        &lockCopy,
				SecretShares:       append([]tbls.PrivateKey(nil), g.sk[i]...),
				AddValidators:      extra,
				ValidatorAddresses: addrs,
				DepositData:        dd,
			},
		}
		hx.Must(os.MkdirAll(conf.DataDir, 0o755))
		hx.Must(k1util.Save(g.keys[i], p2p.KeyPath(conf.DataDir)))
		delay := time.Duration(rng.Intn(100)) * time.Millisecond
		if x == 0 {
			delay = 0
		}
		wg.Add(1)
		go func() {
			defer wg.Done()
			defer func() {
				if p := recover(); p != nil {
					errs[i] = fmt.Errorf("panic: %v", p)
					cancel()
				}
			}()
			time.Sleep(delay)
			errs[i] = dkg.Run(ctx, conf)
			if errs[i] != nil {
				cancel()
			}
		}()
	}
	wg.Wait()
	return ng, errs
}

func (ce *cer) runAppend(g *genr, extra int, sched uint64) (*genr, []error) {
	var ng *genr
	var errs []error
	for attempt, to := range []time.Duration{8 * time.Second, 25 * time.Second} {
		ng, errs = ce.runAppendOnce(g, extra, sched, to)
		if allNil(errs) {
			if ce.loadGen(ng) {
				for j := 0; j < ng.n; j++ {
					f, _ := deposit.ReadDepositDataFiles(ng.dirs[j])
					ng.files = append(ng.files, f)
				}
				return ng, errs
			}
			return nil, []error{fmt.Errorf("artifacts of the appended cluster cannot be loaded")}
		}
		if !timeoutClass(errs) || attempt == 1 {
			break
		}
	}
	return nil, errs
}

// appendRefused: requests the add-validators ceremony must refuse.
func appendRefused(extra int) bool { return extra < 1 }

// extendRefs computes the reference values of the validators an append added (from the new keystores alone).
func (ce *cer) extendRefs(run *hx.Run, old, g *genr) bool {
	for j := 0; j < g.n; j++ {
		if len(g.sk[j]) != g.nv {
			run.Violate("dkgrun:keystore_count_wrong", fmt.Sprintf("append: node %d holds %d keystores for %d validators", j, len(g.sk[j]), g.nv))
			return false
		}
	}
	// the position of a new validator's shares in the keystores is NOT taken for granted: the reference of lock
	// validator k is recovered from the keystore position whose shares have that validator's group key, if any
	for k := len(ce.G); k < g.nv; k++ {
		ce.wd = append(ce.wd, addrOf("wd", k))
		ce.fee = append(ce.fee, addrOf("fee", k))
		var want []byte
		if k < len(g.locks[0].Validators) {
			want = g.locks[0].Validators[k].PubKey
		}
		var x tbls.PrivateKey
		var gk tbls.PublicKey
		found := false
		for pos := 0; pos < g.nv && !found; pos++ {
			all := map[int]tbls.PrivateKey{}
			for j := 0; j < g.n; j++ {
				all[j+1] = g.sk[j][pos]
			}
			if r, err := tbls.RecoverSecret(all, uint(g.n), uint(g.t)); err == nil {
				if p, err := tbls.SecretToPublicKey(r); err == nil && bytes.Equal(p[:], want) {
					x, gk, found = r, p, true
				}
			}
		}
		if !found { // fall back to position k: the monitors will name the mismatch
			all := map[int]tbls.PrivateKey{}
			for j := 0; j < g.n; j++ {
				all[j+1] = g.sk[j][k]
			}
			r, err := tbls.RecoverSecret(all, uint(g.n), uint(g.t))
			hx.Must(err)
			x = r
			gk, err = tbls.SecretToPublicKey(r)
			hx.Must(err)
		}
		ce.x = append(ce.x, x)
		ce.G = append(ce.G, gk)
		var deps []tbls.Signature
		for _, a := range ce.amounts {
			s, err := tbls.Sign(x, ce.depositRoot(gk, k, a))
			hx.Must(err)
			deps = append(deps, s)
		}
		ce.refDep = append(ce.refDep, deps)
		s, err := tbls.Sign(x, ce.regRoot(gk, k))
		hx.Must(err)
		ce.refReg = append(ce.refReg, s)
	}
	return true
}

// appendMonitors: every artifact monitor on the appended cluster, for EVERY validator old and new.
func (ce *cer) appendMonitors(run *hx.Run, old, g *genr) {
	pregen := verAtLeast(ce.c.ver, 7)
	for j := 0; j < g.n; j++ {
		lock := g.locks[j]
		if !bytes.Equal(g.lockRaw[j], g.lockRaw[0]) {
			run.Violate("dkgrun:lock_differs_between_nodes", fmt.Sprintf("append: cluster-lock.json of node %d differs from node 0's", j))
		}
		if g.lockErr[j] != nil {
			run.Violate("dkgrun:lock_verification_failed", fmt.Sprintf("append: node %d: the lock is refused by the loader of `charon run`: %v", j, g.lockErr[j]))
		}
		if len(lock.Validators) != g.nv || lock.Threshold != g.t || len(lock.Operators) != g.n || lock.NumValidators != g.nv {
			run.Violate("dkgrun:lock_shape_wrong", fmt.Sprintf("append: node %d: %d validators (num_validators %d), threshold %d, %d operators; expected %d, %d, %d", j, len(lock.Validators), lock.NumValidators, lock.Threshold, len(lock.Operators), g.nv, g.t, g.n))
			continue
		}
		for k := 0; k < g.nv; k++ {
			v := lock.Validators[k]
			isOld := k < old.nv
			if isOld && !bytes.Equal(v.PubKey, ce.G[k][:]) {
				run.Violate("dkgrun:protocol_changed_group_key", fmt.Sprintf("append: node %d: existing validator %d of the new lock has group key %s", j, k, ce.pkID(v.PubKey)))
			}
			// node i's keystore k must hold the secret of PubShares[i] of lock validator k
			if len(v.PubShares) != g.n {
				run.Violate("dkgrun:lock_shape_wrong", fmt.Sprintf("append: node %d validator %d: %d public shares for %d nodes", j, k, len(v.PubShares), g.n))
				continue
			}
			for i := 0; i < g.n; i++ {
				if !bytes.Equal(v.PubShares[i], g.P[i][k][:]) {
					run.Violate("dkgrun:keystore_share_not_lock_pubshare", fmt.Sprintf("append: lock of node %d: public share %d of validator %d is %s, node %d's keystore %d holds the secret of %s", j, i, k, g.psID(v.PubShares[i]), i, k, g.psID(g.P[i][k][:])))
				}
			}
			// the group secret the keystores at position k share must have the key of lock validator k
			all := map[int]tbls.PrivateKey{}
			for i := 0; i < g.n; i++ {
				all[i+1] = g.sk[i][k]
			}
			if x, err := tbls.RecoverSecret(all, uint(g.n), uint(g.t)); err == nil {
				if p, err := tbls.SecretToPublicKey(x); err != nil || !bytes.Equal(p[:], v.PubKey) {
					run.Violate("dkgrun:validator_order_mismatch", fmt.Sprintf("append: node %d: validator %d of the lock (%s) is not the validator whose shares are in keystore %d of the nodes (%s)", j, k, ce.pkID(v.PubKey), k, ce.pkID(p[:])))
				}
			}
			if isOld {
				ov := old.locks[0].Validators[k]
				a, _ := json.Marshal(ov.PartialDepositData)
				b, _ := json.Marshal(v.PartialDepositData)
				if !bytes.Equal(a, b) || !bytes.Equal(ov.BuilderRegistration.Signature, v.BuilderRegistration.Signature) {
					run.Violate("dkgrun:protocol_changed_deposit_or_registration", fmt.Sprintf("append: node %d existing validator %d", j, k))
				}
				for i := 0; i < g.n; i++ {
					if g.sk[i][k] != old.sk[i][k] {
						run.Violate("dkgrun:append_changed_existing_share", fmt.Sprintf("append: node %d's share of existing validator %d changed", i, k))
					}
				}
				continue
			}
			// a new validator: deposit data and registration as configured, valid under its group key
			if len(v.PartialDepositData) != len(ce.amounts) {
				run.Violate("dkgrun:deposit_data_invalid", fmt.Sprintf("append: node %d new validator %d: %d deposit entries for %d amounts", j, k, len(v.PartialDepositData), len(ce.amounts)))
			}
			for a, d := range v.PartialDepositData {
				if a >= len(ce.amounts) {
					break
				}
				pk, err := v.PublicKey()
				if err != nil || !bytes.Equal(d.PubKey, v.PubKey) || eth2p0.Gwei(d.Amount) != ce.amounts[a] || !bytes.Equal(d.WithdrawalCredentials, withdrawalCreds(ce.wd[k], ce.c.comp)) ||
					len(d.Signature) != 96 || tbls.Verify(pk, ce.depositRoot(pk, k, eth2p0.Gwei(d.Amount)), tbls.Signature(d.Signature)) != nil {
					run.Violate("dkgrun:deposit_data_invalid", fmt.Sprintf("append: node %d new validator %d amount index %d: not a valid deposit as configured", j, k, a))
				}
			}
			r := v.BuilderRegistration
			if pregen {
				pk, err := v.PublicKey()
				if err != nil || !bytes.Equal(r.Message.PubKey, v.PubKey) || fmt.Sprintf("0x%x", r.Message.FeeRecipient) != ce.fee[k] || uint64(r.Message.GasLimit) != ce.gas ||
					len(r.Signature) != 96 || tbls.Verify(pk, ce.regRoot(pk, k), tbls.Signature(r.Signature)) != nil {
					run.Violate("dkgrun:registration_invalid", fmt.Sprintf("append: node %d new validator %d", j, k))
				}
			}
		}
		var sigs []tbls.Signature
		for i := range g.sk {
			for k := range g.sk[i] {
				s, err := tbls.Sign(g.sk[i][k], lock.LockHash)
				hx.Must(err)
				sigs = append(sigs, s)
			}
		}
		if agg, err := tbls.Aggregate(sigs); err != nil || !bytes.Equal(agg[:], lock.SignatureAggregate) {
			run.Violate("dkgrun:lock_signature_aggregate_wrong", fmt.Sprintf("append: node %d: the signature aggregate is not the aggregate of all keystore shares' signatures over the new lock hash", j))
		}
		if want := g.expectNodeSigs(); pregen && g.nodeSigs(lock) != want {
			run.Violate("dkgrun:node_signature_invalid", fmt.Sprintf("append: node %d: node signatures %s, expected %s", j, g.nodeSigs(lock), want))
		}
		// deposit files: one per amount; the new validators always, the old ones when their files were handed over
		for _, f := range g.files[j] {
			have := map[int]bool{}
			for _, d := range f {
				for k := range ce.G {
					if k < g.nv && d.PublicKey == eth2p0.BLSPubKey(ce.G[k]) {
						have[k] = true
						if tbls.Verify(ce.G[k], ce.depositRoot(ce.G[k], k, d.Amount), tbls.Signature(d.Signature)) != nil {
							run.Violate("dkgrun:deposit_data_invalid", fmt.Sprintf("append: node %d: deposit-data file entry of validator %d for %s ETH does not verify", j, k, amtStr(d.Amount)))
						}
					}
				}
			}
			for k := 0; k < g.nv; k++ {
				if !have[k] && (k >= old.nv || (j < len(old.files) && len(old.files[j]) > 0)) {
					run.Violate("dkgrun:validator_order_mismatch", fmt.Sprintf("append: node %d: a deposit-data file has no entry for validator %d", j, k))
				}
			}
		}
		if len(g.files[j]) != len(ce.amounts) {
			run.Violate("dkgrun:deposit_data_invalid", fmt.Sprintf("append: node %d: %d deposit-data files for %d amounts", j, len(g.files[j]), len(ce.amounts)))
		}
	}
}

// avalLine: shares of validator k in the appended cluster.
func (ce *cer) avalLine(run *hx.Run, old, g *genr, k int) (string, string) {
	var sks []string
	all := map[int]tbls.PrivateKey{}
	for j := 0; j < g.n; j++ {
		sks = append(sks, fmt.Sprintf("%d:%x", j+1, g.sk[j][k][:]))
		all[j+1] = g.sk[j][k]
	}
	x, err := tbls.RecoverSecret(all, uint(g.n), uint(g.t))
	hx.Must(err)
	pk, err := tbls.SecretToPublicKey(x)
	okPK := err == nil && bytes.Equal(pk[:], g.locks[0].Validators[k].PubKey)
	if !okPK {
		run.Violate("dkgrun:group_key_not_key_of_shared_secret", fmt.Sprintf("append: validator %d: the secret interpolated from keystore %d of all nodes does not have the group key of lock validator %d", k, k, k))
	}
	tail := "new"
	if k < old.nv {
		kept := true
		for j := 0; j < g.n; j++ {
			kept = kept && g.sk[j][k] == old.sk[j][k]
		}
		tail = "kept=" + b01(kept)
	}
	return fmt.Sprintf("%s", joinComma(sks)), fmt.Sprintf("x=%x pk=%s %s", x[:], b01(okPK), tail)
}

func joinComma(l []string) string {
	out := ""
	for i, s := range l {
		if i > 0 {
			out += ","
		}
		out += s
	}
	return out
}
