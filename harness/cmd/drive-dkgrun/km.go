package main

// Keymanager mode of dkg.Run (Config.KeymanagerAddr / KeymanagerAuthToken, writeKeysToKeymanager in
// dkg/disk.go): one HTTP keymanager per node inside the driver. Modes (one letter per node in the
// `km=` field of the `run` op): a accepts, u answers 401, e answers 500, f answers 500 to the first
// request and accepts afterwards.

import (
	"encoding/json"
	"fmt"
	"io"
	"net/http"
	"net/http/httptest"
	"sync"

	keystorev4 "github.com/wealdtech/go-eth2-wallet-encryptor-keystorev4"

	"github.com/obolnetwork/charon/eth2util/keystore"
	"github.com/obolnetwork/charon/tbls"
	"github.com/obolnetwork/charon/tbls/tblsconv"
)

const kmToken = "verif-keymanager-token"

type kmImport struct {
	Keystores []string `json:"keystores"`
	Passwords []string `json:"passwords"`
}

// kmServer is the keymanager of one node.
type kmServer struct {
	mode     byte
	srv      *httptest.Server
	mu       sync.Mutex
	requests int
	accepted []kmImport // bodies of the requests answered 2xx
}

func newKMServer(mode byte) *kmServer {
	k := &kmServer{mode: mode}
	k.srv = httptest.NewServer(http.HandlerFunc(func(w http.ResponseWriter, r *http.Request) {
		body, _ := io.ReadAll(r.Body)
		k.mu.Lock()
		defer k.mu.Unlock()
		k.requests++
		status := http.StatusOK
		switch {
		case r.Method != http.MethodPost || r.URL.Path != "/eth/v1/keystores":
			status = http.StatusNotFound
		case r.Header.Get("Authorization") != "Bearer "+kmToken || k.mode == 'u':
			status = http.StatusUnauthorized
		case k.mode == 'e', k.mode == 'f' && k.requests == 1:
			status = http.StatusInternalServerError
		}
		var imp kmImport
		if status == http.StatusOK && (json.Unmarshal(body, &imp) != nil || len(imp.Keystores) != len(imp.Passwords)) {
			status = http.StatusBadRequest
		}
		if status == http.StatusOK {
			k.accepted = append(k.accepted, imp)
		}
		w.WriteHeader(status)
		_, _ = w.Write([]byte(`{"data":[]}`))
	}))
	return k
}

// secrets decrypts what the keymanager accepted (the last accepted import), as the repo's tests do.
func (k *kmServer) secrets() ([]tbls.PrivateKey, []string, error) {
	k.mu.Lock()
	defer k.mu.Unlock()
	if len(k.accepted) == 0 {
		return nil, nil, fmt.Errorf("no accepted import")
	}
	imp := k.accepted[len(k.accepted)-1]
	var out []tbls.PrivateKey
	var pubs []string
	for i, ksJSON := range imp.Keystores {
		var store keystore.Keystore
		if err := json.Unmarshal([]byte(ksJSON), &store); err != nil {
			return nil, nil, err
		}
		b, err := keystorev4.New().Decrypt(store.Crypto, imp.Passwords[i])
		if err != nil {
			return nil, nil, err
		}
		sk, err := tblsconv.PrivkeyFromBytes(b)
		if err != nil {
			return nil, nil, err
		}
		out = append(out, sk)
		pubs = append(pubs, store.Pubkey)
	}
	return out, pubs, nil
}

// kmRejects: does a keymanager of this mode make the (single) import of the code as it is fail?
func kmRejects(mode byte) bool { return mode != 'a' }
