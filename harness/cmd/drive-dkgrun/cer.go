package main

import (
	"context"
	crand "crypto/rand"
	"encoding/json"
	"fmt"
	"net"
	"os"
	"path"
	"sort"
	"strconv"
	"strings"
	"sync"
	"time"

	eth2p0 "github.com/attestantio/go-eth2-client/spec/phase0"
	k1 "github.com/decred/dcrd/dcrec/secp256k1/v4"
	"github.com/libp2p/go-libp2p/core/host"
	"github.com/libp2p/go-libp2p/core/peer"
	"github.com/libp2p/go-libp2p/core/peerstore"

	"github.com/obolnetwork/charon/app/k1util"
	"github.com/obolnetwork/charon/app/log"
	"github.com/obolnetwork/charon/cluster"
	"github.com/obolnetwork/charon/dkg"
	"github.com/obolnetwork/charon/dkg/share"
	dkgsync "github.com/obolnetwork/charon/dkg/sync"
	"github.com/obolnetwork/charon/eth2util"
	"github.com/obolnetwork/charon/eth2util/deposit"
	"github.com/obolnetwork/charon/eth2util/enr"
	"github.com/obolnetwork/charon/eth2util/keystore"
	"github.com/obolnetwork/charon/p2p"
	"github.com/obolnetwork/charon/tbls"

	"verifharness/hx"
)

// cfg is the shape of one ceremony (all of it is in the `run` op line).
type cfg struct {
	n, t, nv int
	alg      string // default | frost | pedersen
	amts     []int  // configured deposit amounts in ETH (nil: none configured)
	ver      string // definition version
	comp     bool   // compounding withdrawal credentials (v1.10+)
	noverify bool   // dkg --no-verify: Run does not verify the lock it built
	sched    uint64 // start order, start delays, network
	km       string // keymanager mode: one letter per node (a accept, u 401, e 500, f fails once), "" = keystores on disk
}

var testNetworks = []eth2util.Network{eth2util.Goerli, eth2util.Sepolia, eth2util.Hoodi, eth2util.Gnosis, eth2util.Chiado}

func verAtLeast(ver string, minor int) bool {
	f := strings.Split(strings.TrimPrefix(ver, "v"), ".")
	if len(f) != 3 || f[0] != "1" {
		return false
	}
	m, err := strconv.Atoi(f[1])
	return err == nil && m >= minor
}

// expectedAmounts: what the ceremony must produce deposit data for (harness-side recomputation of
// the rule in dkg.Run: configured amounts de-duplicated ascending, else the defaults of the version).
func (c cfg) expectedAmounts() []eth2p0.Gwei {
	if len(c.amts) == 0 {
		if !verAtLeast(c.ver, 8) {
			return []eth2p0.Gwei{32 * deposit.OneEthInGwei}
		}
		if c.comp {
			return []eth2p0.Gwei{1 * deposit.OneEthInGwei, 8 * deposit.OneEthInGwei, 32 * deposit.OneEthInGwei, 256 * deposit.OneEthInGwei}
		}
		return []eth2p0.Gwei{1 * deposit.OneEthInGwei, 32 * deposit.OneEthInGwei}
	}
	seen := map[int]bool{}
	var out []int
	for _, a := range c.amts {
		if !seen[a] {
			seen[a] = true
			out = append(out, a)
		}
	}
	sort.Ints(out)
	var g []eth2p0.Gwei
	for _, a := range out {
		g = append(g, eth2p0.Gwei(a)*deposit.OneEthInGwei)
	}
	return g
}

// cer is one ceremony and everything the harness derived from what the nodes wrote.
type cer struct {
	c     cfg
	ok    bool
	net   eth2util.Network
	keys  []*k1.PrivateKey
	peers []peer.ID
	def   cluster.Definition
	wd    []string // withdrawal address per validator
	fee   []string // fee recipient per validator
	gas   uint64
	errs  []error
	kms   []*kmServer // keymanager mode: the keymanager of every node (of the last attempt)
	failedDir string // node directories of a failed last attempt (removed by cleanup)
	dir   string // artifacts of the ceremony and of later generations (removed with the ceremony)

	// artifacts as loaded with the repo's loaders
	lockRaw [][]byte
	locks   []cluster.Lock
	lockErr []error              // cluster.LoadClusterLock (verification as `charon run`)
	sk      [][]tbls.PrivateKey  // [node][keystore position]
	files   [][][]eth2p0.DepositData // [node][file][entry]

	// reference values recomputed by the harness with tbls only
	amounts []eth2p0.Gwei
	x       []tbls.PrivateKey   // group secret per validator (interpolated from ALL keystore shares)
	G       []tbls.PublicKey    // its public key
	P       [][]tbls.PublicKey  // [node][validator] public key of the keystore share
	refDep  [][]tbls.Signature  // [validator][amount index] group signature over the deposit message
	refReg  []tbls.Signature    // [validator] group signature over the builder registration
	shares  [][]share.Share     // [node] shares as dkg.getExistingShares rebuilds them from lock + keystores
}

func freeAddr() string {
	l, err := net.Listen("tcp", "127.0.0.1:0")
	hx.Must(err)
	defer l.Close()
	return l.Addr().String()
}

func addrOf(kind string, k int) string {
	// distinct per validator and per role, so that an entry stored for the wrong validator shows
	if kind == "fee" {
		return fmt.Sprintf("0x%040x", 0xfee000+k)
	}
	return fmt.Sprintf("0x%040x", 0xdead00+k)
}

// newCeremony builds keys and the signed cluster definition for the shape.
func newCeremony(c cfg) (*cer, error) {
	ce := &cer{c: c, net: testNetworks[int(c.sched%uint64(len(testNetworks)))]}
	var ops []cluster.Operator
	for i := 0; i < c.n; i++ {
		k, err := k1.GeneratePrivateKey()
		hx.Must(err)
		ce.keys = append(ce.keys, k)
		rec, err := enr.New(k)
		hx.Must(err)
		ops = append(ops, cluster.Operator{Address: eth2util.PublicKeyToAddress(k.PubKey()), ENR: rec.String()})
	}
	for k := 0; k < c.nv; k++ {
		ce.fee = append(ce.fee, addrOf("fee", k))
		ce.wd = append(ce.wd, addrOf("wd", k))
	}
	var gas uint
	ce.gas = 30000000 // registration.DefaultGasLimit, used by Run when the definition has none
	if verAtLeast(c.ver, 10) {
		gas = 30000000 + uint(c.sched%5)*1000000
		ce.gas = uint64(gas)
	}
	def, err := cluster.NewDefinition("verif dkgrun", c.nv, c.t, ce.fee, ce.wd, ce.net.GenesisForkVersionHex,
		cluster.Creator{Address: ops[0].Address}, ops, c.amts, "", gas, c.comp, crand.Reader,
		cluster.WithVersion(c.ver), cluster.WithDKGAlgorithm(c.alg))
	if err != nil {
		return ce, err
	}
	for i := range def.Operators {
		def.Operators[i], err = cluster.VerifSignOperator(ce.keys[i], def, def.Operators[i])
		hx.Must(err)
	}
	def, err = cluster.VerifSignCreator(ce.keys[0], def)
	hx.Must(err)
	def, err = def.SetDefinitionHashes()
	hx.Must(err)
	ce.def = def
	ce.peers, err = def.PeerIDs()
	hx.Must(err)
	ce.amounts = c.expectedAmounts()
	return ce, nil
}

// scratchBase is the run's -dir (set by main); ceremonies write their node directories below it.
var scratchBase string

// runOnce runs dkg.Run for all nodes in this process over loopback TCP (the nodes learn each
// other's listen address through TestConfig.P2PNodeCallback, as the repo's own tests do).
func (ce *cer) runOnce(timeout time.Duration) (string, []error) {
	c := ce.c
	rng := hx.NewRng(c.sched)
	dir, err := os.MkdirTemp(scratchBase, "dkgrun") // under the run's own scratch directory, never under /tmp
	hx.Must(err)
	var mu sync.Mutex
	var hosts []host.Host
	cb := func(h host.Host) {
		mu.Lock()
		defer mu.Unlock()
		for _, o := range hosts {
			o.Peerstore().AddAddrs(h.ID(), h.Addrs(), peerstore.PermanentAddrTTL)
			h.Peerstore().AddAddrs(o.ID(), o.Addrs(), peerstore.PermanentAddrTTL)
		}
		hosts = append(hosts, h)
	}
	ctx, cancel := context.WithTimeout(context.Background(), 5*timeout)
	defer cancel()
	defJSON, err := json.MarshalIndent(ce.def, "", " ")
	hx.Must(err)
	errs := make([]error, c.n)
	order := rng.Perm(c.n)
	delays := make([]time.Duration, c.n)
	for i := range delays {
		delays[i] = time.Duration(rng.Intn(120)) * time.Millisecond
	}
	for _, k := range ce.kms {
		k.srv.Close()
	}
	ce.kms = nil
	for i := 0; i < len(c.km); i++ {
		ce.kms = append(ce.kms, newKMServer(c.km[i]))
	}
	var wg sync.WaitGroup
	for _, i := range order {
		conf := dkg.Config{
			DefFile:  path.Join(dir, fmt.Sprintf("node%d", i), "cluster-definition.json"),
			NoVerify: c.noverify,
			DataDir:  path.Join(dir, fmt.Sprintf("node%d", i)),
			P2P:      p2p.Config{TCPAddrs: []string{freeAddr()}},
			Log:      log.DefaultConfig(),
			TestConfig: dkg.TestConfig{
				StoreKeysFunc: func(secrets []tbls.PrivateKey, dir string) error {
					return keystore.StoreKeysInsecure(secrets, dir, keystore.ConfirmInsecureKeys)
				},
				P2PNodeCallback: cb,
				SyncOpts:        []func(*dkgsync.Client){dkgsync.WithPeriod(50 * time.Millisecond)},
			},
			Timeout: timeout,
		}
		if i < len(ce.kms) {
			conf.KeymanagerAddr = ce.kms[i].srv.URL
			conf.KeymanagerAuthToken = kmToken
		}
		hx.Must(os.MkdirAll(conf.DataDir, 0o755))
		hx.Must(k1util.Save(ce.keys[i], p2p.KeyPath(conf.DataDir)))
		hx.Must(os.WriteFile(conf.DefFile, defJSON, 0o644))
		wg.Add(1)
		go func() {
			defer wg.Done()
			defer func() {
				if p := recover(); p != nil {
					errs[i] = fmt.Errorf("panic: %v", p)
					cancel()
				}
			}()
			time.Sleep(delays[i])
			errs[i] = dkg.Run(ctx, conf)
			if errs[i] != nil {
				cancel()
			}
		}()
	}
	wg.Wait()
	return dir, errs
}

func allNil(errs []error) bool {
	for _, e := range errs {
		if e != nil {
			return false
		}
	}
	return true
}

func errsStr(errs []error) string {
	var s []string
	for i, e := range errs {
		if e != nil {
			m := e.Error()
			if len(m) > 160 {
				m = m[:160]
			}
			s = append(s, fmt.Sprintf("node %d: %s", i, m))
		}
	}
	return strings.Join(s, "; ")
}

// timeoutClass: do the errors only speak of waiting (time-outs, cancellations, connections)?
func timeoutClass(errs []error) bool {
	for _, e := range errs {
		if e == nil {
			continue
		}
		m := strings.ToLower(e.Error())
		waiting := false
		for _, w := range []string{"timed out", "timeout", "context", "deadline", "sync", "connection", "stream", "bind", "address already in use", "dial"} {
			if strings.Contains(m, w) {
				waiting = true
			}
		}
		if !waiting {
			return false
		}
	}
	return true
}

// run executes the ceremony with a growing protocol time-out (two attempts, at most 40 s + 125 s, below the
// harness watchdog): completion within a given wall-clock
// time is not part of the property (a loaded machine must not turn into an alarm); only a ceremony
// that fails with every time-out is reported. A refusal that every node reports before any
// networking (bad threshold, bad amounts) is not retried.
func (ce *cer) run() {
	for attempt, to := range []time.Duration{8 * time.Second, 25 * time.Second} {
		if ce.failedDir != "" {
			_ = os.RemoveAll(ce.failedDir)
			ce.failedDir = ""
		}
		dir, errs := ce.runOnce(to)
		ce.errs = errs
		if allNil(errs) {
			ce.load(dir)
			ce.dir = dir // kept: the cluster-changing protocols run on what the nodes wrote
			ce.ok = true
			return
		}
		ce.failedDir = dir
		if !timeoutClass(errs) || attempt == 1 {
			return
		}
	}
}

func b01(b bool) string {
	if b {
		return "1"
	}
	return "0"
}

func (ce *cer) cleanup() {
	if ce == nil {
		return
	}
	for _, k := range ce.kms {
		k.srv.Close()
	}
	ce.kms = nil
	if ce.failedDir != "" {
		_ = os.RemoveAll(ce.failedDir)
		ce.failedDir = ""
	}
	if ce.dir != "" {
		_ = os.RemoveAll(ce.dir)
		ce.dir = ""
	}
}
