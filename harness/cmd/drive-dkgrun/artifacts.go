package main

import (
	"bytes"
	"context"
	"encoding/hex"
	"encoding/json"
	"fmt"
	"os"
	"path"
	"sort"
	"strings"
	"time"

	eth2v1 "github.com/attestantio/go-eth2-client/api/v1"
	eth2p0 "github.com/attestantio/go-eth2-client/spec/phase0"

	"github.com/obolnetwork/charon/app/eth1wrap"
	"github.com/obolnetwork/charon/app/k1util"
	"github.com/obolnetwork/charon/cluster"
	"github.com/obolnetwork/charon/dkg"
	"github.com/obolnetwork/charon/eth2util/deposit"
	"github.com/obolnetwork/charon/eth2util/keystore"
	"github.com/obolnetwork/charon/tbls"

	"verifharness/hx"
)

// ---- signing roots, computed by the harness from the consensus-spec definitions (not through
// eth2util/deposit or eth2util/registration, which the ceremony itself uses) ----

func computeDomain(domainType [4]byte, forkVersion []byte) eth2p0.Domain {
	var fv eth2p0.Version
	copy(fv[:], forkVersion)
	root, err := (&eth2p0.ForkData{CurrentVersion: fv}).HashTreeRoot() // genesis validators root is zero
	hx.Must(err)
	var d eth2p0.Domain
	copy(d[0:], domainType[:])
	copy(d[4:], root[:])
	return d
}

func signingRoot(objRoot [32]byte, domain eth2p0.Domain) []byte {
	r, err := (&eth2p0.SigningData{ObjectRoot: objRoot, Domain: domain}).HashTreeRoot()
	hx.Must(err)
	return r[:]
}

func withdrawalCreds(addr string, compounding bool) []byte {
	b, err := hex.DecodeString(strings.TrimPrefix(addr, "0x"))
	hx.Must(err)
	creds := make([]byte, 32)
	creds[0] = 0x01
	if compounding {
		creds[0] = 0x02
	}
	copy(creds[12:], b)
	return creds
}

func (ce *cer) depositRoot(pk tbls.PublicKey, k int, amount eth2p0.Gwei) []byte {
	msg := eth2p0.DepositMessage{PublicKey: eth2p0.BLSPubKey(pk), WithdrawalCredentials: withdrawalCreds(ce.wd[k], ce.c.comp), Amount: amount}
	r, err := msg.HashTreeRoot()
	hx.Must(err)
	return signingRoot(r, computeDomain([4]byte{0x03, 0, 0, 0}, ce.def.ForkVersion))
}

func (ce *cer) regRoot(pk tbls.PublicKey, k int) []byte {
	b, err := hex.DecodeString(strings.TrimPrefix(ce.fee[k], "0x"))
	hx.Must(err)
	msg := eth2v1.ValidatorRegistration{GasLimit: ce.gas, Timestamp: time.Unix(ce.net.GenesisTimestamp, 0), Pubkey: eth2p0.BLSPubKey(pk)}
	copy(msg.FeeRecipient[:], b)
	r, err := msg.HashTreeRoot()
	hx.Must(err)
	return signingRoot(r, computeDomain([4]byte{0, 0, 0, 1}, ce.def.ForkVersion))
}

// load reads what every node wrote, with the loaders `charon run` uses.
func (ce *cer) load(dir string) {
	n := ce.c.n
	ce.lockRaw = make([][]byte, n)
	ce.locks = make([]cluster.Lock, n)
	ce.lockErr = make([]error, n)
	ce.sk = make([][]tbls.PrivateKey, n)
	ce.files = make([][][]eth2p0.DepositData, n)
	eth1 := eth1wrap.NewDefaultEthClientRunner("")
	for j := 0; j < n; j++ {
		d := path.Join(dir, fmt.Sprintf("node%d", j))
		raw, err := os.ReadFile(path.Join(d, "cluster-lock.json"))
		hx.Must(err)
		ce.lockRaw[j] = raw
		hx.Must(json.Unmarshal(raw, &ce.locks[j]))
		_, ce.lockErr[j] = cluster.LoadClusterLock(context.Background(), path.Join(d, "cluster-lock.json"), false, eth1)
		if j < len(ce.kms) { // keymanager mode: the node's shares are what its keymanager accepted
			ce.sk[j], _, err = ce.kms[j].secrets()
			if err != nil {
				ce.sk[j] = nil
			}
		} else {
			ce.sk[j], err = dkg.LoadSecrets(path.Join(d, "validator_keys"))
			if err != nil {
				ce.sk[j] = nil
			}
			kf, err := keystore.LoadFilesUnordered(path.Join(d, "validator_keys"))
			if err == nil && len(kf) != len(ce.sk[j]) {
				ce.sk[j] = nil
			}
		}
		ce.files[j], _ = deposit.ReadDepositDataFiles(d)
	}
}

// derive computes the reference values from the keystores alone and runs the ceremony-level monitors.
func (ce *cer) derive(run *hx.Run) bool {
	n, t, nv := ce.c.n, ce.c.t, ce.c.nv
	for j := 0; j < n; j++ {
		if len(ce.sk[j]) != nv {
			run.Violate("dkgrun:keystore_count_wrong", fmt.Sprintf("node %d wrote %d keystores for %d validators", j, len(ce.sk[j]), nv))
			return false
		}
	}
	ce.P = make([][]tbls.PublicKey, n)
	for j := 0; j < n; j++ {
		for k := 0; k < nv; k++ {
			p, err := tbls.SecretToPublicKey(ce.sk[j][k])
			hx.Must(err)
			ce.P[j] = append(ce.P[j], p)
		}
	}
	for k := 0; k < nv; k++ {
		all := map[int]tbls.PrivateKey{}
		for j := 0; j < n; j++ {
			all[j+1] = ce.sk[j][k]
		}
		x, err := tbls.RecoverSecret(all, uint(n), uint(t))
		hx.Must(err)
		g, err := tbls.SecretToPublicKey(x)
		hx.Must(err)
		ce.x = append(ce.x, x)
		ce.G = append(ce.G, g)
		var deps []tbls.Signature
		for _, a := range ce.amounts {
			s, err := tbls.Sign(x, ce.depositRoot(g, k, a))
			hx.Must(err)
			deps = append(deps, s)
		}
		ce.refDep = append(ce.refDep, deps)
		s, err := tbls.Sign(x, ce.regRoot(g, k))
		hx.Must(err)
		ce.refReg = append(ce.refReg, s)
	}
	ce.monitors(run)
	// shares as an appending ceremony would rebuild them (dkg.getExistingShares): input of the direct ops
	for j := 0; j < n; j++ {
		lock := ce.locks[j]
		sh, err := dkg.VerifGetExistingShares(&dkg.AppendConfig{ClusterLock: &lock, SecretShares: ce.sk[j]})
		if err != nil || len(sh) != nv {
			run.Violate("dkgrun:existing_shares_not_rebuilt", fmt.Sprintf("node %d: %v", j, err))
			return false
		}
		ce.shares = append(ce.shares, sh)
	}
	return true
}

func amtStr(a eth2p0.Gwei) string {
	if a%deposit.OneEthInGwei == 0 {
		return fmt.Sprintf("%d", a/deposit.OneEthInGwei)
	}
	return fmt.Sprintf("%dg", a)
}

// ---- interning of the cryptographic values of a ceremony ----

func (ce *cer) pkID(b []byte) string {
	for k, g := range ce.G {
		if bytes.Equal(b, g[:]) {
			return fmt.Sprintf("g%d", k)
		}
	}
	return "?"
}

func (ce *cer) psID(b []byte) string {
	for j := range ce.P {
		for k, p := range ce.P[j] {
			if bytes.Equal(b, p[:]) {
				return fmt.Sprintf("s%d.%d", j+1, k)
			}
		}
	}
	return "?"
}

func (ce *cer) wcID(b []byte) string {
	for k := range ce.wd {
		if bytes.Equal(b, withdrawalCreds(ce.wd[k], ce.c.comp)) {
			return fmt.Sprintf("w%d", k)
		}
	}
	return "?"
}

func (ce *cer) feeID(b []byte) string {
	for k := range ce.fee {
		if "0x"+hex.EncodeToString(b) == ce.fee[k] {
			return fmt.Sprintf("f%d", k)
		}
	}
	return "?"
}

func (ce *cer) depSigID(b []byte) string {
	for k := range ce.refDep {
		for a, s := range ce.refDep[k] {
			if bytes.Equal(b, s[:]) {
				return fmt.Sprintf("D%d.%s", k, amtStr(ce.amounts[a]))
			}
		}
	}
	return "?"
}

func (ce *cer) regSigID(b []byte) string {
	for k, s := range ce.refReg {
		if bytes.Equal(b, s[:]) {
			return fmt.Sprintf("R%d", k)
		}
	}
	return "?"
}

// lockAggOK: is the lock's signature aggregate the plain BLS aggregate of every keystore share's
// signature over the lock hash?
func (ce *cer) lockAggOK(lock cluster.Lock) bool {
	var sigs []tbls.Signature
	for j := range ce.sk {
		for k := range ce.sk[j] {
			s, err := tbls.Sign(ce.sk[j][k], lock.LockHash)
			hx.Must(err)
			sigs = append(sigs, s)
		}
	}
	agg, err := tbls.Aggregate(sigs)
	hx.Must(err)
	return bytes.Equal(agg[:], lock.SignatureAggregate)
}

func (ce *cer) nodeSigs(lock cluster.Lock) string {
	if len(lock.NodeSignatures) == 0 {
		return "-"
	}
	var out []string
	for i, s := range lock.NodeSignatures {
		id := "?"
		if i < len(ce.keys) {
			if ok, err := k1util.Verify65(ce.keys[i].PubKey(), lock.LockHash, s); err == nil && ok {
				id = fmt.Sprintf("N%d", i)
			}
		}
		out = append(out, id)
	}
	return strings.Join(out, ",")
}

func (ce *cer) dvStr(k int, v cluster.DistValidator) string {
	var ps, dd []string
	for _, p := range v.PubShares {
		ps = append(ps, ce.psID(p))
	}
	for _, d := range v.PartialDepositData {
		dd = append(dd, fmt.Sprintf("%s:%s:%s:%s", amtStr(eth2p0.Gwei(d.Amount)), ce.pkID(d.PubKey), ce.wcID(d.WithdrawalCredentials), ce.depSigID(d.Signature)))
	}
	reg := "-"
	if len(v.BuilderRegistration.Signature) != 0 || len(v.BuilderRegistration.Message.PubKey) != 0 {
		reg = fmt.Sprintf("%s:%s:%s", ce.pkID(v.BuilderRegistration.Message.PubKey), ce.feeID(v.BuilderRegistration.Message.FeeRecipient), ce.regSigID(v.BuilderRegistration.Signature))
	}
	return fmt.Sprintf("V%d pk=%s ps=%s dd=%s reg=%s", k, ce.pkID(v.PubKey), strings.Join(ps, ","), strings.Join(dd, ","), reg)
}

func (ce *cer) dvsStr(vs []cluster.DistValidator) string {
	var out []string
	for k, v := range vs {
		out = append(out, ce.dvStr(k, v))
	}
	if len(out) == 0 {
		return "-"
	}
	return strings.Join(out, " | ")
}

// artStr is the canonical rendering of what node j holds after the ceremony.
func (ce *cer) artStr(j int) string {
	lock := ce.locks[j]
	var ks []string
	for _, s := range ce.sk[j] {
		p, err := tbls.SecretToPublicKey(s)
		hx.Must(err)
		ks = append(ks, ce.psID(p[:]))
	}
	var files []string
	fs := append([][]eth2p0.DepositData(nil), ce.files[j]...)
	sort.Slice(fs, func(a, b int) bool { return len(fs[a]) > 0 && len(fs[b]) > 0 && fs[a][0].Amount < fs[b][0].Amount })
	for _, f := range fs {
		var ents []string
		for _, d := range f {
			ents = append(ents, fmt.Sprintf("%s:%s:%s:%s", amtStr(d.Amount), ce.pkID(d.PublicKey[:]), ce.wcID(d.WithdrawalCredentials), ce.depSigID(d.Signature[:])))
		}
		sort.Strings(ents) // the file is ordered by public key bytes; the canonical form by validator
		files = append(files, strings.Join(ents, ","))
	}
	return fmt.Sprintf("nv=%d h=%s agg=%s ns=%s || %s || ks=%s || files=%s", len(lock.Validators), b01(lock.VerifyHashes() == nil),
		b01(ce.lockAggOK(lock)), ce.nodeSigs(lock), ce.dvsStr(lock.Validators), strings.Join(ks, ","), strings.Join(files, ";"))
}

// monitors on the artifacts (independent of the model and of dkg's own checks).
func (ce *cer) monitors(run *hx.Run) {
	n, nv := ce.c.n, ce.c.nv
	pregen := verAtLeast(ce.c.ver, 7)
	for j := 0; j < n; j++ {
		lock := ce.locks[j]
		if !bytes.Equal(ce.lockRaw[j], ce.lockRaw[0]) {
			run.Violate("dkgrun:lock_differs_between_nodes", fmt.Sprintf("cluster-lock.json of node %d differs from node 0's (lock hashes %x / %x)", j, lock.LockHash, ce.locks[0].LockHash))
		}
		if ce.lockErr[j] != nil {
			run.Violate("dkgrun:lock_verification_failed", fmt.Sprintf("node %d: the lock is refused by the loader of `charon run`: %v", j, ce.lockErr[j]))
		}
		if len(lock.Validators) != nv || lock.Threshold != ce.c.t || len(lock.Operators) != n {
			run.Violate("dkgrun:lock_shape_wrong", fmt.Sprintf("node %d: %d validators, threshold %d, %d operators; configured %d, %d, %d", j, len(lock.Validators), lock.Threshold, len(lock.Operators), nv, ce.c.t, n))
			continue
		}
		for k := 0; k < nv; k++ {
			v := lock.Validators[k]
			if !bytes.Equal(v.PubKey, ce.G[k][:]) {
				run.Violate("dkgrun:validator_order_mismatch", fmt.Sprintf("node %d: validator %d of the lock (%s) is not the validator whose shares are in keystore %d of the nodes", j, k, ce.pkID(v.PubKey), k))
			}
			if len(v.PubShares) != n {
				run.Violate("dkgrun:lock_shape_wrong", fmt.Sprintf("node %d validator %d: %d public shares for %d nodes", j, k, len(v.PubShares), n))
				continue
			}
			for i := 0; i < n; i++ {
				if !bytes.Equal(v.PubShares[i], ce.P[i][k][:]) {
					run.Violate("dkgrun:keystore_share_not_lock_pubshare", fmt.Sprintf("lock of node %d: public share %d of validator %d is %s, node %d's keystore %d holds the secret of %s", j, i, k, ce.psID(v.PubShares[i]), i, k, ce.psID(ce.P[i][k][:])))
				}
			}
			// deposit data: one entry per configured amount, in that order, for this validator, valid under the group key
			if len(v.PartialDepositData) != len(ce.amounts) {
				run.Violate("dkgrun:deposit_data_invalid", fmt.Sprintf("node %d validator %d: %d deposit entries for %d amounts", j, k, len(v.PartialDepositData), len(ce.amounts)))
			}
			for a, d := range v.PartialDepositData {
				if a >= len(ce.amounts) {
					break
				}
				if !bytes.Equal(d.PubKey, v.PubKey) {
					run.Violate("dkgrun:validator_order_mismatch", fmt.Sprintf("node %d: deposit entry %d of validator %d is for %s", j, a, k, ce.pkID(d.PubKey)))
				}
				why := ""
				if eth2p0.Gwei(d.Amount) != ce.amounts[a] {
					why = fmt.Sprintf("amount %d, configured %d", d.Amount, ce.amounts[a])
				} else if !bytes.Equal(d.WithdrawalCredentials, withdrawalCreds(ce.wd[k], ce.c.comp)) {
					why = "withdrawal credentials are not the configured ones: " + ce.wcID(d.WithdrawalCredentials)
				} else if pk, err := v.PublicKey(); err != nil || len(d.Signature) != 96 ||
					tbls.Verify(pk, ce.depositRoot(pk, k, eth2p0.Gwei(d.Amount)), tbls.Signature(d.Signature)) != nil {
					why = "signature does not verify under the group key for the deposit domain of the fork version: " + ce.depSigID(d.Signature)
				}
				if why != "" {
					run.Violate("dkgrun:deposit_data_invalid", fmt.Sprintf("node %d validator %d amount index %d: %s", j, k, a, why))
				}
			}
			// builder registration
			r := v.BuilderRegistration
			if !pregen {
				if len(r.Signature) != 0 || len(r.Message.PubKey) != 0 {
					run.Violate("dkgrun:registration_invalid", fmt.Sprintf("node %d validator %d: version %s has a builder registration", j, k, ce.c.ver))
				}
			} else {
				why := ""
				if !bytes.Equal(r.Message.PubKey, v.PubKey) {
					why = "registration is for " + ce.pkID(r.Message.PubKey)
				} else if "0x"+hex.EncodeToString(r.Message.FeeRecipient) != ce.fee[k] {
					why = "fee recipient is not the configured one: " + ce.feeID(r.Message.FeeRecipient)
				} else if uint64(r.Message.GasLimit) != ce.gas || r.Message.Timestamp.Unix() != ce.net.GenesisTimestamp {
					why = fmt.Sprintf("gas limit %d / timestamp %d, expected %d / %d", r.Message.GasLimit, r.Message.Timestamp.Unix(), ce.gas, ce.net.GenesisTimestamp)
				} else if pk, err := v.PublicKey(); err != nil || len(r.Signature) != 96 || tbls.Verify(pk, ce.regRoot(pk, k), tbls.Signature(r.Signature)) != nil {
					why = "signature does not verify under the group key: " + ce.regSigID(r.Signature)
				}
				if why != "" {
					run.Violate("dkgrun:registration_invalid", fmt.Sprintf("node %d validator %d: %s", j, k, why))
				}
			}
		}
		if !ce.lockAggOK(lock) {
			run.Violate("dkgrun:lock_signature_aggregate_wrong", fmt.Sprintf("node %d: the signature aggregate is not the aggregate of all keystore shares' signatures over the lock hash", j))
		}
		if verAtLeast(ce.c.ver, 7) && ce.nodeSigs(lock) != ce.expectNodeSigs() {
			run.Violate("dkgrun:node_signature_invalid", fmt.Sprintf("node %d: node signatures %s, expected %s", j, ce.nodeSigs(lock), ce.expectNodeSigs()))
		}
		// deposit files: one per amount, each with exactly one valid entry per validator
		if len(ce.files[j]) != len(ce.amounts) {
			run.Violate("dkgrun:deposit_data_invalid", fmt.Sprintf("node %d: %d deposit-data files for %d amounts", j, len(ce.files[j]), len(ce.amounts)))
		}
		for _, f := range ce.files[j] {
			seen := map[int]bool{}
			for _, d := range f {
				k := -1
				for kk := range ce.G {
					if d.PublicKey == eth2p0.BLSPubKey(ce.G[kk]) {
						k = kk
					}
				}
				if k < 0 || seen[k] || len(f) != nv {
					run.Violate("dkgrun:validator_order_mismatch", fmt.Sprintf("node %d: deposit-data file for %s ETH does not hold exactly one entry per validator", j, amtStr(d.Amount)))
					continue
				}
				seen[k] = true
				okAmt := false
				for _, a := range ce.amounts {
					okAmt = okAmt || a == d.Amount
				}
				if !okAmt || d.Amount != f[0].Amount || !bytes.Equal(d.WithdrawalCredentials, withdrawalCreds(ce.wd[k], ce.c.comp)) ||
					tbls.Verify(ce.G[k], ce.depositRoot(ce.G[k], k, d.Amount), tbls.Signature(d.Signature)) != nil {
					run.Violate("dkgrun:deposit_data_invalid", fmt.Sprintf("node %d: deposit-data file entry of validator %d for %s ETH is not a valid deposit as configured", j, k, amtStr(d.Amount)))
				}
			}
		}
	}
}

func (ce *cer) expectNodeSigs() string {
	var out []string
	for i := 0; i < ce.c.n; i++ {
		out = append(out, fmt.Sprintf("N%d", i))
	}
	return strings.Join(out, ",")
}

// kmMonitors: keymanager mode, after every attempt's outcome (success or failure): a node on which Run
// returned nil must have its shares stored SOMEWHERE; what a keymanager accepted must be exactly that
// node's shares in lock order.
func (ce *cer) kmMonitors(run *hx.Run, dir string) {
	for j, k := range ce.kms {
		d := path.Join(dir, fmt.Sprintf("node%d", j))
		onDisk := false
		if kf, err := keystore.LoadFilesUnordered(path.Join(d, "validator_keys")); err == nil && len(kf) > 0 {
			onDisk = true
		}
		secrets, pubs, err := k.secrets()
		imported := err == nil && len(secrets) == ce.c.nv
		if j < len(ce.errs) && ce.errs[j] == nil && !imported && !onDisk {
			k.mu.Lock()
			reqs := k.requests
			k.mu.Unlock()
			run.Violate("dkgrun:success_without_stored_shares", fmt.Sprintf("node %d: dkg.Run returned nil, but its keymanager (mode %c, %d requests) accepted no import of its %d key shares and there are no keystores on disk", j, k.mode, reqs, ce.c.nv))
		}
		if err != nil {
			continue
		}
		raw, rerr := os.ReadFile(path.Join(d, "cluster-lock.json"))
		var lock cluster.Lock
		if rerr != nil || json.Unmarshal(raw, &lock) != nil {
			continue // the node did not get as far as writing its lock
		}
		bad := ""
		if len(secrets) != len(lock.Validators) {
			bad = fmt.Sprintf("%d keystores for %d validators", len(secrets), len(lock.Validators))
		}
		for i := 0; bad == "" && i < len(secrets); i++ {
			p, err := tbls.SecretToPublicKey(secrets[i])
			if err != nil || j >= len(lock.Validators[i].PubShares) || !bytes.Equal(p[:], lock.Validators[i].PubShares[j]) {
				bad = fmt.Sprintf("keystore %d is not the secret of public share %d of lock validator %d", i, j, i)
			} else if strings.TrimPrefix(pubs[i], "0x") != hex.EncodeToString(p[:]) {
				bad = fmt.Sprintf("keystore %d names public key %s", i, pubs[i])
			}
		}
		if bad != "" {
			run.Violate("dkgrun:keymanager_received_wrong_shares", fmt.Sprintf("node %d: %s", j, bad))
		}
	}
}
