// drive-dkgrun: correspondence driver for the ceremony glue of dkg/dkg.go that runs AFTER the
// key-generation rounds (C11): Run, createDistValidators, signAndAgg*, agg*, sign*, the exchanger
// (dkg/exchanger.go), the node signature broadcast (dkg/nodesigs.go), the disk writers (dkg/disk.go),
// checkThreshold, getExistingShares.
//
// One ceremony = the REAL dkg.Run of all n nodes in this process over loopback TCP libp2p (the way
// dkg/dkg_test.go runs it: definition from cluster.NewDefinition, signed operators, TestConfig with the
// insecure keystore cost and a P2PNodeCallback that tells the nodes each other's listen address; the
// definition is loaded from disk through loadDefinition, the p2p key too). Afterwards the harness loads
// what every node WROTE (cluster-lock.json through cluster.LoadClusterLock, validator_keys through
// dkg.LoadSecrets, deposit-data files through deposit.ReadDepositDataFiles) and
//   - emits the secret shares as scalars so that the Lean side (Model/Fr.lean) checks that they lie on one
//     polynomial of degree < t, recomputes the group secret and every subset recovery bit for bit,
//   - renders the artifacts of every node canonically (every key, public share and signature replaced by
//     what the harness recomputed it to be with tbls alone) and the Lean model of the glue
//     (Model/DkgGlue.lean) predicts that rendering from the shape of the ceremony,
//   - drives the aggregation functions, createDistValidators and the real exchanger (hook
//     dkg/verif_export_run.go) directly on the ceremony's shares with permuted, incomplete, mis-indexed and
//     mis-signed partial signatures; the model predicts result or error class.
//
// ops:
//
//	run <n> <t> <v> <alg> <amts|-> <ver> <flags> <sched>   ceremony (reset op)          -> ok | err
//	val <k> <j:sk,..>          secret shares the keystores hold for validator k        -> x=<group secret> pk=<is the lock's key>
//	rec <k> <ids>              -> <RecoverSecret(ids)> rpk=<RecoverPubkey(lock pubshares ids)==lock key>
//	sig <k> <ids> <msg>        -> agg=<ThresholdAggregate(partials)==Sign(x,msg)> ver=<Verify(lock key)>
//	art <j>                    canonical artifacts of node j
//	cdv <j> <ddspec> <regs>    createDistValidators at node j on permuted / incomplete inputs
//	agg <kind> <j> <data>      aggLockHashSig (L) / aggValidatorRegistrations (R) / aggDepositData (D<i>)
//	xnew                       n real exchangers over libp2p's in-memory network
//	xinj <r> <a> <c> <tau> <ks> <g|b>   receiver r gets from sender a partials claiming share index c
//	xrun <tau>                 every node exchanges its genuine set                    -> per node the collected partials
package main

import (
	"encoding/hex"
	"fmt"
	"strconv"
	"strings"

	"github.com/obolnetwork/charon/app/log"
	"github.com/obolnetwork/charon/tbls"

	"verifharness/hx"
)

func unhex(s string) []byte {
	if s == "-" {
		return nil
	}
	b, err := hex.DecodeString(s)
	hx.Must(err)
	return b
}

func parseIDs(s string) []int {
	var out []int
	for _, f := range strings.Split(s, ",") {
		v, err := strconv.Atoi(f)
		hx.Must(err)
		out = append(out, v)
	}
	return out
}

func idsStr(ids []int) string {
	p := make([]string, len(ids))
	for i, v := range ids {
		p[i] = strconv.Itoa(v)
	}
	return strings.Join(p, ",")
}

func (c cfg) opLine() string {
	amts := "-"
	if len(c.amts) > 0 {
		amts = idsStr(c.amts)
	}
	flags := ""
	if c.comp {
		flags += "c"
	}
	if c.noverify {
		flags += "x"
	}
	if flags == "" {
		flags = "-"
	}
	line := fmt.Sprintf("run %d %d %d %s %s %s %s %d", c.n, c.t, c.nv, c.alg, amts, c.ver, flags, c.sched)
	if c.km != "" {
		line += " km=" + c.km
	}
	return line
}

func parseCfg(f []string) cfg {
	var c cfg
	c.n, _ = strconv.Atoi(f[1])
	c.t, _ = strconv.Atoi(f[2])
	c.nv, _ = strconv.Atoi(f[3])
	c.alg = f[4]
	if f[5] != "-" {
		c.amts = parseIDs(f[5])
	}
	c.ver = f[6]
	c.comp = strings.Contains(f[7], "c")
	c.noverify = strings.Contains(f[7], "x")
	c.sched, _ = strconv.ParseUint(f[8], 10, 64)
	if len(f) > 9 && strings.HasPrefix(f[9], "km=") {
		c.km = strings.TrimPrefix(f[9], "km=")
	}
	return c
}

// configRefused: harness-side statement of which shapes dkg.Run must refuse before any key generation.
func configRefused(c cfg) bool {
	if c.t < 2 || c.t > c.n {
		return true
	}
	if c.km != "" { // keymanager mode: one import request per node; a node whose keymanager refuses it fails
		if len(c.km) != c.n {
			return true
		}
		for i := 0; i < len(c.km); i++ {
			if kmRejects(c.km[i]) {
				return true
			}
		}
	}
	if len(c.amts) > 0 {
		sum, max := 0, 32
		if c.comp {
			max = 2048
		}
		for _, a := range c.amts {
			if a < 1 || a > max {
				return true
			}
			sum += a
		}
		if sum < 32 {
			return true
		}
	}
	return false
}

func main() {
	a := hx.ParseArgs()
	hx.Must(log.InitLogger(log.Config{Level: "fatal", Format: "console", Color: "disable"}))
	run := hx.NewRun(a.Dir)
	scratchBase = a.Dir
	defer run.Close()
	var ce *cer
	var xn *xnet
	valSeen := map[int]bool{} // validators whose `val` op was executed (rec / sig refer to it on the model side)
	lastProto := false         // did the last cluster-changing op produce a new generation
	var gens []*genr           // generations of the cluster: [0] the ceremony's, then one per cluster-changing op

	exec := func(op string) {
		f := strings.Fields(op)
		if f[0] == "run" {
			xn.close()
			xn = nil
			ce.cleanup()
			gens = nil
			valSeen = map[int]bool{}
			c := parseCfg(f)
			run.Begin(op)
			var err error
			ce, err = newCeremony(c)
			run.Count("run")
			if err != nil { // the definition cannot even be built
				ce.ok = false
				run.Count("run:nodef")
				run.Op(op, "err")
				return
			}
			ce.run()
			if c.km != "" && len(c.km) == c.n {
				d := ce.dir
				if !ce.ok {
					d = ce.failedDir
				}
				if d != "" {
					ce.kmMonitors(run, d)
				}
				run.Count("run:keymanager")
			}
			if !ce.ok {
				if !configRefused(c) {
					sig := "dkgrun:ceremony_failed_error"
					if timeoutClass(ce.errs) {
						sig = "dkgrun:ceremony_failed_timeout"
					}
					run.Violate(sig, fmt.Sprintf("%s: %s", c.opLine(), errsStr(ce.errs)))
				}
				run.Count("run:err")
				run.Op(op, "err")
				return
			}
			if configRefused(c) {
				run.Violate("dkgrun:bad_config_not_refused", c.opLine())
			}
			if !ce.derive(run) {
				ce.ok = false
				run.Op(op, "ok")
				return
			}
			run.Case(fmt.Sprintf("run:%d:%d:%d:%s:%v:%s", c.n, c.t, c.nv, c.alg, c.amts, c.ver))
			run.Count("run:" + c.alg)
			run.Count("run:" + c.ver)
			run.Op(op, "ok")
			return
		}
		if ce == nil || !ce.ok {
			panic("op without successful ceremony: " + op)
		}
		n, t := ce.c.n, ce.c.t
		if gens == nil {
			g0 := ce.gen0()
			g0.valSeen = valSeen
			gens = []*genr{g0}
		}
		cur := gens[len(gens)-1]
		switch f[0] {
		case "reshare", "addop", "rmop", "replop":
			o := parseProtoOp(f)
			run.Begin(op)
			run.Count(o.kind)
			lastProto = false
			refused := protoRefused(ce.c.ver, cur, o)
			ng, errs := ce.proto(cur, o)
			if ng == nil {
				if !refused {
					sig := "dkgrun:protocol_failed_error"
					if timeoutClass(errs) {
						sig = "dkgrun:protocol_failed_timeout"
					}
					run.Violate(sig, fmt.Sprintf("%s on generation %d (n=%d t=%d): %s", op, cur.idx, cur.n, cur.t, errsStr(errs)))
				}
				run.Count(o.kind + ":err")
				if !verAtLeast(ce.c.ver, 7) {
					run.Count("proto:refused_for_v1.6_lock")
				}
				run.Op(op, "err")
				return
			}
			if refused {
				run.Violate("dkgrun:bad_request_not_refused", op)
			}
			ce.protoMonitors(run, cur, ng, o)
			gens = append(gens, ng)
			lastProto = true
			run.Case(fmt.Sprintf("%s:%d:%d:%d:%d:%v:%v", o.kind, cur.n, cur.t, ng.n, ng.t, o.ids, o.part))
			run.Op(op, "ok")
		case "append":
			extra, _ := strconv.Atoi(f[1])
			sched, _ := strconv.ParseUint(f[2], 10, 64)
			run.Begin(op)
			run.Count("append")
			lastProto = false
			// the code as it is: a lock of version v1.6.0 cannot be appended to either? (it can: Run clears the node signatures)
			refused := appendRefused(extra)
			ng, errs := ce.runAppend(cur, extra, sched)
			if ng == nil {
				if !refused {
					sig := "dkgrun:ceremony_failed_error"
					if timeoutClass(errs) {
						sig = "dkgrun:ceremony_failed_timeout"
					}
					run.Violate(sig, fmt.Sprintf("%s on generation %d (n=%d t=%d validators=%d): %s", op, cur.idx, cur.n, cur.t, cur.nv, errsStr(errs)))
				}
				run.Count("append:err")
				run.Op(op, "err")
				return
			}
			if refused {
				run.Violate("dkgrun:bad_request_not_refused", op)
			}
			if !ce.extendRefs(run, cur, ng) {
				run.Op(op, "ok")
				return
			}
			ce.appendMonitors(run, cur, ng)
			gens = append(gens, ng)
			lastProto = true
			run.Case(fmt.Sprintf("append:%d:%d:%d:%d:gen%d", cur.n, cur.t, cur.nv, extra, cur.idx))
			run.Op(op, "ok")
		case "aval":
			k, _ := strconv.Atoi(f[1])
			if cur.idx == 0 || cur.appended == 0 || k < 0 || k >= cur.nv {
				run.Op(op, "bad-op")
				return
			}
			old := gens[len(gens)-2]
			if k < old.nv && !old.valSeen[k] { // the model has no previous shares of k either
				run.Op(op, "bad-op")
				return
			}
			sks, out := ce.avalLine(run, old, cur, k)
			cur.valSeen[k] = true
			run.Count("aval")
			run.Op(fmt.Sprintf("aval %d %s", k, sks), out)
		case "nval", "nrec", "nsig", "part":
			if cur.idx == 0 {
				run.Op(op, "bad-op")
				return
			}
			old := gens[len(gens)-2]
			k, _ := strconv.Atoi(f[1])
			switch f[0] {
			case "nval":
				if cur.appended > 0 || !old.valSeen[k] { // an op list cut by the minimiser: the model has no previous shares either
					run.Op(op, "bad-op")
					return
				}
				sks, out := ce.nvalLine(run, old, cur, k)
				cur.valSeen[k] = true
				run.Count("nval")
				run.Op(fmt.Sprintf("nval %d %s", k, sks), out)
			case "nrec":
				if !cur.valSeen[k] {
					run.Op(op, "bad-op")
					return
				}
				ids := parseIDs(f[2])
				sub := map[int]tbls.PrivateKey{}
				pub := map[int]tbls.PublicKey{}
				for _, j := range ids {
					sub[j] = cur.sk[j-1][k]
					var p tbls.PublicKey
					copy(p[:], cur.locks[j%cur.n].Validators[k].PubShares[j-1]) // as written by another node
					pub[j] = p
				}
				rec, err := tbls.RecoverSecret(sub, uint(cur.n), uint(cur.t))
				if err != nil {
					run.Op(op, "err")
					return
				}
				rpk, err := tbls.RecoverPubkey(pub)
				okR := err == nil && rpk == ce.G[k]
				if len(sub) >= cur.t {
					if !okR {
						run.Violate("dkgrun:pubshares_do_not_reconstruct_group_key", fmt.Sprintf("generation %d validator %d: the new lock's public shares %v do not reconstruct the group key of the ceremony", cur.idx, k, ids))
					}
					if rec != ce.x[k] {
						run.Violate("dkgrun:subset_recovers_other_secret", fmt.Sprintf("generation %d validator %d ids=%v", cur.idx, k, ids))
					}
					run.Case(fmt.Sprintf("nrec:%d:%d:%s", cur.n, cur.t, f[2]))
				} else if rec == ce.x[k] || okR {
					run.Violate("dkgrun:below_threshold_recovers", fmt.Sprintf("generation %d validator %d: %d < t=%d new shares %v reconstruct the group key", cur.idx, k, len(sub), cur.t, ids))
				}
				run.Count("nrec")
				run.Op(op, fmt.Sprintf("%x rpk=%s", rec[:], b01(okR)))
			case "nsig":
				if !cur.valSeen[k] {
					run.Op(op, "bad-op")
					return
				}
				ids := parseIDs(f[2])
				msg := unhex(f[3])
				parts := map[int]tbls.Signature{}
				for _, j := range ids {
					s, err := tbls.Sign(cur.sk[j-1][k], msg)
					hx.Must(err)
					parts[j] = s
				}
				sig, err := tbls.ThresholdAggregate(parts)
				if err != nil {
					run.Op(op, "err")
					return
				}
				ver := tbls.Verify(ce.G[k], msg, sig) == nil // under the group key of the ceremony
				full, err := tbls.Sign(ce.x[k], msg)
				agg := err == nil && full == sig
				if len(parts) >= cur.t {
					if !ver {
						run.Violate("dkgrun:threshold_signature_rejected", fmt.Sprintf("generation %d validator %d ids=%v: the aggregate of the new shares' partial signatures does not verify under the group key of the ceremony", cur.idx, k, ids))
					}
					run.Case(fmt.Sprintf("nsig:%d:%d:%s", cur.n, cur.t, f[2]))
				} else if ver {
					run.Violate("dkgrun:below_threshold_recovers", fmt.Sprintf("generation %d validator %d: %d < t=%d partial signatures %v combine into a valid group signature", cur.idx, k, len(parts), cur.t, ids))
				}
				run.Count("nsig")
				run.Op(op, fmt.Sprintf("agg=%s ver=%s", b01(agg), b01(ver)))
			case "part":
				if k < 0 || k >= cur.n {
					run.Op(op, "bad-op")
					return
				}
				run.Count("part")
				run.Op(op, ce.partStr(cur, k))
			}
		case "val":
			k, _ := strconv.Atoi(f[1])
			var sks []string
			for j := 0; j < n; j++ {
				sks = append(sks, fmt.Sprintf("%d:%x", j+1, ce.sk[j][k][:]))
			}
			okPK := string(ce.locks[0].Validators[k].PubKey) == string(ce.G[k][:])
			if !okPK {
				run.Violate("dkgrun:group_key_not_key_of_shared_secret", fmt.Sprintf("validator %d: the secret interpolated from all keystore shares does not have the lock's group public key", k))
			}
			valSeen[k] = true
			run.Count("val")
			run.Op(fmt.Sprintf("val %d %s", k, strings.Join(sks, ",")), fmt.Sprintf("x=%x pk=%s", ce.x[k][:], b01(okPK)))
		case "rec":
			k, _ := strconv.Atoi(f[1])
			if !valSeen[k] { // an op list cut by the minimiser: the model has no shares for k either
				run.Op(op, "bad-op")
				return
			}
			ids := parseIDs(f[2])
			sub := map[int]tbls.PrivateKey{}
			pub := map[int]tbls.PublicKey{}
			for _, j := range ids {
				sub[j] = ce.sk[j-1][k]
				var p tbls.PublicKey
				copy(p[:], ce.locks[j%n].Validators[k].PubShares[j-1]) // as written by another node
				pub[j] = p
			}
			rec, err := tbls.RecoverSecret(sub, uint(n), uint(t))
			if err != nil {
				run.Op(op, "err")
				return
			}
			rpk, err := tbls.RecoverPubkey(pub)
			okR := err == nil && string(rpk[:]) == string(ce.locks[0].Validators[k].PubKey)
			if len(sub) >= t {
				if !okR {
					run.Violate("dkgrun:pubshares_do_not_reconstruct_group_key", fmt.Sprintf("validator %d: the lock's public shares %v do not reconstruct the lock's group key", k, ids))
				}
				if rec != ce.x[k] {
					run.Violate("dkgrun:subset_recovers_other_secret", fmt.Sprintf("validator %d ids=%v", k, ids))
				}
				run.Case(fmt.Sprintf("rec:%d:%d:%s", n, t, f[2]))
			} else {
				if rec == ce.x[k] || okR {
					run.Violate("dkgrun:below_threshold_recovers", fmt.Sprintf("validator %d: %d < t=%d shares %v reconstruct the group key", k, len(sub), t, ids))
				}
				run.Count("rec:below_threshold")
			}
			run.Count("rec")
			run.Op(op, fmt.Sprintf("%x rpk=%s", rec[:], b01(okR)))
		case "sig":
			k, _ := strconv.Atoi(f[1])
			if !valSeen[k] {
				run.Op(op, "bad-op")
				return
			}
			ids := parseIDs(f[2])
			msg := unhex(f[3])
			parts := map[int]tbls.Signature{}
			for _, j := range ids {
				s, err := tbls.Sign(ce.sk[j-1][k], msg)
				hx.Must(err)
				parts[j] = s
				var p tbls.PublicKey
				copy(p[:], ce.locks[j%n].Validators[k].PubShares[j-1])
				if tbls.Verify(p, msg, s) != nil {
					run.Violate("dkgrun:keystore_share_not_lock_pubshare", fmt.Sprintf("validator %d: a signature of node %d's keystore share is rejected under public share %d of the lock", k, j-1, j-1))
				}
			}
			sig, err := tbls.ThresholdAggregate(parts)
			if err != nil {
				run.Op(op, "err")
				return
			}
			var gk tbls.PublicKey
			copy(gk[:], ce.locks[0].Validators[k].PubKey)
			ver := tbls.Verify(gk, msg, sig) == nil
			full, err := tbls.Sign(ce.x[k], msg)
			agg := err == nil && full == sig
			if len(parts) >= t {
				if !ver {
					run.Violate("dkgrun:threshold_signature_rejected", fmt.Sprintf("validator %d ids=%v: the aggregate of the keystore shares' partial signatures does not verify under the lock's group key", k, ids))
				}
				run.Case(fmt.Sprintf("sig:%d:%d:%s", n, t, f[2]))
			} else {
				if ver {
					run.Violate("dkgrun:below_threshold_recovers", fmt.Sprintf("validator %d: %d < t=%d partial signatures %v combine into a valid group signature", k, len(parts), t, ids))
				}
				run.Count("sig:below_threshold")
			}
			run.Count("sig")
			run.Op(op, fmt.Sprintf("agg=%s ver=%s", b01(agg), b01(ver)))
		case "art":
			j, _ := strconv.Atoi(f[1])
			run.Count("art")
			run.Op(op, ce.artStr(j))
		case "cdv":
			j, _ := strconv.Atoi(f[1])
			out := ce.cdv(run, j, f[2], f[3])
			run.Count("cdv:" + strings.Fields(out)[0])
			run.Case("cdv:" + f[2] + ":" + f[3])
			run.Op(op, out)
		case "agg":
			j, _ := strconv.Atoi(f[2])
			out := ce.agg(run, f[1], j, parseData(f[3]))
			run.Count("agg:" + f[1][:1] + ":" + strings.Join(strings.Fields(out)[:1], ""))
			if strings.HasPrefix(out, "err") {
				run.Count("agg:" + out)
			}
			run.Case("agg:" + f[1] + ":" + f[3])
			run.Op(op, out)
		case "xnew":
			xn.close()
			xn = ce.xnew()
			run.Count("xnew")
			run.Op(op, "ok")
		case "xinj":
			if xn == nil { // exchangers exist from the ceremony on; `xnew` replaces them by fresh ones
				xn = ce.xnew()
			}
			r, _ := strconv.Atoi(f[1])
			s, _ := strconv.Atoi(f[2])
			c, _ := strconv.Atoi(f[3])
			tau, _ := strconv.Atoi(f[4])
			out := ce.xinj(run, xn, r, s, c, tau, parseIDs(f[5]), f[6])
			run.Count("xinj:" + out)
			run.Case(fmt.Sprintf("xinj:%d:%v:%s:%s", tau, c == s+1, f[6], out))
			run.Op(op, out)
		case "xrun":
			if xn == nil {
				xn = ce.xnew()
			}
			tau, _ := strconv.Atoi(f[1])
			run.Begin(op)
			run.Count("xrun")
			run.Op(op, ce.xrun(run, xn, tau))
		default:
			panic("bad op " + op)
		}
	}

	if a.Mode == "exec" {
		for _, op := range hx.ReadOps(a.Ops) {
			exec(op)
		}
		xn.close()
		ce.cleanup()
		return
	}
	gen(a, run, exec, func() *cer { return ce }, func() bool { return lastProto })
	xn.close()
	ce.cleanup()
}
