package main

import (
	"context"
	crand "crypto/rand"
	"fmt"
	"net"
	"os"
	"path"
	"sync"
	"time"

	k1 "github.com/decred/dcrd/dcrec/secp256k1/v4"
	"github.com/libp2p/go-libp2p/core/host"
	"github.com/libp2p/go-libp2p/core/peerstore"

	"github.com/obolnetwork/charon/app/k1util"
	"github.com/obolnetwork/charon/app/log"
	"github.com/obolnetwork/charon/cluster"
	"github.com/obolnetwork/charon/dkg"
	dkgsync "github.com/obolnetwork/charon/dkg/sync"
	"github.com/obolnetwork/charon/eth2util"
	"github.com/obolnetwork/charon/eth2util/enr"
	"github.com/obolnetwork/charon/eth2util/keystore"
	"github.com/obolnetwork/charon/p2p"
	"github.com/obolnetwork/charon/tbls"
)

func must(err error) {
	if err != nil {
		panic(err)
	}
}

func freeAddr() string {
	l, err := net.Listen("tcp", "127.0.0.1:0")
	must(err)
	defer l.Close()
	return l.Addr().String()
}

func main() {
	must(log.InitLogger(log.Config{Level: "error", Format: "console", Color: "disable"}))
	n, t, nv := 3, 2, 2
	var keys []*k1.PrivateKey
	var ops []cluster.Operator
	for i := 0; i < n; i++ {
		k, err := k1.GeneratePrivateKey()
		must(err)
		keys = append(keys, k)
		rec, err := enr.New(k)
		must(err)
		ops = append(ops, cluster.Operator{Address: eth2util.PublicKeyToAddress(k.PubKey()), ENR: rec.String()})
	}
	var fee, wd []string
	for i := 0; i < nv; i++ {
		fee = append(fee, fmt.Sprintf("0x%040x", 0xfee0+i))
		wd = append(wd, fmt.Sprintf("0x%040x", 0xdead0+i))
	}
	def, err := cluster.NewDefinition("verif", nv, t, fee, wd, eth2util.Goerli.GenesisForkVersionHex,
		cluster.Creator{Address: ops[0].Address}, ops, nil, "", 30000000, false, crand.Reader,
		cluster.WithDKGAlgorithm(os.Args[1]))
	must(err)
	for i := range def.Operators {
		def.Operators[i], err = cluster.VerifSignOperator(keys[i], def, def.Operators[i])
		must(err)
	}
	def, err = cluster.VerifSignCreator(keys[0], def)
	must(err)
	def, err = def.SetDefinitionHashes()
	must(err)
	must(def.VerifySignatures(nil))

	dir, err := os.MkdirTemp("", "dkgrun")
	must(err)
	fmt.Println(dir)
	var mu sync.Mutex
	var hosts []host.Host
	cb := func(h host.Host) {
		mu.Lock()
		defer mu.Unlock()
		for _, o := range hosts {
			o.Peerstore().AddAddrs(h.ID(), h.Addrs(), peerstore.PermanentAddrTTL)
			h.Peerstore().AddAddrs(o.ID(), o.Addrs(), peerstore.PermanentAddrTTL)
		}
		hosts = append(hosts, h)
	}
	ctx, cancel := context.WithCancel(context.Background())
	defer cancel()
	errs := make([]error, n)
	var wg sync.WaitGroup
	t0 := time.Now()
	for i := 0; i < n; i++ {
		d := def
		conf := dkg.Config{
			DataDir: path.Join(dir, fmt.Sprintf("node%d", i)),
			P2P:     p2p.Config{TCPAddrs: []string{freeAddr()}},
			Log:     log.DefaultConfig(),
			TestConfig: dkg.TestConfig{
				Def: &d,
				StoreKeysFunc: func(secrets []tbls.PrivateKey, dir string) error {
					return keystore.StoreKeysInsecure(secrets, dir, keystore.ConfirmInsecureKeys)
				},
				P2PNodeCallback: cb,
				SyncOpts:        []func(*dkgsync.Client){dkgsync.WithPeriod(50 * time.Millisecond)},
			},
			Timeout: 8 * time.Second,
		}
		must(os.MkdirAll(conf.DataDir, 0o755))
		must(k1util.Save(keys[i], p2p.KeyPath(conf.DataDir)))
		wg.Add(1)
		go func() {
			defer wg.Done()
			errs[i] = dkg.Run(ctx, conf)
			if errs[i] != nil {
				cancel()
			}
		}()
	}
	wg.Wait()
	fmt.Println(errs, time.Since(t0))
}
