package main

// The cluster-changing ceremonies (dkg/protocol.go, protocol_reshare.go, protocol_addoperators.go,
// protocol_removeoperators.go, protocol_replaceoperator.go, protocolsteps.go and what they reach in
// dkg/pedersen/reshare.go): after a successful `run` ceremony the REAL protocol is run by all
// participating nodes in this process (loopback TCP, as the ceremony itself) on the artifacts the
// previous generation of the cluster WROTE; then what every node of the new cluster wrote is loaded
// and checked with tbls alone against the group keys and group secrets of generation 0.
//
// ops (the state they act on is the latest generation):
//
//	reshare <sched>                         -> ok | err
//	addop <k> <sched>                       k new operators                      -> ok | err
//	rmop <ids> <part|-> <t'|0> <sched>      remove the operators at positions ids; part = removed operators
//	                                        that still take part; t' = 0: default threshold -> ok | err
//	replop <pos> <sched>                    a new operator takes position pos     -> ok | err
//	nval <k> <j:sk,..>      new secret shares of validator k -> x=<group secret> pk=b same=b fresh=b
//	nrec <k> <ids>          -> <RecoverSecret(ids)> rpk=<RecoverPubkey(new lock's pubshares ids)==gen-0 key>
//	nsig <k> <ids> <msg>    -> agg=b ver=<verifies under the gen-0 group key>
//	part <j>                canonical artifacts of node j of the new cluster

import (
	"bytes"
	"context"
	"fmt"
	"os"
	"path"
	"sort"
	"strconv"
	"strings"
	"sync"
	"time"

	eth2p0 "github.com/attestantio/go-eth2-client/spec/phase0"
	k1 "github.com/decred/dcrd/dcrec/secp256k1/v4"
	"github.com/libp2p/go-libp2p/core/host"
	"github.com/libp2p/go-libp2p/core/peerstore"

	"github.com/obolnetwork/charon/app/eth1wrap"
	"github.com/obolnetwork/charon/app/k1util"
	"github.com/obolnetwork/charon/app/log"
	"github.com/obolnetwork/charon/cluster"
	"github.com/obolnetwork/charon/dkg"
	"github.com/obolnetwork/charon/eth2util/enr"
	"github.com/obolnetwork/charon/p2p"
	"github.com/obolnetwork/charon/tbls"

	"verifharness/hx"
)

// gen is one generation of the cluster: generation 0 is what the ceremony wrote.
type genr struct {
	idx     int
	n, t    int
	nv      int // validators of this generation
	appended int // validators added by the append that made this generation (0 otherwise)
	files   [][][]eth2p0.DepositData // deposit-data files per node (append generations)
	keys    []*k1.PrivateKey // operator keys, in operator order
	ids     []string         // symbolic operator names: o<i> original, a<i> added later
	dirs    []string         // per operator: directory with cluster-lock.json, the p2p key, validator_keys
	prev    []int            // position of the operator in the previous generation, -1 for a new one
	lockRaw [][]byte
	locks   []cluster.Lock
	lockErr []error
	sk      [][]tbls.PrivateKey
	P       [][]tbls.PublicKey
	valSeen map[int]bool
	removed [][]tbls.PrivateKey // old shares of the operators removed by the op that made this generation
}

func (ce *cer) gen0() *genr {
	g := &genr{idx: 0, n: ce.c.n, t: ce.c.t, nv: ce.c.nv, keys: ce.keys, lockRaw: ce.lockRaw, locks: ce.locks, lockErr: ce.lockErr,
		sk: ce.sk, P: ce.P, files: ce.files, valSeen: map[int]bool{}}
	for i := 0; i < ce.c.n; i++ {
		g.ids = append(g.ids, fmt.Sprintf("o%d", i))
		g.dirs = append(g.dirs, path.Join(ce.dir, fmt.Sprintf("node%d", i)))
		g.prev = append(g.prev, -1)
	}
	return g
}

// protoOp is a parsed cluster-changing op.
type protoOp struct {
	kind  string
	k     int   // addop: number of new operators
	ids   []int // rmop: removed positions; replop: [pos]
	part  []int // rmop: removed positions that take part
	newT  int   // rmop: 0 = default
	sched uint64
}

func parseProtoOp(f []string) protoOp {
	var o protoOp
	o.kind = f[0]
	switch f[0] {
	case "reshare":
		o.sched, _ = strconv.ParseUint(f[1], 10, 64)
	case "addop":
		o.k, _ = strconv.Atoi(f[1])
		o.sched, _ = strconv.ParseUint(f[2], 10, 64)
	case "rmop":
		o.ids = parseIDs(f[1])
		if f[2] != "-" {
			o.part = parseIDs(f[2])
		}
		o.newT, _ = strconv.Atoi(f[3])
		o.sched, _ = strconv.ParseUint(f[4], 10, 64)
	case "replop":
		o.ids = parseIDs(f[1])
		o.sched, _ = strconv.ParseUint(f[2], 10, 64)
	}
	return o
}

func contains(l []int, v int) bool {
	for _, x := range l {
		if x == v {
			return true
		}
	}
	return false
}

func ceilThreshold(n int) int { return (2*n + 2) / 3 }

// protoRefused: harness-side statement of which requests the protocols must refuse (or cannot complete).
func protoRefused(ver string, g *genr, o protoOp) bool {
	if !verAtLeast(ver, 7) {
		// the code as it is (fixes/C11-protocol-v16-node-signatures.diff): updateNodeSignaturesProtocolStep stores
		// node signatures in a lock whose version has none and then fails its own verification
		return true
	}
	switch o.kind {
	case "addop":
		return o.k < 1
	case "replop":
		return len(o.ids) != 1 || o.ids[0] < 0 || o.ids[0] >= g.n || g.n-1 < g.t
	case "rmop":
		for _, i := range o.ids {
			if i < 0 || i >= g.n {
				return true
			}
		}
		newN := g.n - len(o.ids)
		if newN < 1 || len(o.ids) == 0 {
			return true
		}
		def := ceilThreshold(newN)
		if o.newT != 0 && (o.newT >= newN || o.newT < def) {
			return true
		}
		if newN+len(o.part) < g.t { // fewer than the old threshold of share holders take part
			return true
		}
		nt := o.newT
		if nt == 0 {
			nt = def
		}
		return nt < 1 || nt > newN
	}
	return false
}

// runProto runs the protocol once with the given time-out; returns the new generation (not loaded).
func (ce *cer) runProto(g *genr, o protoOp, timeout time.Duration) (*genr, []error) {
	rng := hx.NewRng(o.sched)
	root := path.Join(ce.dir, fmt.Sprintf("gen%d-%d", g.idx+1, rng.U64()%100000))
	hx.Must(os.MkdirAll(root, 0o755))
	ng := &genr{idx: g.idx + 1, nv: g.nv, valSeen: map[int]bool{}}
	// participants: (key dir, key, output position or -1)
	type node struct {
		dir string
		key *k1.PrivateKey
		out int
		id  string
	}
	var nodes []node
	var newENRs []string
	mkNew := func(i int) node {
		k, err := k1.GeneratePrivateKey()
		hx.Must(err)
		d := path.Join(root, fmt.Sprintf("new%d", i))
		hx.Must(os.MkdirAll(d, 0o755))
		hx.Must(k1util.Save(k, p2p.KeyPath(d)))
		hx.Must(os.WriteFile(path.Join(d, "cluster-lock.json"), g.lockRaw[0], 0o644)) // a new operator is handed the lock
		rec, err := enr.New(k)
		hx.Must(err)
		newENRs = append(newENRs, rec.String())
		return node{dir: d, key: k, id: fmt.Sprintf("a%d.%d", g.idx+1, i)}
	}
	switch o.kind {
	case "reshare":
		ng.t = g.t
		for i := 0; i < g.n; i++ {
			nodes = append(nodes, node{g.dirs[i], g.keys[i], i, g.ids[i]})
			ng.prev = append(ng.prev, i)
		}
	case "addop":
		ng.t = g.t
		for i := 0; i < g.n; i++ {
			nodes = append(nodes, node{g.dirs[i], g.keys[i], i, g.ids[i]})
			ng.prev = append(ng.prev, i)
		}
		for i := 0; i < o.k; i++ {
			nd := mkNew(i)
			nd.out = g.n + i
			nodes = append(nodes, nd)
			ng.prev = append(ng.prev, -1)
		}
	case "rmop":
		ng.t = o.newT
		if ng.t == 0 {
			ng.t = ceilThreshold(g.n - len(o.ids))
		}
		pos := 0
		for i := 0; i < g.n; i++ {
			if contains(o.ids, i) {
				ng.removed = append(ng.removed, g.sk[i])
				if contains(o.part, i) {
					nodes = append(nodes, node{g.dirs[i], g.keys[i], -1, g.ids[i]})
				}
				continue
			}
			nodes = append(nodes, node{g.dirs[i], g.keys[i], pos, g.ids[i]})
			ng.prev = append(ng.prev, i)
			pos++
		}
	case "replop":
		ng.t = g.t
		for i := 0; i < g.n; i++ {
			if i == o.ids[0] {
				nd := mkNew(0)
				nd.out = i
				nodes = append(nodes, nd)
				ng.prev = append(ng.prev, -1)
				ng.removed = append(ng.removed, g.sk[i])
				continue
			}
			nodes = append(nodes, node{g.dirs[i], g.keys[i], i, g.ids[i]})
			ng.prev = append(ng.prev, i)
		}
	}
	ng.n = len(ng.prev)
	ng.keys = make([]*k1.PrivateKey, ng.n)
	ng.ids = make([]string, ng.n)
	ng.dirs = make([]string, ng.n)
	for _, nd := range nodes {
		if nd.out >= 0 {
			ng.keys[nd.out] = nd.key
			ng.ids[nd.out] = nd.id
			ng.dirs[nd.out] = path.Join(root, fmt.Sprintf("node%d", nd.out))
		}
	}
	var mu sync.Mutex
	var hosts []host.Host
	cb := func(h host.Host) {
		mu.Lock()
		defer mu.Unlock()
		for _, x := range hosts {
			x.Peerstore().AddAddrs(h.ID(), h.Addrs(), peerstore.PermanentAddrTTL)
			h.Peerstore().AddAddrs(x.ID(), x.Addrs(), peerstore.PermanentAddrTTL)
		}
		hosts = append(hosts, h)
	}
	ctx, cancel := context.WithTimeout(context.Background(), 5*timeout)
	defer cancel()
	errs := make([]error, len(nodes))
	var wg sync.WaitGroup
	var removingENRs, partENRs []string
	if o.kind == "rmop" {
		for _, i := range o.ids {
			if i >= 0 && i < g.n {
				removingENRs = append(removingENRs, g.locks[0].Operators[i].ENR)
			}
		}
		if len(o.part) > 0 { // the remaining operators and the removed ones that take part, in lock order
			for i := 0; i < g.n; i++ {
				if !contains(o.ids, i) || contains(o.part, i) {
					partENRs = append(partENRs, g.locks[0].Operators[i].ENR)
				}
			}
		}
	}
	for x, i := range rng.Perm(len(nodes)) {
		nd := nodes[i]
		conf := dkg.Config{
			P2P:           p2p.Config{TCPAddrs: []string{freeAddr()}},
			Log:           log.DefaultConfig(),
			Timeout:       timeout,
			ShutdownDelay: 100 * time.Millisecond,
			TestConfig:    dkg.TestConfig{P2PNodeCallback: cb},
		}
		out := path.Join(root, fmt.Sprintf("gone%d", i)) // a removed operator writes nothing
		if nd.out >= 0 {
			out = ng.dirs[nd.out]
		}
		delay := time.Duration(rng.Intn(100)) * time.Millisecond
		if x == 0 {
			delay = 0
		}
		wg.Add(1)
		go func() {
			defer wg.Done()
			defer func() {
				if p := recover(); p != nil {
					errs[i] = fmt.Errorf("panic: %v", p)
					cancel()
				}
			}()
			time.Sleep(delay)
			lockPath, keyPath, keysDir := path.Join(nd.dir, "cluster-lock.json"), p2p.KeyPath(nd.dir), path.Join(nd.dir, "validator_keys")
			switch o.kind {
			case "reshare":
				errs[i] = dkg.RunReshareProtocol(ctx, dkg.ReshareConfig{DKGConfig: conf, PrivateKeyPath: keyPath, LockFilePath: lockPath, ValidatorKeysDir: keysDir, OutputDir: out})
			case "addop":
				errs[i] = dkg.RunAddOperatorsProtocol(ctx, dkg.AddOperatorsConfig{PrivateKeyPath: keyPath, LockFilePath: lockPath, ValidatorKeysDir: keysDir, OutputDir: out, NewENRs: newENRs}, conf)
			case "rmop":
				errs[i] = dkg.RunRemoveOperatorsProtocol(ctx, dkg.RemoveOperatorsConfig{PrivateKeyPath: keyPath, LockFilePath: lockPath, ValidatorKeysDir: keysDir, OutputDir: out,
					RemovingENRs: removingENRs, ParticipatingENRs: partENRs, NewThreshold: o.newT}, conf)
			case "replop":
				errs[i] = dkg.RunReplaceOperatorProtocol(ctx, dkg.ReplaceOperatorConfig{PrivateKeyPath: keyPath, LockFilePath: lockPath, ValidatorKeysDir: keysDir, OutputDir: out,
					NewENR: newENRs[0], OldENR: g.locks[0].Operators[o.ids[0]].ENR}, conf)
			}
			if errs[i] != nil {
				cancel()
			}
		}()
	}
	wg.Wait()
	return ng, errs
}

// loadGen reads what every node of the new cluster wrote.
func (ce *cer) loadGen(g *genr) bool {
	eth1 := eth1wrap.NewDefaultEthClientRunner("")
	g.lockRaw = make([][]byte, g.n)
	g.locks = make([]cluster.Lock, g.n)
	g.lockErr = make([]error, g.n)
	g.sk = make([][]tbls.PrivateKey, g.n)
	g.P = make([][]tbls.PublicKey, g.n)
	for j := 0; j < g.n; j++ {
		lp := path.Join(g.dirs[j], "cluster-lock.json")
		raw, err := os.ReadFile(lp)
		if err != nil {
			return false
		}
		g.lockRaw[j] = raw
		l, err := cluster.LoadClusterLock(context.Background(), lp, true, eth1)
		if err != nil {
			return false
		}
		g.locks[j] = *l
		_, g.lockErr[j] = cluster.LoadClusterLock(context.Background(), lp, false, eth1)
		g.sk[j], err = dkg.LoadSecrets(path.Join(g.dirs[j], "validator_keys"))
		if err != nil {
			return false
		}
		for _, s := range g.sk[j] {
			p, err := tbls.SecretToPublicKey(s)
			hx.Must(err)
			g.P[j] = append(g.P[j], p)
		}
	}
	return true
}

// protoMonitors: the new cluster against the group keys of generation 0 (independent of the repo's own checks).
func (ce *cer) protoMonitors(run *hx.Run, old, g *genr, o protoOp) {
	nv := g.nv
	for j := 0; j < g.n; j++ {
		lock := g.locks[j]
		if !bytes.Equal(g.lockRaw[j], g.lockRaw[0]) {
			run.Violate("dkgrun:lock_differs_between_nodes", fmt.Sprintf("%s: cluster-lock.json of new node %d differs from new node 0's", o.kind, j))
		}
		if g.lockErr[j] != nil {
			run.Violate("dkgrun:lock_verification_failed", fmt.Sprintf("%s: new node %d: the new lock is refused by the loader of `charon run`: %v", o.kind, j, g.lockErr[j]))
		}
		if len(g.sk[j]) != nv || len(lock.Validators) != nv {
			run.Violate("dkgrun:keystore_count_wrong", fmt.Sprintf("%s: new node %d holds %d keystores, the lock %d validators, the cluster has %d", o.kind, j, len(g.sk[j]), len(lock.Validators), nv))
			continue
		}
		// operator set: exactly the expected operators (ENR = the operator's key), in order; threshold
		okOps := len(lock.Operators) == g.n
		for i := 0; okOps && i < g.n; i++ {
			rec, err := enr.Parse(lock.Operators[i].ENR)
			okOps = err == nil && rec.PubKey.IsEqual(g.keys[i].PubKey())
		}
		if !okOps || lock.Threshold != g.t {
			run.Violate("dkgrun:operator_set_wrong", fmt.Sprintf("%s: new node %d: the lock has %d operators / threshold %d, expected operators %v / threshold %d", o.kind, j, len(lock.Operators), lock.Threshold, g.ids, g.t))
		}
		for k := 0; k < nv; k++ {
			v := lock.Validators[k]
			if !bytes.Equal(v.PubKey, ce.G[k][:]) {
				run.Violate("dkgrun:protocol_changed_group_key", fmt.Sprintf("%s: new node %d: validator %d of the new lock has group key %s", o.kind, j, k, ce.pkID(v.PubKey)))
			}
			if len(v.PubShares) != g.n {
				run.Violate("dkgrun:lock_shape_wrong", fmt.Sprintf("%s: new node %d validator %d: %d public shares for %d operators", o.kind, j, k, len(v.PubShares), g.n))
				continue
			}
			for i := 0; i < g.n; i++ {
				if len(g.P[i]) == nv && !bytes.Equal(v.PubShares[i], g.P[i][k][:]) {
					run.Violate("dkgrun:keystore_share_not_lock_pubshare", fmt.Sprintf("%s: lock of new node %d: public share %d of validator %d is %s, new node %d's keystore %d holds the secret of %s", o.kind, j, i, k, g.psID(v.PubShares[i]), i, k, g.psID(g.P[i][k][:])))
				}
			}
			// deposit data and registration are carried over untouched
			ov := old.locks[0].Validators[k]
			if len(v.PartialDepositData) != len(ov.PartialDepositData) || !bytes.Equal(v.BuilderRegistration.Signature, ov.BuilderRegistration.Signature) {
				run.Violate("dkgrun:protocol_changed_deposit_or_registration", fmt.Sprintf("%s: new node %d validator %d", o.kind, j, k))
			}
		}
		// signature aggregate over the new lock hash by all NEW shares
		var sigs []tbls.Signature
		for i := range g.sk {
			for k := range g.sk[i] {
				s, err := tbls.Sign(g.sk[i][k], lock.LockHash)
				hx.Must(err)
				sigs = append(sigs, s)
			}
		}
		if agg, err := tbls.Aggregate(sigs); err != nil || !bytes.Equal(agg[:], lock.SignatureAggregate) {
			run.Violate("dkgrun:lock_signature_aggregate_wrong", fmt.Sprintf("%s: new node %d: the signature aggregate is not the aggregate of all new keystore shares' signatures over the new lock hash", o.kind, j))
		}
		if want := g.expectNodeSigs(); verAtLeast(ce.c.ver, 7) && g.nodeSigs(lock) != want {
			run.Violate("dkgrun:node_signature_invalid", fmt.Sprintf("%s: new node %d: node signatures %s, expected %s", o.kind, j, g.nodeSigs(lock), want))
		}
		if bytes.Equal(lock.LockHash, old.locks[0].LockHash) {
			run.Violate("dkgrun:lock_hash_not_renewed", fmt.Sprintf("%s: new node %d", o.kind, j))
		}
	}
}

func (g *genr) psID(b []byte) string {
	for j := range g.P {
		for k, p := range g.P[j] {
			if bytes.Equal(b, p[:]) {
				return fmt.Sprintf("s%d.%d", j+1, k)
			}
		}
	}
	return "?"
}

func (g *genr) nodeSigs(lock cluster.Lock) string {
	if len(lock.NodeSignatures) == 0 {
		return "-"
	}
	var out []string
	for i, s := range lock.NodeSignatures {
		id := "?"
		if i < len(g.keys) {
			if ok, err := k1util.Verify65(g.keys[i].PubKey(), lock.LockHash, s); err == nil && ok {
				id = fmt.Sprintf("N%d", i)
			}
		}
		out = append(out, id)
	}
	return strings.Join(out, ",")
}

func (g *genr) expectNodeSigs() string {
	var out []string
	for i := 0; i < g.n; i++ {
		out = append(out, fmt.Sprintf("N%d", i))
	}
	return strings.Join(out, ",")
}

// partStr: canonical artifacts of node j of the new cluster (group keys, deposit and registration
// signatures interned against generation 0, public shares against the NEW keystores).
func (ce *cer) partStr(g *genr, j int) string {
	lock := g.locks[j]
	var ops []string
	for _, op := range lock.Operators {
		id := "?"
		if rec, err := enr.Parse(op.ENR); err == nil {
			for i, k := range g.keys {
				if rec.PubKey.IsEqual(k.PubKey()) {
					id = g.ids[i]
				}
			}
		}
		ops = append(ops, id)
	}
	var vals []string
	for k, v := range lock.Validators {
		var ps, dd []string
		for _, p := range v.PubShares {
			ps = append(ps, g.psID(p))
		}
		for _, d := range v.PartialDepositData {
			dd = append(dd, ce.depSigID(d.Signature))
		}
		reg := "-"
		if len(v.BuilderRegistration.Signature) != 0 {
			reg = ce.regSigID(v.BuilderRegistration.Signature)
		}
		vals = append(vals, fmt.Sprintf("V%d pk=%s ps=%s dd=%s reg=%s", k, ce.pkID(v.PubKey), strings.Join(ps, ","), strings.Join(dd, ","), reg))
	}
	var ks []string
	for _, p := range g.P[j] {
		ks = append(ks, g.psID(p[:]))
	}
	var sigs []tbls.Signature
	for i := range g.sk {
		for k := range g.sk[i] {
			s, err := tbls.Sign(g.sk[i][k], lock.LockHash)
			hx.Must(err)
			sigs = append(sigs, s)
		}
	}
	agg, err := tbls.Aggregate(sigs)
	okAgg := err == nil && bytes.Equal(agg[:], lock.SignatureAggregate)
	return fmt.Sprintf("n=%d t=%d ops=%s h=%s agg=%s ns=%s || %s || ks=%s", len(lock.Operators), lock.Threshold, strings.Join(ops, ","),
		b01(lock.VerifyHashes() == nil), b01(okAgg), g.nodeSigs(lock), strings.Join(vals, " | "), strings.Join(ks, ","))
}

// nvalLine: the new shares of validator k; same = group secret unchanged; fresh = every continuing
// operator's share changed.
func (ce *cer) nvalLine(run *hx.Run, old, g *genr, k int) (string, string) {
	var sks []string
	all := map[int]tbls.PrivateKey{}
	for j := 0; j < g.n; j++ {
		sks = append(sks, fmt.Sprintf("%d:%x", j+1, g.sk[j][k][:]))
		all[j+1] = g.sk[j][k]
	}
	x, err := tbls.RecoverSecret(all, uint(g.n), uint(g.t))
	hx.Must(err)
	pk, err := tbls.SecretToPublicKey(x)
	okPK := err == nil && pk == ce.G[k]
	same := x == ce.x[k]
	fresh := true
	for j := 0; j < g.n; j++ {
		if g.prev[j] >= 0 && g.sk[j][k] == old.sk[g.prev[j]][k] {
			fresh = false
		}
	}
	if !okPK || !same {
		run.Violate("dkgrun:protocol_changed_group_key", fmt.Sprintf("validator %d: the secret interpolated from the new keystore shares is not the group secret of the ceremony", k))
	}
	if !fresh {
		run.Violate("dkgrun:share_not_refreshed", fmt.Sprintf("validator %d: a continuing operator holds its old secret share", k))
	}
	// an old share of a removed operator must not count together with fewer than t' new shares
	for r, rs := range g.removed {
		if g.t >= 2 && len(rs) > k {
			sub := map[int]tbls.PrivateKey{}
			for j := 0; j < g.t-1; j++ {
				sub[j+1] = g.sk[j][k]
			}
			sub[g.n+1] = rs[k]
			if rec, err := tbls.RecoverSecret(sub, uint(g.n+1), uint(g.t)); err == nil && rec == ce.x[k] {
				run.Violate("dkgrun:removed_share_still_counts", fmt.Sprintf("validator %d: %d new shares and the old share of removed operator #%d recover the group secret", k, g.t-1, r))
			}
		}
	}
	return strings.Join(sks, ","), fmt.Sprintf("x=%x pk=%s same=%s fresh=%s", x[:], b01(okPK), b01(same), b01(fresh))
}

func sortedInts(l []int) []int {
	o := append([]int(nil), l...)
	sort.Ints(o)
	return o
}

// proto runs the protocol with a growing time-out (two attempts); only a request that fails with every
// time-out is reported. A refusal every node reports without waiting is not retried.
func (ce *cer) proto(g *genr, o protoOp) (*genr, []error) {
	var ng *genr
	var errs []error
	for attempt, to := range []time.Duration{12 * time.Second, 36 * time.Second} {
		ng, errs = ce.runProto(g, o, to)
		if allNil(errs) {
			if ce.loadGen(ng) {
				return ng, errs
			}
			return nil, []error{fmt.Errorf("artifacts of the new cluster cannot be loaded")}
		}
		if !timeoutClass(errs) || attempt == 1 {
			break
		}
	}
	return nil, errs
}
