// drive-jsonmap: correspondence driver + monitors for C12, stream `jsonmap` — the per-version JSON codecs
// of cluster definitions and locks (cluster/definition.go, lock.go, distvalidator.go, operator.go,
// deposit.go, registration.go, helpers.go) against the transfer-list model (Model/JsonMap.lean) instantiated
// with the rows translator T-jsonmap regenerates from those files.
//
// One op per generated value:
//
//	rt <def|lock> <version> <leaf>=<column> … H:<hash leaf>=<value> … G:<hex gob of the value>
//
// every in-memory leaf of the value (json tag path of the Go structs Definition / Lock, lists as `[]`)
// with its column (nested lists in element order:  s<hex> string, b<hex> bytes, i<int>, t|f, T<sec>.<nsec>),
// under H: the hashes MarshalJSON recomputes, under G: the value itself for -mode exec (ignored by the model).
//
// Executed on the real code: file1 = json.Marshal(x) (real MarshalJSON); y = real UnmarshalJSON(file1);
// answer `encerr` | `decerr` | `ok <bits>`: one bit per leaf in op order, 1 = the decoded leaf column equals
// the original. The model answers from decodeField (encode …) over the regenerated rows of that version.
//
// Monitors (independent of the model; file2 = Marshal(y), y2 = Unmarshal(file2)):
//
//	jsonmap:roundtrip_changed_hash      a hash leaf of file2 differs from file1, or the hashes recomputed from y
//	                                    differ from the hashes stored in y (= those of file1), or y does not re-encode
//	jsonmap:roundtrip_changed_field     a leaf of y2 differs from y (decode ∘ encode is not the identity on a decoded value)
//	jsonmap:reencode_changed_file       file2 differs from file1 outside the hash leaves
//	jsonmap:field_survives_unexpectedly a non-default leaf that the format version does not have came back
package main

import (
	"bytes"
	"encoding/gob"
	"encoding/hex"
	"encoding/json"
	"fmt"
	"os"
	"reflect"
	"strconv"
	"strings"
	"time"

	eth2p0 "github.com/attestantio/go-eth2-client/spec/phase0"

	"github.com/obolnetwork/charon/cluster"

	"verifharness/hx"
)

var versions = []string{"v1.0.0", "v1.1.0", "v1.2.0", "v1.3.0", "v1.4.0", "v1.5.0", "v1.6.0", "v1.7.0", "v1.8.0", "v1.9.0", "v1.10.0", "v1.11.0"}

func minor(v string) int {
	n, _ := strconv.Atoi(strings.Split(v, ".")[1])
	return n
}

// ---------------------------------------------------------------------------------------------
// leaves and columns (reflection over the json tags of the in-memory structs)

var timeType = reflect.TypeOf(time.Time{})

type step struct {
	field int  // struct field index, or
	list  bool // one list level
}

type leafPath struct {
	name  string
	steps []step
}

func leafPaths(t reflect.Type, name string, steps []step, out *[]leafPath) {
	cp := func() []step { return append([]step{}, steps...) }
	if t == timeType {
		*out = append(*out, leafPath{name, cp()})
		return
	}
	switch t.Kind() {
	case reflect.Struct:
		for i := 0; i < t.NumField(); i++ {
			f := t.Field(i)
			tag := strings.Split(f.Tag.Get("json"), ",")[0]
			n := tag
			if name != "" {
				n = name + "." + tag
			}
			leafPaths(f.Type, n, append(cp(), step{field: i}), out)
		}
	case reflect.Slice:
		if t.Elem().Kind() == reflect.Uint8 {
			*out = append(*out, leafPath{name, cp()})
			return
		}
		leafPaths(t.Elem(), name+"[]", append(cp(), step{list: true}), out)
	default:
		*out = append(*out, leafPath{name, cp()})
	}
}

func column(v reflect.Value, steps []step, sb *strings.Builder) {
	if len(steps) == 0 {
		if v.Type() == timeType {
			t := v.Interface().(time.Time)
			fmt.Fprintf(sb, "T%d.%d", t.Unix(), t.Nanosecond())
			return
		}
		switch v.Kind() {
		case reflect.String:
			sb.WriteString("s" + hex.EncodeToString([]byte(v.String())))
		case reflect.Slice:
			sb.WriteString("b" + hex.EncodeToString(v.Bytes()))
		case reflect.Int, reflect.Int64:
			fmt.Fprintf(sb, "i%d", v.Int())
		case reflect.Uint, reflect.Uint64:
			fmt.Fprintf(sb, "i%d", v.Uint())
		case reflect.Bool:
			if v.Bool() {
				sb.WriteString("t")
			} else {
				sb.WriteString("f")
			}
		default:
			panic("leaf kind " + v.Kind().String())
		}
		return
	}
	if steps[0].list {
		sb.WriteString("[")
		for i := 0; i < v.Len(); i++ {
			if i > 0 {
				sb.WriteString(",")
			}
			column(v.Index(i), steps[1:], sb)
		}
		sb.WriteString("]")
		return
	}
	column(v.Field(steps[0].field), steps[1:], sb)
}

func columns(x any) (names []string, vals []string) {
	var ps []leafPath
	v := reflect.ValueOf(x)
	leafPaths(v.Type(), "", nil, &ps)
	for _, p := range ps {
		var sb strings.Builder
		column(v, p.steps, &sb)
		names = append(names, p.name)
		vals = append(vals, sb.String())
	}
	return
}

// a column without any non-zero leaf (what a field the format does not have decodes to).
func isDefaultColumn(c string) bool {
	for _, tok := range strings.FieldsFunc(c, func(r rune) bool { return r == '[' || r == ']' || r == ',' }) {
		switch tok {
		case "s", "b", "i0", "f", "T-62135596800.0":
		default:
			return false
		}
	}
	return true
}

// ---------------------------------------------------------------------------------------------
// generator

type drv struct {
	run *hx.Run
	rng *hx.Rng
}

func (d *drv) bytes(n int) []byte {
	b := make([]byte, n)
	for i := range b {
		b[i] = byte(d.rng.Intn(256))
	}
	return b
}

func (d *drv) addr() string {
	if d.rng.Chance(1, 8) {
		return ""
	}
	return "0x" + hex.EncodeToString(d.bytes(20))
}

func (d *drv) word() string {
	words := []string{"", "a", "cluster-x", "default", "frost", "qbft", "2022-07-19T18:19:58+02:00", "enr:-Iu4QJyserRukhG0Vgi2csu7GjpHYUGufNEbZ8Q7ZBrcZUb0KqpL5QzHonkh1xxHlxatTxrIcX", "ü-name"}
	return words[d.rng.Intn(len(words))]
}

// secp256k1 signature(s): several concatenated ones (Safe multisig) are hashable since v1.11 only.
func (d *drv) sig65(ver string) []byte {
	switch d.rng.Intn(4) {
	case 0:
		return nil
	case 1:
		if minor(ver) >= 11 {
			return d.bytes(130)
		}
	}
	return d.bytes(65)
}

func (d *drv) genDef(ver string) cluster.Definition {
	r := d.rng
	nv := r.Intn(4)
	def := cluster.Definition{
		UUID: strings.ToUpper(hex.EncodeToString(d.bytes(8))), Name: d.word(), Version: ver, Timestamp: d.word(),
		NumValidators: nv, Threshold: r.Intn(5), DKGAlgorithm: d.word(), ForkVersion: d.bytes(4),
	}
	if len(def.Timestamp) > 32 {
		def.Timestamp = def.Timestamp[:32]
	}
	if len(def.DKGAlgorithm) > 32 {
		def.DKGAlgorithm = def.DKGAlgorithm[:32]
	}
	if r.Chance(1, 10) {
		def.ForkVersion = nil
	} else if r.Chance(1, 12) {
		def.ForkVersion = d.bytes(1 + r.Intn(3)) // shorter than 4: v1.0 / v1.1 encode it and reject it on decode
	}
	for i := 0; i < r.Intn(5); i++ {
		def.Operators = append(def.Operators, cluster.Operator{Address: d.addr(), ENR: d.word(), ConfigSignature: d.sig65(ver), ENRSignature: d.sig65(ver)})
	}
	if minor(ver) >= 4 || r.Chance(1, 3) { // also where the format has no creator
		def.Creator = cluster.Creator{Address: d.addr(), ConfigSignature: d.sig65(ver)}
	}
	// validator addresses: mostly one per validator; legacy formats keep one common pair
	n := nv
	if r.Chance(1, 8) {
		n = r.Intn(4)
	}
	common := cluster.ValidatorAddresses{FeeRecipientAddress: d.addr(), WithdrawalAddress: d.addr()}
	for i := 0; i < n; i++ {
		va := cluster.ValidatorAddresses{FeeRecipientAddress: d.addr(), WithdrawalAddress: d.addr()}
		if minor(ver) < 5 && !r.Chance(1, 10) {
			va = common
		} else if r.Chance(1, 2) {
			va = common
		}
		def.ValidatorAddresses = append(def.ValidatorAddresses, va)
	}
	if minor(ver) >= 8 || r.Chance(1, 3) {
		// also NON-ascending lists: the order of deposit_amounts is hashed, a codec that normalises it changes the hashes
		sets := [][]eth2p0.Gwei{nil, {32000000000}, {16000000000, 16000000000}, {1000000000, 31000000000}, {8000000000, 8000000000, 16000000000},
			{31000000000, 1000000000}, {24000000000, 8000000000}, {16000000000, 8000000000, 8000000000}, {8000000000, 16000000000, 8000000000}}
		def.DepositAmounts = sets[r.Intn(len(sets))]
	}
	if minor(ver) >= 9 || r.Chance(1, 3) {
		def.ConsensusProtocol = []string{"", "qbft", "abft"}[r.Intn(3)]
	}
	if minor(ver) >= 10 || r.Chance(1, 3) {
		def.TargetGasLimit = uint(r.Intn(3) * 30000000)
		def.Compounding = r.Chance(1, 2)
	}
	// stored hashes: mostly the recomputed ones, sometimes stale
	if d2, err := def.SetDefinitionHashes(); err == nil && !r.Chance(1, 5) {
		def = d2
	} else {
		def.ConfigHash, def.DefinitionHash = d.bytes(32), d.bytes(32)
	}
	return def
}

func (d *drv) genLock(ver string) cluster.Lock {
	r := d.rng
	l := cluster.Lock{Definition: d.genDef(ver)}
	n := l.NumValidators
	if r.Chance(1, 8) {
		n = r.Intn(4)
	}
	for i := 0; i < n; i++ {
		dv := cluster.DistValidator{PubKey: d.bytes(48)}
		for k := 0; k < r.Intn(4); k++ {
			dv.PubShares = append(dv.PubShares, d.bytes(48))
		}
		nd := 0
		if minor(ver) >= 6 || r.Chance(1, 3) {
			nd = []int{1, 1, 1, 0, 2, 3}[r.Intn(6)]
			if minor(ver) >= 8 && r.Chance(1, 2) {
				nd = r.Intn(4)
			}
		}
		for k := 0; k < nd; k++ {
			dv.PartialDepositData = append(dv.PartialDepositData, cluster.DepositData{PubKey: d.bytes(48), WithdrawalCredentials: d.bytes(32),
				Amount: []int{0, 1000000000, 32000000000}[r.Intn(3)], Signature: d.bytes(96)})
		}
		if minor(ver) >= 7 || r.Chance(1, 3) {
			if !r.Chance(1, 5) {
				ts := time.Unix(int64(1600000000+r.Intn(100000000)), 0)
				if r.Chance(1, 6) {
					ts = time.Unix(ts.Unix(), int64(1+r.Intn(999999999))) // sub-second: lost
				}
				dv.BuilderRegistration = cluster.BuilderRegistration{
					Message:   cluster.Registration{FeeRecipient: d.bytes(20), GasLimit: r.Intn(3) * 30000000, Timestamp: ts, PubKey: d.bytes(48)},
					Signature: d.bytes(96),
				}
			}
		}
		l.Validators = append(l.Validators, dv)
	}
	l.SignatureAggregate = d.bytes(96)
	if r.Chance(1, 10) {
		l.SignatureAggregate = nil
	}
	if minor(ver) >= 7 || r.Chance(1, 3) {
		for k := 0; k < r.Intn(4); k++ {
			l.NodeSignatures = append(l.NodeSignatures, d.bytes(65))
		}
	}
	if l2, err := l.SetLockHash(); err == nil && !r.Chance(1, 5) {
		l = l2
	} else {
		l.LockHash = d.bytes(32)
	}
	return l
}

// ---------------------------------------------------------------------------------------------
// the op

// minimal format version that has the leaf (independent of the model): prefix of the leaf name.
var sinceVersion = []struct {
	prefix string
	minor  int
}{
	{"creator.", 4}, {"deposit_amounts", 8}, {"consensus_protocol", 9}, {"target_gas_limit", 10}, {"compounding", 10},
	{"distributed_validators[].partial_deposit_data", 6}, {"distributed_validators[].builder_registration", 7}, {"node_signatures", 7},
}

// wellFormed: the in-memory value is one a file of its version can hold (independent restatement of the
// domain of the round trip): stored hashes are the recomputed ones, one address pair per validator (legacy
// formats: all equal), a 4-byte fork version, v1.6/v1.7: exactly one partial deposit per validator,
// registration timestamps in whole seconds; leaves the version does not have are not constrained.
func wellFormed(kind, ver string, x any) bool {
	var def cluster.Definition
	switch v := x.(type) {
	case cluster.Definition:
		def = v
		if v.VerifyHashes() != nil {
			return false
		}
	case cluster.Lock:
		def = v.Definition
		if v.Definition.VerifyHashes() != nil {
			return false
		}
		l2, err := v.SetLockHash()
		if err != nil || !bytes.Equal(l2.LockHash, v.LockHash) {
			return false
		}
		for _, dv := range v.Validators {
			if (minor(ver) == 6 || minor(ver) == 7) && len(dv.PartialDepositData) != 1 {
				return false
			}
			if minor(ver) >= 7 && dv.BuilderRegistration.Message.Timestamp.Nanosecond() != 0 {
				return false
			}
		}
	}
	if len(def.ValidatorAddresses) != def.NumValidators || def.NumValidators < 0 {
		return false
	}
	if minor(ver) < 5 {
		for _, va := range def.ValidatorAddresses {
			if va != def.ValidatorAddresses[0] {
				return false
			}
		}
	}
	return len(def.ForkVersion) == 4
}

func hashLeaves(kind string, file []byte) map[string]string {
	var m map[string]any
	out := map[string]string{}
	if json.Unmarshal(file, &m) != nil {
		return out
	}
	get := func(mm map[string]any, k, as string) {
		if s, ok := mm[k].(string); ok {
			out[as] = s
		}
	}
	if kind == "lock" {
		get(m, "lock_hash", "lock_hash")
		if dm, ok := m["cluster_definition"].(map[string]any); ok {
			m = dm
		} else {
			return out
		}
	}
	get(m, "config_hash", "config_hash")
	get(m, "definition_hash", "definition_hash")
	return out
}

var hashKeyRe = []string{`"config_hash":"`, `"definition_hash":"`, `"lock_hash":"`}

// file with the values of the hash leaves blanked.
func blankHashes(file []byte) string {
	s := string(file)
	for _, k := range hashKeyRe {
		for from := 0; ; {
			i := strings.Index(s[from:], k)
			if i < 0 {
				break
			}
			i += from + len(k)
			j := strings.IndexByte(s[i:], '"')
			if j < 0 {
				break
			}
			s = s[:i] + s[i+j:]
			from = i
		}
	}
	return s
}

func (d *drv) exec(kind, ver string, x any, opLine string) {
	run := d.run
	run.Begin(opLine)
	decode := func(file []byte) (any, error) {
		if kind == "def" {
			var y cluster.Definition
			err := json.Unmarshal(file, &y)
			return y, err
		}
		var y cluster.Lock
		err := json.Unmarshal(file, &y)
		return y, err
	}
	run.Count(kind + ":" + ver)
	file1, err := json.Marshal(x)
	if err != nil {
		run.Count("encerr")
		if os.Getenv("Y4DEBUG") != "" {
			fmt.Fprintln(os.Stderr, "encerr:", kind, ver, err)
		}
		if wellFormed(kind, ver, x) {
			run.Violate("jsonmap:roundtrip_changed_field", fmt.Sprintf("%s %s: a well-formed value does not encode: %v", kind, ver, err))
		}
		run.Op(opLine, "encerr")
		return
	}
	y, err := decode(file1)
	if err != nil {
		run.Count("decerr")
		run.Case("decerr:" + kind + ":" + ver)
		if wellFormed(kind, ver, x) {
			run.Violate("jsonmap:roundtrip_changed_field", fmt.Sprintf("%s %s: the file written for a well-formed value is rejected: %v", kind, ver, err))
		}
		run.Op(opLine, "decerr")
		return
	}
	names, xs := columns(x)
	_, ys := columns(y)
	wf := wellFormed(kind, ver, x)
	if wf {
		run.Count("wellformed")
	}
	isHash := func(n string) bool {
		return strings.HasSuffix(n, "config_hash") || strings.HasSuffix(n, "definition_hash") || n == "lock_hash"
	}
	var bits strings.Builder
	lost := 0
	for i := range names {
		leaf := strings.TrimPrefix(names[i], "cluster_definition.")
		has := true // the format version has the leaf
		for _, sv := range sinceVersion {
			if strings.HasPrefix(leaf, sv.prefix) && minor(ver) < sv.minor {
				has = false
				if xs[i] == ys[i] && !isDefaultColumn(xs[i]) {
					run.Violate("jsonmap:field_survives_unexpectedly", fmt.Sprintf("%s %s: leaf %s = %s survived although the format has it since v1.%d only", kind, ver, names[i], xs[i], sv.minor))
				}
			}
		}
		if xs[i] == ys[i] {
			bits.WriteString("1")
			continue
		}
		bits.WriteString("0")
		lost++
		run.Case("lost:" + kind + ":" + ver + ":" + names[i])
		if wf && has {
			run.Violate("jsonmap:roundtrip_changed_field", fmt.Sprintf("%s %s: leaf %s of a well-formed value is %s before and %s after encode + decode", kind, ver, names[i], xs[i], ys[i]))
		}
	}
	if lost == 0 {
		run.Count("identity")
	} else {
		run.Count("changed")
	}
	// the hashes stored in the decoded value must be those recomputed from it
	var verr error
	switch v := y.(type) {
	case cluster.Definition:
		verr = v.VerifyHashes()
	case cluster.Lock:
		// Lock.VerifyHashes without its consistency check between num_validators and the validator list
		verr = v.Definition.VerifyHashes()
		if verr == nil {
			if l2, err := v.SetLockHash(); err != nil {
				verr = err
			} else if !bytes.Equal(l2.LockHash, v.LockHash) {
				verr = fmt.Errorf("invalid lock hash")
			}
		}
	}
	if wf && verr != nil {
		run.Violate("jsonmap:roundtrip_changed_hash", fmt.Sprintf("%s %s: the file written for a well-formed value decodes to a value that fails VerifyHashes: %v", kind, ver, verr))
	}
	// re-encoding a decoded value must not change anything (file2 = Marshal(y), y2 = Unmarshal(file2))
	file2, err := json.Marshal(y)
	if err != nil {
		run.Violate("jsonmap:roundtrip_changed_hash", fmt.Sprintf("%s %s: the decoded value does not re-encode: %v", kind, ver, err))
	} else {
		hashValid := verr == nil
		h1, h2 := hashLeaves(kind, file1), hashLeaves(kind, file2)
		if hashValid || wf {
			for k, v := range h1 {
				if h2[k] != v {
					run.Violate("jsonmap:roundtrip_changed_hash", fmt.Sprintf("%s %s: %s is %s in the file and %s after decoding and re-encoding it", kind, ver, k, v, h2[k]))
				}
			}
		}
		if len(h1) == 0 {
			run.Violate("jsonmap:roundtrip_changed_hash", fmt.Sprintf("%s %s: no hash leaves in the file", kind, ver))
		}
		if wf && blankHashes(file1) != blankHashes(file2) {
			run.Violate("jsonmap:reencode_changed_file", fmt.Sprintf("%s %s: re-encoding the decoded file changed it outside the hashes:\n%s\n%s", kind, ver, file1, file2))
		}
		y2, err := decode(file2)
		if err != nil {
			run.Violate("jsonmap:roundtrip_changed_field", fmt.Sprintf("%s %s: the re-encoded file is rejected: %v", kind, ver, err))
		} else {
			_, y2s := columns(y2)
			for i := range names {
				if ys[i] != y2s[i] && (hashValid || !isHash(names[i])) {
					run.Violate("jsonmap:roundtrip_changed_field", fmt.Sprintf("%s %s: leaf %s of a decoded value is %s and %s after encode + decode", kind, ver, names[i], ys[i], y2s[i]))
				}
			}
		}
	}
	run.Op(opLine, "ok "+bits.String())
}

func (d *drv) opLine(kind, ver string, x any) string {
	names, vals := columns(x)
	var sb strings.Builder
	fmt.Fprintf(&sb, "rt %s %s", kind, ver)
	for i := range names {
		fmt.Fprintf(&sb, " %s=%s", names[i], vals[i])
	}
	// the hashes MarshalJSON recomputes
	switch v := x.(type) {
	case cluster.Definition:
		if d2, err := v.SetDefinitionHashes(); err == nil {
			fmt.Fprintf(&sb, " H:config_hash=b%x H:definition_hash=b%x", d2.ConfigHash, d2.DefinitionHash)
		}
	case cluster.Lock:
		if d2, err := v.Definition.SetDefinitionHashes(); err == nil {
			fmt.Fprintf(&sb, " H:cluster_definition.config_hash=b%x H:cluster_definition.definition_hash=b%x", d2.ConfigHash, d2.DefinitionHash)
		}
		if l2, err := v.SetLockHash(); err == nil {
			fmt.Fprintf(&sb, " H:lock_hash=b%x", l2.LockHash)
		}
	}
	var buf bytes.Buffer
	hx.Must(gob.NewEncoder(&buf).Encode(x))
	fmt.Fprintf(&sb, " G:%x", buf.Bytes())
	return sb.String()
}

func (d *drv) gen(n int) {
	for i := 0; i < n && !d.run.Enough(); i++ {
		ver := versions[(i/2)%len(versions)]
		if i%2 == 0 {
			x := d.genDef(ver)
			d.exec("def", ver, x, d.opLine("def", ver, x))
		} else {
			x := d.genLock(ver)
			d.exec("lock", ver, x, d.opLine("lock", ver, x))
		}
	}
}

func (d *drv) replay(ops []string) {
	for _, op := range ops {
		f := strings.Fields(op)
		if len(f) < 4 || f[0] != "rt" || !strings.HasPrefix(f[len(f)-1], "G:") {
			d.run.Op(op, "bad-op")
			continue
		}
		raw, err := hex.DecodeString(strings.TrimPrefix(f[len(f)-1], "G:"))
		if err != nil {
			d.run.Op(op, "bad-op")
			continue
		}
		switch f[1] {
		case "def":
			var x cluster.Definition
			if gob.NewDecoder(bytes.NewReader(raw)).Decode(&x) != nil {
				d.run.Op(op, "bad-op")
				continue
			}
			d.exec("def", f[2], x, op)
		case "lock":
			var x cluster.Lock
			if gob.NewDecoder(bytes.NewReader(raw)).Decode(&x) != nil {
				d.run.Op(op, "bad-op")
				continue
			}
			d.exec("lock", f[2], x, op)
		default:
			d.run.Op(op, "bad-op")
		}
	}
}

func main() {
	a := hx.ParseArgs()
	run := hx.NewRun(a.Dir)
	d := &drv{run: run, rng: hx.NewRng(a.Seed)}
	if a.Mode == "exec" {
		d.replay(hx.ReadOps(a.Ops))
	} else {
		d.gen(a.N)
	}
	run.Close()
}
