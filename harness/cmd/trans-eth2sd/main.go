// trans-eth2sd: translator T-eth2sd for C09/C10 (go/types via go/packages; fails closed).
//
// Type-checks package core of the repo at -repo, finds EVERY named type that implements the
// interface core.Eth2SignedData and emits, per implementation, the signing domain its DomainName
// method returns and the kind of source its Epoch method reads the epoch from
// (lean/CharonV/Generated/Eth2sd.lean). Also reports that VerifyEth2SignedData passes exactly
// data.DomainName(), the result of data.Epoch, the result of data.MessageRoot and data.Signature()
// to signing.Verify.
package main

import (
	"bytes"
	"flag"
	"fmt"
	"go/ast"
	"go/printer"
	"go/token"
	"go/types"
	"os"
	"sort"
	"strings"

	"golang.org/x/tools/go/packages"
)

func fail(f string, a ...any) {
	fmt.Fprintf(os.Stderr, "trans-eth2sd: "+f+"\n", a...)
	os.Exit(1)
}

func str(fset *token.FileSet, n ast.Node) string {
	var b bytes.Buffer
	_ = printer.Fprint(&b, fset, n)
	return strings.Join(strings.Fields(b.String()), " ")
}

func main() {
	repo := flag.String("repo", "/repo", "repository root")
	out := flag.String("out", "", "output .lean file")
	flag.Parse()
	if *out == "" {
		fail("-out required")
	}
	cfg := &packages.Config{Dir: *repo, Env: append(os.Environ(), "GOFLAGS=-mod=mod", "GOPROXY=off"),
		Mode: packages.NeedName | packages.NeedFiles | packages.NeedCompiledGoFiles | packages.NeedImports | packages.NeedTypes |
			packages.NeedTypesSizes | packages.NeedSyntax | packages.NeedTypesInfo}
	pkgs, err := packages.Load(cfg, "./core")
	if err != nil || len(pkgs) != 1 {
		fail("load: %v", err)
	}
	pk := pkgs[0]
	if len(pk.Errors) > 0 {
		fail("package core: %v", pk.Errors[0])
	}
	info, fset := pk.TypesInfo, pk.Fset
	ifaceObj := pk.Types.Scope().Lookup("Eth2SignedData")
	if ifaceObj == nil {
		fail("core.Eth2SignedData not found")
	}
	iface, ok := ifaceObj.Type().Underlying().(*types.Interface)
	if !ok {
		fail("core.Eth2SignedData is not an interface")
	}
	// method declarations by (receiver type name, method name)
	decls := map[string]*ast.FuncDecl{}
	for _, f := range pk.Syntax {
		if strings.HasSuffix(fset.Position(f.Pos()).Filename, "_test.go") {
			continue
		}
		for _, d := range f.Decls {
			fd, ok := d.(*ast.FuncDecl)
			if !ok || fd.Recv == nil || len(fd.Recv.List) != 1 || fd.Body == nil {
				continue
			}
			t := fd.Recv.List[0].Type
			if st, ok := t.(*ast.StarExpr); ok {
				t = st.X
			}
			if id, ok := t.(*ast.Ident); ok {
				decls[id.Name+"."+fd.Name.Name] = fd
			}
		}
	}
	type rowT struct{ typ, domain, epoch string }
	var rows []rowT
	names := pk.Types.Scope().Names()
	sort.Strings(names)
	for _, n := range names {
		tn, ok := pk.Types.Scope().Lookup(n).(*types.TypeName)
		if !ok || tn.IsAlias() {
			continue
		}
		if _, isIface := tn.Type().Underlying().(*types.Interface); isIface {
			continue
		}
		if !types.Implements(tn.Type(), iface) && !types.Implements(types.NewPointer(tn.Type()), iface) {
			continue
		}
		// DomainName: a single `return signing.DomainX`
		dn := decls[n+".DomainName"]
		if dn == nil || len(dn.Body.List) != 1 {
			fail("%s.DomainName: body not understood", n)
		}
		ret, ok := dn.Body.List[0].(*ast.ReturnStmt)
		if !ok || len(ret.Results) != 1 {
			fail("%s.DomainName: body not understood", n)
		}
		sel, ok := ret.Results[0].(*ast.SelectorExpr)
		if !ok {
			fail("%s.DomainName: returns %s", n, str(fset, ret.Results[0]))
		}
		c, ok := info.Uses[sel.Sel].(*types.Const)
		if !ok || c.Pkg().Name() != "signing" {
			fail("%s.DomainName: %s is not a constant of package signing", n, str(fset, sel))
		}
		domain := strings.Trim(c.Val().ExactString(), `"`)
		// Epoch: classify the last return
		ep := decls[n+".Epoch"]
		if ep == nil || len(ep.Body.List) == 0 {
			fail("%s.Epoch: not found", n)
		}
		last, ok := ep.Body.List[len(ep.Body.List)-1].(*ast.ReturnStmt)
		if !ok || len(last.Results) == 0 {
			fail("%s.Epoch: last statement is not a return", n)
		}
		kind := ""
		switch e := last.Results[0].(type) {
		case *ast.CallExpr:
			if s, ok := e.Fun.(*ast.SelectorExpr); ok && s.Sel.Name == "EpochFromSlot" && len(e.Args) == 3 {
				arg := str(fset, e.Args[2])
				if id, ok := e.Args[2].(*ast.Ident); ok && id.Name == "slot" {
					arg = "Slot()"
				} else if i := strings.Index(arg, "."); i >= 0 {
					arg = arg[i+1:]
				}
				kind = "slot:" + arg
			}
		case *ast.SelectorExpr:
			s := str(fset, e)
			if i := strings.Index(s, "."); i >= 0 {
				s = s[i+1:]
			}
			kind = "field:" + s
		case *ast.BasicLit:
			if e.Value == "0" {
				kind = "zero"
			}
		}
		if kind == "" {
			fail("%s.Epoch: return %s not understood", n, str(fset, last.Results[0]))
		}
		rows = append(rows, rowT{n, domain, kind})
	}
	if len(rows) == 0 {
		fail("no implementation of Eth2SignedData found")
	}
	// VerifyEth2SignedData shape
	shape := false
	for _, f := range pk.Syntax {
		for _, d := range f.Decls {
			fd, ok := d.(*ast.FuncDecl)
			if !ok || fd.Name.Name != "VerifyEth2SignedData" || fd.Recv != nil || fd.Body == nil {
				continue
			}
			ps := fd.Type.Params.List
			if len(ps) != 4 {
				fail("VerifyEth2SignedData: parameters not understood")
			}
			data, pub := info.Defs[ps[2].Names[0]], info.Defs[ps[3].Names[0]]
			var epochObj, rootObj types.Object
			isDataCall := func(e ast.Expr, m string) bool {
				c, ok := e.(*ast.CallExpr)
				if !ok {
					return false
				}
				s, ok := c.Fun.(*ast.SelectorExpr)
				if !ok || s.Sel.Name != m {
					return false
				}
				id, ok := s.X.(*ast.Ident)
				return ok && info.Uses[id] == data
			}
			for _, st := range fd.Body.List {
				as, ok := st.(*ast.AssignStmt)
				if !ok || len(as.Lhs) != 2 || len(as.Rhs) != 1 {
					continue
				}
				id, _ := as.Lhs[0].(*ast.Ident)
				if id == nil {
					continue
				}
				if isDataCall(as.Rhs[0], "Epoch") {
					epochObj = info.Defs[id]
				}
				if isDataCall(as.Rhs[0], "MessageRoot") {
					rootObj = info.Defs[id]
				}
			}
			last, ok := fd.Body.List[len(fd.Body.List)-1].(*ast.ReturnStmt)
			if !ok || len(last.Results) != 1 {
				continue
			}
			c, ok := last.Results[0].(*ast.CallExpr)
			if !ok || len(c.Args) != 7 {
				continue
			}
			s, ok := c.Fun.(*ast.SelectorExpr)
			if !ok || s.Sel.Name != "Verify" {
				continue
			}
			useOf := func(e ast.Expr) types.Object {
				if id, ok := e.(*ast.Ident); ok {
					return info.Uses[id]
				}
				return nil
			}
			sigOK := false
			if sc, ok := c.Args[5].(*ast.CallExpr); ok { // data.Signature().ToETH2()
				if ss, ok := sc.Fun.(*ast.SelectorExpr); ok && ss.Sel.Name == "ToETH2" {
					sigOK = isDataCall(ss.X, "Signature")
				}
			}
			shape = isDataCall(c.Args[2], "DomainName") && epochObj != nil && useOf(c.Args[3]) == epochObj &&
				rootObj != nil && useOf(c.Args[4]) == rootObj && sigOK && useOf(c.Args[6]) == pub
		}
	}
	var b strings.Builder
	b.WriteString("-- GENERATED by harness/cmd/trans-eth2sd (translator T-eth2sd) from package core. Do not edit.\n")
	b.WriteString("namespace CharonV.Generated.Eth2sd\n\n")
	b.WriteString("/-- (implementation of core.Eth2SignedData, value of its DomainName, source of its Epoch) -/\n")
	b.WriteString("def rows : List (String × String × String) := [")
	for i, r := range rows {
		if i > 0 {
			b.WriteString(",")
		}
		fmt.Fprintf(&b, "\n  (%q, %q, %q)", r.typ, r.domain, r.epoch)
	}
	b.WriteString("]\n\n/-- VerifyEth2SignedData hands the object's own DomainName, Epoch, MessageRoot and Signature and the given key to signing.Verify -/\n")
	fmt.Fprintf(&b, "def verifyPassesOwnFields : Bool := %v\n\nend CharonV.Generated.Eth2sd\n", shape)
	old, _ := os.ReadFile(*out)
	if string(old) != b.String() {
		if err := os.WriteFile(*out, []byte(b.String()), 0o644); err != nil {
			fail("write: %v", err)
		}
	}
	for _, r := range rows {
		fmt.Printf("%-40s %-40s %s\n", r.typ, r.domain, r.epoch)
	}
	fmt.Println("VerifyEth2SignedData passes own fields:", shape)
}
