// trans-eth2sd: translator T-eth2sd for C09/C10 (go/types via go/packages; fails closed).
//
// Type-checks package core of the repo at -repo, finds EVERY named type that implements the
// interface core.Eth2SignedData and emits, per implementation, the signing domain its DomainName
// method returns and the kind of source its Epoch method reads the epoch from
// (lean/CharonV/Generated/Eth2sd.lean). Also reports that VerifyEth2SignedData passes exactly
// data.DomainName(), the result of data.Epoch, the result of data.MessageRoot and data.Signature()
// to signing.Verify.
package main

import (
	"bytes"
	"flag"
	"fmt"
	"go/ast"
	"go/printer"
	"go/token"
	"go/types"
	"os"
	"sort"
	"strings"

	"golang.org/x/tools/go/packages"
)

func fail(f string, a ...any) {
	fmt.Fprintf(os.Stderr, "trans-eth2sd: "+f+"\n", a...)
	os.Exit(1)
}

func str(fset *token.FileSet, n ast.Node) string {
	var b bytes.Buffer
	_ = printer.Fprint(&b, fset, n)
	return strings.Join(strings.Fields(b.String()), " ")
}

// show prints an expression built by subst (nodes without positions) in one canonical form.
func show(fset *token.FileSet, e ast.Expr) string {
	switch x := e.(type) {
	case *ast.Ident:
		return x.Name
	case *ast.BasicLit:
		return x.Value
	case *ast.ParenExpr:
		return "(" + show(fset, x.X) + ")"
	case *ast.SelectorExpr:
		return show(fset, x.X) + "." + x.Sel.Name
	case *ast.StarExpr:
		return "*" + show(fset, x.X)
	case *ast.UnaryExpr:
		return x.Op.String() + show(fset, x.X)
	case *ast.BinaryExpr:
		return show(fset, x.X) + " " + x.Op.String() + " " + show(fset, x.Y)
	case *ast.IndexExpr:
		return show(fset, x.X) + "[" + show(fset, x.Index) + "]"
	case *ast.CallExpr:
		var as []string
		for _, a := range x.Args {
			as = append(as, show(fset, a))
		}
		return show(fset, x.Fun) + "(" + strings.Join(as, ", ") + ")"
	}
	return str(fset, e)
}

func unparen(e ast.Expr) ast.Expr {
	for {
		p, ok := e.(*ast.ParenExpr)
		if !ok {
			return e
		}
		e = p.X
	}
}

// onlyTrailingReturn returns the last statement of fd when it is the ONLY return statement of the
// body and everything before it is a plain local definition (`x := e`, `var x = e`); nil otherwise.
func onlyTrailingReturn(fd *ast.FuncDecl) *ast.ReturnStmt {
	l := fd.Body.List
	ret, ok := l[len(l)-1].(*ast.ReturnStmt)
	if !ok {
		return nil
	}
	for _, st := range l[:len(l)-1] {
		switch x := st.(type) {
		case *ast.AssignStmt:
			if x.Tok != token.DEFINE {
				return nil
			}
		case *ast.DeclStmt:
		default:
			return nil
		}
	}
	n := 0
	ast.Inspect(fd.Body, func(x ast.Node) bool {
		if _, ok := x.(*ast.ReturnStmt); ok {
			n++
		}
		return true
	})
	if n != 1 {
		return nil
	}
	return ret
}

// locals is the def-use summary of one function: for every variable declared inside the body the
// expression it is defined by (idx >= 0: the idx-th result of a multi-valued call), and the set of
// variables (locals, parameters, receiver) that are written more than once, assigned through,
// incremented or address-taken (`&x`) - those are never followed. (A call of a pointer-receiver
// method on an addressable variable is not counted as a write: the printed chain names the call.)
type locals struct {
	info *types.Info
	fd   *ast.FuncDecl
	def  map[types.Object]ast.Expr
	idx  map[types.Object]int
	bad  map[types.Object]bool
}

func rootIdent(e ast.Expr) *ast.Ident {
	for {
		switch x := e.(type) {
		case *ast.Ident:
			return x
		case *ast.SelectorExpr:
			e = x.X
		case *ast.IndexExpr:
			e = x.X
		case *ast.SliceExpr:
			e = x.X
		case *ast.StarExpr:
			e = x.X
		case *ast.ParenExpr:
			e = x.X
		default:
			return nil
		}
	}
}

func analyse(info *types.Info, fd *ast.FuncDecl) *locals {
	l := &locals{info, fd, map[types.Object]ast.Expr{}, map[types.Object]int{}, map[types.Object]bool{}}
	markRoot := func(e ast.Expr) {
		if id := rootIdent(e); id != nil {
			if o := info.Uses[id]; o != nil {
				l.bad[o] = true
			}
			if o := info.Defs[id]; o != nil {
				l.bad[o] = true
			}
		}
	}
	define := func(lhs []ast.Expr, rhs []ast.Expr) {
		for i, e := range lhs {
			id, ok := e.(*ast.Ident)
			if !ok {
				markRoot(e)
				continue
			}
			o := info.Defs[id]
			if o == nil { // `:=` re-using an existing variable: a second write
				if u := info.Uses[id]; u != nil {
					l.bad[u] = true
				}
				continue
			}
			switch {
			case len(rhs) == len(lhs):
				l.def[o], l.idx[o] = rhs[i], -1
			case len(rhs) == 1:
				l.def[o], l.idx[o] = rhs[0], i
			}
		}
	}
	ast.Inspect(fd.Body, func(n ast.Node) bool {
		switch x := n.(type) {
		case *ast.AssignStmt:
			if x.Tok == token.DEFINE {
				define(x.Lhs, x.Rhs)
			} else {
				for _, e := range x.Lhs {
					markRoot(e)
				}
			}
		case *ast.ValueSpec:
			for i, id := range x.Names {
				o := info.Defs[id]
				if o == nil {
					continue
				}
				switch {
				case len(x.Values) == len(x.Names):
					l.def[o], l.idx[o] = x.Values[i], -1
				case len(x.Values) == 1:
					l.def[o], l.idx[o] = x.Values[0], i
				}
			}
		case *ast.IncDecStmt:
			markRoot(x.X)
		case *ast.UnaryExpr:
			if x.Op == token.AND {
				markRoot(x.X)
			}
		case *ast.RangeStmt:
			if x.Tok == token.ASSIGN {
				if x.Key != nil {
					markRoot(x.Key)
				}
				if x.Value != nil {
					markRoot(x.Value)
				}
			}
		}
		return true
	})
	return l
}

func (l *locals) inFunc(o types.Object) bool {
	_, isVar := o.(*types.Var)
	return isVar && o.Pos() >= l.fd.Pos() && o.Pos() < l.fd.End()
}

// subst returns e with every single-assignment local replaced (recursively) by its defining
// expression; the first result of a multi-valued call stands for the call. The second result is a
// non-empty reason when some variable of e cannot be followed (fail closed).
func (l *locals) subst(e ast.Expr) (ast.Expr, string) {
	why := ""
	var rec func(e ast.Expr, depth int) ast.Expr
	rec = func(e ast.Expr, depth int) ast.Expr {
		if depth > 20 {
			why = "definition chain too deep"
			return e
		}
		switch x := e.(type) {
		case nil:
			return nil
		case *ast.Ident:
			o := l.info.Uses[x]
			if o == nil || !l.inFunc(o) {
				return x
			}
			if l.bad[o] {
				why = "variable `" + x.Name + "` is written more than once or address-taken"
				return x
			}
			d, isLocal := l.def[o]
			if !isLocal { // parameter, receiver, range variable, `var x T`
				if o.Pos() >= l.fd.Body.Pos() {
					why = "local `" + x.Name + "` has no single defining expression"
				}
				return x
			}
			if l.idx[o] > 0 {
				why = "local `" + x.Name + "` is a secondary result of a call"
				return x
			}
			return rec(d, depth+1)
		case *ast.BasicLit:
			return x
		case *ast.ParenExpr:
			return &ast.ParenExpr{X: rec(x.X, depth)}
		case *ast.SelectorExpr:
			return &ast.SelectorExpr{X: rec(x.X, depth), Sel: x.Sel}
		case *ast.StarExpr:
			return &ast.StarExpr{X: rec(x.X, depth)}
		case *ast.UnaryExpr:
			return &ast.UnaryExpr{Op: x.Op, X: rec(x.X, depth)}
		case *ast.BinaryExpr:
			return &ast.BinaryExpr{X: rec(x.X, depth), Op: x.Op, Y: rec(x.Y, depth)}
		case *ast.IndexExpr:
			return &ast.IndexExpr{X: rec(x.X, depth), Index: rec(x.Index, depth)}
		case *ast.CallExpr:
			c := &ast.CallExpr{Fun: rec(x.Fun, depth)}
			for _, a := range x.Args {
				c.Args = append(c.Args, rec(a, depth))
			}
			if x.Ellipsis.IsValid() {
				c.Ellipsis = 1
			}
			return c
		}
		// any other expression form: accepted only when it mentions no variable of this function
		ast.Inspect(e, func(n ast.Node) bool {
			if id, ok := n.(*ast.Ident); ok {
				if o := l.info.Uses[id]; o != nil && l.inFunc(o) {
					why = "expression form around `" + id.Name + "` not followed"
				}
			}
			return true
		})
		return e
	}
	r := rec(e, 0)
	return r, why
}

func main() {
	repo := flag.String("repo", "/repo", "repository root")
	out := flag.String("out", "", "output .lean file")
	flag.Parse()
	if *out == "" {
		fail("-out required")
	}
	cfg := &packages.Config{Dir: *repo, Env: append(os.Environ(), "GOFLAGS=-mod=mod", "GOPROXY=off"),
		Mode: packages.NeedName | packages.NeedFiles | packages.NeedCompiledGoFiles | packages.NeedImports | packages.NeedTypes |
			packages.NeedTypesSizes | packages.NeedSyntax | packages.NeedTypesInfo}
	pkgs, err := packages.Load(cfg, "./core")
	if err != nil || len(pkgs) != 1 {
		fail("load: %v", err)
	}
	pk := pkgs[0]
	if len(pk.Errors) > 0 {
		fail("package core: %v", pk.Errors[0])
	}
	info, fset := pk.TypesInfo, pk.Fset
	ifaceObj := pk.Types.Scope().Lookup("Eth2SignedData")
	if ifaceObj == nil {
		fail("core.Eth2SignedData not found")
	}
	iface, ok := ifaceObj.Type().Underlying().(*types.Interface)
	if !ok {
		fail("core.Eth2SignedData is not an interface")
	}
	// method declarations by (receiver type name, method name)
	decls := map[string]*ast.FuncDecl{}
	for _, f := range pk.Syntax {
		if strings.HasSuffix(fset.Position(f.Pos()).Filename, "_test.go") {
			continue
		}
		for _, d := range f.Decls {
			fd, ok := d.(*ast.FuncDecl)
			if !ok || fd.Recv == nil || len(fd.Recv.List) != 1 || fd.Body == nil {
				continue
			}
			t := fd.Recv.List[0].Type
			if st, ok := t.(*ast.StarExpr); ok {
				t = st.X
			}
			if id, ok := t.(*ast.Ident); ok {
				decls[id.Name+"."+fd.Name.Name] = fd
			}
		}
	}
	type rowT struct{ typ, domain, epoch string }
	var rows []rowT
	names := pk.Types.Scope().Names()
	sort.Strings(names)
	for _, n := range names {
		tn, ok := pk.Types.Scope().Lookup(n).(*types.TypeName)
		if !ok || tn.IsAlias() {
			continue
		}
		if _, isIface := tn.Type().Underlying().(*types.Interface); isIface {
			continue
		}
		if !types.Implements(tn.Type(), iface) && !types.Implements(types.NewPointer(tn.Type()), iface) {
			continue
		}
		// DomainName: local definitions followed by the only return; the returned expression, with
		// single-assignment locals replaced by their definitions, is a constant of package signing.
		dn := decls[n+".DomainName"]
		if dn == nil || len(dn.Body.List) == 0 {
			fail("%s.DomainName: body not understood", n)
		}
		dl := analyse(info, dn)
		ret := onlyTrailingReturn(dn)
		if ret == nil || len(ret.Results) != 1 {
			fail("%s.DomainName: body not understood", n)
		}
		de, bad := dl.subst(ret.Results[0])
		if bad != "" {
			fail("%s.DomainName: %s", n, bad)
		}
		var cid *ast.Ident
		switch x := unparen(de).(type) {
		case *ast.SelectorExpr:
			cid = x.Sel
		case *ast.Ident:
			cid = x
		default:
			fail("%s.DomainName: returns %s", n, show(fset, de))
		}
		c, ok := info.Uses[cid].(*types.Const)
		if !ok || c.Pkg() == nil || c.Pkg().Name() != "signing" {
			fail("%s.DomainName: %s is not a constant of package signing", n, show(fset, de))
		}
		domain := strings.Trim(c.Val().ExactString(), `"`)
		// Epoch: classify the last return (single-assignment locals replaced by their definitions,
		// the result printed relative to the receiver; no identifier NAME is looked at).
		ep := decls[n+".Epoch"]
		if ep == nil || len(ep.Body.List) == 0 {
			fail("%s.Epoch: not found", n)
		}
		last, ok := ep.Body.List[len(ep.Body.List)-1].(*ast.ReturnStmt)
		if !ok || len(last.Results) == 0 {
			fail("%s.Epoch: last statement is not a return", n)
		}
		el := analyse(info, ep)
		var recv types.Object
		if len(ep.Recv.List[0].Names) == 1 {
			recv = info.Defs[ep.Recv.List[0].Names[0]]
		}
		// relRecv prints a selector / call chain rooted at the receiver without the receiver.
		relRecv := func(e ast.Expr) string {
			root := e
			for {
				switch x := root.(type) {
				case *ast.SelectorExpr:
					root = x.X
					continue
				case *ast.CallExpr:
					if len(x.Args) == 0 {
						root = x.Fun
						continue
					}
				case *ast.ParenExpr:
					root = x.X
					continue
				}
				break
			}
			id, ok := root.(*ast.Ident)
			if !ok || recv == nil || info.Uses[id] != recv {
				fail("%s.Epoch: %s is not read from the receiver", n, show(fset, e))
			}
			s := show(fset, e)
			if !strings.HasPrefix(s, id.Name+".") {
				fail("%s.Epoch: %s is not a field / method chain of the receiver", n, s)
			}
			return s[len(id.Name)+1:]
		}
		re, bad := el.subst(last.Results[0])
		if bad != "" {
			fail("%s.Epoch: return %s: %s", n, str(fset, last.Results[0]), bad)
		}
		kind := ""
		switch e := unparen(re).(type) {
		case *ast.CallExpr:
			if s, ok := e.Fun.(*ast.SelectorExpr); ok && len(e.Args) == 3 {
				if f, ok := info.Uses[s.Sel].(*types.Func); ok && f.Name() == "EpochFromSlot" && f.Pkg() != nil && f.Pkg().Name() == "eth2util" {
					kind = "slot:" + relRecv(e.Args[2])
				}
			}
		case *ast.SelectorExpr:
			kind = "field:" + relRecv(e)
		case *ast.BasicLit:
			if e.Value == "0" {
				kind = "zero"
			}
		}
		if kind == "" {
			fail("%s.Epoch: return %s not understood", n, show(fset, re))
		}
		rows = append(rows, rowT{n, domain, kind})
	}
	if len(rows) == 0 {
		fail("no implementation of Eth2SignedData found")
	}
	// VerifyEth2SignedData shape
	shape := false
	for _, f := range pk.Syntax {
		for _, d := range f.Decls {
			fd, ok := d.(*ast.FuncDecl)
			if !ok || fd.Name.Name != "VerifyEth2SignedData" || fd.Recv != nil || fd.Body == nil {
				continue
			}
			var ps []*ast.Ident
			for _, p := range fd.Type.Params.List {
				ps = append(ps, p.Names...)
			}
			if len(ps) != 4 {
				fail("VerifyEth2SignedData: parameters not understood")
			}
			data, pub := info.Defs[ps[2]], info.Defs[ps[3]]
			vl := analyse(info, fd)
			isDataCall := func(e ast.Expr, m string) bool {
				c, ok := unparen(e).(*ast.CallExpr)
				if !ok {
					return false
				}
				s, ok := c.Fun.(*ast.SelectorExpr)
				if !ok || s.Sel.Name != m {
					return false
				}
				id, ok := unparen(s.X).(*ast.Ident)
				return ok && info.Uses[id] == data && !vl.bad[data]
			}
			if len(fd.Body.List) == 0 {
				continue
			}
			last, ok := fd.Body.List[len(fd.Body.List)-1].(*ast.ReturnStmt)
			if !ok || len(last.Results) != 1 {
				continue
			}
			c, ok := last.Results[0].(*ast.CallExpr)
			if !ok || len(c.Args) != 7 {
				continue
			}
			s, ok := c.Fun.(*ast.SelectorExpr)
			if !ok {
				continue
			}
			if f, ok := info.Uses[s.Sel].(*types.Func); !ok || f.Name() != "Verify" || f.Pkg() == nil || f.Pkg().Name() != "signing" {
				continue
			}
			// every argument with its single-assignment locals replaced by their definitions
			var a [7]ast.Expr
			okArgs := true
			for i := 2; i < 7; i++ {
				e, bad := vl.subst(c.Args[i])
				if bad != "" {
					fmt.Println("VerifyEth2SignedData: argument", i, "not followed:", bad)
					okArgs = false
					break
				}
				a[i] = e
			}
			if !okArgs {
				continue
			}
			sigOK := false
			if sc, ok := unparen(a[5]).(*ast.CallExpr); ok && len(sc.Args) == 0 { // data.Signature().ToETH2()
				if ss, ok := sc.Fun.(*ast.SelectorExpr); ok && ss.Sel.Name == "ToETH2" {
					sigOK = isDataCall(ss.X, "Signature")
				}
			}
			pubOK := false
			if id, ok := unparen(a[6]).(*ast.Ident); ok {
				pubOK = info.Uses[id] == pub && !vl.bad[pub]
			}
			shape = isDataCall(a[2], "DomainName") && isDataCall(a[3], "Epoch") && isDataCall(a[4], "MessageRoot") && sigOK && pubOK
		}
	}
	var b strings.Builder
	b.WriteString("-- GENERATED by harness/cmd/trans-eth2sd (translator T-eth2sd) from package core. Do not edit.\n")
	b.WriteString("namespace CharonV.Generated.Eth2sd\n\n")
	b.WriteString("/-- (implementation of core.Eth2SignedData, value of its DomainName, source of its Epoch) -/\n")
	b.WriteString("def rows : List (String × String × String) := [")
	for i, r := range rows {
		if i > 0 {
			b.WriteString(",")
		}
		fmt.Fprintf(&b, "\n  (%q, %q, %q)", r.typ, r.domain, r.epoch)
	}
	b.WriteString("]\n\n/-- VerifyEth2SignedData hands the object's own DomainName, Epoch, MessageRoot and Signature and the given key to signing.Verify -/\n")
	fmt.Fprintf(&b, "def verifyPassesOwnFields : Bool := %v\n\nend CharonV.Generated.Eth2sd\n", shape)
	old, _ := os.ReadFile(*out)
	if string(old) != b.String() {
		if err := os.WriteFile(*out, []byte(b.String()), 0o644); err != nil {
			fail("write: %v", err)
		}
	}
	for _, r := range rows {
		fmt.Printf("%-40s %-40s %s\n", r.typ, r.domain, r.epoch)
	}
	fmt.Println("VerifyEth2SignedData passes own fields:", shape)
}
