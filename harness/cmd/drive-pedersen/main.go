// drive-pedersen: correspondence driver for the Pedersen variant of C11 (dkg/pedersen/dkg.go,
// board.go, reshare.go, proto.go).
//
// Runs the REAL pedersen.RunDKG (and a pure pedersen.RunReshareDKG) for n nodes in one process:
// real Board, real bcast.Component, real p2p.Send / p2p.RegisterHandler, kyber's Pedersen DKG — over
// libp2p's in-memory mock network (no sockets), with per-link latencies and node start delays drawn
// from the schedule seed so that bundles arrive in varying orders. No hook is needed: every entry
// point used is exported. The dealt shares are encrypted to longterm keys that live in local
// variables of RunDKG, so the per-dealer structure is not observable; the Lean model
// (lean/Driver/Frost.lean over Model/Fr.lean) checks the *outputs*: the n secret shares lie on one
// polynomial of degree < t, recomputes the group secret and every subset recovery bit-for-bit and
// predicts the group-level outcomes; for a reshare: degree < t', the SAME group secret.
//
// ops:
//
//	ped <n> <t> <vals> <sched>     run a ceremony (reset op)                    -> ok | err
//	pval <v> <j:sk,..>             secret shares all nodes hold for validator v  -> x=<RecoverSecret(all)> pk=<SecretToPublicKey(x)==group key>
//	rec <v> <ids>                  -> <RecoverSecret(ids)> rpk=<RecoverPubkey(pubshares ids)==group key>
//	sig <v> <ids> <msg>            -> agg=<ThresholdAggregate(partials)==Sign(x,msg)> ver=<Verify(group key)>
//	reshare <t2> <sched>           pure reshare of all validators to threshold t2 -> ok | err
//	rval <v> <j:sk,..>             shares after the reshare -> x=<..> pk=<..> same=<group key unchanged> fresh=<every share changed>
package main

import (
	"context"
	"encoding/hex"
	"fmt"
	"sort"
	"strconv"
	"strings"
	"sync"
	"time"

	k1 "github.com/decred/dcrd/dcrec/secp256k1/v4"
	libp2pcrypto "github.com/libp2p/go-libp2p/core/crypto"
	"github.com/libp2p/go-libp2p/core/host"
	"github.com/libp2p/go-libp2p/core/peer"
	mocknet "github.com/libp2p/go-libp2p/p2p/net/mock"
	ma "github.com/multiformats/go-multiaddr"

	"github.com/obolnetwork/charon/app/log"
	"github.com/obolnetwork/charon/cluster"
	"github.com/obolnetwork/charon/dkg/bcast"
	"github.com/obolnetwork/charon/dkg/pedersen"
	"github.com/obolnetwork/charon/dkg/share"
	"github.com/obolnetwork/charon/tbls"

	"verifharness/hx"
)

type ceremony struct {
	n, t, nv int
	keys     []*k1.PrivateKey
	shares   [][]share.Share // [node][validator]
	errs     []error
	ok       bool
	x        map[int]tbls.PrivateKey
	prev     [][]share.Share // shares before the last reshare
}

// network builds n in-memory hosts with the given identities, fully connected, with latencies.
func network(keys []*k1.PrivateKey, rng *hx.Rng) (mocknet.Mocknet, []host.Host) {
	mn := mocknet.New()
	var hosts []host.Host
	for i, k := range keys {
		priv := libp2pcrypto.PrivKey((*libp2pcrypto.Secp256k1PrivateKey)(k))
		addr, err := ma.NewMultiaddr(fmt.Sprintf("/ip4/10.0.0.%d/tcp/%d", i+1, 3610))
		hx.Must(err)
		h, err := mn.AddPeer(priv, addr)
		hx.Must(err)
		hosts = append(hosts, h)
	}
	hx.Must(mn.LinkAll())
	for i := range hosts {
		for j := i + 1; j < len(hosts); j++ {
			for _, l := range mn.LinksBetweenPeers(hosts[i].ID(), hosts[j].ID()) {
				l.SetOptions(mocknet.LinkOptions{Latency: time.Duration(rng.Intn(12)) * time.Millisecond})
			}
		}
	}
	hx.Must(mn.ConnectAllButSelf())
	return mn, hosts
}

// run executes one protocol instance with kyber's phase time-out growing over up to three attempts:
// completion within a given wall-clock time is not part of the property (a loaded machine must not
// turn into an alarm); only a ceremony that fails with every time-out is reported.
func (c *ceremony) run(sched uint64, threshold int, reshare *pedersen.ReshareConfig, old [][]share.Share) ([][]share.Share, []error) {
	var out [][]share.Share
	var errs []error
	for _, phase := range []time.Duration{2 * time.Second, 8 * time.Second, 25 * time.Second} {
		out, errs = c.runOnce(sched, threshold, reshare, old, phase)
		ok := true
		for _, e := range errs {
			if e != nil {
				ok = false
			}
		}
		if ok {
			break
		}
	}
	return out, errs
}

func (c *ceremony) runOnce(sched uint64, threshold int, reshare *pedersen.ReshareConfig, old [][]share.Share, phase time.Duration) ([][]share.Share, []error) {
	rng := hx.NewRng(sched)
	mn, hosts := network(c.keys, rng)
	defer mn.Close()
	ctx, cancel := context.WithTimeout(context.Background(), 45*phase)
	defer cancel()

	var peers []peer.ID
	peerMap := map[peer.ID]cluster.NodeIdx{}
	for i, h := range hosts {
		peers = append(peers, h.ID())
		peerMap[h.ID()] = cluster.NodeIdx{PeerIdx: i, ShareIdx: i + 1}
	}
	session := make([]byte, 32)
	for i := range session {
		session[i] = byte(rng.U64())
	}
	boards := make([]*pedersen.Board, c.n)
	configs := make([]*pedersen.Config, c.n)
	for i, h := range hosts {
		bc := bcast.New(h, peers, c.keys[i], session)
		configs[i] = pedersen.NewConfig(h.ID(), peerMap, threshold, session, phase, reshare)
		boards[i] = pedersen.NewBoard(ctx, h, configs[i], bc)
	}
	out := make([][]share.Share, c.n)
	errs := make([]error, c.n)
	delays := make([]time.Duration, c.n)
	for i := range delays {
		delays[i] = time.Duration(rng.Intn(40)) * time.Millisecond
	}
	var wg sync.WaitGroup
	for i := 0; i < c.n; i++ {
		wg.Add(1)
		go func() {
			defer wg.Done()
			defer func() {
				if p := recover(); p != nil {
					errs[i] = fmt.Errorf("panic: %v", p)
					cancel()
				}
			}()
			time.Sleep(delays[i])
			var err error
			if reshare == nil {
				out[i], err = pedersen.RunDKG(ctx, configs[i], boards[i], c.nv)
			} else {
				var exp []tbls.PublicKey
				mine := make([]share.Share, len(old[i]))
				for v, s := range old[i] {
					exp = append(exp, s.PubKey)
					mine[v] = share.Share{PubKey: s.PubKey, SecretShare: s.SecretShare}
				}
				out[i], err = pedersen.RunReshareDKG(ctx, configs[i], boards[i], mine, exp)
			}
			errs[i] = err
			if err != nil {
				cancel()
			}
		}()
	}
	wg.Wait()
	return out, errs
}

func errsStr(errs []error) string {
	var s []string
	for i, e := range errs {
		if e != nil {
			s = append(s, fmt.Sprintf("node %d: %v", i+1, e))
		}
	}
	return strings.Join(s, "; ")
}

// monitors on a set of resulting shares (independent of the model).
func (c *ceremony) monitors(run *hx.Run, sh [][]share.Share, what string) {
	keys := map[tbls.PublicKey]bool{}
	for v := 0; v < c.nv; v++ {
		ref := sh[0][v]
		keys[ref.PubKey] = true
		var ids []int
		for id := range ref.PublicShares {
			ids = append(ids, id)
		}
		sort.Ints(ids)
		okIDs := len(ids) == c.n
		for i, id := range ids {
			if id != i+1 {
				okIDs = false
			}
		}
		if !okIDs {
			run.Violate("pedersen:pubshare_ids_not_1_to_n", fmt.Sprintf("%s validator %d: PublicShares keys %v, n=%d", what, v, ids, c.n))
		}
		for j := 0; j < c.n; j++ {
			s := sh[j][v]
			if s.PubKey != ref.PubKey {
				run.Violate("pedersen:group_key_disagreement", fmt.Sprintf("%s validator %d: node %d holds group key %x, node 1 holds %x", what, v, j+1, s.PubKey[:6], ref.PubKey[:6]))
			}
			same := len(s.PublicShares) == len(ref.PublicShares)
			for id, pk := range ref.PublicShares {
				if s.PublicShares[id] != pk {
					same = false
				}
			}
			if !same {
				run.Violate("pedersen:pubshares_disagreement", fmt.Sprintf("%s validator %d: node %d and node 1 hold different public shares", what, v, j+1))
			}
			pk, err := tbls.SecretToPublicKey(s.SecretShare)
			if err != nil || pk != ref.PublicShares[j+1] {
				run.Violate("pedersen:secret_share_pubshare_mismatch", fmt.Sprintf("%s validator %d: node %d's secret share does not match PublicShares[%d]", what, v, j+1, j+1))
			}
		}
	}
	if len(keys) != c.nv {
		run.Violate("pedersen:validators_share_key", fmt.Sprintf("%s: %d validators, %d distinct group keys", what, c.nv, len(keys)))
	}
}

func hexOf(b []byte) string {
	if len(b) == 0 {
		return "-"
	}
	return hex.EncodeToString(b)
}

func unhex(s string) []byte {
	if s == "-" {
		return nil
	}
	b, err := hex.DecodeString(s)
	hx.Must(err)
	return b
}

func b01(b bool) string {
	if b {
		return "1"
	}
	return "0"
}

func parseIDs(s string) []int {
	var out []int
	for _, f := range strings.Split(s, ",") {
		v, err := strconv.Atoi(f)
		hx.Must(err)
		out = append(out, v)
	}
	return out
}

func idsStr(ids []int) string {
	p := make([]string, len(ids))
	for i, v := range ids {
		p[i] = strconv.Itoa(v)
	}
	return strings.Join(p, ",")
}

// valLine renders the secret shares of validator v and recovers the group secret from all of them.
func (c *ceremony) valLine(run *hx.Run, v int) (string, string, bool) {
	var sks []string
	all := map[int]tbls.PrivateKey{}
	for j := 0; j < c.n; j++ {
		sk := c.shares[j][v].SecretShare
		sks = append(sks, fmt.Sprintf("%d:%x", j+1, sk[:]))
		all[j+1] = sk
	}
	x, err := tbls.RecoverSecret(all, uint(c.n), uint(c.t))
	if err != nil {
		run.Violate("pedersen:recover_error", fmt.Sprintf("validator %d: %v", v, err))
		return strings.Join(sks, ","), "err", false
	}
	c.x[v] = x
	pk, err := tbls.SecretToPublicKey(x)
	okPK := err == nil && pk == c.shares[0][v].PubKey
	if !okPK {
		run.Violate("pedersen:group_key_not_key_of_shared_secret", fmt.Sprintf("validator %d: the secret interpolated from all secret shares does not have the group public key", v))
	}
	return strings.Join(sks, ","), fmt.Sprintf("x=%x pk=%s", x[:], b01(okPK)), okPK
}

func main() {
	a := hx.ParseArgs()
	hx.Must(log.InitLogger(log.Config{Level: "fatal", Format: "console", Color: "disable"}))
	run := hx.NewRun(a.Dir)
	defer run.Close()
	var cer *ceremony

	exec := func(op string) {
		f := strings.Fields(op)
		if f[0] == "ped" {
			n, _ := strconv.Atoi(f[1])
			t, _ := strconv.Atoi(f[2])
			nv, _ := strconv.Atoi(f[3])
			sched, _ := strconv.ParseUint(f[4], 10, 64)
			cer = &ceremony{n: n, t: t, nv: nv, x: map[int]tbls.PrivateKey{}}
			for i := 0; i < n; i++ {
				k, err := k1.GeneratePrivateKey()
				hx.Must(err)
				cer.keys = append(cer.keys, k)
			}
			cer.shares, cer.errs = cer.run(sched, t, nil, nil)
			cer.ok = true
			for i, e := range cer.errs {
				if e != nil || len(cer.shares[i]) != nv {
					cer.ok = false
				}
			}
			run.Count("ped")
			if !cer.ok {
				if t >= 1 && t <= n {
					run.Violate("pedersen:ceremony_failed", fmt.Sprintf("n=%d t=%d vals=%d: %s", n, t, nv, errsStr(cer.errs)))
				}
				run.Count("ped:err")
				run.Op(op, "err")
				return
			}
			cer.monitors(run, cer.shares, "dkg")
			run.Case(fmt.Sprintf("ped:%d:%d:%d", n, t, nv))
			run.Op(op, "ok")
			return
		}
		if cer == nil || !cer.ok {
			panic("op without successful ceremony: " + op)
		}
		switch f[0] {
		case "pval":
			v, _ := strconv.Atoi(f[1])
			sks, out, _ := cer.valLine(run, v)
			run.Count("pval")
			run.Op(fmt.Sprintf("pval %d %s", v, sks), out)
		case "reshare":
			t2, _ := strconv.Atoi(f[1])
			sched, _ := strconv.ParseUint(f[2], 10, 64)
			rc := pedersen.NewReshareConfig(cer.nv, t2, nil, nil)
			newShares, errs := cer.run(sched, cer.t, rc, cer.shares)
			ok := true
			for i, e := range errs {
				if e != nil || len(newShares[i]) != cer.nv {
					ok = false
				}
			}
			run.Count("reshare")
			if !ok {
				if t2 >= 1 && t2 <= cer.n {
					run.Violate("pedersen:reshare_failed", fmt.Sprintf("n=%d t=%d->%d vals=%d: %s", cer.n, cer.t, t2, cer.nv, errsStr(errs)))
				}
				cer.ok = false
				run.Op(op, "err")
				return
			}
			cer.prev, cer.shares, cer.t = cer.shares, newShares, t2
			cer.monitors(run, cer.shares, "reshare")
			run.Case(fmt.Sprintf("reshare:%d:%d:%d", cer.n, len(cer.prev), t2))
			run.Op(op, "ok")
		case "rval":
			v, _ := strconv.Atoi(f[1])
			oldX, hadX := cer.x[v]
			sks, out, _ := cer.valLine(run, v)
			same := cer.prev != nil && cer.shares[0][v].PubKey == cer.prev[0][v].PubKey
			fresh := cer.prev != nil
			for j := 0; cer.prev != nil && j < cer.n; j++ {
				if cer.shares[j][v].SecretShare == cer.prev[j][v].SecretShare {
					fresh = false
				}
			}
			if !same {
				run.Violate("pedersen:reshare_changed_group_key", fmt.Sprintf("validator %d", v))
			}
			if hadX && cer.x[v] != oldX {
				run.Violate("pedersen:reshare_changed_group_secret", fmt.Sprintf("validator %d", v))
			}
			if !fresh {
				run.Violate("pedersen:reshare_share_not_refreshed", fmt.Sprintf("validator %d: some node kept its old secret share", v))
			}
			run.Count("rval")
			run.Op(fmt.Sprintf("rval %d %s", v, sks), fmt.Sprintf("%s same=%s fresh=%s", out, b01(same), b01(fresh)))
		case "rec":
			v, _ := strconv.Atoi(f[1])
			ids := parseIDs(f[2])
			ref := cer.shares[0][v]
			sub := map[int]tbls.PrivateKey{}
			pub := map[int]tbls.PublicKey{}
			for _, j := range ids {
				sub[j] = cer.shares[j-1][v].SecretShare
				pub[j] = cer.shares[j%cer.n][v].PublicShares[j] // as held by another node
			}
			rec, err := tbls.RecoverSecret(sub, uint(cer.n), uint(cer.t))
			if err != nil {
				run.Op(op, "err")
				return
			}
			rpk, err := tbls.RecoverPubkey(pub)
			okR := err == nil && rpk == ref.PubKey
			if len(sub) >= cer.t {
				if !okR {
					run.Violate("pedersen:pubshares_do_not_reconstruct_group_key", fmt.Sprintf("validator %d ids=%v", v, ids))
				}
				if x, ok := cer.x[v]; ok && rec != x {
					run.Violate("pedersen:subset_recovers_other_secret", fmt.Sprintf("validator %d ids=%v", v, ids))
				}
				run.Case(fmt.Sprintf("rec:%d:%d:%s", cer.n, cer.t, f[2]))
			} else {
				if x, ok := cer.x[v]; ok && (rec == x || okR) {
					run.Violate("pedersen:below_threshold_recovers", fmt.Sprintf("validator %d: %d < t=%d shares %v reconstruct the group key", v, len(sub), cer.t, ids))
				}
				run.Count("rec:below_threshold")
			}
			run.Count("rec")
			run.Op(op, fmt.Sprintf("%x rpk=%s", rec[:], b01(okR)))
		case "sig":
			v, _ := strconv.Atoi(f[1])
			ids := parseIDs(f[2])
			msg := unhex(f[3])
			ref := cer.shares[0][v]
			parts := map[int]tbls.Signature{}
			for _, j := range ids {
				s, err := tbls.Sign(cer.shares[j-1][v].SecretShare, msg)
				hx.Must(err)
				parts[j] = s
				if tbls.Verify(cer.shares[j%cer.n][v].PublicShares[j], msg, s) != nil {
					run.Violate("pedersen:partial_rejected_under_pubshare", fmt.Sprintf("validator %d node %d", v, j))
				}
			}
			sig, err := tbls.ThresholdAggregate(parts)
			if err != nil {
				run.Op(op, "err")
				return
			}
			ver := tbls.Verify(ref.PubKey, msg, sig) == nil
			agg := false
			if x, ok := cer.x[v]; ok {
				full, err := tbls.Sign(x, msg)
				agg = err == nil && full == sig
			}
			if len(parts) >= cer.t {
				if !ver {
					run.Violate("pedersen:threshold_signature_rejected", fmt.Sprintf("validator %d ids=%v: aggregate of partial signatures does not verify under the group key", v, ids))
				}
				run.Case(fmt.Sprintf("sig:%d:%d:%s", cer.n, cer.t, f[2]))
			} else {
				run.Count("sig:below_threshold")
			}
			run.Count("sig")
			run.Op(op, fmt.Sprintf("agg=%s ver=%s", b01(agg), b01(ver)))
		default:
			panic("bad op " + op)
		}
	}

	if a.Mode == "exec" {
		for _, op := range hx.ReadOps(a.Ops) {
			exec(op)
		}
		return
	}

	if a.Tier == "search" && a.N > 1200 {
		a.N = 1200 // the search for a failing input after a broken obligation must end within minutes
	}
	rng := hx.NewRng(a.Seed)
	type shape struct{ n, t int }
	var shapes []shape
	for n := 3; n <= 6; n++ {
		for t := 2; t <= n; t++ {
			shapes = append(shapes, shape{n, t})
		}
	}
	popcount := func(m int) int {
		c := 0
		for ; m != 0; m &= m - 1 {
			c++
		}
		return c
	}
	sweep := func(v, n, t int) {
		full := 1<<n - 1
		var masks []int
		for m := 1; m <= full; m++ {
			if popcount(m) >= t {
				masks = append(masks, m)
			}
		}
		if t >= 2 {
			m := 0
			for _, i := range rng.Perm(n)[:t-1] {
				m |= 1 << i
			}
			masks = append(masks, m)
		}
		msg := make([]byte, 1+rng.Intn(48))
		for i := range msg {
			msg[i] = byte(rng.U64())
		}
		for _, m := range masks {
			var ids []int
			for i := 0; i < n; i++ {
				if m&(1<<i) != 0 {
					ids = append(ids, i+1)
				}
			}
			exec(fmt.Sprintf("rec %d %s", v, idsStr(ids)))
			exec(fmt.Sprintf("sig %d %s %s", v, idsStr(ids), hexOf(msg)))
		}
	}
	for run.NOps < a.N && !run.Enough() {
		for _, si := range rng.Perm(len(shapes)) {
			if run.NOps >= a.N {
				break
			}
			n, t := shapes[si].n, shapes[si].t
			nv := 1 + rng.Intn(2)
			if rng.Chance(1, 30) { // threshold above the node count must be refused
				exec(fmt.Sprintf("ped %d %d %d %d", n, n+1, nv, rng.U64()%1000000))
				continue
			}
			exec(fmt.Sprintf("ped %d %d %d %d", n, t, nv, rng.U64()%1000000))
			if cer == nil || !cer.ok {
				continue
			}
			for v := 0; v < nv; v++ {
				exec(fmt.Sprintf("pval %d", v))
				sweep(v, n, t)
			}
			if rng.Chance(1, 2) { // pure reshare to a (possibly different) threshold
				t2 := 2 + rng.Intn(n-1)
				if rng.Chance(1, 2) {
					t2 = t
				}
				exec(fmt.Sprintf("reshare %d %d", t2, rng.U64()%1000000))
				if !cer.ok {
					continue
				}
				for v := 0; v < nv; v++ {
					exec(fmt.Sprintf("rval %d", v))
					sweep(v, n, t2)
				}
			}
		}
	}
}
