// server.go: the real validatorapi.Component (secure constructor) behind the real
// validatorapi.NewRouter, served over httptest (loopback), with recording subscribers and a panic
// catching middleware.
package main

import (
	"bytes"
	"context"
	"fmt"
	"io"
	stdlog "log"
	"net/http"
	"net/http/httptest"
	"runtime/debug"
	"strings"
	"time"

	eth2api "github.com/attestantio/go-eth2-client/api"
	eth2v1 "github.com/attestantio/go-eth2-client/api/v1"
	eth2p0 "github.com/attestantio/go-eth2-client/spec/phase0"

	"github.com/obolnetwork/charon/core"
	"github.com/obolnetwork/charon/core/validatorapi"

	"verifharness/hx"
)

// environment of one request: what the registered input functions answer, what the subscribers saw.
type vcEnv struct {
	att       []attDuty
	proposer  map[uint64]core.PubKey
	proposals map[uint64]*eth2api.VersionedProposal
	subCalls  int
	failAt    int
	calls     []obsCall
	proxied   int
}

var env *vcEnv

type server struct {
	comp      *validatorapi.Component
	ts        *httptest.Server
	handler   http.Handler
	lastPanic string
}

func (s *server) ServeHTTP(w http.ResponseWriter, r *http.Request) {
	defer func() {
		if p := recover(); p != nil {
			s.lastPanic = fmt.Sprintf("%v @ %s", p, firstRepoFrame(string(debug.Stack())))
			// what net/http does with a panicking handler: the connection is closed without a
			// response; ErrAbortHandler only suppresses the stack trace in the server log
			panic(http.ErrAbortHandler)
		}
	}()
	s.handler.ServeHTTP(w, r)
}

// firstRepoFrame: the innermost stack frame inside charon or go-eth2-client (for the description).
func firstRepoFrame(stack string) string {
	lines := strings.Split(stack, "\n")
	seenPanic := false
	for i, l := range lines {
		if strings.HasPrefix(l, "panic(") {
			seenPanic = true
			continue
		}
		if !seenPanic {
			continue
		}
		if (strings.Contains(l, "obolnetwork/charon") || strings.Contains(l, "go-eth2-client")) && !strings.HasPrefix(l, "\t") {
			fn := l
			if j := strings.LastIndex(fn, "("); j > 0 {
				fn = fn[:j]
			}
			if j := strings.LastIndex(fn, "/"); j >= 0 {
				fn = fn[j+1:]
			}
			loc := ""
			if i+1 < len(lines) {
				loc = strings.TrimSpace(lines[i+1])
				if j := strings.LastIndex(loc, "/"); j >= 0 {
					loc = loc[j+1:]
				}
				if j := strings.Index(loc, " "); j >= 0 {
					loc = loc[:j]
				}
			}
			return fn + " " + loc
		}
	}
	return "?"
}

func (e *episode) server(node, nsub int, builder bool) *server {
	key := fmt.Sprintf("%d/%d/%v", node, nsub, builder)
	if s, ok := e.servers[key]; ok {
		return s
	}
	mock := e.cl.mock
	mock.ProxyFunc = func(_ context.Context, _ *http.Request) (*http.Response, error) {
		env.proxied++
		return &http.Response{StatusCode: http.StatusTeapot, Header: http.Header{}, Body: io.NopCloser(bytes.NewReader([]byte("proxied")))}, nil
	}
	comp, err := validatorapi.NewComponent(mock, e.cl.pubshares, node, nil, builder, 30000000)
	hx.Must(err)
	comp.RegisterPubKeyByAttestation(func(_ context.Context, slot, commIdx, valIdx uint64) (core.PubKey, error) {
		for _, d := range env.att {
			if d.slot == slot && d.commIdx == commIdx && d.valIdx == valIdx {
				return d.pk, nil
			}
		}
		return "", fmt.Errorf("harness: no attester duty")
	})
	comp.RegisterGetDutyDefinition(func(_ context.Context, duty core.Duty) (core.DutyDefinitionSet, error) {
		res := core.DutyDefinitionSet{}
		switch duty.Type {
		case core.DutyAttester:
			for _, d := range env.att {
				if d.slot == duty.Slot {
					res[d.pk] = core.NewAttesterDefinition(&eth2v1.AttesterDuty{Slot: eth2p0.Slot(d.slot), ValidatorIndex: eth2p0.ValidatorIndex(d.valIdx),
						CommitteeIndex: eth2p0.CommitteeIndex(d.commIdx), CommitteeLength: d.commLen, CommitteesAtSlot: 8, ValidatorCommitteeIndex: d.vci})
				}
			}
		case core.DutyProposer:
			pk, ok := env.proposer[duty.Slot]
			if !ok {
				return nil, fmt.Errorf("harness: no proposer duty")
			}
			res[pk] = core.NewProposerDefinition(&eth2v1.ProposerDuty{Slot: eth2p0.Slot(duty.Slot)})
		}
		return res, nil
	})
	comp.RegisterAwaitProposal(func(_ context.Context, slot uint64) (*eth2api.VersionedProposal, error) {
		p, ok := env.proposals[slot]
		if !ok {
			return nil, fmt.Errorf("harness: no consensus proposal")
		}
		return p, nil
	})
	comp.RegisterAwaitAggSigDB(func(_ context.Context, duty core.Duty, _ core.PubKey, _ core.SubcommitteeIndex) (core.SignedData, error) {
		if duty.Type == core.DutyPrepareAggregator {
			return core.NewBeaconCommitteeSelection(&eth2v1.BeaconCommitteeSelection{Slot: eth2p0.Slot(duty.Slot)}), nil
		}
		return core.NewSyncCommitteeSelection(&eth2v1.SyncCommitteeSelection{Slot: eth2p0.Slot(duty.Slot)}), nil
	})
	for s := 0; s < nsub; s++ {
		s := s
		comp.Subscribe(func(_ context.Context, duty core.Duty, set core.ParSignedDataSet) error {
			env.calls = append(env.calls, obsCall{s, duty, set})
			k := env.subCalls
			env.subCalls++
			if env.failAt >= 0 && k == env.failAt {
				return errSubFail
			}
			return nil
		})
	}
	router, err := validatorapi.NewRouter(comp, builder)
	hx.Must(err)
	srv := &server{comp: comp, handler: router}
	ts := httptest.NewUnstartedServer(srv)
	ts.Config.ErrorLog = stdlog.New(io.Discard, "", 0)
	ts.Start()
	srv.ts = ts
	e.servers[key] = srv
	return srv
}

func (e *episode) close() {
	for _, s := range e.servers {
		s.ts.Close()
	}
}

var httpClient = &http.Client{Timeout: 90 * time.Second}

type httpOutcome struct {
	status  int    // 0: no response
	msg     string // "message" of the error body
	code    int    // "code" of the error body
	panicAt string
	netErr  string
	body    []byte
}
