// drive-router: correspondence driver for the HTTP router glue of the validator API (C10, and the
// totality clause of C14): core/validatorapi/router.go in front of validatorapi.Component.
//
// Serves the real validatorapi.NewRouter(handler, builderEnabled) with handler = the real Component
// (secure constructor, real t-of-n tbls keys, beacon mock with a seven-fork schedule) over httptest
// (loopback) and sends it real HTTP requests. Every op builds a valid request from the repo's own
// testutil generators and go-eth2-client's JSON / SSZ encoders, signs it with the share keys, applies
// the alterations named in the op (element fields, signature substitutions, body bytes, JSON tree,
// content type, Eth-Consensus-Version header, HTTP method) and submits it. The model
// (lean/Driver/Router.lean) gets an abstract view computed INDEPENDENTLY of router.go: the content
// type header as three flags, the literal version header, the outcome of the harness's own decoding
// of the body under (content type, header version) and, per decoded element, the admission view of
// drive-admit (epoch, message root, domain, facts from direct tbls.Verify calls).
//
// ops (everything before " | " is the recipe; exec mode reads only the recipe):
//
//	cfg ks=<id> n=<n> t=<t> m=<validators> | <lock>
//	rt <route> node=<idx> nsub=<k> fail=<k|-> seed=<u64> meth=<M> ct=<kind> hdr=<literal|-> enc=<json|ssz>
//	   balt=<bodyalt> items=<item;…> tmpl=<0|1|2> | <route> <meth> <ctflags> <hdr> <dec> <node> <nsub> <fail> <ord> <facts> <attenv> <items>
//	     item := <validator>/<version>/<epoch>/<slotoff>/<subcomm>/<alt>
//	pb node=<idx> nsub=<k> seed=<u64> val=<v> epoch=<e> slotoff=<o> q=<queryalt> alt=<alt> | …   (GET /eth/v3/validator/blocks/{slot})
//
// answer: <status[:message class]> <calls|->
//
//go:debug randseednop=0
package main

import (
	"bytes"
	"context"
	"crypto/sha256"
	"encoding/hex"
	"encoding/json"
	"fmt"
	"io"
	"math/rand"
	"net/http"
	"os"
	"reflect"
	"runtime/pprof"
	"sort"
	"strconv"
	"strings"

	"github.com/OffchainLabs/go-bitfield"
	eth2api "github.com/attestantio/go-eth2-client/api"
	eth2v1 "github.com/attestantio/go-eth2-client/api/v1"
	eth2spec "github.com/attestantio/go-eth2-client/spec"
	"github.com/attestantio/go-eth2-client/spec/altair"
	"github.com/attestantio/go-eth2-client/spec/electra"
	eth2p0 "github.com/attestantio/go-eth2-client/spec/phase0"

	"github.com/obolnetwork/charon/app/log"
	"github.com/obolnetwork/charon/core"
	"github.com/obolnetwork/charon/tbls"
	"github.com/obolnetwork/charon/testutil"

	"verifharness/hx"
)

// =============================================================================================
// routes: the harness's own table, written from the beacon API (which endpoints carry the
// Eth-Consensus-Version header, which accept SSZ) and the endpoint list of NewRouter

type route struct {
	name     string
	method   string
	path     string
	kind     int
	goMethod string
	needsVer bool
	ssz      bool
	batch    bool
	mode     string // deliver | 404 | ignore
	minVer   int
}

var routes = []*route{
	{"submit_attestations", "POST", "/eth/v1/beacon/pool/attestations", kAtt, "", false, false, true, "404", 0},
	{"submit_attestations_v2", "POST", "/eth/v2/beacon/pool/attestations", kAtt, "SubmitAttestations", true, false, true, "deliver", 0},
	{"submit_proposal_v1", "POST", "/eth/v1/beacon/blocks", kProp, "SubmitProposal", true, true, false, "deliver", 0},
	{"submit_proposal_v2", "POST", "/eth/v2/beacon/blocks", kProp, "SubmitProposal", true, true, false, "deliver", 0},
	{"submit_blinded_block_v1", "POST", "/eth/v1/beacon/blinded_blocks", kBProp, "SubmitBlindedProposal", true, true, false, "deliver", 2},
	{"submit_blinded_block_v2", "POST", "/eth/v2/beacon/blinded_blocks", kBProp, "SubmitBlindedProposal", true, true, false, "deliver", 2},
	{"submit_validator_registration", "POST", "/eth/v1/validator/register_validator", kReg, "", false, true, true, "ignore", 0},
	{"submit_voluntary_exit", "POST", "/eth/v1/beacon/pool/voluntary_exits", kExit, "SubmitVoluntaryExit", false, false, false, "deliver", 0},
	{"aggregate_beacon_committee_selections", "POST", "/eth/v1/validator/beacon_committee_selections", kBcSel, "BeaconCommitteeSelections", false, false, true, "deliver", 0},
	{"submit_aggregate_and_proofs", "POST", "/eth/v1/validator/aggregate_and_proofs", kAgg, "", false, false, true, "404", 0},
	{"submit_aggregate_and_proofs_v2", "POST", "/eth/v2/validator/aggregate_and_proofs", kAgg, "SubmitAggregateAttestations", true, false, true, "deliver", 0},
	{"submit_sync_committee_messages", "POST", "/eth/v1/beacon/pool/sync_committees", kSyncMsg, "SubmitSyncCommitteeMessages", false, false, true, "deliver", 0},
	{"submit_contribution_and_proofs", "POST", "/eth/v1/validator/contribution_and_proofs", kContrib, "SubmitSyncCommitteeContributions", false, false, true, "deliver", 0},
	{"aggregate_sync_committee_selections", "POST", "/eth/v1/validator/sync_committee_selections", kSyncSel, "SyncCommitteeSelections", false, false, true, "deliver", 0},
}

func routeByName(n string) *route {
	for _, r := range routes {
		if r.name == n {
			return r
		}
	}
	panic("unknown route " + n)
}

var versionNames = []string{"phase0", "altair", "bellatrix", "capella", "deneb", "electra", "fulu"}

func asciiLower(s string) string {
	b := []byte(s)
	for i, c := range b {
		if c >= 'A' && c <= 'Z' {
			b[i] = c + 32
		}
	}
	return string(b)
}

// parseVersionHeader: the fork a header value names (beacon API: the lower-case fork name; read
// case-insensitively), -1 if none.
func parseVersionHeader(h string) int {
	l := asciiLower(h)
	for i, n := range versionNames {
		if l == n {
			return i
		}
	}
	return -1
}

var ctStrings = map[string]string{
	"json": "application/json", "none": "", "jsoncs": "application/json; charset=utf-8", "ssz": "application/octet-stream",
	"text": "text/plain", "both": "application/octet-stream, application/json", "upper": "Application/JSON",
	"form": "application/x-www-form-urlencoded", "sszq": "application/octet-stream;q=0.9", "xjson": "application/x-json",
	"star": "*/*", "pjson": "text/application/json+x",
}

var ctKinds = []string{"json", "none", "jsoncs", "ssz", "text", "both", "upper", "form", "sszq", "xjson", "star", "pjson"}

// effective content type per the harness's reading: empty or JSON named -> json; else octet-stream -> ssz
func effectiveCT(h string) string {
	switch {
	case h == "" || strings.Contains(h, "application/json"):
		return "json"
	case strings.Contains(h, "application/octet-stream"):
		return "ssz"
	}
	return "bad"
}

// =============================================================================================
// op

type itemSpec struct {
	val     int // cluster position; -1: active on the beacon node but not in the lock; -2: nobody
	ver     int // absolute consensus version 0..6
	epoch   uint64
	slotOff uint64
	subcomm uint64
	alt     alt
}

func (it itemSpec) String() string {
	return fmt.Sprintf("%d/%d/%d/%d/%d/%s", it.val, it.ver, it.epoch, it.slotOff, it.subcomm, it.alt)
}

func parseItemSpec(s string) itemSpec {
	p := strings.Split(s, "/")
	if len(p) != 6 {
		panic("bad item spec " + s)
	}
	var it itemSpec
	it.val, _ = strconv.Atoi(p[0])
	it.ver, _ = strconv.Atoi(p[1])
	it.epoch, _ = strconv.ParseUint(p[2], 10, 64)
	it.slotOff, _ = strconv.ParseUint(p[3], 10, 64)
	it.subcomm, _ = strconv.ParseUint(p[4], 10, 64)
	it.alt = parseAlt(p[5])
	return it
}

type rtOp struct {
	route string
	node  int
	nsub  int
	fail  int
	seed  uint64
	meth  string
	ct    string
	hdr   string // literal header value; "-": no header; "two:<a>:<b>": two header lines
	enc   string
	balt  alt3
	items []itemSpec
	tmpl  int // 0: every element has its own random content; 1: all elements are built from ONE template (same
	// attestation data / aggregate / block root / contribution, same committee), each for its own validator and
	// validly signed; 2: the same, every validator in its own committee
}

func (o rtOp) recipe() string {
	var is []string
	for _, it := range o.items {
		is = append(is, it.String())
	}
	f := "-"
	if o.fail >= 0 {
		f = strconv.Itoa(o.fail)
	}
	return fmt.Sprintf("rt %s node=%d nsub=%d fail=%s seed=%d meth=%s ct=%s hdr=%s enc=%s balt=%s items=%s tmpl=%d", o.route, o.node, o.nsub, f, o.seed,
		o.meth, o.ct, o.hdr, o.enc, o.balt, dashIfEmpty(strings.Join(is, ";")), o.tmpl)
}

func kv(tok, key string) string {
	if !strings.HasPrefix(tok, key+"=") {
		panic("expected " + key + "= in " + tok)
	}
	return strings.TrimPrefix(tok, key+"=")
}

func parseRtOp(f []string) rtOp {
	if len(f) != 12 && len(f) != 13 {
		panic("bad rt op")
	}
	o := rtOp{route: f[1], fail: -1}
	o.node, _ = strconv.Atoi(kv(f[2], "node"))
	o.nsub, _ = strconv.Atoi(kv(f[3], "nsub"))
	if x := kv(f[4], "fail"); x != "-" {
		o.fail, _ = strconv.Atoi(x)
	}
	o.seed, _ = strconv.ParseUint(kv(f[5], "seed"), 10, 64)
	o.meth = kv(f[6], "meth")
	o.ct = kv(f[7], "ct")
	o.hdr = kv(f[8], "hdr")
	o.enc = kv(f[9], "enc")
	o.balt = parseAlt3(kv(f[10], "balt"))
	if x := kv(f[11], "items"); x != "-" {
		for _, s := range strings.Split(x, ";") {
			o.items = append(o.items, parseItemSpec(s))
		}
	}
	if len(f) == 13 {
		o.tmpl, _ = strconv.Atoi(kv(f[12], "tmpl"))
	}
	return o
}

func hasInnerGate(m string) bool {
	return m == "SubmitAggregateAttestations" || m == "SubmitSyncCommitteeContributions"
}

// =============================================================================================
// the harness's own view of one decoded element

var uncloneable int

// verifyMemo: a direct tbls.Verify call, remembered (the same triple is judged for the model's facts
// and again for every subscriber that received the partial).
var verifyMemoTab = map[[32]byte]bool{}

func verifyMemo(key tbls.PublicKey, sr [32]byte, sig [96]byte) bool {
	h := sha256.New()
	h.Write(key[:])
	h.Write(sr[:])
	h.Write(sig[:])
	var k [32]byte
	copy(k[:], h.Sum(nil))
	if r, ok := verifyMemoTab[k]; ok {
		return r
	}
	if len(verifyMemoTab) > 20000 {
		verifyMemoTab = map[[32]byte]bool{}
	}
	r := tbls.Verify(key, sr[:], tbls.Signature(sig)) == nil
	verifyMemoTab[k] = r
	return r
}

type itemInfo struct {
	abs      string
	valid    bool
	gateMiss bool
	valPk    *core.PubKey
	slot     uint64
	subcomm  uint64
	coreJSON []byte
	v        view
	broken   bool // the harness could not even read the element (nil inner pointers)
}

func (e *episode) itemOf(rt *route, s *sample, node int, facts map[string]bool) (info itemInfo) {
	defer func() {
		if p := recover(); p != nil {
			info = itemInfo{abs: "P", broken: true}
		}
	}()
	cl := e.cl
	kind := s.kind
	v := s.view()
	pre := true
	gate := true
	var valPk *core.PubKey
	single := false
	var ci, ai uint64
	par, cerr := s.toCore(node)
	if cerr != nil {
		pre = false
	} else if c, err := par.Clone(); err != nil {
		// what a subscriber gets is a clone made through core's own JSON codec (Component.Subscribe);
		// an object that does not survive it is never delivered
		pre = false
		uncloneable++
	} else {
		par = c // the clone is the normal form (nil and empty lists coincide)
	}
	switch kind {
	case kAtt:
		va := s.obj.(*eth2spec.VersionedAttestation)
		single = va.Version >= eth2spec.DataVersionElectra
		if single {
			// read back from the versioned object what the wire element said
			a := va.Electra
			if va.Version == eth2spec.DataVersionFulu {
				a = va.Fulu
			}
			ci = 64 // no bit set: the wire committee index was out of range
			if idx := a.CommitteeBits.BitIndices(); len(idx) > 0 {
				ci = uint64(idx[0])
			}
			ai = uint64(*va.ValidatorIndex)
		}
		d, _, ok := p0AttOf(va)
		if !ok || d == nil {
			pre = false
			break
		}
		commIdx, err := va.CommitteeIndex()
		if err != nil {
			if !single {
				pre = false
			}
			break
		}
		var valIdx uint64
		if single {
			valIdx = ai
		} else {
			bits, err := va.AggregationBits()
			if err != nil {
				pre = false
				break
			}
			for _, du := range env.att {
				if du.slot != uint64(d.Slot) || du.commIdx != uint64(d.Index) {
					continue
				}
				idxs := bits.BitIndices()
				if len(idxs) != 1 {
					pre = false
					break
				}
				if du.vci == uint64(idxs[0]) {
					valIdx = du.valIdx
					break
				}
			}
		}
		for _, du := range env.att {
			if du.slot == uint64(d.Slot) && du.commIdx == uint64(commIdx) && du.valIdx == valIdx {
				pk := du.pk
				valPk = &pk
				break
			}
		}
	case kProp, kBProp:
		if v.root == nil {
			pre = false
			break
		}
		if _, err := asProposal(s).Slot(); err != nil {
			pre = false
			break
		}
		if pk, ok := env.proposer[v.slot]; ok {
			if _, ok2 := env.proposals[v.slot]; ok2 {
				valPk = &pk
			}
		}
		if valPk != nil {
			want, ok1 := propIDOfSigned(asProposal(s))
			got, ok2 := propIDOfUnsigned(env.proposals[v.slot])
			gate = ok1 && ok2 && want == got
		}
	default:
		if kind == kAgg {
			if _, _, _, _, _, ok := aggParts(s.obj.(*eth2spec.VersionedSignedAggregateAndProof)); !ok {
				pre = false
				break
			}
		}
		if v.valIdx != nil {
			if pub, ok := cl.active[eth2p0.ValidatorIndex(*v.valIdx)]; ok {
				pk, err := core.PubKeyFromBytes(pub[:])
				hx.Must(err)
				valPk = &pk
				if hasInnerGate(rt.goMethod) {
					gate = innerOK(s, tbls.PublicKey(pub))
				}
			}
		}
	}
	id := 0
	if cerr == nil {
		id = e.objID(par.SignedData)
		info.coreJSON, _ = json.Marshal(par.SignedData)
	}
	verified := false
	if valPk != nil {
		if key, ok := cl.pubshares[*valPk][node]; ok && v.dom >= 0 && v.epoch != nil && v.root != nil && v.sig != ([96]byte{}) {
			sr := signingRoot(v.dom, *v.epoch, *v.root)
			if verifyMemo(key, sr, v.sig) {
				verified = true
				facts[fmt.Sprintf("%d.%d.%d.%d.%d", e.keyIDs[key], v.dom, *v.epoch, e.rootID(*v.root), e.sigID(v.sig))] = true
			}
		}
	}
	valStr := "-"
	if valPk != nil {
		valStr = strconv.Itoa(e.valID(*valPk))
	}
	effPre := pre
	if single && ci >= 64 {
		effPre = false
	}
	info.valid = effPre && valPk != nil && gate && verified
	info.gateMiss = !gate
	info.valPk, info.slot, info.subcomm, info.v = valPk, v.slot, v.subcomm, v
	if single {
		info.abs = fmt.Sprintf("S,%s,%d,%d,%d,%s", b01(pre), ci, ai, v.slot, e.objStr(id, v))
	} else {
		info.abs = fmt.Sprintf("%s,%s,%s,%d,%d,%s", b01(pre), valStr, b01(gate), v.slot, v.subcomm, e.objStr(id, v))
	}
	return info
}

// =============================================================================================
// executing one request

func classifyMsg(status int, msg string) string {
	if status/100 == 2 {
		return strconv.Itoa(status)
	}
	c := "other"
	switch {
	case msg == "empty request body":
		c = "empty"
	case msg == "failed parsing json request body":
		c = "json"
	case msg == "failed parsing ssz request body":
		c = "ssz"
	case msg == "internal type doesn't support ssz unmarshalling":
		c = "nossz"
	case msg == "Internal server error":
		c = "ise"
	case msg == "NotFound":
		c = "nf"
	case msg == "Cannot read the supplied content type.":
		c = "enc"
	case strings.HasPrefix(msg, "unsupported media type"):
		c = "media"
	case strings.HasPrefix(msg, "missing "), strings.HasPrefix(msg, "invalid "):
		c = "param"
	}
	return fmt.Sprintf("%d:%s", status, c)
}

func (s *server) do(meth, url string, hdr http.Header, body []byte) httpOutcome {
	s.lastPanic = ""
	req, err := http.NewRequestWithContext(context.Background(), meth, url, bytes.NewReader(body))
	hx.Must(err)
	for k, vs := range hdr {
		for _, v := range vs {
			req.Header.Add(k, v)
		}
	}
	resp, err := httpClient.Do(req)
	if err != nil {
		if s.lastPanic != "" {
			return httpOutcome{panicAt: s.lastPanic}
		}
		return httpOutcome{netErr: err.Error()}
	}
	defer resp.Body.Close()
	b, _ := io.ReadAll(resp.Body)
	out := httpOutcome{status: resp.StatusCode, body: b}
	if resp.StatusCode/100 != 2 {
		var er struct {
			Code    int    `json:"code"`
			Message string `json:"message"`
		}
		if json.Unmarshal(b, &er) == nil {
			out.msg, out.code = er.Message, er.Code
		}
	}
	if s.lastPanic != "" { // a panic after the response was written
		out.panicAt = s.lastPanic
	}
	return out
}

func (e *episode) execRt(run *hx.Run, o rtOp) {
	cl := e.cl
	rt := routeByName(o.route)
	kind := rt.kind
	rand.Seed(int64(o.seed))
	r := hx.NewRng(o.seed)
	env = &vcEnv{proposer: map[uint64]core.PubKey{}, proposals: map[uint64]*eth2api.VersionedProposal{}, failAt: o.fail}
	run.Begin(o.recipe())

	// 1. build and sign the elements, fix the environment from the honest objects, alter fields of the wire objects
	var wires []any
	var tmplKeys [][32]byte
	var tmplSample *sample
	for i, it := range o.items {
		ba := buildArgs{valIdx: cl.valIdxOf(it.val), ver: it.ver % 7, blinded: kind == kBProp, epoch: it.epoch, slotOff: it.slotOff % spe,
			subcomm: it.subcomm, commIdx: uint64(1 + ((it.val + 8) % 8)), vci: uint64((it.val + 8) % 8), commLen: 8, vcDoor: true}
		if kind == kBProp && ba.ver < 2 {
			ba.ver = 2
		}
		if o.tmpl > 0 {
			// one template for the whole request: every element is a deep copy of the first one in which
			// only what names the validator is set anew (then signed by that validator's share)
			ba.epoch, ba.slotOff, ba.subcomm, ba.ver = o.items[0].epoch, o.items[0].slotOff%spe, o.items[0].subcomm, o.items[0].ver%7
			if o.tmpl == 1 {
				ba.commIdx = uint64(1 + ((o.items[0].val + 8) % 8))
			}
		}
		var s *sample
		if o.tmpl > 0 && i > 0 {
			s = retarget(tmplSample, ba)
		} else {
			s = buildSample(kind, ba)
			tmplSample = &sample{s.kind, deepCopy(reflect.ValueOf(s.obj)).Interface()} // pristine copy: later alterations of element 0 stay in element 0
		}
		inner := "ok"
		if strings.HasPrefix(it.alt.kind, "inner") {
			inner = it.alt.kind
		}
		setInnerProof(cl, s, it.val, inner)
		signSample(cl, s, it.val, o.node, it.alt, r)
		hv := s.view()
		if pk, ok := cl.corePkOf(it.val); ok {
			switch kind {
			case kAtt:
				env.att = append(env.att, attDuty{hv.slot, ba.commIdx, ba.valIdx, ba.vci, ba.commLen, pk})
			case kProp, kBProp:
				env.proposer[hv.slot] = pk
			}
		}
		if kind == kProp || kind == kBProp {
			cons := unsignedOf(deepCopyJSON(asProposal(s)))
			if it.alt.kind == "gatemiss" {
				other := buildSample(kind, ba)
				cons = unsignedOf(asProposal(other))
			}
			env.proposals[hv.slot] = cons
		}
		w := wireOf(s)
		tmplKeys = append(tmplKeys, templateKey(w))
		if it.alt.kind == "field" {
			ls := leavesOf(w)
			if len(ls) > 0 {
				l := ls[int(it.alt.a)%len(ls)]
				mutate(l, it.alt.b)
				run.Case(fmt.Sprintf("rt/%s/v%d/field%s", rt.name, ba.ver, l.path))
			}
		}
		wires = append(wires, w)
	}

	if o.tmpl > 0 && len(tmplKeys) > 1 {
		same := true
		for _, k := range tmplKeys[1:] {
			same = same && k == tmplKeys[0]
		}
		if !same && !(o.tmpl == 2 && kind == kAtt && o.items[0].ver%7 <= 4) { // own committees: pre-electra data carries the index
			panic("harness: the elements of a shared-template request do not share the template: " + o.recipe())
		}
		run.Count("rt:template-subobject-shared")
	}

	// 2. encode, alter the body
	enc := o.enc
	body, err := encodeBody(rt.batch, enc, wires)
	if err != nil {
		// an element has no encoding (a bit list broken by a field alteration, …): nothing a client could send
		body, _ = encodeBody(rt.batch, "json", nil)
		if !rt.batch {
			body = []byte("{}")
		}
		run.Count("rt:unencodable-replaced")
	}
	_ = enc
	body, hit := alterBody(body, o.balt)
	if hit != "" {
		run.Case(fmt.Sprintf("rt/%s/%s%s", rt.name, o.balt.kind, hit))
	}

	// 3. headers
	hdr := http.Header{}
	ctStr, okct := ctStrings[o.ct]
	if !okct {
		panic("unknown ct " + o.ct)
	}
	if ctStr != "" {
		hdr.Set("Content-Type", ctStr)
	}
	first := ""
	switch {
	case o.hdr == "-":
	case strings.HasPrefix(o.hdr, "two:"):
		p := strings.Split(o.hdr, ":")
		hdr.Add("Eth-Consensus-Version", p[1])
		hdr.Add("Eth-Consensus-Version", p[2])
		first = p[1]
	default:
		hdr.Set("Eth-Consensus-Version", o.hdr)
		first = o.hdr
	}

	// 4. the harness's own reading of the request
	methOK := o.meth == rt.method
	ctEff := effectiveCT(ctStr)
	ctOK := ctEff == "json" || (ctEff == "ssz" && rt.ssz)
	hver := -1
	hdrOK := true
	if rt.needsVer {
		hver = parseVersionHeader(first)
		hdrOK = hver >= rt.minVer
	}
	facts := map[string]bool{}
	var infos []itemInfo
	decStr := "-"
	decOKb := false
	if methOK && ctOK && hdrOK && rt.mode == "deliver" {
		ws, outcome := decodeWire(kind, hver, ctEff, body)
		vs := "x"
		if hver >= 0 {
			vs = strconv.Itoa(hver)
		}
		if outcome == decOK {
			var samples []*sample
			for _, w := range ws {
				if w == nil {
					samples = append(samples, nil)
					continue
				}
				s := sampleOfWire(kind, max(hver, 0), w)
				if s == nil {
					outcome = decFail
					break
				}
				samples = append(samples, s)
			}
			if outcome == decOK {
				decOKb = true
				for _, s := range samples {
					if s == nil {
						infos = append(infos, itemInfo{abs: "N", broken: true})
						decOKb = false
						continue
					}
					infos = append(infos, e.itemOf(rt, s, o.node, facts))
				}
			}
		}
		decStr = fmt.Sprintf("%s:%s:%s", ctEff, vs, outcome)
	}
	allValid := decOKb
	anyGateMiss := false
	var absItems []string
	// harness self-check: for an unaltered body the independently decoded elements are, field for
	// field, the objects that were encoded (so "delivered = decoded" below also means "delivered = sent")
	if o.balt.kind == "none" && decOKb && len(infos) == len(wires) {
		for i, w := range wires {
			func() {
				defer func() { _ = recover() }()
				s := sampleOfWire(kind, max(hver, 0), w)
				if s == nil {
					return
				}
				par, err := s.toCore(o.node)
				if err != nil {
					return
				}
				if c, err := par.Clone(); err == nil {
					par = c
				}
				b, _ := json.Marshal(par.SignedData)
				if infos[i].coreJSON != nil && !bytes.Equal(b, infos[i].coreJSON) {
					run.Count("rt:decoded-differs-from-encoded")
					run.Violate("router:harness_codec_roundtrip", fmt.Sprintf("rt %s: element %d decoded by the harness differs from the object it encoded (enc=%s hdr=%s)", rt.name, i, o.enc, o.hdr))
				}
			}()
		}
	}
	anyNil, anyOpaque := false, false
	for _, in := range infos {
		allValid = allValid && in.valid
		anyGateMiss = anyGateMiss || in.gateMiss
		absItems = append(absItems, in.abs)
		anyNil = anyNil || in.abs == "N"
		anyOpaque = anyOpaque || in.abs == "P"
	}
	if anyOpaque {
		decOKb = false // an element the harness cannot inspect is not a well-formed element
		allValid = false
	}

	// 5. the real request
	srv := e.server(o.node, o.nsub, false)
	out := srv.do(o.meth, srv.ts.URL+rt.path, hdr, body)
	calls := env.calls
	status := classifyMsg(out.status, out.msg)
	switch {
	case out.panicAt != "":
		status = "panic"
		run.Count("rt:panic")
	case out.netErr != "":
		status = "neterr"
	case env.proxied > 0:
		status = "proxied"
	}

	// 6. monitors (independent of the model)
	where := "rt " + rt.name
	if out.panicAt != "" {
		pattern := ""
		switch {
		case anyNil:
			pattern = ":null_list_element"
		case anyOpaque:
			pattern = ":null_inside_element"
		}
		// net/http recovers a handler panic and closes the connection: nothing is delivered, no state changes, the process
		// survives. Neither C10 nor C14 ("data arriving from a peer ... crash the process") is violated by it; it is counted as
		// an observation (candidate hardening fixes/C14-router-null-element.diff). The model says where the code as it is panics
		// (Route.nilPanics): a panic anywhere else is a difference between model and implementation.
		_ = where
		run.Count("observed:handler_panic_recovered:" + rt.name + pattern)
	}
	if out.netErr != "" {
		run.Violate("router:timeout_no_response", fmt.Sprintf("%s: no HTTP response: %s", where, out.netErr))
	}
	if out.status != 0 && out.status/100 != 2 && out.code != 0 && out.code != out.status {
		run.Violate("router:error_body_code_mismatch", fmt.Sprintf("%s: status %d but error body says %d", where, out.status, out.code))
	}
	e.monitorDelivered(run, calls, o.node, infos, where)
	mustReject := !(methOK && ctOK && hdrOK && decOKb) || rt.mode != "deliver"
	if len(calls) > 0 {
		switch {
		case mustReject:
			run.Violate("router:malformed_request_delivered", fmt.Sprintf("%s: subscriber called for a request that must be refused (method ok %v, content type ok %v, version header ok %v, body decodes %v, mode %s)", where, methOK, ctOK, hdrOK, decOKb, rt.mode))
		case !allValid && anyGateMiss:
			run.Violate("router:gate_skipped", fmt.Sprintf("%s: subscriber called although the proposal / inner selection proof gate should have rejected", where))
		case !allValid:
			run.Violate("router:partial_batch_delivered", fmt.Sprintf("%s: subscriber called although an element of the request is not valid", where))
		}
		if out.status/100 != 2 && o.fail < 0 {
			run.Violate("router:delivered_but_error_status", fmt.Sprintf("%s: subscriber called but the response is %s", where, status))
		}
	}
	if !mustReject && allValid && len(infos) > 0 {
		if out.status/100 != 2 && o.fail < 0 && out.panicAt == "" {
			run.Violate("router:valid_rejected", fmt.Sprintf("%s: fully valid request (ct=%s hdr=%s enc=%s balt=%s) answered %s", where, o.ct, o.hdr, o.enc, o.balt, status))
		}
		if out.status/100 == 2 && len(calls) == 0 && o.nsub > 0 {
			run.Violate("router:status_2xx_but_nothing_delivered", fmt.Sprintf("%s: fully valid request answered %s but no subscriber was called", where, status))
		}
		// every valid element must be in a delivered set of every subscriber
		if out.status/100 == 2 && len(calls) > 0 {
			for i, in := range infos {
				found := 0
				for _, c := range calls {
					if p, ok := c.set[*in.valPk]; ok && c.duty.Slot == in.slot {
						if b, _ := json.Marshal(p.SignedData); bytes.Equal(b, in.coreJSON) {
							found++
						}
					}
				}
				if found < o.nsub && !e.shadowed(infos, i) {
					run.Violate("router:valid_element_dropped", fmt.Sprintf("%s: element %d of a fully valid request reached %d of %d subscribers", where, i, found, o.nsub))
				}
			}
		}
	}
	if mustReject && out.status/100 == 2 && rt.mode == "deliver" && methOK {
		run.Violate("router:malformed_request_accepted", fmt.Sprintf("%s: a request that must be refused (content type ok %v, version header ok %v, body decodes %v) answered %s", where, ctOK, hdrOK, decOKb, status))
	}
	for _, c := range calls {
		if c.duty.Type != vcDutyType[rt.goMethod] {
			run.Violate("router:wrong_duty_type", fmt.Sprintf("%s: subscriber got duty %v", where, c.duty))
		}
	}

	// 7. record
	var hint []string
	seen := map[string]bool{}
	for _, c := range calls {
		sc := uint64(0)
		for _, p := range c.set {
			sc = subcommOfPayload(p)
		}
		k := fmt.Sprintf("%d.%d", c.duty.Slot, sc)
		if !seen[k] {
			seen[k] = true
			hint = append(hint, k)
		}
	}
	var attenv []string
	for _, d := range env.att {
		attenv = append(attenv, fmt.Sprintf("%d.%d.%d.%d", d.slot, d.commIdx, d.valIdx, e.valID(d.pk)))
	}
	f := "-"
	if o.fail >= 0 {
		f = strconv.Itoa(o.fail)
	}
	hdrTok := first
	if hdrTok == "" {
		hdrTok = "-"
	}
	ctFlags := b01(ctStr == "") + b01(strings.Contains(ctStr, "application/json")) + b01(strings.Contains(ctStr, "application/octet-stream"))
	abs := fmt.Sprintf("%s %s %s %s %s %d %d %s %s %s %s %s", rt.name, o.meth, ctFlags, hdrTok, decStr, o.node, o.nsub, f,
		dashIfEmpty(strings.Join(hint, ",")), dashIfEmpty(sortedKeys(facts)), dashIfEmpty(strings.Join(attenv, ",")), dashIfEmpty(strings.Join(absItems, ";")))
	run.Count("rt:" + rt.name)
	run.Count("status:" + status)
	run.Count("balt:" + o.balt.kind)
	run.Case(fmt.Sprintf("rt/%s/ct=%s/hdr=%s/enc=%s/%s/%s", rt.name, o.ct, o.hdr, o.enc, o.balt.kind, status))
	if anyOpaque {
		// the model does not say what the libraries do with an element the harness itself cannot read
		// (the monitors above still judged the real answer)
		run.Op(o.recipe()+" | "+abs, "unmodelled -")
		return
	}
	run.Op(o.recipe()+" | "+abs, status+" "+e.renderCalls(calls))
}

// deepCopy clones a value built from pointers, structs, slices, arrays and scalars.
func deepCopy(v reflect.Value) reflect.Value {
	switch v.Kind() {
	case reflect.Ptr:
		if v.IsNil() {
			return v
		}
		n := reflect.New(v.Type().Elem())
		n.Elem().Set(deepCopy(v.Elem()))
		return n
	case reflect.Struct:
		n := reflect.New(v.Type()).Elem()
		n.Set(v)
		for i := 0; i < v.NumField(); i++ {
			if v.Type().Field(i).IsExported() {
				n.Field(i).Set(deepCopy(v.Field(i)))
			}
		}
		return n
	case reflect.Slice:
		if v.IsNil() {
			return v
		}
		n := reflect.MakeSlice(v.Type(), v.Len(), v.Len())
		for i := 0; i < v.Len(); i++ {
			n.Index(i).Set(deepCopy(v.Index(i)))
		}
		return n
	case reflect.Array:
		n := reflect.New(v.Type()).Elem()
		for i := 0; i < v.Len(); i++ {
			n.Index(i).Set(deepCopy(v.Index(i)))
		}
		return n
	}
	return v
}

// retarget: a deep copy of the template sample that names another validator (signatures are set afterwards).
func retarget(t *sample, a buildArgs) *sample {
	obj := deepCopy(reflect.ValueOf(t.obj)).Interface()
	vidx := eth2p0.ValidatorIndex(a.valIdx)
	switch x := obj.(type) {
	case *eth2spec.VersionedAttestation:
		if x.Version >= eth2spec.DataVersionElectra {
			att := x.Electra
			if x.Version == eth2spec.DataVersionFulu {
				att = x.Fulu
			}
			vi := vidx
			x.ValidatorIndex = &vi
			cb := bitfield.NewBitvector64()
			cb.SetBitAt(a.commIdx, true)
			att.CommitteeBits = cb
			att.AggregationBits = oneBit(a.commLen, a.vci)
		} else {
			for _, att := range []*eth2p0.Attestation{x.Phase0, x.Altair, x.Bellatrix, x.Capella, x.Deneb} {
				if att != nil {
					att.AggregationBits = oneBit(a.commLen, a.vci)
					att.Data.Index = eth2p0.CommitteeIndex(a.commIdx)
				}
			}
		}
	case *eth2spec.VersionedSignedAggregateAndProof:
		for _, ag := range []*eth2p0.SignedAggregateAndProof{x.Phase0, x.Altair, x.Bellatrix, x.Capella, x.Deneb} {
			if ag != nil {
				ag.Message.AggregatorIndex = vidx
			}
		}
		for _, ag := range []*electra.SignedAggregateAndProof{x.Electra, x.Fulu} {
			if ag != nil {
				ag.Message.AggregatorIndex = vidx
			}
		}
	case *altair.SyncCommitteeMessage:
		x.ValidatorIndex = vidx
	case *altair.SignedContributionAndProof:
		x.Message.AggregatorIndex = vidx
	case *eth2v1.BeaconCommitteeSelection:
		x.ValidatorIndex = vidx
	case *eth2v1.SyncCommitteeSelection:
		x.ValidatorIndex = vidx
	default:
		panic("retarget: unsupported kind")
	}
	return &sample{t.kind, obj}
}

// templateKey: hash tree root of the sub-object the elements of a shared-template request have in common.
func templateKey(w any) [32]byte {
	var h htr
	switch x := w.(type) {
	case *eth2p0.Attestation:
		h = x.Data
	case *electra.SingleAttestation:
		h = x.Data
	case *eth2p0.SignedAggregateAndProof:
		h = x.Message.Aggregate
	case *electra.SignedAggregateAndProof:
		h = x.Message.Aggregate
	case *altair.SyncCommitteeMessage:
		return x.BeaconBlockRoot
	case *altair.SignedContributionAndProof:
		h = x.Message.Contribution
	case *eth2v1.BeaconCommitteeSelection:
		return u64Root(uint64(x.Slot))
	case *eth2v1.SyncCommitteeSelection:
		return u64Root(uint64(x.Slot)<<8 | x.SubcommitteeIndex)
	default:
		return [32]byte{}
	}
	r, err := h.HashTreeRoot()
	hx.Must(err)
	return r
}

// shadowed: a later element of the same validator and slot group replaces element i in the set.
func (e *episode) shadowed(infos []itemInfo, i int) bool {
	for j := i + 1; j < len(infos); j++ {
		if infos[j].valPk != nil && infos[i].valPk != nil && *infos[j].valPk == *infos[i].valPk && infos[j].slot == infos[i].slot && infos[j].subcomm == infos[i].subcomm {
			return true
		}
	}
	return false
}

var vcDutyType = map[string]core.DutyType{"SubmitAttestations": core.DutyAttester, "Proposal": core.DutyRandao,
	"SubmitProposal": core.DutyProposer, "SubmitBlindedProposal": core.DutyProposer, "SubmitVoluntaryExit": core.DutyExit,
	"BeaconCommitteeSelections": core.DutyPrepareAggregator, "SubmitAggregateAttestations": core.DutyAggregator,
	"SubmitSyncCommitteeMessages": core.DutySyncMessage, "SubmitSyncCommitteeContributions": core.DutySyncContribution,
	"SyncCommitteeSelections": core.DutyPrepareSyncContribution}

// monitorDelivered judges every delivered partial with the harness's own eyes: it verifies under the
// lock's share for the validator and share index it is filed under, it is filed under this node's
// share index, and it is — field for field (JSON of the core type) and by message root — one of the
// elements the harness decoded from the request body, filed under the validator that element names.
func (e *episode) monitorDelivered(run *hx.Run, calls []obsCall, node int, infos []itemInfo, where string) {
	for _, c := range calls {
		for pk, par := range c.set {
			s := sampleOfCore(par.SignedData)
			if s == nil {
				run.Violate("router:invalid_partial_reached_subscriber", where+": payload of unknown type delivered")
				continue
			}
			v := s.view()
			if par.ShareIdx != node {
				run.Violate("router:wrong_validator_or_share", fmt.Sprintf("%s: partial filed under share index %d by node %d", where, par.ShareIdx, node))
			}
			shares, known := e.cl.pubshares[pk]
			key, okShare := shares[par.ShareIdx]
			valid := false
			if known && okShare && v.dom >= 0 && v.epoch != nil && v.root != nil && v.sig != ([96]byte{}) {
				sr := signingRoot(v.dom, *v.epoch, *v.root)
				valid = verifyMemo(key, sr, v.sig)
			}
			if !valid {
				if e.factsFor(v, map[string]bool{}) != nil {
					run.Violate("router:wrong_validator_or_share", fmt.Sprintf("%s: %s partial filed under validator %d share %d verifies under another key of the cluster", where, kindNames[s.kind], e.valID(pk), par.ShareIdx))
				} else {
					run.Violate("router:invalid_partial_reached_subscriber", fmt.Sprintf("%s: %s partial for validator %d share %d does not verify", where, kindNames[s.kind], e.valID(pk), par.ShareIdx))
				}
			}
			got, _ := json.Marshal(par.SignedData)
			same, samePk := false, false
			for _, in := range infos {
				if in.coreJSON == nil || !bytes.Equal(in.coreJSON, got) {
					continue
				}
				if in.v.root != nil && v.root != nil && *in.v.root != *v.root {
					continue
				}
				same = true
				if in.valPk != nil && *in.valPk == pk && in.slot == c.duty.Slot {
					samePk = true
				}
			}
			named, namedValid := false, false
			for _, in := range infos {
				if in.valPk != nil && *in.valPk == pk && in.slot == c.duty.Slot {
					named = true
					namedValid = namedValid || in.valid
				}
			}
			if named && !namedValid {
				// C10 on its own terms: admitted only if it verifies for the SUBMITTED object's own root
				run.Violate("router:invalid_partial_reached_subscriber", fmt.Sprintf("%s: a %s partial was delivered for validator %d although no element of the request body that names this validator verifies for its own content (content substituted on the way?)", where, kindNames[s.kind], e.valID(pk)))
			}
			switch {
			case !same:
				if os.Getenv("RT_DEBUG") != "" {
					fmt.Fprintf(os.Stderr, "GOT  %s\n", got)
					for _, in := range infos {
						fmt.Fprintf(os.Stderr, "WANT %s\n", in.coreJSON)
					}
				}
				run.Violate("router:delivered_content_differs_from_body", fmt.Sprintf("%s: the %s handed to the subscriber for validator %d is none of the elements of the request body", where, kindNames[s.kind], e.valID(pk)))
			case !samePk:
				run.Violate("router:wrong_validator_or_share", fmt.Sprintf("%s: a body element was delivered under validator %d / slot %d which it does not name", where, e.valID(pk), c.duty.Slot))
			}
		}
	}
}

// =============================================================================================
// GET /eth/v3/validator/blocks/{slot}: the randao reveal is a partial signature too

type pbOp struct {
	node, nsub int
	seed       uint64
	val        int
	epoch      uint64
	slotOff    uint64
	q          string // none | missing | short | long | nohex | noprefix | twice | badslot | negslot | bigslot
	alt        alt
}

func (o pbOp) recipe() string {
	return fmt.Sprintf("pb node=%d nsub=%d seed=%d val=%d epoch=%d slotoff=%d q=%s alt=%s", o.node, o.nsub, o.seed, o.val, o.epoch, o.slotOff, o.q, o.alt)
}

func parsePbOp(f []string) pbOp {
	if len(f) != 9 {
		panic("bad pb op")
	}
	var o pbOp
	o.node, _ = strconv.Atoi(kv(f[1], "node"))
	o.nsub, _ = strconv.Atoi(kv(f[2], "nsub"))
	o.seed, _ = strconv.ParseUint(kv(f[3], "seed"), 10, 64)
	o.val, _ = strconv.Atoi(kv(f[4], "val"))
	o.epoch, _ = strconv.ParseUint(kv(f[5], "epoch"), 10, 64)
	o.slotOff, _ = strconv.ParseUint(kv(f[6], "slotoff"), 10, 64)
	o.q = kv(f[7], "q")
	o.alt = parseAlt(kv(f[8], "alt"))
	return o
}

var pbQueries = []string{"none", "missing", "short", "long", "nohex", "noprefix", "twice", "badslot", "negslot", "bigslot", "graffiti", "shortgraffiti", "badgraffiti"}

func (e *episode) execPb(run *hx.Run, o pbOp) {
	cl := e.cl
	rand.Seed(int64(o.seed))
	r := hx.NewRng(o.seed)
	env = &vcEnv{proposer: map[uint64]core.PubKey{}, proposals: map[uint64]*eth2api.VersionedProposal{}, failAt: -1}
	run.Begin(o.recipe())
	slot := o.epoch*spe + o.slotOff%spe
	s := buildSample(kRandao, buildArgs{valIdx: cl.valIdxOf(o.val), epoch: o.epoch, slotOff: o.slotOff % spe, vcDoor: true})
	signSample(cl, s, o.val, o.node, o.alt, r)
	if pk, ok := cl.corePkOf(o.val); ok {
		env.proposer[slot] = pk
	}
	env.proposals[slot] = testutil.RandomDenebVersionedProposal()
	sig := s.obj.(*randaoS).Signature

	// the query
	slotStr := strconv.FormatUint(slot, 10)
	sigHex := "0x" + hex.EncodeToString(sig[:])
	q := "randao_reveal=" + sigHex
	paramOK := true
	switch o.q {
	case "none":
	case "graffiti":
		q += "&graffiti=0x" + strings.Repeat("ab", 32)
	case "shortgraffiti": // the graffiti is optional and not length-checked
		q += "&graffiti=0x" + strings.Repeat("ab", 31)
	case "badgraffiti":
		q += "&graffiti=0xzz"
		paramOK = false
	case "missing":
		q = ""
		paramOK = false
	case "short":
		q = "randao_reveal=" + sigHex[:len(sigHex)-2]
		paramOK = false
	case "long":
		q = "randao_reveal=" + sigHex + "00"
		paramOK = false
	case "nohex":
		q = "randao_reveal=0x" + strings.Repeat("zz", 96)
		paramOK = false
	case "noprefix":
		q = "randao_reveal=" + sigHex[2:] // the 0x prefix is optional for the router
	case "twice":
		q = "randao_reveal=" + sigHex + "&randao_reveal=" + sigHex
		paramOK = false
	case "badslot":
		slotStr = "abc"
		paramOK = false
	case "negslot":
		slotStr = "-1"
		paramOK = false
	case "bigslot":
		slotStr = "18446744073709551616"
		paramOK = false
	default:
		panic("unknown query alteration " + o.q)
	}

	// the harness's own view
	facts := map[string]bool{}
	var infos []itemInfo
	var absItem string
	if paramOK {
		v := s.view()
		var valPk *core.PubKey
		if pk, ok := env.proposer[slot]; ok {
			valPk = &pk
		}
		par, _ := s.toCore(o.node)
		in := itemInfo{valPk: valPk, slot: slot, v: v}
		in.coreJSON, _ = json.Marshal(par.SignedData)
		verified := false
		if valPk != nil {
			if key, ok := cl.pubshares[*valPk][o.node]; ok && v.sig != ([96]byte{}) {
				sr := signingRoot(v.dom, *v.epoch, *v.root)
				if verifyMemo(key, sr, v.sig) {
					verified = true
					facts[fmt.Sprintf("%d.%d.%d.%d.%d", e.keyIDs[key], v.dom, *v.epoch, e.rootID(*v.root), e.sigID(v.sig))] = true
				}
			}
		}
		in.valid = valPk != nil && verified
		valStr := "-"
		if valPk != nil {
			valStr = strconv.Itoa(e.valID(*valPk))
		}
		absItem = fmt.Sprintf("1,%s,1,%d,0,%s", valStr, slot, e.objStr(e.objID(par.SignedData), v))
		infos = append(infos, in)
	}

	srv := e.server(o.node, o.nsub, false)
	url := srv.ts.URL + "/eth/v3/validator/blocks/" + slotStr
	if q != "" {
		url += "?" + q
	}
	out := srv.do("GET", url, http.Header{}, nil)
	calls := env.calls
	status := classifyMsg(out.status, out.msg)
	switch {
	case out.panicAt != "":
		status = "panic"
	case out.netErr != "":
		status = "neterr"
	case env.proxied > 0:
		status = "proxied"
	}
	where := "pb propose_block_v3"
	if out.panicAt != "" {
		run.Count("observed:handler_panic_recovered:propose_block_v3")
	}
	if out.netErr != "" {
		run.Violate("router:timeout_no_response", fmt.Sprintf("%s: no HTTP response: %s", where, out.netErr))
	}
	e.monitorDelivered(run, calls, o.node, infos, where)
	if len(calls) > 0 {
		if !paramOK {
			run.Violate("router:malformed_request_delivered", where+": subscriber called for a request with malformed parameters")
		} else if !infos[0].valid {
			run.Violate("router:partial_batch_delivered", where+": subscriber called although the randao reveal is not valid")
		}
		if out.status/100 != 2 {
			run.Violate("router:delivered_but_error_status", fmt.Sprintf("%s: subscriber called but the response is %s", where, status))
		}
		for _, c := range calls {
			if c.duty.Type != core.DutyRandao {
				run.Violate("router:wrong_duty_type", fmt.Sprintf("%s: subscriber got duty %v", where, c.duty))
			}
		}
	}
	if paramOK && infos[0].valid {
		if out.status/100 != 2 && out.panicAt == "" {
			run.Violate("router:valid_rejected", fmt.Sprintf("%s: valid randao reveal (q=%s) answered %s", where, o.q, status))
		}
		if out.status/100 == 2 && len(calls) != o.nsub {
			run.Violate("router:status_2xx_but_nothing_delivered", fmt.Sprintf("%s: valid randao reveal answered %s, %d subscriber calls", where, status, len(calls)))
		}
	}
	if !paramOK && out.status/100 == 2 {
		run.Violate("router:malformed_request_accepted", fmt.Sprintf("%s: malformed parameters (q=%s) answered %s", where, o.q, status))
	}
	abs := fmt.Sprintf("%s %d %d %s %s", b01(paramOK), o.node, o.nsub, dashIfEmpty(sortedKeys(facts)), dashIfEmpty(absItem))
	run.Count("pb")
	run.Count("status:" + status)
	run.Case(fmt.Sprintf("pb/%s/%s/%s", o.q, o.alt.kind, status))
	run.Op(o.recipe()+" | "+abs, status+" "+e.renderCalls(calls))
}

// =============================================================================================
// episodes

type cfgOp struct{ ks, n, t, m int }

func (c cfgOp) recipe() string { return fmt.Sprintf("cfg ks=%d n=%d t=%d m=%d", c.ks, c.n, c.t, c.m) }

func parseCfgOp(f []string) cfgOp {
	if len(f) != 5 {
		panic("bad cfg op")
	}
	var c cfgOp
	c.ks, _ = strconv.Atoi(kv(f[1], "ks"))
	c.n, _ = strconv.Atoi(kv(f[2], "n"))
	c.t, _ = strconv.Atoi(kv(f[3], "t"))
	c.m, _ = strconv.Atoi(kv(f[4], "m"))
	return c
}

func newEpisode(run *hx.Run, c cfgOp, old *episode) *episode {
	if old != nil {
		old.close()
	}
	cl := getCluster(c.ks, c.n, c.t, c.m)
	e := &episode{cl: cl, roots: map[[32]byte]int{}, sigs: map[[96]byte]int{}, objs: map[[32]byte]int{},
		vals: map[string]int{}, keyIDs: map[tbls.PublicKey]int{}, servers: map[string]*server{}}
	for i, k := range cl.allKeys {
		e.keyIDs[k] = i + 1
	}
	run.Op(c.recipe()+" | "+e.lockStr(), "ok")
	return e
}

// =============================================================================================
// generator

type gen struct {
	run  *hx.Run
	r    *hx.Rng
	ep   *episode
	cfg  cfgOp
	left int
	tier string
}

func (g *gen) newEpisode() {
	shapes := [][2]int{{4, 3}, {3, 2}, {4, 3}, {5, 4}}
	sh := shapes[g.r.Intn(len(shapes))]
	g.cfg = cfgOp{ks: g.r.Intn(3), n: sh[0], t: sh[1], m: 3 + g.r.Intn(2)}
	g.ep = newEpisode(g.run, g.cfg, g.ep)
	g.left--
}

func (g *gen) seed() uint64 { return g.r.U64() >> 1 }

func (g *gen) rt(o rtOp) {
	if g.left <= 0 || g.run.Enough() {
		g.left = 0
		return
	}
	g.ep.execRt(g.run, o)
	g.left--
}

func versOf(rt *route) []int {
	switch rt.kind {
	case kAtt, kProp, kAgg:
		return []int{0, 1, 2, 3, 4, 5, 6}
	case kBProp:
		return []int{2, 3, 4, 5, 6}
	}
	return []int{0}
}

func (g *gen) items(rt *route, ver, k int) []itemSpec {
	epoch := uint64(g.r.Intn(27))
	perm := g.r.Perm(g.cfg.m)
	var out []itemSpec
	for i := 0; i < k; i++ {
		ep := epoch
		if g.r.Chance(1, 4) {
			ep = uint64(g.r.Intn(27))
		}
		out = append(out, itemSpec{val: perm[i%len(perm)], ver: ver, epoch: ep, slotOff: uint64(g.r.Intn(spe)), subcomm: uint64(g.r.Intn(4)), alt: alt{kind: "none"}})
	}
	return out
}

var signAlts = []string{"share", "val", "group", "dom", "fork", "gvr", "zero", "inf", "rand", "negate"}

var kindDom = [numKinds]int{kAtt: domAttester, kRandao: domRandao, kProp: domProposer, kBProp: domProposer, kExit: domExit, kBcSel: domSelection,
	kAgg: domAggAndProof, kSyncMsg: domSyncComm, kContrib: domContribAndProof, kSyncSel: domSyncSelection, kReg: domBuilder, kOldAgg: domAggAndProof, kRaw: -1}

func otherForkEpoch(e uint64) uint64 {
	i := forkIndexAt(e)
	return forkEpochs[(i+1)%len(forkEpochs)]
}

func (g *gen) mkAlt(kind string, val, node int, epoch uint64, dom int) alt {
	switch kind {
	case "share":
		j := 1 + g.r.Intn(g.cfg.n)
		if j == node {
			j = 1 + j%g.cfg.n
		}
		return alt{kind: "share", a: uint64(j)}
	case "val":
		return alt{kind: "val", a: uint64((val + 1 + g.r.Intn(g.cfg.m-1)) % g.cfg.m)}
	case "dom":
		d := g.r.Intn(numDomains)
		if d == dom {
			d = (d + 1) % numDomains
		}
		return alt{kind: "dom", a: uint64(d)}
	case "fork":
		return alt{kind: "fork", a: otherForkEpoch(epoch)}
	}
	return alt{kind: kind}
}

var badHeaders = []string{"-", "unknown", "gloas", "phase1", "0x05", "5", "deneb,deneb", "denebx", "\"deneb\"", "bellatrix2"}

// sweep: for one route x version x encoding, a valid request and the systematic alterations. `budget`
// caps the number of sampled alterations per category (quick tier); the choice rotates with the seed.
func (g *gen) sweep(rt *route, ver int, enc string, short bool) {
	node := 1 + g.r.Intn(g.cfg.n)
	k := 1
	if rt.batch {
		k = 1 + g.r.Intn(3)
	}
	own := versionNames[ver]
	base := rtOp{route: rt.name, node: node, nsub: 1 + g.r.Intn(2), fail: -1, meth: rt.method, ct: "json", hdr: "-", enc: enc, balt: alt3{kind: "none"}}
	if enc == "ssz" {
		base.ct = "ssz"
	}
	if rt.needsVer {
		base.hdr = own
	}
	mk := func(f func(o *rtOp)) {
		o := base
		o.seed = g.seed()
		o.items = g.items(rt, ver, k)
		f(&o)
		g.rt(o)
	}
	cap := 2
	if g.tier == "thorough" {
		cap = 6
	}
	pick := func(n, c int) []int { // c distinct values of 0..n-1
		p := g.r.Perm(n)
		if c < n {
			p = p[:c]
		}
		return p
	}
	// valid request
	mk(func(o *rtOp) {})
	if g.r.Chance(1, 2) {
		mk(func(o *rtOp) { o.items = g.items(rt, ver, 1) })
	}
	// content types
	for _, i := range pick(len(ctKinds), cap+2) {
		mk(func(o *rtOp) { o.ct = ctKinds[i] })
	}
	// version header: missing / unknown / other fork / case / two lines
	if rt.needsVer || g.r.Chance(1, 3) {
		for _, i := range pick(len(badHeaders), cap) {
			mk(func(o *rtOp) { o.hdr = badHeaders[i] })
		}
		for _, i := range pick(7, cap+1) {
			mk(func(o *rtOp) { o.hdr = versionNames[i] }) // body of fork `ver` under the header of fork i
		}
		mk(func(o *rtOp) { o.hdr = strings.ToUpper(own) })
		mk(func(o *rtOp) { o.hdr = strings.ToUpper(own[:1]) + own[1:] })
		mk(func(o *rtOp) { o.hdr = "two:" + own + ":" + versionNames[(ver+1+g.r.Intn(6))%7] })
		mk(func(o *rtOp) { o.hdr = "two:" + versionNames[(ver+1+g.r.Intn(6))%7] + ":" + own })
	}
	if short {
		// the sibling endpoint (v1 / v2 of the same handler) and the endpoints that deliver nothing get
		// the table-level alterations only
		mk(func(o *rtOp) {
			o.balt = alt3{kind: []string{"empty", "trunc", "flip", "jnull", "wrap"}[g.r.Intn(5)], a: uint64(g.r.Intn(1 << 30)), b: uint64(g.r.Intn(64))}
		})
		mk(func(o *rtOp) {
			o.items[0].alt = g.mkAlt(signAlts[g.r.Intn(len(signAlts))], o.items[0].val, node, o.items[0].epoch, kindDom[rt.kind])
		})
		if rt.ssz {
			mk(func(o *rtOp) {
				if o.enc == "ssz" {
					o.ct = "json"
				} else {
					o.ct = "ssz"
				}
			})
		}
		mk(func(o *rtOp) { o.meth = []string{"PUT", "GET", "DELETE", "PATCH"}[g.r.Intn(4)] })
		return
	}
	// encoding vs content type crossed
	if rt.ssz {
		mk(func(o *rtOp) {
			if o.enc == "ssz" {
				o.ct = "json"
			} else {
				o.ct = "ssz"
			}
		})
	}
	// wrong method
	if g.r.Chance(1, 2) {
		mk(func(o *rtOp) { o.meth = []string{"PUT", "GET", "DELETE", "PATCH"}[g.r.Intn(4)] })
	}
	// batches: one bad element at every position, mixed forks, duplicates
	if rt.batch && rt.mode == "deliver" {
		kk := 2 + g.r.Intn(3)
		for pos := 0; pos < kk; pos++ {
			mk(func(o *rtOp) {
				o.items = g.items(rt, ver, kk)
				it := &o.items[pos]
				it.alt = g.mkAlt(signAlts[g.r.Intn(len(signAlts))], it.val, node, it.epoch, kindDom[rt.kind])
			})
		}
		mk(func(o *rtOp) {
			o.items = g.items(rt, ver, kk)
			o.items[g.r.Intn(kk)].val = -1 - g.r.Intn(2)
		})
		if len(versOf(rt)) > 1 {
			mk(func(o *rtOp) {
				o.items = g.items(rt, ver, kk)
				o.items[g.r.Intn(kk)].ver = versOf(rt)[g.r.Intn(len(versOf(rt)))]
			})
		}
		mk(func(o *rtOp) { // the same element twice
			o.items = g.items(rt, ver, kk)
			o.items = append(o.items, o.items[g.r.Intn(kk)])
		})
		mk(func(o *rtOp) { // the same validator and slot, two different objects
			o.items = g.items(rt, ver, 2)
			o.items[1].val, o.items[1].epoch, o.items[1].slotOff, o.items[1].subcomm = o.items[0].val, o.items[0].epoch, o.items[0].slotOff, o.items[0].subcomm
		})
		mk(func(o *rtOp) { o.items = nil })
	}
	// single-field alterations of the signed object (reflection walk over the wire object)
	for i := 0; i < cap+2; i++ {
		mk(func(o *rtOp) {
			o.items[g.r.Intn(len(o.items))].alt = alt{kind: "field", a: uint64(g.r.Intn(100000)), b: uint64(g.r.Intn(64))}
		})
	}
	// signature substitutions
	for _, i := range pick(len(signAlts), cap+1) {
		mk(func(o *rtOp) {
			it := &o.items[g.r.Intn(len(o.items))]
			it.alt = g.mkAlt(signAlts[i], it.val, node, it.epoch, kindDom[rt.kind])
		})
	}
	if rt.kind == kProp || rt.kind == kBProp {
		mk(func(o *rtOp) { o.items[0].alt = alt{kind: "gatemiss"} })
	}
	if rt.kind == kAgg || rt.kind == kContrib {
		mk(func(o *rtOp) {
			o.items[g.r.Intn(len(o.items))].alt = alt{kind: []string{"innerzero", "innershare", "innerbad"}[g.r.Intn(3)]}
		})
	}
	mk(func(o *rtOp) { o.items[0].val = -1 - g.r.Intn(2) })
	mk(func(o *rtOp) { o.node = []int{0, g.cfg.n + 1}[g.r.Intn(2)] })
	if g.r.Chance(1, 3) {
		mk(func(o *rtOp) { o.fail = g.r.Intn(3) })
	}
	// body bytes
	for _, a := range []string{"empty", "emptyarr", "null", "nullelem", "wrap"} {
		if g.r.Chance(2, 3) {
			mk(func(o *rtOp) { o.balt = alt3{kind: a} })
		}
	}
	for _, a := range []string{"trunc", "splice", "insert", "flip", "tail"} {
		for i := 0; i < cap; i++ {
			mk(func(o *rtOp) { o.balt = alt3{kind: a, a: uint64(g.r.Intn(1 << 30)), b: uint64(g.r.Intn(64))} })
		}
	}
	// JSON tree: null / wrong type / missing member / numbers out of range / unknown member at every node
	if enc == "json" {
		for _, a := range []string{"jnull", "jtype", "jdel", "jnum", "jextra"} {
			n := cap + 1
			if a == "jextra" {
				n = 1
			}
			for i := 0; i < n; i++ {
				mk(func(o *rtOp) { o.balt = alt3{kind: a, a: uint64(g.r.Intn(1 << 30)), b: uint64(g.r.Intn(64))} })
			}
		}
	}
}

// sweepShared: the normal traffic of a node with several validators — one request whose elements are
// built from ONE template (the same attestation data, the same aggregate, the same block root, the same
// contribution), one element per cluster validator, each validly signed. First the intact request, then,
// for position 0 and for a later position, EVERY leaf field of that element's wire object (reflection
// walk) altered in that element only, after signing: the altered element must be judged on its own
// content — a router that lets elements share sub-objects repairs it by substitution.
func (g *gen) sweepShared(rt *route, ver int) {
	node := 1 + g.r.Intn(g.cfg.n)
	k := 2 + g.r.Intn(3)
	if k > g.cfg.m {
		k = g.cfg.m
	}
	vals := g.r.Perm(g.cfg.m)[:k]
	epoch, slotOff, subcomm := uint64(g.r.Intn(27)), uint64(g.r.Intn(spe)), uint64(g.r.Intn(4))
	mkItems := func() []itemSpec {
		var out []itemSpec
		for _, v := range vals {
			out = append(out, itemSpec{val: v, ver: ver, epoch: epoch, slotOff: slotOff, subcomm: subcomm, alt: alt{kind: "none"}})
		}
		return out
	}
	base := rtOp{route: rt.name, node: node, nsub: 1 + g.r.Intn(2), fail: -1, meth: rt.method, ct: "json", hdr: "-", enc: "json", balt: alt3{kind: "none"}, tmpl: 1}
	if rt.needsVer {
		base.hdr = versionNames[ver]
	}
	mk := func(f func(o *rtOp)) {
		o := base
		o.seed = g.seed()
		o.items = mkItems()
		f(&o)
		g.rt(o)
	}
	mk(func(o *rtOp) {})
	mk(func(o *rtOp) { o.tmpl = 2 })
	probe := buildSample(rt.kind, buildArgs{valIdx: valIdxBase, ver: ver, epoch: 5, commIdx: 1, commLen: 8, vcDoor: true})
	n := len(leavesOf(wireOf(probe)))
	positions := []int{0, 1 + g.r.Intn(k-1)}
	if g.tier == "thorough" {
		positions = positions[:0]
		for p := 0; p < k; p++ {
			positions = append(positions, p)
		}
	}
	for _, pos := range positions {
		for leaf := 0; leaf < n; leaf++ {
			mk(func(o *rtOp) {
				o.items[pos].alt = alt{kind: "field", a: uint64(leaf), b: uint64(g.r.Intn(64))}
				if g.r.Chance(1, 3) {
					o.tmpl = 2
				}
			})
		}
	}
	// a signature substitution in one element of the shared request
	mk(func(o *rtOp) {
		it := &o.items[1+g.r.Intn(k-1)]
		it.alt = g.mkAlt(signAlts[g.r.Intn(len(signAlts))], it.val, node, it.epoch, kindDom[rt.kind])
	})
}

func (g *gen) sweepPb() {
	node := 1 + g.r.Intn(g.cfg.n)
	one := func(f func(o *pbOp)) {
		if g.left <= 0 || g.run.Enough() {
			g.left = 0
			return
		}
		o := pbOp{node: node, nsub: 1 + g.r.Intn(2), seed: g.seed(), val: g.r.Intn(g.cfg.m), epoch: uint64(g.r.Intn(27)), slotOff: uint64(g.r.Intn(spe)), q: "none", alt: alt{kind: "none"}}
		f(&o)
		g.ep.execPb(g.run, o)
		g.left--
	}
	for _, q := range pbQueries {
		one(func(o *pbOp) { o.q = q })
	}
	for _, a := range signAlts {
		one(func(o *pbOp) { o.alt = g.mkAlt(a, o.val, o.node, o.epoch, domRandao) })
	}
	one(func(o *pbOp) { o.val = -1 })
	one(func(o *pbOp) { o.val = -2 })
	one(func(o *pbOp) { o.node = 0 })
}

func (g *gen) random() {
	rt := routes[g.r.Intn(len(routes))]
	vs := versOf(rt)
	ver := vs[g.r.Intn(len(vs))]
	enc := "json"
	if rt.ssz && rt.kind != kReg && g.r.Chance(1, 2) {
		enc = "ssz"
	}
	k := 1
	if rt.batch {
		k = 1 + g.r.Intn(5)
	}
	o := rtOp{route: rt.name, node: 1 + g.r.Intn(g.cfg.n), nsub: 1 + g.r.Intn(2), fail: -1, seed: g.seed(), meth: rt.method, ct: "json", hdr: "-", enc: enc,
		balt: alt3{kind: "none"}, items: g.items(rt, ver, k)}
	if enc == "ssz" {
		o.ct = "ssz"
	}
	if rt.needsVer {
		o.hdr = versionNames[ver]
	}
	for n := g.r.Intn(3); n > 0; n-- {
		switch g.r.Intn(6) {
		case 0:
			o.ct = ctKinds[g.r.Intn(len(ctKinds))]
		case 1:
			o.hdr = append(badHeaders, versionNames...)[g.r.Intn(len(badHeaders)+7)]
		case 2:
			kinds := []string{"trunc", "splice", "insert", "flip", "tail", "jnull", "jtype", "jdel", "jnum", "jextra", "empty", "emptyarr", "null", "nullelem", "wrap"}
			o.balt = alt3{kind: kinds[g.r.Intn(len(kinds))], a: uint64(g.r.Intn(1 << 30)), b: uint64(g.r.Intn(64))}
		case 3:
			it := &o.items[g.r.Intn(len(o.items))]
			it.alt = g.mkAlt(signAlts[g.r.Intn(len(signAlts))], it.val, o.node, it.epoch, kindDom[rt.kind])
		case 4:
			o.items[g.r.Intn(len(o.items))].alt = alt{kind: "field", a: uint64(g.r.Intn(100000)), b: uint64(g.r.Intn(64))}
		case 5:
			o.items[g.r.Intn(len(o.items))].ver = vs[g.r.Intn(len(vs))]
		}
	}
	g.rt(o)
}

func generate(run *hx.Run, a hx.Args) {
	g := &gen{run: run, r: hx.NewRng(a.Seed), left: a.N, tier: a.Tier}
	g.newEpisode()
	type combo struct {
		rt    *route
		ver   int
		enc   string
		short bool
	}
	var combos []combo
	sibling := map[string]string{"submit_proposal_v1": "submit_proposal_v2", "submit_blinded_block_v1": "submit_blinded_block_v2"}
	for _, rt := range routes {
		if rt.mode != "deliver" {
			vs := versOf(rt)
			combos = append(combos, combo{rt, vs[g.r.Intn(len(vs))], "json", true})
			if rt.ssz {
				combos = append(combos, combo{rt, vs[g.r.Intn(len(vs))], "ssz", true})
			}
			continue
		}
		sib, ok := sibling[rt.name]
		if rt.name == "submit_proposal_v2" || rt.name == "submit_blinded_block_v2" {
			continue
		}
		for _, v := range versOf(rt) {
			encs := []string{"json"}
			if rt.ssz {
				encs = append(encs, "ssz")
			}
			for _, enc := range encs {
				if !ok {
					combos = append(combos, combo{rt, v, enc, false})
					continue
				}
				a, b := rt, routeByName(sib)
				if g.r.Chance(1, 2) {
					a, b = b, a
				}
				combos = append(combos, combo{a, v, enc, false}, combo{b, v, enc, true})
			}
		}
	}
	// first: requests whose elements share one template (every batch endpoint x version)
	for _, i := range g.r.Perm(len(routes)) {
		rt := routes[i]
		if !rt.batch || rt.mode != "deliver" {
			continue
		}
		for _, v := range versOf(rt) {
			g.sweepShared(rt, v)
		}
	}
	run.Counts["phase:shared-template-ops"] = a.N - g.left
	combos = append(combos, combo{nil, 0, "", false}) // the propose-block sweep
	for _, i := range g.r.Perm(len(combos)) {
		if g.left <= 0 {
			break
		}
		c := combos[i]
		if c.rt == nil {
			g.sweepPb()
		} else {
			g.sweep(c.rt, c.ver, c.enc, c.short)
		}
		if g.r.Chance(1, 12) && g.left > 0 {
			g.newEpisode()
		}
	}
	run.Counts["phase:sweep-ops"] = a.N - g.left
	for g.left > 0 {
		if g.r.Chance(1, 60) {
			g.newEpisode()
			continue
		}
		if g.r.Chance(1, 80) {
			g.sweepPb()
			continue
		}
		g.random()
	}
	g.ep.close()
}

func execute(run *hx.Run, ops []string) {
	var ep *episode
	for _, line := range ops {
		recipe := strings.SplitN(line, " | ", 2)[0]
		f := strings.Fields(recipe)
		if len(f) == 0 {
			continue
		}
		switch f[0] {
		case "cfg":
			ep = newEpisode(run, parseCfgOp(f), ep)
		case "rt":
			if ep == nil {
				panic("rt before cfg")
			}
			ep.execRt(run, parseRtOp(f))
		case "pb":
			if ep == nil {
				panic("pb before cfg")
			}
			ep.execPb(run, parsePbOp(f))
		default:
			panic("unknown op " + f[0])
		}
	}
	if ep != nil {
		ep.close()
	}
}

var (
	_ = reflect.TypeOf
	_ = sort.Ints
	_ = electra.SingleAttestation{}
)

func main() {
	a := hx.ParseArgs()
	if pf := os.Getenv("RT_CPUPROFILE"); pf != "" {
		f, err := os.Create(pf)
		hx.Must(err)
		hx.Must(pprof.StartCPUProfile(f))
		defer pprof.StopCPUProfile()
	}
	hx.Must(log.InitLogger(log.Config{Level: "fatal", Format: "console", Color: "disable"}))
	ctx, cancel := context.WithCancel(context.Background())
	defer cancel()
	initMock(ctx)
	run := hx.NewRun(a.Dir)
	defer run.Close()
	if a.Mode == "exec" {
		execute(run, hx.ReadOps(a.Ops))
		return
	}
	generate(run, a)
	if uncloneable > 0 {
		run.Counts["rt:uncloneable-element"] = uncloneable
	}
}
