// base.go: the pieces drive-router shares with drive-admit (copied, the two drivers are separate
// `package main`s): chain configuration and the harness's own domain computation, the beacon mock,
// deterministic clusters with real t-of-n tbls keys, sample objects built from testutil generators,
// the hand-written per-type view (epoch, message root, domain, signature), the reflection walk over
// leaf fields, signing with substitutions, interning.
package main

import (
	"context"
	"crypto/sha256"
	"encoding/binary"
	"encoding/json"
	"fmt"
	"math/big"
	"math/rand"
	"reflect"
	"sort"
	"strconv"
	"strings"
	"testing"
	"time"

	"github.com/OffchainLabs/go-bitfield"
	eth2api "github.com/attestantio/go-eth2-client/api"
	eth2v1 "github.com/attestantio/go-eth2-client/api/v1"
	eth2bellatrix "github.com/attestantio/go-eth2-client/api/v1/bellatrix"
	eth2capella "github.com/attestantio/go-eth2-client/api/v1/capella"
	eth2deneb "github.com/attestantio/go-eth2-client/api/v1/deneb"
	eth2electra "github.com/attestantio/go-eth2-client/api/v1/electra"
	eth2fulu "github.com/attestantio/go-eth2-client/api/v1/fulu"
	eth2spec "github.com/attestantio/go-eth2-client/spec"
	"github.com/attestantio/go-eth2-client/spec/altair"
	"github.com/attestantio/go-eth2-client/spec/bellatrix"
	"github.com/attestantio/go-eth2-client/spec/capella"
	"github.com/attestantio/go-eth2-client/spec/deneb"
	"github.com/attestantio/go-eth2-client/spec/electra"
	eth2p0 "github.com/attestantio/go-eth2-client/spec/phase0"

	"github.com/obolnetwork/charon/app/eth2wrap"
	"github.com/obolnetwork/charon/core"
	"github.com/obolnetwork/charon/eth2util/signing"
	"github.com/obolnetwork/charon/tbls"
	"github.com/obolnetwork/charon/testutil"
	"github.com/obolnetwork/charon/testutil/beaconmock"

	"verifharness/hx"
)

var (
	_ = bellatrix.SignedBeaconBlock{}
	_ = eth2bellatrix.SignedBlindedBeaconBlock{}
	_ = eth2capella.SignedBlindedBeaconBlock{}
	_ = eth2fulu.SignedBlockContents{}
)

// =============================================================================================
// chain configuration: our own fork table and domain computation (independent of eth2util/signing)

const spe = 16 // SLOTS_PER_EPOCH of the beacon mock

var (
	forkEpochs = []uint64{0, 4, 8, 12, 16, 20, 24}
	genesisVR  = [32]byte{0x21, 0x2f, 0x13, 0xfc, 0x4d, 0xf0, 0x78, 0xb6, 0x01, 0x02, 0x03}
	genesisT   = time.Date(2022, 3, 1, 0, 0, 0, 0, time.UTC)
)

func forkVersion(i int) [4]byte { return [4]byte{byte(0x10 * (i + 1)), 0x00, 0x09, 0x10} }

func forkIndexAt(epoch uint64) int {
	idx := 0
	for i, e := range forkEpochs {
		if e <= epoch {
			idx = i
		}
	}
	return idx
}

func forkScheduleJSON() string {
	var parts []string
	for i, e := range forkEpochs {
		prev := forkVersion(i)
		if i > 0 {
			prev = forkVersion(i - 1)
		}
		parts = append(parts, fmt.Sprintf(`{"previous_version":"%#x","current_version":"%#x","epoch":"%d"}`, prev, forkVersion(i), e))
	}
	return `{"data":[` + strings.Join(parts, ",") + `]}`
}

// domain indices = order of CharonV.Admit.Domain
const (
	domProposer = iota
	domAttester
	domExit
	domBuilder
	domRandao
	domSelection
	domAggAndProof
	domSyncComm
	domContribAndProof
	domSyncSelection
	numDomains
)

// domain type constants of the consensus spec (phase0/altair beacon-chain.md, builder-specs)
var domainTypes = [numDomains][4]byte{
	domProposer:        {0x00, 0, 0, 0},
	domAttester:        {0x01, 0, 0, 0},
	domRandao:          {0x02, 0, 0, 0},
	domExit:            {0x04, 0, 0, 0},
	domSelection:       {0x05, 0, 0, 0},
	domAggAndProof:     {0x06, 0, 0, 0},
	domSyncComm:        {0x07, 0, 0, 0},
	domSyncSelection:   {0x08, 0, 0, 0},
	domContribAndProof: {0x09, 0, 0, 0},
	domBuilder:         {0x00, 0, 0, 0x01},
}

var domainNames = [numDomains]signing.DomainName{
	domProposer: signing.DomainBeaconProposer, domAttester: signing.DomainBeaconAttester,
	domRandao: signing.DomainRandao, domExit: signing.DomainExit, domSelection: signing.DomainSelectionProof,
	domAggAndProof: signing.DomainAggregateAndProof, domSyncComm: signing.DomainSyncCommittee,
	domSyncSelection: signing.DomainSyncCommitteeSelectionProof, domContribAndProof: signing.DomainContributionAndProof,
	domBuilder: signing.DomainApplicationBuilder,
}

// computeDomain is compute_domain of the consensus spec.
func computeDomain(domType [4]byte, version [4]byte, gvr [32]byte) [32]byte {
	fd := &eth2p0.ForkData{CurrentVersion: version, GenesisValidatorsRoot: gvr}
	root, err := fd.HashTreeRoot()
	hx.Must(err)
	var d [32]byte
	copy(d[:4], domType[:])
	copy(d[4:], root[:28])
	return d
}

// signingRootWith is compute_signing_root with an explicitly chosen fork epoch and genesis root
// (used both for honest signing and for domain/fork/gvr substitutions).
func signingRootWith(dom int, forkEpoch uint64, gvr [32]byte, root [32]byte) [32]byte {
	var d [32]byte
	if dom == domBuilder {
		d = computeDomain(domainTypes[dom], forkVersion(0), [32]byte{})
	} else {
		d = computeDomain(domainTypes[dom], forkVersion(forkIndexAt(forkEpoch)), gvr)
	}
	sd := &eth2p0.SigningData{ObjectRoot: root, Domain: d}
	r, err := sd.HashTreeRoot()
	hx.Must(err)
	return r
}

func signingRoot(dom int, epoch uint64, root [32]byte) [32]byte {
	return signingRootWith(dom, epoch, genesisVR, root)
}

func u64Root(x uint64) [32]byte {
	var r [32]byte
	binary.LittleEndian.PutUint64(r[:8], x)
	return r
}

// =============================================================================================
// beacon mock (one per process)

var bmockBase beaconmock.Mock

func initMock(ctx context.Context) {
	m, err := beaconmock.New(ctx,
		beaconmock.WithEndpoint("/eth/v1/config/fork_schedule", forkScheduleJSON()),
		beaconmock.WithGenesisValidatorsRoot(genesisVR),
		beaconmock.WithGenesisTime(genesisT),
		beaconmock.WithSlotsPerEpoch(spe),
	)
	hx.Must(err)
	bmockBase = m
	// sanity: our domain computation agrees with eth2util/signing over the mock on an honest input
	for d := 0; d < numDomains; d++ {
		for _, e := range []uint64{0, 3, 4, 13, 24, 1000} {
			root := [32]byte{byte(d), byte(e)}
			want, err := signing.GetDataRoot(ctx, m, domainNames[d], eth2p0.Epoch(e), root)
			hx.Must(err)
			if got := signingRoot(d, e, root); got != want {
				panic(fmt.Sprintf("harness domain computation disagrees with signing.GetDataRoot: dom %d epoch %d", d, e))
			}
		}
	}
}

// =============================================================================================
// clusters: real t-of-n keys, deterministic per key-set id

type rngReader struct{ r *hx.Rng }

func (r rngReader) Read(p []byte) (int, error) {
	for i := range p {
		p[i] = byte(r.r.U64())
	}
	return len(p), nil
}

type cluster struct {
	ks, n, t, m int
	secrets     []tbls.PrivateKey
	pubkeys     []tbls.PublicKey
	corePks     []core.PubKey
	shares      []map[int]tbls.PrivateKey
	pubshares   map[core.PubKey]map[int]tbls.PublicKey
	// one extra validator that is active on the beacon node but not part of the lock
	xSecret tbls.PrivateKey
	xPub    tbls.PublicKey
	active  eth2wrap.ActiveValidators
	mock    beaconmock.Mock
	allKeys []tbls.PublicKey // every pubshare, every group key, the extra key
}

const valIdxBase = 100 // beacon validator index of cluster validator i is valIdxBase+i
const xValIdx = 900

var clusters = map[string]*cluster{}

func getCluster(ks, n, t, m int) *cluster {
	key := fmt.Sprintf("%d/%d/%d/%d", ks, n, t, m)
	if c, ok := clusters[key]; ok {
		return c
	}
	r := hx.NewRng(uint64(ks)*7919 + uint64(n)*131 + uint64(t)*17 + uint64(m))
	c := &cluster{ks: ks, n: n, t: t, m: m, pubshares: map[core.PubKey]map[int]tbls.PublicKey{}, active: eth2wrap.ActiveValidators{}}
	newSecret := func() tbls.PrivateKey {
		s, err := tbls.GenerateInsecureKey(new(testing.T), rngReader{r})
		hx.Must(err)
		return s
	}
	for i := 0; i < m; i++ {
		sec := newSecret()
		pub, err := tbls.SecretToPublicKey(sec)
		hx.Must(err)
		sh, err := tbls.ThresholdSplitInsecure(new(testing.T), sec, uint(n), uint(t), rngReader{r})
		hx.Must(err)
		cpk, err := core.PubKeyFromBytes(pub[:])
		hx.Must(err)
		ps := map[int]tbls.PublicKey{}
		for idx := 1; idx <= n; idx++ {
			s := sh[idx]
			p, err := tbls.SecretToPublicKey(s)
			hx.Must(err)
			ps[idx] = p
			c.allKeys = append(c.allKeys, p)
		}
		c.secrets = append(c.secrets, sec)
		c.pubkeys = append(c.pubkeys, pub)
		c.corePks = append(c.corePks, cpk)
		c.shares = append(c.shares, sh)
		c.pubshares[cpk] = ps
		c.allKeys = append(c.allKeys, pub)
		c.active[eth2p0.ValidatorIndex(valIdxBase+i)] = eth2p0.BLSPubKey(pub)
	}
	c.xSecret = newSecret()
	xp, err := tbls.SecretToPublicKey(c.xSecret)
	hx.Must(err)
	c.xPub = xp
	c.allKeys = append(c.allKeys, xp)
	c.active[eth2p0.ValidatorIndex(xValIdx)] = eth2p0.BLSPubKey(xp)
	c.mock = bmockBase
	act := c.active
	c.mock.CachedValidatorsFunc = func(context.Context) (eth2wrap.ActiveValidators, eth2wrap.CompleteValidators, error) {
		return act, nil, nil
	}
	clusters[key] = c
	return c
}

// validator index (beacon) -> position in cluster (-1: the extra validator, -2: nobody)
func (c *cluster) posOfValIdx(v uint64) int {
	if v >= valIdxBase && v < uint64(valIdxBase+c.m) {
		return int(v - valIdxBase)
	}
	if v == xValIdx {
		return -1
	}
	return -2
}

// =============================================================================================
// samples: one signed object of some type, built from testutil generators

const (
	kAtt = iota
	kRandao
	kProp
	kBProp
	kExit
	kBcSel
	kAgg
	kSyncMsg
	kContrib
	kSyncSel
	kReg
	kOldAgg
	kRaw
	numKinds
)

var kindNames = [numKinds]string{"att", "randao", "prop", "bprop", "exit", "bcsel", "agg", "syncmsg", "contrib", "syncsel", "reg", "oldagg", "raw"}

// SigType indices = order of Driver.Admit.sigTypes
const (
	tyProposal = iota
	tyAttestation
	tyExit
	tyRegistration
	tyRandao
	tyBcSelection
	tyAggProof
	tyVAggProof
	tySyncMessage
	tyContribution
	tySyncSelection
	tyRawSig
)

type randaoS struct {
	Slot      eth2p0.Slot  // VC door: ProposalOpts.Slot (the signed epoch is Slot / SLOTS_PER_EPOCH)
	Epoch     eth2p0.Epoch // peer door: SignedEpoch.Epoch
	Signature eth2p0.BLSSignature
	vc        bool
}

func (r *randaoS) epoch() eth2p0.Epoch {
	if r.vc {
		return eth2p0.Epoch(uint64(r.Slot) / spe)
	}
	return r.Epoch
}

type sample struct {
	kind int
	obj  any // pointer to the submitted object
}

var versions = []eth2spec.DataVersion{eth2spec.DataVersionPhase0, eth2spec.DataVersionAltair, eth2spec.DataVersionBellatrix,
	eth2spec.DataVersionCapella, eth2spec.DataVersionDeneb, eth2spec.DataVersionElectra, eth2spec.DataVersionFulu}

func numVersions(kind int) int {
	switch kind {
	case kAtt, kProp, kAgg:
		return 7
	case kBProp:
		return 5
	}
	return 1
}

type buildArgs struct {
	valIdx  uint64 // beacon validator index written into the object
	ver     int
	blinded bool
	epoch   uint64 // the object's own epoch
	slotOff uint64 // slot offset inside the epoch (where the object has a slot)
	subcomm uint64
	commIdx uint64
	vci     uint64 // validator committee index (pre-electra attestations)
	commLen uint64
	vcDoor  bool
}

func attData(a buildArgs) *eth2p0.AttestationData {
	d := testutil.RandomAttestationDataPhase0()
	d.Slot = eth2p0.Slot(a.epoch*spe + a.slotOff)
	d.Index = eth2p0.CommitteeIndex(a.commIdx)
	d.Target.Epoch = eth2p0.Epoch(a.epoch)
	if a.epoch > 0 {
		d.Source.Epoch = eth2p0.Epoch(a.epoch - 1)
	} else {
		d.Source.Epoch = 0
	}
	return d
}

func oneBit(n, at uint64) bitfield.Bitlist {
	b := bitfield.NewBitlist(n)
	b.SetBitAt(at, true)
	return b
}

func buildSample(kind int, a buildArgs) *sample {
	slot := eth2p0.Slot(a.epoch*spe + a.slotOff)
	vidx := eth2p0.ValidatorIndex(a.valIdx)
	switch kind {
	case kAtt:
		v := &eth2spec.VersionedAttestation{Version: versions[a.ver]}
		if a.ver <= 4 {
			att := &eth2p0.Attestation{AggregationBits: oneBit(a.commLen, a.vci), Data: attData(a)}
			switch a.ver {
			case 0:
				v.Phase0 = att
			case 1:
				v.Altair = att
			case 2:
				v.Bellatrix = att
			case 3:
				v.Capella = att
			case 4:
				v.Deneb = att
			}
		} else {
			d := attData(a)
			d.Index = 0
			cb := bitfield.NewBitvector64()
			cb.SetBitAt(a.commIdx, true)
			att := &electra.Attestation{AggregationBits: oneBit(a.commLen, a.vci), Data: d, CommitteeBits: cb}
			vi := vidx
			v.ValidatorIndex = &vi
			if a.ver == 5 {
				v.Electra = att
			} else {
				v.Fulu = att
			}
		}
		return &sample{kind, v}
	case kRandao:
		return &sample{kind, &randaoS{Slot: slot, Epoch: eth2p0.Epoch(a.epoch), vc: a.vcDoor}}
	case kProp, kBProp:
		p := &eth2api.VersionedSignedProposal{Version: versions[a.ver], Blinded: a.blinded}
		switch {
		case a.ver == 0:
			b := testutil.RandomPhase0BeaconBlock()
			b.Slot, b.ProposerIndex = slot, vidx
			p.Phase0 = &eth2p0.SignedBeaconBlock{Message: b}
		case a.ver == 1:
			b := testutil.RandomAltairBeaconBlock()
			b.Slot, b.ProposerIndex = slot, vidx
			p.Altair = &altair.SignedBeaconBlock{Message: b}
		case a.ver == 2 && !a.blinded:
			b := testutil.RandomBellatrixBeaconBlock()
			b.Slot, b.ProposerIndex = slot, vidx
			p.Bellatrix = &bellatrix.SignedBeaconBlock{Message: b}
		case a.ver == 2:
			b := testutil.RandomBellatrixBlindedBeaconBlock()
			b.Slot, b.ProposerIndex = slot, vidx
			p.BellatrixBlinded = &eth2bellatrix.SignedBlindedBeaconBlock{Message: b}
		case a.ver == 3 && !a.blinded:
			b := testutil.RandomCapellaBeaconBlock()
			b.Slot, b.ProposerIndex = slot, vidx
			p.Capella = &capella.SignedBeaconBlock{Message: b}
		case a.ver == 3:
			b := testutil.RandomCapellaBlindedBeaconBlock()
			b.Slot, b.ProposerIndex = slot, vidx
			p.CapellaBlinded = &eth2capella.SignedBlindedBeaconBlock{Message: b}
		case a.ver == 4 && !a.blinded:
			b := testutil.RandomDenebBeaconBlock()
			b.Slot, b.ProposerIndex = slot, vidx
			p.Deneb = &eth2deneb.SignedBlockContents{SignedBlock: &deneb.SignedBeaconBlock{Message: b}, KZGProofs: []deneb.KZGProof{}, Blobs: []deneb.Blob{}}
		case a.ver == 4:
			b := testutil.RandomDenebBlindedBeaconBlock()
			b.Slot, b.ProposerIndex = slot, vidx
			p.DenebBlinded = &eth2deneb.SignedBlindedBeaconBlock{Message: b}
		case a.ver == 5 && !a.blinded:
			b := testutil.RandomElectraBeaconBlock()
			b.Slot, b.ProposerIndex = slot, vidx
			p.Electra = &eth2electra.SignedBlockContents{SignedBlock: &electra.SignedBeaconBlock{Message: b}, KZGProofs: []deneb.KZGProof{}, Blobs: []deneb.Blob{}}
		case a.ver == 5:
			b := testutil.RandomElectraBlindedBeaconBlock()
			b.Slot, b.ProposerIndex = slot, vidx
			p.ElectraBlinded = &eth2electra.SignedBlindedBeaconBlock{Message: b}
		case a.ver == 6 && !a.blinded:
			b := testutil.RandomElectraBeaconBlock()
			b.Slot, b.ProposerIndex = slot, vidx
			p.Fulu = &eth2fulu.SignedBlockContents{SignedBlock: &electra.SignedBeaconBlock{Message: b}, KZGProofs: []deneb.KZGProof{}, Blobs: []deneb.Blob{}}
		default:
			b := testutil.RandomElectraBlindedBeaconBlock()
			b.Slot, b.ProposerIndex = slot, vidx
			p.FuluBlinded = &eth2electra.SignedBlindedBeaconBlock{Message: b}
		}
		if kind == kBProp {
			return &sample{kind, &eth2api.VersionedSignedBlindedProposal{Version: p.Version, Bellatrix: p.BellatrixBlinded,
				Capella: p.CapellaBlinded, Deneb: p.DenebBlinded, Electra: p.ElectraBlinded, Fulu: p.FuluBlinded}}
		}
		return &sample{kind, p}
	case kExit:
		return &sample{kind, &eth2p0.SignedVoluntaryExit{Message: &eth2p0.VoluntaryExit{Epoch: eth2p0.Epoch(a.epoch), ValidatorIndex: vidx}}}
	case kBcSel:
		return &sample{kind, &eth2v1.BeaconCommitteeSelection{ValidatorIndex: vidx, Slot: slot}}
	case kAgg, kOldAgg:
		agg := testutil.RandomAggregateAttestation()
		agg.Data.Slot = slot
		if kind == kOldAgg {
			return &sample{kind, &eth2p0.SignedAggregateAndProof{Message: &eth2p0.AggregateAndProof{AggregatorIndex: vidx, Aggregate: agg}}}
		}
		v := &eth2spec.VersionedSignedAggregateAndProof{Version: versions[a.ver]}
		if a.ver <= 4 {
			s := &eth2p0.SignedAggregateAndProof{Message: &eth2p0.AggregateAndProof{AggregatorIndex: vidx, Aggregate: agg}}
			switch a.ver {
			case 0:
				v.Phase0 = s
			case 1:
				v.Altair = s
			case 2:
				v.Bellatrix = s
			case 3:
				v.Capella = s
			case 4:
				v.Deneb = s
			}
		} else {
			ea := testutil.RandomElectraAttestation()
			ea.Data.Slot = slot
			s := &electra.SignedAggregateAndProof{Message: &electra.AggregateAndProof{AggregatorIndex: vidx, Aggregate: ea}}
			if a.ver == 5 {
				v.Electra = s
			} else {
				v.Fulu = s
			}
		}
		return &sample{kind, v}
	case kSyncMsg:
		return &sample{kind, &altair.SyncCommitteeMessage{Slot: slot, BeaconBlockRoot: testutil.RandomRoot(), ValidatorIndex: vidx}}
	case kContrib:
		c := testutil.RandomSignedSyncContributionAndProof()
		c.Message.AggregatorIndex = vidx
		c.Message.Contribution.Slot = slot
		c.Message.Contribution.SubcommitteeIndex = a.subcomm
		c.Message.SelectionProof = eth2p0.BLSSignature{}
		c.Signature = eth2p0.BLSSignature{}
		return &sample{kind, c}
	case kSyncSel:
		return &sample{kind, &eth2v1.SyncCommitteeSelection{ValidatorIndex: vidx, Slot: slot, SubcommitteeIndex: a.subcomm}}
	case kReg:
		r := testutil.RandomVersionedSignedValidatorRegistration(new(testing.T))
		r.V1.Signature = eth2p0.BLSSignature{}
		// the generator uses crypto/rand and time.Now: overwrite with values from the seeded source
		_, _ = rand.Read(r.V1.Message.FeeRecipient[:])
		r.V1.Message.Timestamp = time.Unix(1700000000+int64(rand.Intn(1000000)), 0)
		return &sample{kind, r}
	case kRaw:
		s := core.Signature(make([]byte, 96))
		return &sample{kind, &s}
	}
	panic("bad kind")
}

// view is what the harness itself reads off an object: type, domain, own epoch, own message root,
// signature, slot / subcommittee / validator index the object names. Written by hand per type; it
// does not call core's Eth2SignedData methods.
type view struct {
	ty      int
	dom     int // -1: not an eth2 signed object
	epoch   *uint64
	root    *[32]byte
	sig     [96]byte
	slot    uint64
	subcomm uint64
	valIdx  *uint64
}

func p0AttOf(v *eth2spec.VersionedAttestation) (*eth2p0.AttestationData, *eth2p0.BLSSignature, bool) {
	var a *eth2p0.Attestation
	switch v.Version {
	case eth2spec.DataVersionPhase0:
		a = v.Phase0
	case eth2spec.DataVersionAltair:
		a = v.Altair
	case eth2spec.DataVersionBellatrix:
		a = v.Bellatrix
	case eth2spec.DataVersionCapella:
		a = v.Capella
	case eth2spec.DataVersionDeneb:
		a = v.Deneb
	case eth2spec.DataVersionElectra:
		if v.Electra == nil {
			return nil, nil, false
		}
		return v.Electra.Data, &v.Electra.Signature, true
	case eth2spec.DataVersionFulu:
		if v.Fulu == nil {
			return nil, nil, false
		}
		return v.Fulu.Data, &v.Fulu.Signature, true
	default:
		return nil, nil, false
	}
	if a == nil {
		return nil, nil, false
	}
	return a.Data, &a.Signature, true
}

type htr interface{ HashTreeRoot() ([32]byte, error) }

// propParts returns the block message, its slot, proposer index and a pointer to the signature.
func propParts(p *eth2api.VersionedSignedProposal) (htr, uint64, uint64, *eth2p0.BLSSignature, bool) {
	switch p.Version {
	case eth2spec.DataVersionPhase0:
		if p.Phase0 != nil {
			return p.Phase0.Message, uint64(p.Phase0.Message.Slot), uint64(p.Phase0.Message.ProposerIndex), &p.Phase0.Signature, true
		}
	case eth2spec.DataVersionAltair:
		if p.Altair != nil {
			return p.Altair.Message, uint64(p.Altair.Message.Slot), uint64(p.Altair.Message.ProposerIndex), &p.Altair.Signature, true
		}
	case eth2spec.DataVersionBellatrix:
		if p.Blinded && p.BellatrixBlinded != nil {
			return p.BellatrixBlinded.Message, uint64(p.BellatrixBlinded.Message.Slot), uint64(p.BellatrixBlinded.Message.ProposerIndex), &p.BellatrixBlinded.Signature, true
		}
		if !p.Blinded && p.Bellatrix != nil {
			return p.Bellatrix.Message, uint64(p.Bellatrix.Message.Slot), uint64(p.Bellatrix.Message.ProposerIndex), &p.Bellatrix.Signature, true
		}
	case eth2spec.DataVersionCapella:
		if p.Blinded && p.CapellaBlinded != nil {
			return p.CapellaBlinded.Message, uint64(p.CapellaBlinded.Message.Slot), uint64(p.CapellaBlinded.Message.ProposerIndex), &p.CapellaBlinded.Signature, true
		}
		if !p.Blinded && p.Capella != nil {
			return p.Capella.Message, uint64(p.Capella.Message.Slot), uint64(p.Capella.Message.ProposerIndex), &p.Capella.Signature, true
		}
	case eth2spec.DataVersionDeneb:
		if p.Blinded && p.DenebBlinded != nil {
			return p.DenebBlinded.Message, uint64(p.DenebBlinded.Message.Slot), uint64(p.DenebBlinded.Message.ProposerIndex), &p.DenebBlinded.Signature, true
		}
		if !p.Blinded && p.Deneb != nil {
			return p.Deneb.SignedBlock.Message, uint64(p.Deneb.SignedBlock.Message.Slot), uint64(p.Deneb.SignedBlock.Message.ProposerIndex), &p.Deneb.SignedBlock.Signature, true
		}
	case eth2spec.DataVersionElectra:
		if p.Blinded && p.ElectraBlinded != nil {
			return p.ElectraBlinded.Message, uint64(p.ElectraBlinded.Message.Slot), uint64(p.ElectraBlinded.Message.ProposerIndex), &p.ElectraBlinded.Signature, true
		}
		if !p.Blinded && p.Electra != nil {
			return p.Electra.SignedBlock.Message, uint64(p.Electra.SignedBlock.Message.Slot), uint64(p.Electra.SignedBlock.Message.ProposerIndex), &p.Electra.SignedBlock.Signature, true
		}
	case eth2spec.DataVersionFulu:
		if p.Blinded && p.FuluBlinded != nil {
			return p.FuluBlinded.Message, uint64(p.FuluBlinded.Message.Slot), uint64(p.FuluBlinded.Message.ProposerIndex), &p.FuluBlinded.Signature, true
		}
		if !p.Blinded && p.Fulu != nil {
			return p.Fulu.SignedBlock.Message, uint64(p.Fulu.SignedBlock.Message.Slot), uint64(p.Fulu.SignedBlock.Message.ProposerIndex), &p.Fulu.SignedBlock.Signature, true
		}
	}
	return nil, 0, 0, nil, false
}

func asProposal(s *sample) *eth2api.VersionedSignedProposal {
	if s.kind == kProp {
		return s.obj.(*eth2api.VersionedSignedProposal)
	}
	bp := s.obj.(*eth2api.VersionedSignedBlindedProposal)
	return &eth2api.VersionedSignedProposal{Version: bp.Version, Blinded: true, BellatrixBlinded: bp.Bellatrix,
		CapellaBlinded: bp.Capella, DenebBlinded: bp.Deneb, ElectraBlinded: bp.Electra, FuluBlinded: bp.Fulu}
}

// aggParts: message, slot, aggregator index, inner selection proof, signature pointer.
func aggParts(v *eth2spec.VersionedSignedAggregateAndProof) (htr, uint64, uint64, eth2p0.BLSSignature, *eth2p0.BLSSignature, bool) {
	var a *eth2p0.SignedAggregateAndProof
	switch v.Version {
	case eth2spec.DataVersionPhase0:
		a = v.Phase0
	case eth2spec.DataVersionAltair:
		a = v.Altair
	case eth2spec.DataVersionBellatrix:
		a = v.Bellatrix
	case eth2spec.DataVersionCapella:
		a = v.Capella
	case eth2spec.DataVersionDeneb:
		a = v.Deneb
	case eth2spec.DataVersionElectra, eth2spec.DataVersionFulu:
		e := v.Electra
		if v.Version == eth2spec.DataVersionFulu {
			e = v.Fulu
		}
		if e == nil {
			return nil, 0, 0, eth2p0.BLSSignature{}, nil, false
		}
		return e.Message, uint64(e.Message.Aggregate.Data.Slot), uint64(e.Message.AggregatorIndex), e.Message.SelectionProof, &e.Signature, true
	default:
		return nil, 0, 0, eth2p0.BLSSignature{}, nil, false
	}
	if a == nil {
		return nil, 0, 0, eth2p0.BLSSignature{}, nil, false
	}
	return a.Message, uint64(a.Message.Aggregate.Data.Slot), uint64(a.Message.AggregatorIndex), a.Message.SelectionProof, &a.Signature, true
}

func mustRoot(h htr) *[32]byte {
	r, err := h.HashTreeRoot()
	if err != nil {
		return nil
	}
	return &r
}

func up(x uint64) *uint64 { return &x }

// sigPtr returns a pointer to the object's signature bytes (nil if the shape is broken).
func (s *sample) sigPtr() *eth2p0.BLSSignature {
	switch s.kind {
	case kAtt:
		_, sp, _ := p0AttOf(s.obj.(*eth2spec.VersionedAttestation))
		return sp
	case kRandao:
		return &s.obj.(*randaoS).Signature
	case kProp, kBProp:
		_, _, _, sp, _ := propParts(asProposal(s))
		return sp
	case kExit:
		return &s.obj.(*eth2p0.SignedVoluntaryExit).Signature
	case kBcSel:
		return &s.obj.(*eth2v1.BeaconCommitteeSelection).SelectionProof
	case kAgg:
		_, _, _, _, sp, _ := aggParts(s.obj.(*eth2spec.VersionedSignedAggregateAndProof))
		return sp
	case kOldAgg:
		return &s.obj.(*eth2p0.SignedAggregateAndProof).Signature
	case kSyncMsg:
		return &s.obj.(*altair.SyncCommitteeMessage).Signature
	case kContrib:
		return &s.obj.(*altair.SignedContributionAndProof).Signature
	case kSyncSel:
		return &s.obj.(*eth2v1.SyncCommitteeSelection).SelectionProof
	case kReg:
		return &s.obj.(*eth2api.VersionedSignedValidatorRegistration).V1.Signature
	}
	return nil
}

func (s *sample) view() view {
	v := view{dom: -1}
	if sp := s.sigPtr(); sp != nil {
		v.sig = *sp
	}
	switch s.kind {
	case kAtt:
		v.ty, v.dom = tyAttestation, domAttester
		va := s.obj.(*eth2spec.VersionedAttestation)
		v.valIdx = nil
		if va.ValidatorIndex != nil {
			v.valIdx = up(uint64(*va.ValidatorIndex))
		}
		if d, _, ok := p0AttOf(va); ok && d != nil && d.Target != nil && d.Source != nil {
			v.epoch, v.root, v.slot = up(uint64(d.Target.Epoch)), mustRoot(d), uint64(d.Slot)
		}
	case kRandao:
		r := s.obj.(*randaoS)
		v.ty, v.dom = tyRandao, domRandao
		v.epoch, v.slot = up(uint64(r.epoch())), uint64(r.Slot)
		rt := u64Root(uint64(r.epoch()))
		v.root = &rt
	case kProp, kBProp:
		v.ty, v.dom = tyProposal, domProposer
		if m, slot, pi, _, ok := propParts(asProposal(s)); ok {
			v.root, v.slot, v.valIdx = mustRoot(m), slot, up(pi)
			// the object's epoch comes from the Slot accessor of the go-eth2-client type, which (in the
			// fork the repo pins) knows no pre-merge block versions: such proposals have no epoch
			if _, err := asProposal(s).Slot(); err == nil {
				v.epoch = up(slot / spe)
			}
		}
	case kExit:
		e := s.obj.(*eth2p0.SignedVoluntaryExit)
		v.ty, v.dom = tyExit, domExit
		v.epoch, v.root, v.slot, v.valIdx = up(uint64(e.Message.Epoch)), mustRoot(e.Message), uint64(e.Message.Epoch)*spe, up(uint64(e.Message.ValidatorIndex))
	case kBcSel:
		b := s.obj.(*eth2v1.BeaconCommitteeSelection)
		v.ty, v.dom = tyBcSelection, domSelection
		rt := u64Root(uint64(b.Slot))
		v.epoch, v.root, v.slot, v.valIdx = up(uint64(b.Slot)/spe), &rt, uint64(b.Slot), up(uint64(b.ValidatorIndex))
	case kAgg:
		v.ty, v.dom = tyVAggProof, domAggAndProof
		if m, slot, ai, _, _, ok := aggParts(s.obj.(*eth2spec.VersionedSignedAggregateAndProof)); ok {
			v.epoch, v.root, v.slot, v.valIdx = up(slot/spe), mustRoot(m), slot, up(ai)
		}
	case kOldAgg:
		a := s.obj.(*eth2p0.SignedAggregateAndProof)
		v.ty, v.dom = tyAggProof, domAggAndProof
		slot := uint64(a.Message.Aggregate.Data.Slot)
		v.epoch, v.root, v.slot, v.valIdx = up(slot/spe), mustRoot(a.Message), slot, up(uint64(a.Message.AggregatorIndex))
	case kSyncMsg:
		m := s.obj.(*altair.SyncCommitteeMessage)
		v.ty, v.dom = tySyncMessage, domSyncComm
		rt := [32]byte(m.BeaconBlockRoot)
		v.epoch, v.root, v.slot, v.valIdx = up(uint64(m.Slot)/spe), &rt, uint64(m.Slot), up(uint64(m.ValidatorIndex))
	case kContrib:
		c := s.obj.(*altair.SignedContributionAndProof)
		v.ty, v.dom = tyContribution, domContribAndProof
		slot := uint64(c.Message.Contribution.Slot)
		v.epoch, v.root, v.slot, v.subcomm, v.valIdx = up(slot/spe), mustRoot(c.Message), slot, c.Message.Contribution.SubcommitteeIndex, up(uint64(c.Message.AggregatorIndex))
	case kSyncSel:
		x := s.obj.(*eth2v1.SyncCommitteeSelection)
		v.ty, v.dom = tySyncSelection, domSyncSelection
		d := &altair.SyncAggregatorSelectionData{Slot: x.Slot, SubcommitteeIndex: x.SubcommitteeIndex}
		v.epoch, v.root, v.slot, v.subcomm, v.valIdx = up(uint64(x.Slot)/spe), mustRoot(d), uint64(x.Slot), x.SubcommitteeIndex, up(uint64(x.ValidatorIndex))
	case kReg:
		r := s.obj.(*eth2api.VersionedSignedValidatorRegistration)
		v.ty, v.dom = tyRegistration, domBuilder
		v.epoch, v.root = up(0), mustRoot(r.V1.Message)
	case kRaw:
		v.ty = tyRawSig
		copy(v.sig[:], *s.obj.(*core.Signature))
	}
	return v
}

func (s *sample) setSig(sig [96]byte) {
	if s.kind == kRaw {
		b := core.Signature(append([]byte(nil), sig[:]...))
		*s.obj.(*core.Signature) = b
		return
	}
	if sp := s.sigPtr(); sp != nil {
		*sp = sig
	}
}

// toCore wraps (a deep copy of) the object with the repo's own constructors.
func (s *sample) toCore(shareIdx int) (core.ParSignedData, error) {
	switch s.kind {
	case kAtt:
		return core.NewPartialVersionedAttestation(s.obj.(*eth2spec.VersionedAttestation), shareIdx)
	case kRandao:
		r := s.obj.(*randaoS)
		return core.NewPartialSignedRandao(r.epoch(), r.Signature, shareIdx), nil
	case kProp:
		return core.NewPartialVersionedSignedProposal(s.obj.(*eth2api.VersionedSignedProposal), shareIdx)
	case kBProp:
		return core.NewPartialVersionedSignedBlindedProposal(s.obj.(*eth2api.VersionedSignedBlindedProposal), shareIdx)
	case kExit:
		return core.NewPartialSignedVoluntaryExit(s.obj.(*eth2p0.SignedVoluntaryExit), shareIdx), nil
	case kBcSel:
		return core.NewPartialSignedBeaconCommitteeSelection(s.obj.(*eth2v1.BeaconCommitteeSelection), shareIdx), nil
	case kAgg:
		return core.NewPartialVersionedSignedAggregateAndProof(s.obj.(*eth2spec.VersionedSignedAggregateAndProof), shareIdx), nil
	case kOldAgg:
		return core.NewPartialSignedAggregateAndProof(s.obj.(*eth2p0.SignedAggregateAndProof), shareIdx), nil
	case kSyncMsg:
		return core.NewPartialSignedSyncMessage(s.obj.(*altair.SyncCommitteeMessage), shareIdx), nil
	case kContrib:
		return core.NewPartialSignedSyncContributionAndProof(s.obj.(*altair.SignedContributionAndProof), shareIdx), nil
	case kSyncSel:
		return core.NewPartialSignedSyncCommitteeSelection(s.obj.(*eth2v1.SyncCommitteeSelection), shareIdx), nil
	case kReg:
		return core.NewPartialVersionedSignedValidatorRegistration(s.obj.(*eth2api.VersionedSignedValidatorRegistration), shareIdx)
	case kRaw:
		return core.NewPartialSignature(*s.obj.(*core.Signature), shareIdx), nil
	}
	panic("bad kind")
}

// =============================================================================================
// reflection walk: every leaf field of the submitted object

type leaf struct {
	v    reflect.Value
	path string
}

var bigIntT = reflect.TypeOf(big.Int{})
var timeT = reflect.TypeOf(time.Time{})

func walk(v reflect.Value, path string, out *[]leaf) {
	switch v.Kind() {
	case reflect.Ptr:
		if !v.IsNil() {
			walk(v.Elem(), path, out)
		}
	case reflect.Struct:
		if v.Type() == bigIntT {
			return
		}
		if v.Type() == timeT {
			*out = append(*out, leaf{v, path})
			return
		}
		for i := 0; i < v.NumField(); i++ {
			if v.Type().Field(i).IsExported() {
				walk(v.Field(i), path+"."+v.Type().Field(i).Name, out)
			}
		}
	case reflect.Array, reflect.Slice:
		if v.Type().Elem().Kind() == reflect.Uint8 {
			if v.Len() > 0 {
				*out = append(*out, leaf{v, path})
			}
			return
		}
		for i := 0; i < v.Len(); i++ {
			walk(v.Index(i), fmt.Sprintf("%s[%d]", path, i), out)
		}
	case reflect.Uint8, reflect.Uint16, reflect.Uint32, reflect.Uint64, reflect.Uint, reflect.Int, reflect.Int32, reflect.Int64, reflect.Bool:
		*out = append(*out, leaf{v, path})
	}
}

func leavesOf(obj any) []leaf {
	var out []leaf
	walk(reflect.ValueOf(obj), "", &out)
	return out
}

// mutate changes the leaf (flips one bit chosen by `bit`); returns a short description.
func mutate(l leaf, bit uint64) {
	v := l.v
	switch v.Kind() {
	case reflect.Bool:
		v.SetBool(!v.Bool())
	case reflect.Uint8, reflect.Uint16, reflect.Uint32, reflect.Uint64, reflect.Uint:
		v.SetUint(v.Uint() ^ (1 << (bit % uint64(v.Type().Bits()))))
	case reflect.Int, reflect.Int32, reflect.Int64:
		v.SetInt(v.Int() ^ (1 << (bit % uint64(v.Type().Bits()-1))))
	case reflect.Array, reflect.Slice:
		i := int(bit/8) % v.Len()
		e := v.Index(i)
		e.SetUint(e.Uint() ^ (1 << (bit % 8)))
	case reflect.Struct: // time.Time
		t := v.Interface().(time.Time)
		v.Set(reflect.ValueOf(t.Add(time.Second)))
	}
}

// =============================================================================================
// interning (per episode) and small helpers

type episode struct {
	cl      *cluster
	roots   map[[32]byte]int
	sigs    map[[96]byte]int
	objs    map[[32]byte]int
	vals    map[string]int
	keyIDs  map[tbls.PublicKey]int
	servers map[string]*server
}

func (e *episode) rootID(r [32]byte) int {
	if id, ok := e.roots[r]; ok {
		return id
	}
	e.roots[r] = len(e.roots) + 1
	return len(e.roots)
}

func (e *episode) sigID(s [96]byte) int {
	if s == ([96]byte{}) {
		return 0
	}
	if id, ok := e.sigs[s]; ok {
		return id
	}
	e.sigs[s] = len(e.sigs) + 1
	return len(e.sigs)
}

func (e *episode) objID(sd any) int {
	b, err := json.Marshal(sd)
	if err != nil {
		b = []byte("unmarshalable:" + err.Error())
	}
	h := sha256.Sum256(b)
	if id, ok := e.objs[h]; ok {
		return id
	}
	e.objs[h] = len(e.objs) + 1
	return len(e.objs)
}

// validator id of a core pubkey: cluster validators 1..m, anything else interned from 100.
func (e *episode) valID(pk core.PubKey) int {
	for i, c := range e.cl.corePks {
		if c == pk {
			return i + 1
		}
	}
	if id, ok := e.vals[string(pk)]; ok {
		return id
	}
	e.vals[string(pk)] = 100 + len(e.vals)
	return e.vals[string(pk)]
}

func (e *episode) lockStr() string {
	var vs []string
	for i, pk := range e.cl.corePks {
		var idxs []int
		for idx := range e.cl.pubshares[pk] {
			idxs = append(idxs, idx)
		}
		sort.Ints(idxs)
		var ps []string
		for _, idx := range idxs {
			ps = append(ps, fmt.Sprintf("%d.%d", idx, e.keyIDs[e.cl.pubshares[pk][idx]]))
		}
		vs = append(vs, fmt.Sprintf("%d:%s", i+1, strings.Join(ps, ",")))
	}
	return strings.Join(vs, ";")
}

func optU(p *uint64) string {
	if p == nil {
		return "x"
	}
	return strconv.FormatUint(*p, 10)
}

func b01(b bool) string {
	if b {
		return "1"
	}
	return "0"
}

func dashIfEmpty(s string) string {
	if s == "" {
		return "-"
	}
	return s
}

// objStr renders the abstract object `id:ty:epoch:root:sig`.
func (e *episode) objStr(id int, v view) string {
	root := "x"
	if v.root != nil {
		root = strconv.Itoa(e.rootID(*v.root))
	}
	return fmt.Sprintf("%d:%d:%s:%s:%d", id, v.ty, optU(v.epoch), root, e.sigID(v.sig))
}

// factsFor returns the (key,dom,epoch,root,sig) tuples on which tbls.Verify accepts the view's
// signature, trying every key of the cluster (keys are distinct: at most one can accept).
func (e *episode) factsFor(v view, facts map[string]bool) (okKey *tbls.PublicKey) {
	if v.dom < 0 || v.epoch == nil || v.root == nil || v.sig == ([96]byte{}) {
		return nil
	}
	sr := signingRoot(v.dom, *v.epoch, *v.root)
	for i := range e.cl.allKeys {
		k := e.cl.allKeys[i]
		if tbls.Verify(k, sr[:], tbls.Signature(v.sig)) == nil {
			facts[fmt.Sprintf("%d.%d.%d.%d.%d", e.keyIDs[k], v.dom, *v.epoch, e.rootID(*v.root), e.sigID(v.sig))] = true
			return &k
		}
	}
	return nil
}

func sortedKeys(m map[string]bool) string {
	var ks []string
	for k := range m {
		ks = append(ks, k)
	}
	sort.Strings(ks)
	return strings.Join(ks, ",")
}

// =============================================================================================
// signing with substitutions

type signPlan struct {
	secret    tbls.PrivateKey
	dom       int   // -1: the object's own
	forkEpoch int64 // -1: the object's own epoch
	otherGVR  bool
}

func signView(v view, p signPlan) ([96]byte, bool) {
	if v.dom < 0 || v.epoch == nil || v.root == nil {
		return [96]byte{}, false
	}
	dom, fe, gvr := v.dom, *v.epoch, genesisVR
	if p.dom >= 0 {
		dom = p.dom
	}
	if p.forkEpoch >= 0 {
		fe = uint64(p.forkEpoch)
	}
	if p.otherGVR {
		gvr[5] ^= 0x40
	}
	sr := signingRootWith(dom, fe, gvr, *v.root)
	sig, err := tbls.Sign(p.secret, sr[:])
	hx.Must(err)
	return [96]byte(sig), true
}

// secretFor picks the signing key of an item: validator position `val` (-1 the extra validator,
// -2 nobody: the extra key again), share index `share` (0: the group secret).
func (c *cluster) secretFor(val, share int) tbls.PrivateKey {
	if val < 0 || val >= c.m {
		return c.xSecret
	}
	if share == 0 {
		return c.secrets[val]
	}
	if s, ok := c.shares[val][share]; ok {
		return s
	}
	return c.xSecret
}

type alt struct {
	kind string
	a, b uint64
}

func parseAlt(s string) alt {
	p := strings.Split(s, ".")
	al := alt{kind: p[0]}
	if len(p) > 1 {
		al.a, _ = strconv.ParseUint(p[1], 10, 64)
	}
	if len(p) > 2 {
		al.b, _ = strconv.ParseUint(p[2], 10, 64)
	}
	return al
}

func (a alt) String() string {
	switch a.kind {
	case "field", "wire":
		return fmt.Sprintf("%s.%d.%d", a.kind, a.a, a.b)
	case "share", "val", "dom", "fork", "idx", "key":
		return fmt.Sprintf("%s.%d", a.kind, a.a)
	}
	return a.kind
}

// signSample signs the sample as validator `val`'s share `share` would, bent by the alteration.
func signSample(c *cluster, s *sample, val, share int, a alt, r *hx.Rng) {
	plan := signPlan{secret: c.secretFor(val, share), dom: -1, forkEpoch: -1}
	switch a.kind {
	case "share":
		plan.secret = c.secretFor(val, int(a.a))
	case "val":
		plan.secret = c.secretFor(int(a.a), share)
	case "group":
		plan.secret = c.secretFor(val, 0)
	case "dom":
		plan.dom = int(a.a)
	case "fork":
		plan.forkEpoch = int64(a.a)
	case "gvr":
		plan.otherGVR = true
	}
	v := s.view()
	sig, ok := signView(v, plan)
	if !ok {
		return
	}
	switch a.kind {
	case "zero":
		sig = [96]byte{}
	case "inf":
		sig = [96]byte{0xc0}
	case "rand":
		for i := range sig {
			sig[i] = byte(r.U64())
		}
	case "negate": // flip the sign bit of the compressed point: -sig, a valid point that does not verify
		sig[0] ^= 0x20
	}
	s.setSig(sig)
}

// setInnerProof fills the group-signed inner selection proof of aggregate / contribution objects.
func setInnerProof(c *cluster, s *sample, val int, how string) {
	sec := c.secretFor(val, 0)
	if how == "innershare" {
		sec = c.secretFor(val, 1)
	}
	var sr [32]byte
	var dst *eth2p0.BLSSignature
	switch s.kind {
	case kAgg:
		v := s.obj.(*eth2spec.VersionedSignedAggregateAndProof)
		_, slot, _, _, _, ok := aggParts(v)
		if !ok {
			return
		}
		sr = signingRoot(domSelection, slot/spe, u64Root(slot))
		switch {
		case v.Electra != nil:
			dst = &v.Electra.Message.SelectionProof
		case v.Fulu != nil:
			dst = &v.Fulu.Message.SelectionProof
		default:
			for _, a := range []*eth2p0.SignedAggregateAndProof{v.Phase0, v.Altair, v.Bellatrix, v.Capella, v.Deneb} {
				if a != nil {
					dst = &a.Message.SelectionProof
				}
			}
		}
	case kOldAgg:
		a := s.obj.(*eth2p0.SignedAggregateAndProof)
		slot := uint64(a.Message.Aggregate.Data.Slot)
		sr = signingRoot(domSelection, slot/spe, u64Root(slot))
		dst = &a.Message.SelectionProof
	case kContrib:
		cp := s.obj.(*altair.SignedContributionAndProof)
		d := &altair.SyncAggregatorSelectionData{Slot: cp.Message.Contribution.Slot, SubcommitteeIndex: cp.Message.Contribution.SubcommitteeIndex}
		rt, err := d.HashTreeRoot()
		hx.Must(err)
		sr = signingRoot(domSyncSelection, uint64(cp.Message.Contribution.Slot)/spe, rt)
		dst = &cp.Message.SelectionProof
	default:
		return
	}
	sig, err := tbls.Sign(sec, sr[:])
	hx.Must(err)
	*dst = eth2p0.BLSSignature(sig)
	switch how {
	case "innerzero":
		*dst = eth2p0.BLSSignature{}
	case "innerbad":
		dst[40] ^= 1
	}
}

// innerOK is the harness's own check of the inner selection proof under group key `pub`.
func innerOK(s *sample, pub tbls.PublicKey) bool {
	var sr [32]byte
	var proof eth2p0.BLSSignature
	switch s.kind {
	case kAgg:
		_, slot, _, pr, _, ok := aggParts(s.obj.(*eth2spec.VersionedSignedAggregateAndProof))
		if !ok {
			return false
		}
		sr, proof = signingRoot(domSelection, slot/spe, u64Root(slot)), pr
	case kContrib:
		cp := s.obj.(*altair.SignedContributionAndProof)
		d := &altair.SyncAggregatorSelectionData{Slot: cp.Message.Contribution.Slot, SubcommitteeIndex: cp.Message.Contribution.SubcommitteeIndex}
		rt, err := d.HashTreeRoot()
		if err != nil {
			return false
		}
		sr, proof = signingRoot(domSyncSelection, uint64(cp.Message.Contribution.Slot)/spe, rt), cp.Message.SelectionProof
	default:
		return true
	}
	if proof == (eth2p0.BLSSignature{}) {
		return false
	}
	return tbls.Verify(pub, sr[:], tbls.Signature(proof)) == nil
}
func (c *cluster) valIdxOf(pos int) uint64 {
	switch {
	case pos >= 0 && pos < c.m:
		return uint64(valIdxBase + pos)
	case pos == -1:
		return xValIdx
	}
	return 777
}

func (c *cluster) corePkOf(pos int) (core.PubKey, bool) {
	switch {
	case pos >= 0 && pos < c.m:
		return c.corePks[pos], true
	case pos == -1:
		pk, err := core.PubKeyFromBytes(c.xPub[:])
		hx.Must(err)
		return pk, true
	}
	return "", false
}

func (c *cluster) groupPubOf(pos int) (tbls.PublicKey, bool) {
	switch {
	case pos >= 0 && pos < c.m:
		return c.pubkeys[pos], true
	case pos == -1:
		return c.xPub, true
	}
	return tbls.PublicKey{}, false
}

// environment of one VC call: what the registered input functions answer.
type attDuty struct {
	slot, commIdx, valIdx, vci, commLen uint64
	pk                                  core.PubKey
}

type obsCall struct {
	sub  int
	duty core.Duty
	set  core.ParSignedDataSet
}

var errSubFail = fmt.Errorf("harness-sub-fail")

// unsignedOf builds the consensus proposal (what dutydb would hold) for a signed proposal.
func unsignedOf(p *eth2api.VersionedSignedProposal) *eth2api.VersionedProposal {
	u := &eth2api.VersionedProposal{Version: p.Version, Blinded: p.Blinded}
	switch {
	case p.Phase0 != nil:
		u.Phase0 = p.Phase0.Message
	case p.Altair != nil:
		u.Altair = p.Altair.Message
	case p.Bellatrix != nil:
		u.Bellatrix = p.Bellatrix.Message
	case p.BellatrixBlinded != nil:
		u.BellatrixBlinded = p.BellatrixBlinded.Message
	case p.Capella != nil:
		u.Capella = p.Capella.Message
	case p.CapellaBlinded != nil:
		u.CapellaBlinded = p.CapellaBlinded.Message
	case p.Deneb != nil:
		u.Deneb = &eth2deneb.BlockContents{Block: p.Deneb.SignedBlock.Message, KZGProofs: p.Deneb.KZGProofs, Blobs: p.Deneb.Blobs}
	case p.DenebBlinded != nil:
		u.DenebBlinded = p.DenebBlinded.Message
	case p.Electra != nil:
		u.Electra = &eth2electra.BlockContents{Block: p.Electra.SignedBlock.Message, KZGProofs: p.Electra.KZGProofs, Blobs: p.Electra.Blobs}
	case p.ElectraBlinded != nil:
		u.ElectraBlinded = p.ElectraBlinded.Message
	case p.Fulu != nil:
		u.Fulu = &eth2fulu.BlockContents{Block: p.Fulu.SignedBlock.Message, KZGProofs: p.Fulu.KZGProofs, Blobs: p.Fulu.Blobs}
	case p.FuluBlinded != nil:
		u.FuluBlinded = p.FuluBlinded.Message
	}
	return u
}

// deepCopyJSON clones a go-eth2-client value through its JSON codec.
func deepCopyJSON[T any](src *T) *T {
	b, err := json.Marshal(src)
	hx.Must(err)
	dst := new(T)
	hx.Must(json.Unmarshal(b, dst))
	return dst
}

// consensusRootOf: version, blinded, proposer index and block root of a consensus proposal.
type propID struct {
	ver     eth2spec.DataVersion
	blinded bool
	pidx    uint64
	root    [32]byte
}

func propIDOfSigned(p *eth2api.VersionedSignedProposal) (propID, bool) {
	m, _, pi, _, ok := propParts(p)
	if !ok {
		return propID{}, false
	}
	r := mustRoot(m)
	if r == nil {
		return propID{}, false
	}
	return propID{p.Version, p.Blinded, pi, *r}, true
}
func subcommOfPayload(p core.ParSignedData) uint64 {
	switch d := p.SignedData.(type) {
	case core.SignedSyncContributionAndProof:
		return d.Message.Contribution.SubcommitteeIndex
	case core.SyncCommitteeSelection:
		return d.SubcommitteeIndex
	}
	return 0
}

// payloadView re-derives a sample from a delivered payload so that the monitors can judge it with
// the harness's own view.
func sampleOfCore(sd core.SignedData) *sample {
	switch d := sd.(type) {
	case core.VersionedAttestation:
		return &sample{kAtt, &d.VersionedAttestation}
	case core.VersionedSignedProposal:
		return &sample{kProp, &d.VersionedSignedProposal}
	case core.SignedVoluntaryExit:
		return &sample{kExit, &d.SignedVoluntaryExit}
	case core.VersionedSignedValidatorRegistration:
		return &sample{kReg, &d.VersionedSignedValidatorRegistration}
	case core.SignedRandao:
		return &sample{kRandao, &randaoS{Epoch: d.SignedEpoch.Epoch, Signature: d.SignedEpoch.Signature}}
	case core.BeaconCommitteeSelection:
		return &sample{kBcSel, &d.BeaconCommitteeSelection}
	case core.SignedAggregateAndProof:
		return &sample{kOldAgg, &d.SignedAggregateAndProof}
	case core.VersionedSignedAggregateAndProof:
		return &sample{kAgg, &d.VersionedSignedAggregateAndProof}
	case core.SignedSyncMessage:
		return &sample{kSyncMsg, &d.SyncCommitteeMessage}
	case core.SignedSyncContributionAndProof:
		return &sample{kContrib, &d.SignedContributionAndProof}
	case core.SyncCommitteeSelection:
		return &sample{kSyncSel, &d.SyncCommitteeSelection}
	case core.Signature:
		return &sample{kRaw, &d}
	}
	return nil
}
func (e *episode) renderCalls(calls []obsCall) string {
	var cs []string
	for _, c := range calls {
		type ent struct {
			v   int
			str string
		}
		var es []ent
		for pk, par := range c.set {
			es = append(es, ent{e.valID(pk), fmt.Sprintf("%d=%d@%d", e.valID(pk), e.objID(par.SignedData), par.ShareIdx)})
		}
		sort.Slice(es, func(i, j int) bool { return es[i].v < es[j].v })
		var ss []string
		for _, x := range es {
			ss = append(ss, x.str)
		}
		cs = append(cs, fmt.Sprintf("s%d:%d:%d:{%s}", c.sub, int(c.duty.Type), c.duty.Slot, strings.Join(ss, ",")))
	}
	return dashIfEmpty(strings.Join(cs, ";"))
}
func propIDOfUnsigned(p *eth2api.VersionedProposal) (propID, bool) {
	var m htr
	var pi uint64
	switch {
	case p.Version == eth2spec.DataVersionPhase0 && p.Phase0 != nil:
		m, pi = p.Phase0, uint64(p.Phase0.ProposerIndex)
	case p.Version == eth2spec.DataVersionAltair && p.Altair != nil:
		m, pi = p.Altair, uint64(p.Altair.ProposerIndex)
	case p.Version == eth2spec.DataVersionBellatrix && !p.Blinded && p.Bellatrix != nil:
		m, pi = p.Bellatrix, uint64(p.Bellatrix.ProposerIndex)
	case p.Version == eth2spec.DataVersionBellatrix && p.Blinded && p.BellatrixBlinded != nil:
		m, pi = p.BellatrixBlinded, uint64(p.BellatrixBlinded.ProposerIndex)
	case p.Version == eth2spec.DataVersionCapella && !p.Blinded && p.Capella != nil:
		m, pi = p.Capella, uint64(p.Capella.ProposerIndex)
	case p.Version == eth2spec.DataVersionCapella && p.Blinded && p.CapellaBlinded != nil:
		m, pi = p.CapellaBlinded, uint64(p.CapellaBlinded.ProposerIndex)
	case p.Version == eth2spec.DataVersionDeneb && !p.Blinded && p.Deneb != nil:
		m, pi = p.Deneb.Block, uint64(p.Deneb.Block.ProposerIndex)
	case p.Version == eth2spec.DataVersionDeneb && p.Blinded && p.DenebBlinded != nil:
		m, pi = p.DenebBlinded, uint64(p.DenebBlinded.ProposerIndex)
	case p.Version == eth2spec.DataVersionElectra && !p.Blinded && p.Electra != nil:
		m, pi = p.Electra.Block, uint64(p.Electra.Block.ProposerIndex)
	case p.Version == eth2spec.DataVersionElectra && p.Blinded && p.ElectraBlinded != nil:
		m, pi = p.ElectraBlinded, uint64(p.ElectraBlinded.ProposerIndex)
	case p.Version == eth2spec.DataVersionFulu && !p.Blinded && p.Fulu != nil:
		m, pi = p.Fulu.Block, uint64(p.Fulu.Block.ProposerIndex)
	case p.Version == eth2spec.DataVersionFulu && p.Blinded && p.FuluBlinded != nil:
		m, pi = p.FuluBlinded, uint64(p.FuluBlinded.ProposerIndex)
	default:
		return propID{}, false
	}
	r := mustRoot(m)
	if r == nil {
		return propID{}, false
	}
	return propID{p.Version, p.Blinded, pi, *r}, true
}
