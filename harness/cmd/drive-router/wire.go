// wire.go: what a validator client puts on the wire for a sample (go-eth2-client's own JSON / SSZ
// encoders), the harness's own decoding of a request body under a (content type, version) pair —
// written against the beacon API, not against router.go — the hand-written conversion of decoded wire
// elements into the versioned objects the Component must be handed, and body alterations.
package main

import (
	"bytes"
	"encoding/json"
	"errors"
	"fmt"
	"sort"
	"strings"

	"github.com/OffchainLabs/go-bitfield"
	eth2api "github.com/attestantio/go-eth2-client/api"
	eth2v1 "github.com/attestantio/go-eth2-client/api/v1"
	eth2bellatrix "github.com/attestantio/go-eth2-client/api/v1/bellatrix"
	eth2capella "github.com/attestantio/go-eth2-client/api/v1/capella"
	eth2deneb "github.com/attestantio/go-eth2-client/api/v1/deneb"
	eth2electra "github.com/attestantio/go-eth2-client/api/v1/electra"
	eth2fulu "github.com/attestantio/go-eth2-client/api/v1/fulu"
	eth2spec "github.com/attestantio/go-eth2-client/spec"
	"github.com/attestantio/go-eth2-client/spec/altair"
	"github.com/attestantio/go-eth2-client/spec/bellatrix"
	"github.com/attestantio/go-eth2-client/spec/capella"
	"github.com/attestantio/go-eth2-client/spec/electra"
	eth2p0 "github.com/attestantio/go-eth2-client/spec/phase0"
	ssz "github.com/ferranbt/fastssz"
)

// wireOf: the object a validator client sends for one element.
func wireOf(s *sample) any {
	switch s.kind {
	case kAtt:
		v := s.obj.(*eth2spec.VersionedAttestation)
		switch v.Version {
		case eth2spec.DataVersionPhase0:
			return v.Phase0
		case eth2spec.DataVersionAltair:
			return v.Altair
		case eth2spec.DataVersionBellatrix:
			return v.Bellatrix
		case eth2spec.DataVersionCapella:
			return v.Capella
		case eth2spec.DataVersionDeneb:
			return v.Deneb
		}
		a := v.Electra
		if v.Version == eth2spec.DataVersionFulu {
			a = v.Fulu
		}
		ci := uint64(0)
		if idx := a.CommitteeBits.BitIndices(); len(idx) > 0 {
			ci = uint64(idx[0])
		}
		return &electra.SingleAttestation{CommitteeIndex: eth2p0.CommitteeIndex(ci), AttesterIndex: *v.ValidatorIndex, Data: a.Data, Signature: a.Signature}
	case kProp:
		p := s.obj.(*eth2api.VersionedSignedProposal)
		switch p.Version {
		case eth2spec.DataVersionPhase0:
			return p.Phase0
		case eth2spec.DataVersionAltair:
			return p.Altair
		case eth2spec.DataVersionBellatrix:
			return p.Bellatrix
		case eth2spec.DataVersionCapella:
			return p.Capella
		case eth2spec.DataVersionDeneb:
			return p.Deneb
		case eth2spec.DataVersionElectra:
			return p.Electra
		}
		return p.Fulu
	case kBProp:
		p := s.obj.(*eth2api.VersionedSignedBlindedProposal)
		switch p.Version {
		case eth2spec.DataVersionBellatrix:
			return p.Bellatrix
		case eth2spec.DataVersionCapella:
			return p.Capella
		case eth2spec.DataVersionDeneb:
			return p.Deneb
		case eth2spec.DataVersionElectra:
			return p.Electra
		}
		return p.Fulu
	case kAgg:
		v := s.obj.(*eth2spec.VersionedSignedAggregateAndProof)
		switch v.Version {
		case eth2spec.DataVersionPhase0:
			return v.Phase0
		case eth2spec.DataVersionAltair:
			return v.Altair
		case eth2spec.DataVersionBellatrix:
			return v.Bellatrix
		case eth2spec.DataVersionCapella:
			return v.Capella
		case eth2spec.DataVersionDeneb:
			return v.Deneb
		case eth2spec.DataVersionElectra:
			return v.Electra
		}
		return v.Fulu
	case kReg:
		return s.obj.(*eth2api.VersionedSignedValidatorRegistration).V1
	}
	return s.obj
}

// sigOfWire: pointer to the signature bytes of a wire object.
func sigOfWire(w any) *eth2p0.BLSSignature {
	switch x := w.(type) {
	case *eth2p0.Attestation:
		return &x.Signature
	case *electra.SingleAttestation:
		return &x.Signature
	}
	return nil
}

// sampleOfWire: the versioned object a correct router hands to the Component for a decoded wire
// element under consensus version `ver` (nil: the element has not the shape of that version).
func sampleOfWire(kind, ver int, w any) *sample {
	V := versions[ver]
	switch kind {
	case kAtt:
		v := &eth2spec.VersionedAttestation{Version: V}
		if ver <= 4 {
			a, ok := w.(*eth2p0.Attestation)
			if !ok {
				return nil
			}
			switch ver {
			case 0:
				v.Phase0 = a
			case 1:
				v.Altair = a
			case 2:
				v.Bellatrix = a
			case 3:
				v.Capella = a
			case 4:
				v.Deneb = a
			}
			return &sample{kAtt, v}
		}
		sa, ok := w.(*electra.SingleAttestation)
		if !ok {
			return nil
		}
		// beacon API / consensus spec: a SingleAttestation names its committee and its attester; the
		// versioned object carries them as the single committee bit and the validator index. The
		// aggregation bits are not part of a SingleAttestation.
		cb := bitfield.NewBitvector64()
		if uint64(sa.CommitteeIndex) < 64 {
			cb.SetBitAt(uint64(sa.CommitteeIndex), true)
		}
		vi := sa.AttesterIndex
		v.ValidatorIndex = &vi
		att := &electra.Attestation{AggregationBits: bitfield.NewBitlist(0), Data: sa.Data, Signature: sa.Signature, CommitteeBits: cb}
		if ver == 5 {
			v.Electra = att
		} else {
			v.Fulu = att
		}
		return &sample{kAtt, v}
	case kProp:
		p := &eth2api.VersionedSignedProposal{Version: V}
		ok := false
		switch ver {
		case 0:
			p.Phase0, ok = w.(*eth2p0.SignedBeaconBlock)
		case 1:
			p.Altair, ok = w.(*altair.SignedBeaconBlock)
		case 2:
			p.Bellatrix, ok = w.(*bellatrix.SignedBeaconBlock)
		case 3:
			p.Capella, ok = w.(*capella.SignedBeaconBlock)
		case 4:
			p.Deneb, ok = w.(*eth2deneb.SignedBlockContents)
		case 5:
			p.Electra, ok = w.(*eth2electra.SignedBlockContents)
		case 6:
			p.Fulu, ok = w.(*eth2fulu.SignedBlockContents)
		}
		if !ok {
			return nil
		}
		return &sample{kProp, p}
	case kBProp:
		p := &eth2api.VersionedSignedBlindedProposal{Version: V}
		ok := false
		switch ver {
		case 2:
			p.Bellatrix, ok = w.(*eth2bellatrix.SignedBlindedBeaconBlock)
		case 3:
			p.Capella, ok = w.(*eth2capella.SignedBlindedBeaconBlock)
		case 4:
			p.Deneb, ok = w.(*eth2deneb.SignedBlindedBeaconBlock)
		case 5:
			p.Electra, ok = w.(*eth2electra.SignedBlindedBeaconBlock)
		case 6:
			p.Fulu, ok = w.(*eth2electra.SignedBlindedBeaconBlock)
		}
		if !ok {
			return nil
		}
		return &sample{kBProp, p}
	case kAgg:
		v := &eth2spec.VersionedSignedAggregateAndProof{Version: V}
		if ver <= 4 {
			a, ok := w.(*eth2p0.SignedAggregateAndProof)
			if !ok {
				return nil
			}
			switch ver {
			case 0:
				v.Phase0 = a
			case 1:
				v.Altair = a
			case 2:
				v.Bellatrix = a
			case 3:
				v.Capella = a
			case 4:
				v.Deneb = a
			}
			return &sample{kAgg, v}
		}
		a, ok := w.(*electra.SignedAggregateAndProof)
		if !ok {
			return nil
		}
		if ver == 5 {
			v.Electra = a
		} else {
			v.Fulu = a
		}
		return &sample{kAgg, v}
	case kExit:
		if x, ok := w.(*eth2p0.SignedVoluntaryExit); ok {
			return &sample{kExit, x}
		}
	case kBcSel:
		if x, ok := w.(*eth2v1.BeaconCommitteeSelection); ok {
			return &sample{kBcSel, x}
		}
	case kSyncMsg:
		if x, ok := w.(*altair.SyncCommitteeMessage); ok {
			return &sample{kSyncMsg, x}
		}
	case kContrib:
		if x, ok := w.(*altair.SignedContributionAndProof); ok {
			return &sample{kContrib, x}
		}
	case kSyncSel:
		if x, ok := w.(*eth2v1.SyncCommitteeSelection); ok {
			return &sample{kSyncSel, x}
		}
	}
	return nil
}

// encodeBody: JSON (array for batch routes) or SSZ (single objects only) of the wire objects.
func encodeBody(batch bool, enc string, ws []any) ([]byte, error) {
	if enc == "ssz" {
		if len(ws) != 1 {
			return nil, errors.New("ssz: single objects only")
		}
		m, ok := ws[0].(ssz.Marshaler)
		if !ok {
			return nil, errors.New("ssz: not a marshaler")
		}
		return m.MarshalSSZ()
	}
	if batch {
		if ws == nil {
			ws = []any{}
		}
		return json.Marshal(ws)
	}
	if len(ws) != 1 {
		return nil, errors.New("json: one object expected")
	}
	return json.Marshal(ws[0])
}

// decode outcomes of the harness's own decoder
const (
	decOK    = "ok"
	decEmpty = "empty" // zero-length body
	decFail  = "fail"  // not a well-formed encoding of the expected type
	decNoSSZ = "nossz" // the type has no SSZ encoding
)

func decList[T any](body []byte) ([]any, error) {
	var xs []*T
	if err := json.Unmarshal(body, &xs); err != nil {
		return nil, err
	}
	out := make([]any, len(xs))
	for i, x := range xs {
		if x != nil {
			out[i] = x
		}
	}
	return out, nil
}

func decOne[T any](enc string, body []byte) ([]any, string) {
	x := new(T)
	if enc == "json" {
		if err := json.Unmarshal(body, x); err != nil {
			return nil, decFail
		}
		return []any{x}, decOK
	}
	u, ok := any(x).(ssz.Unmarshaler)
	if !ok {
		return nil, decNoSSZ
	}
	if err := u.UnmarshalSSZ(body); err != nil {
		return nil, decFail
	}
	return []any{x}, decOK
}

func lst(xs []any, err error) ([]any, string) {
	if err != nil {
		return nil, decFail
	}
	return xs, decOK
}

// decodeWire: the wire elements of a body for sample kind `kind` under consensus version `ver`
// (ignored by the unversioned kinds) in encoding `enc`. A nil element stands for a JSON null in a list.
func decodeWire(kind, ver int, enc string, body []byte) (ws []any, outcome string) {
	if len(body) == 0 {
		return nil, decEmpty
	}
	defer func() {
		if p := recover(); p != nil { // a decoder of the library panicked: not a well-formed body
			ws, outcome = nil, decFail
		}
	}()
	switch kind {
	case kAtt:
		if enc != "json" {
			return nil, decNoSSZ
		}
		if ver <= 4 {
			return lst(decList[eth2p0.Attestation](body))
		}
		return lst(decList[electra.SingleAttestation](body))
	case kAgg:
		if enc != "json" {
			return nil, decNoSSZ
		}
		if ver <= 4 {
			return lst(decList[eth2p0.SignedAggregateAndProof](body))
		}
		return lst(decList[electra.SignedAggregateAndProof](body))
	case kBcSel:
		return lst(decList[eth2v1.BeaconCommitteeSelection](body))
	case kSyncMsg:
		return lst(decList[altair.SyncCommitteeMessage](body))
	case kContrib:
		return lst(decList[altair.SignedContributionAndProof](body))
	case kSyncSel:
		return lst(decList[eth2v1.SyncCommitteeSelection](body))
	case kExit:
		return decOne[eth2p0.SignedVoluntaryExit](enc, body)
	case kProp:
		switch ver {
		case 0:
			return decOne[eth2p0.SignedBeaconBlock](enc, body)
		case 1:
			return decOne[altair.SignedBeaconBlock](enc, body)
		case 2:
			return decOne[bellatrix.SignedBeaconBlock](enc, body)
		case 3:
			return decOne[capella.SignedBeaconBlock](enc, body)
		case 4:
			return decOne[eth2deneb.SignedBlockContents](enc, body)
		case 5:
			return decOne[eth2electra.SignedBlockContents](enc, body)
		case 6:
			return decOne[eth2fulu.SignedBlockContents](enc, body)
		}
	case kBProp:
		switch ver {
		case 2:
			return decOne[eth2bellatrix.SignedBlindedBeaconBlock](enc, body)
		case 3:
			return decOne[eth2capella.SignedBlindedBeaconBlock](enc, body)
		case 4:
			return decOne[eth2deneb.SignedBlindedBeaconBlock](enc, body)
		case 5, 6:
			return decOne[eth2electra.SignedBlindedBeaconBlock](enc, body)
		}
	}
	return nil, decFail
}

// =============================================================================================
// JSON tree alterations

type jnode struct {
	parent any // map[string]any or []any (nil: root)
	key    string
	idx    int
}

func jparse(body []byte) (any, bool) {
	d := json.NewDecoder(bytes.NewReader(body))
	d.UseNumber()
	var v any
	if err := d.Decode(&v); err != nil {
		return nil, false
	}
	return v, true
}

func jwalk(v any, self jnode, out *[]jnode) {
	*out = append(*out, self)
	switch x := v.(type) {
	case map[string]any:
		keys := make([]string, 0, len(x))
		for k := range x {
			keys = append(keys, k)
		}
		sort.Strings(keys)
		for _, k := range keys {
			jwalk(x[k], jnode{parent: x, key: k}, out)
		}
	case []any:
		for i := range x {
			jwalk(x[i], jnode{parent: x, idx: i}, out)
		}
	}
}

func jget(n jnode) any {
	switch p := n.parent.(type) {
	case map[string]any:
		return p[n.key]
	case []any:
		return p[n.idx]
	}
	return nil
}

func wrongType(v any, variant uint64) any {
	switch v.(type) {
	case map[string]any:
		return []any{[]any{}, "x", json.Number("7"), true}[variant%4]
	case []any:
		return []any{map[string]any{}, "x", json.Number("7"), false}[variant%4]
	case string:
		return []any{json.Number("7"), map[string]any{}, []any{}, true, json.Number("1.5")}[variant%5]
	default:
		return []any{"x", map[string]any{}, []any{}}[variant%3]
	}
}

var hugeNums = []string{"18446744073709551616", "-1", "340282366920938463463374607431768211456", "1e3", "0x10", "", " 1", "99999999999999999999999999999999999999999999", "1.0", "-0"}

// alterJSON applies a tree alteration; returns the new body and a description of the node hit
// (ok=false: the body is not JSON or has no suitable node).
func alterJSON(body []byte, how string, k, variant uint64) ([]byte, string, bool) {
	root, ok := jparse(body)
	if !ok {
		return nil, "", false
	}
	var nodes []jnode
	jwalk(root, jnode{}, &nodes)
	pick := func(pred func(jnode) bool) (jnode, bool) {
		var c []jnode
		for _, n := range nodes {
			if pred(n) {
				c = append(c, n)
			}
		}
		if len(c) == 0 {
			return jnode{}, false
		}
		return c[int(k%uint64(len(c)))], true
	}
	set := func(n jnode, v any) {
		switch p := n.parent.(type) {
		case map[string]any:
			p[n.key] = v
		case []any:
			p[n.idx] = v
		default:
			root = v
		}
	}
	descr := func(n jnode) string {
		switch n.parent.(type) {
		case map[string]any:
			return "." + n.key
		case []any:
			return "[]"
		}
		return "root"
	}
	var hit jnode
	switch how {
	case "jnull":
		n, _ := pick(func(jnode) bool { return true })
		hit = n
		set(n, nil)
	case "jtype":
		n, _ := pick(func(jnode) bool { return true })
		hit = n
		cur := root
		if n.parent != nil {
			cur = jget(n)
		}
		set(n, wrongType(cur, variant))
	case "jdel":
		n, ok := pick(func(n jnode) bool { _, isMap := n.parent.(map[string]any); return isMap })
		if !ok {
			return nil, "", false
		}
		hit = n
		delete(n.parent.(map[string]any), n.key)
	case "jnum":
		n, ok := pick(func(n jnode) bool {
			s, isStr := jget(n).(string)
			if !isStr || n.parent == nil || s == "" {
				return false
			}
			for _, c := range s {
				if c < '0' || c > '9' {
					return false
				}
			}
			return true
		})
		if !ok {
			return nil, "", false
		}
		hit = n
		set(n, hugeNums[variant%uint64(len(hugeNums))])
	case "jextra": // an unknown member is added to an object
		n, ok := pick(func(n jnode) bool {
			if n.parent == nil {
				_, isMap := root.(map[string]any)
				return isMap
			}
			_, isMap := jget(n).(map[string]any)
			return isMap
		})
		if !ok {
			return nil, "", false
		}
		hit = n
		var m map[string]any
		if n.parent == nil {
			m = root.(map[string]any)
		} else {
			m = jget(n).(map[string]any)
		}
		m["verif_unknown_member"] = "1"
	default:
		return nil, "", false
	}
	out, err := json.Marshal(root)
	if err != nil {
		return nil, "", false
	}
	return out, descr(hit), true
}

// alterBody applies a body-level alteration named in the recipe.
func alterBody(body []byte, a alt3) ([]byte, string) {
	n := uint64(len(body))
	switch a.kind {
	case "none":
		return body, ""
	case "empty":
		return []byte{}, ""
	case "emptyarr":
		return []byte("[]"), ""
	case "null":
		return []byte("null"), ""
	case "nullelem":
		return []byte("[null]"), ""
	case "wrap":
		return append(append([]byte(`{"data":`), body...), '}'), ""
	case "trunc":
		if n == 0 {
			return body, ""
		}
		return append([]byte(nil), body[:a.a%n]...), ""
	case "splice": // remove b bytes at a
		if n == 0 {
			return body, ""
		}
		at := a.a % n
		l := 1 + a.b%16
		if at+l > n {
			l = n - at
		}
		return append(append([]byte(nil), body[:at]...), body[at+l:]...), ""
	case "insert":
		if n == 0 {
			return body, ""
		}
		at := a.a % n
		junk := []string{"\x00", "}", "[", "\"", ",", "null", "\xff\xfe", "0"}[a.b%8]
		return append(append(append([]byte(nil), body[:at]...), junk...), body[at:]...), ""
	case "flip":
		if n == 0 {
			return body, ""
		}
		out := append([]byte(nil), body...)
		out[a.a%n] ^= 1 << (a.b % 8)
		return out, ""
	case "tail":
		return append(append([]byte(nil), body...), []string{"x", " ", "\n", "[]", "\x00", "}"}[a.a%6]...), ""
	case "jnull", "jtype", "jdel", "jnum", "jextra":
		if out, d, ok := alterJSON(body, a.kind, a.a, a.b); ok {
			return out, d
		}
		return body, "n/a"
	}
	panic("unknown body alteration " + a.kind)
}

type alt3 struct {
	kind string
	a, b uint64
}

func parseAlt3(s string) alt3 {
	p := strings.Split(s, ".")
	a := alt3{kind: p[0]}
	if len(p) > 1 {
		fmt.Sscan(p[1], &a.a)
	}
	if len(p) > 2 {
		fmt.Sscan(p[2], &a.b)
	}
	return a
}

func (a alt3) String() string {
	switch a.kind {
	case "trunc", "tail":
		return fmt.Sprintf("%s.%d", a.kind, a.a)
	case "splice", "insert", "flip", "jnull", "jtype", "jdel", "jnum", "jextra":
		return fmt.Sprintf("%s.%d.%d", a.kind, a.a, a.b)
	}
	return a.kind
}
