// Package hx holds the pieces every correspondence driver shares: one PRNG, the op/impl
// line writers, input-distribution statistics and the monitor (property oracle) output.
package hx

import (
	"bufio"
	"encoding/json"
	"flag"
	"fmt"
	"os"
	"path/filepath"
	"runtime"
	"sort"
	"strconv"
	"strings"
	"sync"
	"time"
)

// Rng is splitmix64; every random choice of a driver derives from one seeded state.
type Rng struct{ s uint64 }

// NewRng scrambles the seed first: with splitmix64 the state advances by a constant, so
// unscrambled neighbouring seeds would yield shifted copies of one stream.
func NewRng(seed uint64) *Rng {
	z := seed + 0x632BE59BD9B4E019
	z = (z ^ (z >> 30)) * 0xBF58476D1CE4E5B9
	z = (z ^ (z >> 27)) * 0x94D049BB133111EB
	z ^= z >> 31
	z = (z ^ (z >> 33)) * 0xFF51AFD7ED558CCD
	return &Rng{s: z ^ (z >> 29)}
}

func (r *Rng) U64() uint64 {
	r.s += 0x9E3779B97F4A7C15
	z := r.s
	z = (z ^ (z >> 30)) * 0xBF58476D1CE4E5B9
	z = (z ^ (z >> 27)) * 0x94D049BB133111EB
	return z ^ (z >> 31)
}

// Intn returns a value in [0,n).
func (r *Rng) Intn(n int) int {
	if n <= 0 {
		return 0
	}
	return int(r.U64() % uint64(n))
}

// Chance returns true with probability num/den.
func (r *Rng) Chance(num, den int) bool { return r.Intn(den) < num }

// Perm returns a random permutation of 0..n-1.
func (r *Rng) Perm(n int) []int {
	p := make([]int, n)
	for i := range p {
		p[i] = i
	}
	for i := n - 1; i > 0; i-- {
		j := r.Intn(i + 1)
		p[i], p[j] = p[j], p[i]
	}
	return p
}

// Args are the common command line arguments of a driver.
type Args struct {
	Mode string // gen (generate ops, execute them) | exec (execute ops read from Ops)
	Seed uint64
	N    int    // workload size (driver specific unit, usually number of ops)
	Dir  string // output directory: ops.txt, impl.out, stats.json
	Ops  string // input ops file in exec mode
	Tier string
}

func ParseArgs() Args {
	var a Args
	flag.StringVar(&a.Mode, "mode", "gen", "gen|exec")
	flag.Uint64Var(&a.Seed, "seed", 1, "PRNG seed")
	flag.IntVar(&a.N, "n", 1000, "workload size")
	flag.StringVar(&a.Dir, "dir", ".", "output directory")
	flag.StringVar(&a.Ops, "ops", "", "ops file (exec mode)")
	flag.StringVar(&a.Tier, "tier", "quick", "quick|thorough")
	flag.Parse()
	return a
}

// Run is one correspondence run: the ops sent to the model, what the implementation answered,
// what the monitors saw and the input distribution.
type Run struct {
	dir      string
	ops      *bufio.Writer
	impl     *bufio.Writer
	fops     *os.File
	fimpl    *os.File
	NOps     int
	Counts   map[string]int  // distribution counters (op kinds, result classes, branches)
	Distinct map[string]bool // distinct non-trivial cases (driver-defined key)
	Samples  []string
	Viol     []Violation

	mu      sync.Mutex // guards the fields below and Close against the watchdog
	last    time.Time  // time of the last completed op
	pending string     // op announced with Begin and not completed yet
	closed  bool
}

// Violation is a property violation observed on the implementation by a monitor.
type Violation struct {
	Sig   string `json:"sig"`   // stable signature (matched against known_findings.json)
	Op    int    `json:"op"`    // 1-based op line at which it was observed
	Descr string `json:"descr"` // human readable
}

func NewRun(dir string) *Run {
	must(os.MkdirAll(dir, 0o755))
	fo, err := os.Create(filepath.Join(dir, "ops.txt"))
	must(err)
	fi, err := os.Create(filepath.Join(dir, "impl.out"))
	must(err)
	r := &Run{dir: dir, fops: fo, fimpl: fi, ops: bufio.NewWriter(fo), impl: bufio.NewWriter(fi),
		Counts: map[string]int{}, Distinct: map[string]bool{}, last: time.Now()}
	go r.watchdog()
	return r
}

// watchdog: an implementation that stops making progress (a call that never returns, a lost
// wake-up the driver waits for) must not hang the check. After VERIF_STUCK_SECS (default 240)
// without a completed op the run is closed with the violation `harness:stuck_no_progress`; the op
// announced with Begin (if any) is recorded with the answer "<stuck>", so that the replay contains it.
func (r *Run) watchdog() {
	limit := 240 * time.Second
	if v, err := strconv.Atoi(os.Getenv("VERIF_STUCK_SECS")); err == nil && v > 0 {
		limit = time.Duration(v) * time.Second
	}
	tick := time.Now()
	for {
		time.Sleep(2 * time.Second)
		r.mu.Lock()
		if r.closed {
			r.mu.Unlock()
			return
		}
		// a tick that took much longer than 2 s means this process did not run (the machine was
		// frozen for a snapshot, or is starved): that time does not count against the implementation
		if now := time.Now(); now.Sub(tick) > 20*time.Second {
			r.last = r.last.Add(now.Sub(tick))
		}
		tick = time.Now()
		if time.Since(r.last) < limit {
			r.mu.Unlock()
			continue
		}
		buf := make([]byte, 1<<16)
		n := runtime.Stack(buf, true)
		dump := strings.ReplaceAll(string(buf[:n]), "\n", " | ")
		if len(dump) > 3000 {
			dump = dump[:3000]
		}
		descr := fmt.Sprintf("no operation completed for %v after op %d", limit, r.NOps)
		if r.pending != "" {
			descr += "; stuck in op: " + r.pending
		}
		r.Viol = append(r.Viol, Violation{"harness:stuck_no_progress", r.NOps + 1, descr + "; goroutines: " + dump})
		if r.pending != "" {
			r.NOps++
			fmt.Fprintln(r.ops, r.pending)
			fmt.Fprintln(r.impl, "<stuck>")
		}
		r.mu.Unlock()
		r.Close()
		os.Exit(0)
	}
}

// Begin announces the op that is about to be executed (optional; used by the watchdog).
func (r *Run) Begin(op string) {
	r.mu.Lock()
	r.pending = op
	r.mu.Unlock()
}

// Op records one operation line and the implementation's canonical answer to it.
func (r *Run) Op(op string, implOut string) {
	if strings.ContainsAny(op, "\n") || strings.ContainsAny(implOut, "\n") {
		panic("newline in op/out")
	}
	r.mu.Lock()
	defer r.mu.Unlock()
	r.last = time.Now()
	r.pending = ""
	r.NOps++
	fmt.Fprintln(r.ops, op)
	fmt.Fprintln(r.impl, implOut)
	if len(r.Samples) < 12 {
		r.Samples = append(r.Samples, op+" => "+implOut)
	}
}

func (r *Run) Count(k string) { r.Counts[k]++ }
func (r *Run) Case(k string)  { r.Distinct[k] = true }

// Violate records a monitor violation for the op currently being executed (drivers evaluate
// monitors while computing an op's result, i.e. before they call Op for it).
func (r *Run) Violate(sig, descr string) {
	r.Viol = append(r.Viol, Violation{sig, r.NOps + 1, descr})
}

// Enough reports that the run has collected plenty of violations already: generators stop early
// instead of spending the whole budget on an implementation that is evidently broken.
func (r *Run) Enough() bool {
	n := 0
	for _, v := range r.Viol {
		if !knownSigs[v.Sig] {
			n++
		}
	}
	return n >= 200
}

// knownSigs: signatures of recorded known findings (VERIF_KNOWN_SIGS, set by the check); they do not
// count towards Enough — a known finding must not cut the exploration of the unchanged tree short.
var knownSigs = func() map[string]bool {
	m := map[string]bool{}
	for _, s := range strings.Split(os.Getenv("VERIF_KNOWN_SIGS"), ",") {
		if s != "" {
			m[s] = true
		}
	}
	return m
}()

// Close flushes the streams and writes stats.json.
func (r *Run) Close() {
	r.mu.Lock()
	defer r.mu.Unlock()
	if r.closed {
		return
	}
	r.closed = true
	must(r.ops.Flush())
	must(r.impl.Flush())
	must(r.fops.Close())
	must(r.fimpl.Close())
	keys := make([]string, 0, len(r.Counts))
	for k := range r.Counts {
		keys = append(keys, k)
	}
	sort.Strings(keys)
	st := map[string]any{
		"ops":                 r.NOps,
		"counts":              r.Counts,
		"distinct_nontrivial": len(r.Distinct),
		"samples":             r.Samples,
		"violations":          r.Viol,
	}
	if r.Viol == nil {
		st["violations"] = []Violation{}
	}
	b, err := json.MarshalIndent(st, "", " ")
	must(err)
	must(os.WriteFile(filepath.Join(r.dir, "stats.json"), b, 0o644))
}

// ReadOps reads an ops file (exec mode).
func ReadOps(path string) []string {
	b, err := os.ReadFile(path)
	must(err)
	var out []string
	for _, l := range strings.Split(string(b), "\n") {
		if strings.TrimSpace(l) != "" {
			out = append(out, l)
		}
	}
	return out
}

func must(err error) {
	if err != nil {
		panic(err)
	}
}

func Must(err error) { must(err) }
