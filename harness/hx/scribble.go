package hx

import (
	"reflect"
	"strings"
	"unsafe"
)

// Scribble plays the hostile caller: it overwrites everything reachable from v (through pointers,
// slices, arrays, maps, interfaces and unexported fields). A component that hands out private copies
// is not affected by what a caller does to its copy; one that hands out its own memory is, and the
// monitors / the correspondence see it on the next operation.
func Scribble(v any) {
	if v == nil {
		return
	}
	scribble(reflect.ValueOf(v), map[uintptr]bool{}, 0)
}

func scribble(v reflect.Value, seen map[uintptr]bool, depth int) {
	if depth > 16 || !v.IsValid() {
		return
	}
	switch v.Kind() {
	case reflect.Ptr:
		if v.IsNil() {
			return
		}
		p := v.Pointer()
		if seen[p] {
			return
		}
		seen[p] = true
		scribble(v.Elem(), seen, depth+1)
	case reflect.Interface:
		if v.IsNil() {
			return
		}
		e := v.Elem()
		switch e.Kind() {
		case reflect.Ptr, reflect.Slice, reflect.Map:
			scribble(e, seen, depth+1)
		case reflect.Struct, reflect.Array:
			// a struct held by value in an interface is not addressable: what it points to can still be reached
			// (the Struct case follows the pointers, slices and maps of a non-addressable value)
			scribble(e, seen, depth+1)
		}
	case reflect.Struct:
		if strings.HasPrefix(v.Type().PkgPath(), "sync") {
			return
		}
		for i := 0; i < v.NumField(); i++ {
			f := v.Field(i)
			if !f.CanSet() {
				if !f.CanAddr() {
					// not addressable: only what it points to can be reached
					if f.Kind() == reflect.Ptr || f.Kind() == reflect.Slice || f.Kind() == reflect.Map || f.Kind() == reflect.Interface {
						scribble(f, seen, depth+1)
					}
					continue
				}
				f = reflect.NewAt(f.Type(), unsafe.Pointer(f.UnsafeAddr())).Elem()
			}
			scribble(f, seen, depth+1)
		}
	case reflect.Slice:
		if v.IsNil() || v.Len() == 0 {
			return
		}
		p := v.Pointer()
		if seen[p] {
			return
		}
		seen[p] = true
		for i := 0; i < v.Len(); i++ {
			scribble(v.Index(i), seen, depth+1)
		}
	case reflect.Array:
		for i := 0; i < v.Len(); i++ {
			scribble(v.Index(i), seen, depth+1)
		}
	case reflect.Map:
		if v.IsNil() {
			return
		}
		for _, k := range v.MapKeys() {
			val := v.MapIndex(k)
			if val.Kind() == reflect.Interface && !val.IsNil() && (val.Elem().Kind() == reflect.Struct || val.Elem().Kind() == reflect.Array) {
				// a struct held by value behind an interface (core.UnsignedDataSet, core.ParSignedDataSet …): write into
				// what it points to AND replace the entry by an overwritten copy, as a caller owning the map can
				c := reflect.New(val.Elem().Type()).Elem()
				c.Set(val.Elem())
				scribble(c, seen, depth+1)
				v.SetMapIndex(k, c)

				continue
			}
			switch val.Kind() {
			case reflect.Ptr, reflect.Slice, reflect.Map, reflect.Interface:
				scribble(val, seen, depth+1)
			default:
				c := reflect.New(val.Type()).Elem()
				c.Set(val)
				scribble(c, seen, depth+1)
				v.SetMapIndex(k, c)
			}
		}
	case reflect.Uint8:
		if v.CanSet() {
			v.SetUint(v.Uint() ^ 0xA5)
		}
	case reflect.Uint, reflect.Uint16, reflect.Uint32, reflect.Uint64:
		if v.CanSet() {
			v.SetUint(v.Uint() + 7)
		}
	case reflect.Int, reflect.Int8, reflect.Int16, reflect.Int32, reflect.Int64:
		if v.CanSet() {
			v.SetInt(v.Int() + 7)
		}
	case reflect.Bool:
		if v.CanSet() {
			v.SetBool(!v.Bool())
		}
	case reflect.String:
		if v.CanSet() {
			v.SetString(v.String() + "~")
		}
	}
}
