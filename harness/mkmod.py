#!/usr/bin/env python3
"""Derive harness/go.mod + go.sum from /repo's current go.mod (offline; fail closed)."""
import re, shutil, sys, os
repo = os.environ.get("VERIF_REPO", "/repo")
here = os.path.dirname(os.path.abspath(__file__))
src = open(os.path.join(repo, "go.mod")).read()
src = re.sub(r"^module .*$", "module verifharness", src, count=1, flags=re.M)
src = re.sub(r"^tool \((?:.|\n)*?^\)\n", "", src, flags=re.M)
src += "\nrequire github.com/obolnetwork/charon v0.0.0\n"
src += "replace github.com/obolnetwork/charon => %s\n" % repo
out = os.path.join(here, "go.mod")
old = open(out).read() if os.path.exists(out) else None
if old != src:
    open(out, "w").write(src)
shutil.copyfile(os.path.join(repo, "go.sum"), os.path.join(here, "go.sum"))
