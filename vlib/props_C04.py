from vlib.props_C02 import QBFT_STREAM, QBFT_TRUSTED
ENTRY = {
    "lean_props": "CharonV.Props.C04",
    "streams": [dict(QBFT_STREAM, n_quick=30000)],
    "monitor_sigs": ["qbft:honest_", "qbft:no_decision_under_timely_delivery", "qbft:decision_later_than_one_rotation", "qbft:sanity_panic"],
    "level": "proof",
    "level_text": "PARTIAL. Kernel-checked Lean theorems on the implementation model of qbft.Run, for every cluster size, oracle and reachable node state: every message an honest member broadcasts (all five types, incl. PRE-PREPAREs built from getJustifiedQrc and cached justifications) passes isJustified at every honest receiver in every receiver state (honest_msgs_justified; needs 'no comparison failure', whose necessity is proved by a witness = known finding); the F+1 rule detects f+1 higher ROUND-CHANGEs in any order and only jumps forward; a decided member answers each strictly higher ROUND-CHANGE with its justified DECIDED up to 16 times; honest messages stay within the 2n justification limit; the leader function visits every member exactly once in any n consecutive rounds. Real-time termination (timely delivery, <= f crashes incl. mid-broadcast, decision within one rotation) is EXPLORED, not proved: the driver's timely-delivery episodes run the real qbft.Run clusters lock-step and monitor that every running member decides within one rotation after the last fault.",
    "level_note": "Trusted base as C02. Not proved: the timed composition (wall-clock timers, Go scheduler fairness, the lost-local-value race in compare); it is exercised by the sync episodes of drive-qbft only.",
    "trusted_base": QBFT_TRUSTED + ["timely-delivery episodes of drive-qbft (exploration) for the real-time part of the property"],
    "assumptions": ["honest_msgs_justified: no comparison failure at the producer (chain_split_halt alpha feature off); received PREPARE cores have non-zero value and round >= 1",
                    "termination under timely delivery is explored on sampled fault patterns, not proved"],
}

# round-timer stream and theorems (core/consensus/timer/roundtimer.go)
from vlib import snippet_C04timer as _t
ENTRY["streams"].append(_t.STREAM)
ENTRY.setdefault("lean_props_extra", []).append(_t.EXTRA_LEAN)
ENTRY["monitor_sigs"] += _t.MONITOR_SIG_PREFIXES
ENTRY["trusted_base"] = ENTRY["trusted_base"] + _t.TRUSTED_BASE
ENTRY["assumptions"] = ENTRY["assumptions"] + _t.ASSUMPTIONS

# liveness core: good rounds decide (Proofs/QbftGoodRound.lean)
ENTRY["lean_props_extra"].append("CharonV.Props.C04Live")
ENTRY["level_text"] = ENTRY["level_text"].replace(
    "Real-time termination (timely delivery",
    "Liveness core proved on the implementation model for every n, leader function, oracle and per-member arrival order "
    "(Props/C04Live.lean): good_round_1 / good_round_r — when the running members (>= quorum) get each phase's messages before any "
    "timer fires, a round whose leader runs and has its proposal ends with every running member deciding it exactly once, also after "
    "r-1 silent rounds; decides_within_rotation — such a round exists in every window of n consecutive rounds. Round timers "
    "(Props/C04Timer.lean, 33 theorems: closed forms, shortest timeout per type, three_delays_fit, slot alignment and doubling of the "
    "eager timer) tied by the roundtimer stream. The composition with partially progressed earlier rounds and wall-clock termination "
    "(timely delivery")

# honest broadcasts against the receive-side limits of the real handler (core/consensus/qbft verifyMsgLimits):
# T-const constants + Props/C04Limits.honest_within_wire_limits; the admission stream of C05 carries the largest
# honest message shapes (n ROUND-CHANGEs + n PREPAREs) and the monitor qbftwire:honest_message_rejected
from vlib.trans_qbftconst import qbftconst as _qc
from vlib.props_C05 import ENTRY as _E05
ENTRY["go_tools"] = list(ENTRY.get("go_tools", [])) + ["extract-qbftconst"]
ENTRY["translators"] = list(ENTRY.get("translators", [])) + [_qc]
ENTRY["lean_props_extra"].append("CharonV.Props.C04Limits")
ENTRY["streams"] = ENTRY["streams"] + [dict(_E05["streams"][0], seeds_quick=1)]
ENTRY["monitor_sigs"] = ENTRY["monitor_sigs"] + ["qbftwire:honest_message_rejected", "qbftwire:honest_message_not_constructible"]
ENTRY["trusted_base"] = ENTRY["trusted_base"] + ["translator T-const (extract-qbftconst): the factor of verifyMsgLimits' justification bound, statement shape checked, fails closed"]

# every consensus instance runs on a round timer created for its own duty (the default eager timer captures the duty's
# slot and keeps the first deadline of each round): the wrapper stream of C03 with monitor conswrap:round_timer_of_other_duty
from vlib import snippet_C03wrap as _w4
ENTRY["streams"] = ENTRY["streams"] + [dict(_w4.STREAM, seeds_quick=1)]
ENTRY["monitor_sigs"] = ENTRY["monitor_sigs"] + ["conswrap:round_timer_of_other_duty", "conswrap:stuck", "conswrap:no_run_started"]

# the timed composition (good round + round-timer arithmetic => decision within a rotation of wall-clock rounds) as theorems
# about a timed cluster semantics over Qbft.step and the production timer objects (Model/QbftTimed.lean, Props/C04Timed.lean)
from vlib import snippet_C04timed as _tm
ENTRY.setdefault("lean_props_extra", []).append(_tm.EXTRA_LEAN)
ENTRY["trusted_base"] = ENTRY["trusted_base"] + _tm.TRUSTED_BASE
ENTRY["assumptions"] = ENTRY["assumptions"] + _tm.ASSUMPTIONS
ENTRY["level_text"] += " Third session: " + _tm.LEVEL_NOTE

# ... and without the entry-skew hypothesis (a round-r message may reach a member still in round r-1: buffered, F+1 jump,
# jump on a justified PRE-PREPARE, DECIDED): Proofs/QbftTimed2.lean, Props/C04Resync.lean
from vlib import snippet_C04resync as _rs
ENTRY.setdefault("lean_props_extra", []).append(_rs.EXTRA_LEAN)
ENTRY["trusted_base"] = ENTRY["trusted_base"] + _rs.TRUSTED_BASE
ENTRY["assumptions"] = ENTRY["assumptions"] + _rs.ASSUMPTIONS
ENTRY["level_text"] += " " + _rs.LEVEL_NOTE

# Fourth session: liveness of the J2 path — good rounds after rounds in which members PREPARED (mixed prepared / null
# ROUND-CHANGE quorums, re-proposal of the highest prepared value): Proofs/QbftPrepared.lean, Props/C04Prepared.lean
# (10 theorems incl. the witnesses that the literal "always the prepared value" statement is false when a quorum is
# unprepared); the qbft stream got deterministic preparedEpisodes (exactly quorum-many running members).
from vlib import snippet_C04prepared as _pp
ENTRY.setdefault("lean_props_extra", []).append(_pp.EXTRA_LEAN)
ENTRY["trusted_base"] = ENTRY["trusted_base"] + _pp.TRUSTED_BASE
ENTRY["assumptions"] = ENTRY["assumptions"] + _pp.ASSUMPTIONS
ENTRY["level_text"] += " Fourth session: " + _pp.LEVEL_TEXT

# Fifth session: the TIMED semantics with members that prepared in earlier rounds (the state a leader crash halfway through
# a broadcast leaves behind) — the ROUND-CHANGE stage of the good round over every timed execution, the silent round at full
# strength, the rotation up to the first running leader's justified proposal: Proofs/QbftTimedPrepared.lean,
# Props/C04TimedPrepared.lean. PARTIAL: the remaining three message delays of the good round are proved only for silent
# earlier rounds (C04Timed) and at the phased level (C04Prepared).
from vlib import snippet_C04timedprepared as _tp
ENTRY.setdefault("lean_props_extra", []).append(_tp.EXTRA_LEAN)
ENTRY["trusted_base"] = ENTRY["trusted_base"] + _tp.TRUSTED_BASE
ENTRY["assumptions"] = ENTRY["assumptions"] + _tp.ASSUMPTIONS
ENTRY["level_text"] += " Fifth session: " + _tp.LEVEL_TEXT
