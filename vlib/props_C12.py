"""C12 — cluster artifacts are mutually consistent and tamper-evident (cluster/, cmd/createcluster.go)."""
from vlib.trans_ssz import trans_ssz

ENTRY = {
    "lean_props": "CharonV.Props.C12",
    "go_tools": ["trans-ssz"],
    "translators": [trans_ssz],
    "streams": [
        {"name": "cluster", "drive": "drive-cluster", "model": "drv-cluster",
         "reset_ops": ["doc", "create"],
         "n_quick": 12, "seeds_quick": 1, "n_thorough": 72, "seeds_thorough": 4,
         "search_seeds": 1},
    ],
    "monitor_sigs": ["cluster:"],
    "level_text": "Kernel-checked Lean theorems over a generic model of the fastssz hash walker as used by cluster/ssz.go (PutBytes, PutUint64, PutBool, PutUint64Array, putByteList, putBytesN, putK1SigList, Merkleize, MerkleizeWithMixin incl. the limit 0/1/depth cases and zero hashes) producing chunk trees, for every 2-to-1 compression function h on 32-byte chunks: two chunk trees of the same schema that hash to the same root are equal unless an explicit collision of h exists (merkle_collision, encode_injective_partial, tamper_yields_collision) — tamper evidence is reduced to SHA-256 collision resistance, a hypothesis, never an axiom. The reduction needs two size hypotheses which the Go code does not enforce (putBytesN left-pads shorter values; raw PutBytes right-pads without length mix-in); the unrestricted statement is refuted by kernel-checked witnesses (fixed_shorter_value_same_root, raw_trailing_zero_same_root, raw_empty_field_shifts). Per format version v1.0 … v1.11, decided by the kernel on data regenerated from the Go source on every run (translators T-ssz: symbolic evaluation of hashDefinition/hashLock per version; T-fields: per-version JSON structs): every JSON leaf of a definition / lock file is read by the config-, definition- or lock-hash schema or is one of the allow-listed fields that are themselves the hashes / signatures over the rest or are constant-checked at decode (schema_covers_fields_v1_0 … v1_11, schema_versions_complete, definition_hash_reads_config_hash_from_v1_3), which schemas are well-formed (modern_schema_wf, legacy_schema_wf) and exactly which leaves go through a raw PutBytes (raw_putbytes_fields_definition, raw_putbytes_fields_lock). The model, the regenerated schemas and a core-Lean SHA-256 are tied to the Go code by bit-for-bit reproduction of hashDefinition (config + definition hash) and hashLock on random valid locks of every version, on struct-level mutants (odd sizes, error and panic paths) and on decoded altered files.",
    "level_note": "Trusted: Lean kernel; translator trans-ssz (its primitive helpers are pinned to the source text the model mirrors, anything else fails closed); the Go correspondence harness and line driver. Checked by correspondence / monitors only (not proved): JSON codecs (decode-encode-decode keeps all hashes and bytes), VerifyHashes/VerifySignatures reject every representative alteration of every JSON leaf of valid definition and lock files of all 12 versions, create cluster outputs (lock verifies, keystores = lock public shares, deposit data and builder registrations verify, every threshold subset of key shares recombines to the validator key; the real cmd/combine.Combine run on every subset of node directories of exactly threshold size (n <= 5, sampled above), on all directories and on threshold-1 directories: accept/refuse compared with the model rule combineAccepts (theorems combine_accepts_iff, combine_exact_threshold_accepted), recombined keystores compared with tbls.RecoverSecret of the same shares and the lock's validator keys). Cryptography (SHA-256 collision resistance, BLS, secp256k1, EIP-712) is by hypothesis / exercised, not verified.",
    "trusted_base": [
        "model CharonV/Model/SszSchema.lean mirrors github.com/ferranbt/fastssz v1.0.0 hasher.go (AppendBytes32, PutBytes, PutUint64, PutBool, PutUint64Array, Merkleize, MerkleizeWithMixin, merkleizeImpl, CalculateLimit) and cluster/helpers.go (putByteList, putBytesN, putHexBytes20, putK1SigList, leftPad, to0xHex, from0xHex), Definition.LegacyValidatorAddresses; tied by bit-for-bit reproduction of hashDefinition/hashLock roots (stream cluster, ops `hash`)",
        "translator T-ssz (harness/cmd/trans-ssz, go/ast + go/types): symbolic evaluation of hashDefinition / hashLock and everything they call in cluster/ssz.go per version with version and configOnly known; helper functions above are primitives whose source text must match; unknown Go fails closed",
        "translator T-fields (same tool): JSON leaves of the per-version JSON structs selected by MarshalJSON and UnmarshalJSON (must agree); decode target = same json tag path in Definition/Lock, or the explicit alias table in trans-ssz (legacy single validator addresses, nonce, dv fee recipient, single deposit_data); the JSON leaves of real encoded files are compared with this list (op `leaves`)",
        "core-Lean SHA-256 (Model/SszSchema.lean Sha256), compared with Go crypto/sha256 on random inputs (op `sha`) and through every root",
        "interned JSON path ids (Generated pathTable): coverage is decided on ids, names are looked up in the same table",
    ],
    "assumptions": [
        "collision resistance of SHA-256 on 64-byte inputs (hypothesis NoColl / conclusion Collision of the theorems)",
        "encode_injective_partial assumes Tree.sized (every putBytesN value has exactly n bytes; uint64 ranges) and Tree.rawAgree (raw PutBytes values of equal length) — NOT enforced by the Go code, see witnesses and known findings",
        "value-preserving re-spellings of 0x-hex strings (letter case, missing 0x prefix) and of base64 are not alterations: they decode to the same bytes",
        "v1.0/v1.1 locks without signature_aggregate are accepted by design (Lock.VerifySignatures)",
        "the link JSON leaf -> Go struct field is by equal json tag path (plus the alias table); the codecs themselves are tested (round trip, alterations), not proved",
    ],
}

# Fourth session: deposit messages / deposit data / builder registrations (eth2util/deposit, eth2util/registration,
# Lock.verifyBuilderRegistrations) modelled bit-exactly: Model/DepositReg.lean, theorems Props/C12Deposit.lean, stream deposit.
from vlib import snippet_C12deposit as _dep
ENTRY["streams"] = ENTRY["streams"] + [_dep.STREAM]
ENTRY.setdefault("lean_props_extra", []).append(_dep.EXTRA_LEAN)
ENTRY["monitor_sigs"] = ENTRY["monitor_sigs"] + _dep.MONITOR_SIGS
ENTRY["trusted_base"] = ENTRY["trusted_base"] + _dep.TRUSTED_BASE
ENTRY["assumptions"] = ENTRY["assumptions"] + _dep.ASSUMPTIONS + [
    "VerifyDepositAmounts sums into a wrapping uint64 (a false rejection that needs more than 9 007 199 amounts): not a clause of "
    "C12; modelled as the code is (verify_amounts_accepts_iff, verify_amounts_sum_wrap_witness, verify_amounts_spec_partial), "
    "counted by the stream as observed:amounts_sum_wraps_uint64; candidate hardening fixes/C12-deposit-amounts-sum-wrap.diff "
    "(verify_amounts_spec_fixed)"]
ENTRY["level_text"] += _dep.LEVEL_TEXT

# Fourth session: the glue of `create cluster` and `combine` (cmd/createcluster.go, cmd/combine/combine.go) is modelled:
# Model/CreateGlue.lean, theorems Props/C12Create.lean, stream create (the real cobra command and combine.Combine, forged
# locks, adversarial node directories). Its two findings (D-19, D-20) are repaired in /repo (fixes 5f2f8be, c6adf89).
from vlib import snippet_C12create as _cr
ENTRY["streams"] = ENTRY["streams"] + [_cr.STREAM]
ENTRY["lean_props_extra"].append(_cr.EXTRA_LEAN)
ENTRY["monitor_sigs"] = ENTRY["monitor_sigs"] + _cr.MONITOR_SIGS
ENTRY["trusted_base"] = ENTRY["trusted_base"] + _cr.TRUSTED_BASE
ENTRY["assumptions"] = ENTRY["assumptions"] + _cr.ASSUMPTIONS
ENTRY["level_text"] += _cr.LEVEL_TEXT

# Fourth session: the file / ordering / mapping logic of eth2util/keystore (StoreKeys, LoadFilesUnordered / Recursively,
# extractFileIndex, SequencedKeys, KeysharesToValidatorPubkey, ShareIdxForCluster): Model/Keystore.lean, theorems
# Props/C12Keystore.lean, stream keystore. Its two findings (D-21, D-22) are repaired in /repo (fixes cefbe7e, edaf179).
from vlib import snippet_C12keystore as _ks
ENTRY["streams"] = ENTRY["streams"] + [_ks.STREAM]
ENTRY["lean_props_extra"].append(_ks.EXTRA_LEAN)
ENTRY["monitor_sigs"] = ENTRY["monitor_sigs"] + [m for m in _ks.MONITOR_SIGS if m not in ENTRY["monitor_sigs"]]
ENTRY["trusted_base"] = ENTRY["trusted_base"] + _ks.TRUSTED_BASE
ENTRY["assumptions"] = ENTRY["assumptions"] + _ks.ASSUMPTIONS
ENTRY["level_text"] += _ks.LEVEL_TEXT

# Fifth session: the DECISION LOGIC of signature verification — cluster/definition.go Definition.VerifySignatures (+ eip712sigs.go,
# helpers.go verifySig), cluster/lock.go Lock.VerifySignatures (aggregate over all public shares, node signatures since v1.7,
# builder registration presence) and cluster/distvalidator.go: Model/LockSigs.lean (symbolic signatures), theorems
# Props/C12LockSigs.lean, stream locksigs (real VerifySignatures / VerifyHashes over every version v1.0-v1.11, real keys).
from vlib import snippet_C12locksigs as _ls
ENTRY["streams"] = ENTRY["streams"] + [_ls.STREAM]
ENTRY["lean_props_extra"].append(_ls.EXTRA_LEAN)
ENTRY["monitor_sigs"] = ENTRY["monitor_sigs"] + [m for m in _ls.MONITOR_SIGS if m not in ENTRY["monitor_sigs"]]
ENTRY["trusted_base"] = ENTRY["trusted_base"] + _ls.TRUSTED_BASE
ENTRY["assumptions"] = ENTRY["assumptions"] + _ls.ASSUMPTIONS
ENTRY["level_text"] += _ls.LEVEL_TEXT

# Fifth session: the per-version JSON codecs of definition and lock (cluster/definition.go, lock.go, distvalidator.go,
# operator.go, deposit.go, registration.go, helpers.go) — last clause of C12 ("decoding then re-encoding a file never changes
# its hashes"): translator T-jsonmap regenerates, for every version, the field transfers of every marshal / unmarshal function
# (JSON leaf, in-memory leaf, conversion, list shape, guards); Model/JsonMap.lean gives them semantics, Props/C12JsonMap.lean
# proves the round-trip theorems for every table accepted by the decidable TableOk and discharges the regenerated table by
# decide (every_version_ok, hashed_fields_transferred against the regenerated SSZ schemas); stream jsonmap (real MarshalJSON /
# UnmarshalJSON of every version, leaf by leaf against the model's prediction).
from vlib import snippet_C12jsonmap as _jm
ENTRY["go_tools"] = ENTRY.get("go_tools", []) + _jm.GO_TOOLS
ENTRY["translators"] = ENTRY.get("translators", []) + _jm.TRANSLATORS
ENTRY["streams"] = ENTRY["streams"] + [_jm.STREAM]
ENTRY["lean_props_extra"].append(_jm.EXTRA_LEAN)
ENTRY["monitor_sigs"] = ENTRY["monitor_sigs"] + [m for m in _jm.MONITOR_SIGS if m not in ENTRY["monitor_sigs"]]
ENTRY["trusted_base"] = ENTRY["trusted_base"] + _jm.TRUSTED_BASE
ENTRY["assumptions"] = ENTRY["assumptions"] + _jm.ASSUMPTIONS
ENTRY["level_text"] += _jm.LEVEL_TEXT
