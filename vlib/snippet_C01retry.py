"""Snippet for the lead to wire into C01: the asynchronous RETRY LAYER that production wiring puts on edges of the duty
pipeline - app/retry/retry.go (Retryer.DoAsync with its backoff loop, error classification isTemporaryBeaconErr / net.Error /
context errors, the per-duty deadline context, startAsync / endAsync bookkeeping of the `active` map, Shutdown) and
core/retry.go (core.WithAsyncRetry: WHICH inputs of core.Wire become `go retryer.DoAsync(...)`). One more correspondence
stream, one more Lean module of property theorems. Not a registry entry by itself (not named props_C*.py).

Wiring (same as snippet_C01bcast / snippet_C01wire in props_C01.py): append STREAM to ENTRY["streams"], add EXTRA_LEAN to
ENTRY["lean_props_extra"], add MONITOR_SIGS to ENTRY["monitor_sigs"], extend trusted_base / assumptions / level_text with
the lines below. lean_exe `drv-retry` is already in lean/lakefile.toml; hook app/retry/verif_export_retry.go is committed
in /repo (a730a2f), hook core/verif_export_retrywire.go too (324de8d: VerifRetryEdges / VerifWrapEdges - wire funcs over
caller-supplied inner functions with the wire options applied, the five wrapped functions returned). No defect found: KNOWN_FINDINGS is empty; two facts about the code as it is are stated as witnesses
(attempt 0 runs with an expired context; Shutdown(ctx) returns with running calls when ctx is done).

NOTE (lead): every `shutdown` op with calls that are active waits for one tick of Shutdown's real 100 ms ticker (the only
wall-clock wait; outputs do not depend on it): ~6-7 s per 2500 ops. The driver reads VERIF_REPO (default /repo) for the
go/ast pin of core/retry.go + core/interfaces.go in its `cfg` op.
"""

STREAM = {"name": "retry", "drive": "drive-retry", "model": "drv-retry",
          "reset_ops": ["new", "wnew"],
          "n_quick": 2500, "seeds_quick": 2, "n_thorough": 12000, "seeds_thorough": 6,
          "search_seeds": 2}

EXTRA_LEAN = "CharonV.Props.C01Retry"

MONITOR_SIGS = ["retry:"]

THEOREMS = [
    "CharonV.Retry.attempts_sequential",
    "CharonV.Retry.final_outcome_ends_call",
    "CharonV.Retry.stops_after_first_success",
    "CharonV.Retry.permanent_error_not_retried",
    "CharonV.Retry.retry_only_after_retryable_errors",
    "CharonV.Retry.no_attempt_after_deadline",
    "CharonV.Retry.first_attempt_ignores_deadline_witness",
    "CharonV.Retry.expired_call_ends_with_next_outcome",
    "CharonV.Retry.temporary_error_retried_until_deadline",
    "CharonV.Retry.backoff_call_not_lost",
    "CharonV.Retry.parent_cancel_is_ignored",
    "CharonV.Retry.no_start_after_shutdown",
    "CharonV.Retry.active_counts_exact",
    "CharonV.Retry.shutdown_waits_for_inflight",
    "CharonV.Retry.shutdown_timeout_leaves_inflight_witness",
    "CharonV.Retry.hasSub_iff",
    "CharonV.Retry.retryable_iff",
    "CharonV.Retry.nominal_delay_bounds",
    "CharonV.Retry.attemptOps_subset",
    "CharonV.Retry.retry_edge_refines_cluster_env",
    "CharonV.Retry.parsigex_retry_same_root",
    "CharonV.Retry.success_delivers_all",
    "CharonV.Retry.wrapped_edge_delivers_only_captured_pairs",
    "CharonV.Retry.wrapped_call_attempts_same_pair",
    "CharonV.Retry.wrapped_edges_table",
]

KNOWN_FINDINGS = []

LEVEL_TEXT = (
    " The retry layer is covered too: core.WithAsyncRetry turns exactly five inputs of core.Wire into `go retryer.DoAsync(...)` + "
    "`return nil` (Fetcher.Fetch, Consensus.Participate, Consensus.Propose, ParSigEx.Broadcast, Broadcaster.Broadcast); "
    "Fetcher.FetchOnly, DutyDB.Store, ParSigDB.StoreInternal / StoreExternal, SigAgg.Aggregate and AggSigDB.Store stay inline "
    "(wrapped_edges_table; pinned against core/retry.go and core/interfaces.go by go/ast in the stream's cfg op, fail closed). "
    "Model/Retry.lean is one Retryer with any number of DoAsync calls as a small-step machine whose environment chooses every "
    "outcome of the wrapped function, when backoff timers fire, when duty deadlines pass, when the caller's context is "
    "cancelled, when Shutdown is called and when Shutdown's own context gives up, in any order; Props/C01Retry.lean proves for "
    "every such history: attempts of one call never overlap and are numbered consecutively (attempts_sequential); a success "
    "or a permanent error is the last outcome of its call, the call has returned and no attempt follows - at most one success "
    "per call (final_outcome_ends_call, stops_after_first_success, permanent_error_not_retried, "
    "retry_only_after_retryable_errors); a retry (attempt >= 1) starts only with a live context, before the duty deadline and "
    "before Shutdown (no_attempt_after_deadline; attempt 0 is not guarded: first_attempt_ignores_deadline_witness), an expired "
    "call ends with its next outcome (expired_call_ends_with_next_outcome); a retryable error (context error, net.Error, or a text "
    "containing `future` / `current or previous` / `retryable`: retryable_iff over hasSub_iff = strings.Contains) before the "
    "deadline arms backoff i and the timer starts attempt i+1, and nothing else moves a waiting call "
    "(temporary_error_retried_until_deadline, backoff_call_not_lost); the caller's context is ignored (parent_cancel_is_ignored); "
    "after Shutdown began DoAsync is refused and no attempt starts (no_start_after_shutdown); the active map counts exactly the "
    "calls between startAsync and endAsync per label (active_counts_exact) and Shutdown's polling return implies that every "
    "call has returned (shutdown_waits_for_inflight; with its own context done it returns earlier: "
    "shutdown_timeout_leaves_inflight_witness); the nominal backoff stays within [250 ms, 12 s] (nominal_delay_bounds). "
    "Composition with C01: the wrapper's closure captures the call's arguments once, so every attempt works through the same "
    "delivery list and a failed attempt is repeated whole - the cluster operations a retried call causes are drawn from that "
    "list only, any number of times or never, hence an op sequence of Model/Cluster.lean, and no_two_roots holds verbatim for "
    "every cluster history containing them (retry_edge_refines_cluster_env, parsigex_retry_same_root, success_delivers_all). "
    "The wrapping itself is executed as well: in wire episodes the real core.WithAsyncRetry is applied to five scripted inner "
    "functions and calls of one edge for different duties overlap (one waits in backoff while another succeeds, then its timer "
    "fires); every invocation of an inner function carries the (duty, set) pair captured by the call whose attempt it is "
    "(wrapped_edge_delivers_only_captured_pairs, wrapped_call_attempts_same_pair; monitor retry:edge_delivered_foreign_pair). "
    "Tied by stream retry: the real retry.NewForT retryer in lock-step (scripted wrapped functions, real timers fired by the "
    "driver, deadline contexts cancelled by the driver, real Shutdown), events and the retryer's own active map compared after "
    "every op."
)

TRUSTED_BASE = [
    "model CharonV/Model/Retry.lean mirrors app/retry/retry.go: DoAsync (startAsync refused after the shutdown channel is closed, "
    "else active[label]++; the context is the retryer's asyncCtx + the duty deadline, not the caller's; attempt i = fn(ctx); nil -> "
    "return; !ctx && !net && !temporary -> return; backoff(i) + select{timer | ctx.Done | shutdown -> return} only when ctx.Err() == "
    "nil; then asyncCtx.Err() / ctx.Err() -> return; deferred endAsync: active[label]--, deleted at 0), Shutdown (close + asyncCancel "
    "as ONE step, then poll len(active) > 0 until empty or its context is done), isTemporaryBeaconErr (three substrings), the nominal "
    "delay of delayForIteration (250 ms * 1.6^i capped at 12 s, exact rational arithmetic), and core/retry.go's list of wrapped "
    "wireFuncs fields with topic/name; tied by correspondence stream retry: per op the events observed on the real retryer (attempt "
    "start with index and whether the context handed to the wrapped function was expired, backoffFunc(i) call with i, DoAsync "
    "returned, call refused, Shutdown returned / returned by timeout) and the sorted content of the real `active` map",
    "hook app/retry/verif_export_retry.go (build tag verif, add-only, a730a2f): VerifActive (copy of the active map), "
    "VerifBackoffConfig, VerifDelayForIteration, VerifIsTemporaryBeaconErr; the retryer itself is built with the package's own "
    "retry.NewForT (deadline context and backoff timer injectable; *testing.T unused), the production constructor retry.New is "
    "exercised in op cfg (deadline in the past -> expired context, !ok -> no deadline, future -> deadline set)",
    "driver harness/cmd/drive-retry: lock-step - the wrapped function of every call reports its entry and blocks until the op "
    "`ret` hands it that attempt's outcome (errors: errors.New, a net.Error, charon errors.Wrap of a net.Error, fmt.Errorf %w / "
    "errors.Wrap of context.Canceled / DeadlineExceeded; texts from a pool around the three phrases incl. near misses); backoff "
    "timers are real time.Timers armed for a day and fired with Reset(0); the duty deadline is context.WithDeadline(+24 h) cancelled "
    "by the driver (or a deadline in 1970 for `pre`); after every op the driver waits for the one reaction the op must cause "
    "(watchdog 8 s only); a reaction nobody asked for is printed with the next op; Shutdown runs on its own goroutine: the driver "
    "makes probe DoAsync calls until one is refused and waits until the contexts of running attempts are cancelled before the next op",
    "the wiring pin (op cfg): go/ast over $VERIF_REPO/core/retry.go (WithAsyncRetry must be `clone := *w` followed by assignments "
    "w.F = func(...) error { go retryer.DoAsync(ctx, duty, \"topic\", \"name\", func(ctx) error { return clone.F(...) }); return nil }; "
    "anything else prints wire-unrecognised) and core/interfaces.go (wireFuncs fields of type func(...) error that Wire passes to a "
    "subscribe / register call, minus the wrapped ones = the inline inputs); compared with Model/Retry.lean's wrappedEdges / syncEdges",
    "wire episodes (ops wnew / wcall <id> <edge> <duty> / wret / wfire / wexpire, harness/cmd/drive-retry/wire.go): hook "
    "core.VerifWrapEdges builds the wire funcs over five scripted inner functions and applies the REAL core.WithAsyncRetry(retryer) "
    "(retryer = retry.NewForT[core.Duty]); wcall invokes the wrapped edge function with duty slot <duty> and a set whose only key is "
    "s<id> (Consensus.Participate has no set: its slot also carries the id); the inner function of an edge looks the set up, reports "
    "the (duty, set) pair it was handed with every attempt start (compared with the model's captured pair) and blocks for the "
    "scripted outcome; the wrapper owns the DoAsync goroutine, so `DoAsync returned` is observed as one entry less in the active "
    "map; half of the wire episodes start with the overlap pattern (D1 fails temporarily and waits, D2 on the same edge succeeds at "
    "once, D1's timer fires), the rest are random overlapping calls on few edges and duties",
    "monitors (independent of the model): retry:edge_delivered_foreign_pair (an inner function was invoked with a (duty, set) pair "
    "that no call of that edge captured: the set of one call under the duty of another, a set of another edge, or a set nobody "
    "passed in; late invocations are collected until the episode ends), retry:wrapped_edge_returned_error, retry:call_lost also for "
    "wrapped calls (a call that is `taken over` returns without a new attempt when its timer fires), "
    "retry:concurrent_attempts_same_call (per-call counter inside the wrapped function), "
    "attempt_after_success, permanent_error_retried (the driver's own reading of the rule on the error it built), "
    "attempt_after_deadline (attempt >= 1 entered after the driver cancelled the deadline), attempt_after_shutdown, "
    "start_after_shutdown (probe calls still admitted), call_lost (retryable error / fired timer before the deadline and no "
    "shutdown, yet DoAsync returned; or DoAsync returned although nothing happened to the call), shutdown_returned_with_inflight "
    "(Shutdown returned with its context live while a wrapped function was running or a call had not returned), "
    "shutdown_never_returned, shutdown_ctx_not_cancelled, temporary_classification (hook vs the three-substring rule), "
    "backoff_out_of_range (8 samples of delayForIteration(i) within the nominal delay +-10 % jitter), driver_error_text, "
    "no_reaction, panic",
]

ASSUMPTIONS = [
    "Shutdown's close(shutdown) and asyncCancel() are one step in the model; in the code a few instructions lie between them, in "
    "which a call whose timer fires can start one more attempt (it is then waited for like any other); not reachable in lock-step",
    "`select` between a fired timer and a passed deadline / shutdown that are ready AT THE SAME TIME is random in Go; the model's "
    "environment delivers one event at a time (both orders are op sequences of the model), the driver never makes two ready at once",
    "the clock is abstracted to the events `fire` (a timer's delay is over) and `expire` (a deadline passed) in arbitrary order - "
    "an over-approximation of every clock; that a timer fires only after its delay and the random jitter of expbackoff.Backoff are "
    "not modelled (nominal delay compared in op delay, jitter range by monitor)",
    "a second Shutdown closes a closed channel and panics; app/app.go registers it once with the lifecycle manager (not driven); "
    "Shutdown's 100 ms polling period is not modelled (only that it returns once no call is active)",
    "the refinement theorem takes the delivery list of a call as given (what ParSigEx.Broadcast / Broadcaster.Broadcast / "
    "Consensus.Propose do with their set is C10 / corebcast / C02-C05): the retry layer contributes that the SAME captured "
    "arguments are used in every attempt and that attempts are whole repetitions; tracing spans and log lines are not modelled",
]
