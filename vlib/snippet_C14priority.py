"""Snippet for the lead to wire into C14: the two anchored files no model or driver reached so far -
core/priority (calculate.go calculateResult / validateMsgs / sortInput / orderTopicResults; prioritiser.go handleRequest,
the handler wrapper of newInternal and the requests arm of runInstance; component.go newMsgVerifier's check order) and
p2p/receive.go (RegisterHandler's stream handler over go-msgio's delimited reader) - one more correspondence stream and
one more Lean module of property theorems. Not a registry entry by itself (not named props_C*.py).

Wiring: append STREAM to ENTRY["streams"], append EXTRA_LEAN to ENTRY["lean_props_extra"], add MONITOR_SIGS to
ENTRY["monitor_sigs"], extend trusted_base / assumptions with the lines below, add KNOWN_FINDINGS. lean_exe
`drv-priority` is already in lakefile.toml; hook core/priority/verif_export_priority.go is committed in /repo (4c530f0).
The stream needs libp2p's mocknet (github.com/libp2p/go-libp2p/p2p/net/mock, inside the go-libp2p module of /repo's
go.sum; builds offline).
"""

STREAM = {"name": "priority", "drive": "drive-priority", "model": "drv-priority",
          "reset_ops": ["inst"],
          "n_quick": 2500, "seeds_quick": 3, "n_thorough": 20000, "seeds_thorough": 6,
          "search_seeds": 2}

EXTRA_LEAN = "CharonV.Props.C14Priority"

MONITOR_SIGS = ["priority:", "p2precv:"]

THEOREMS = [
    "CharonV.Priority.validate_accepts_iff",
    "CharonV.Priority.validate_order_independent",
    "CharonV.Priority.validate_nil_duty_order_witness",
    "CharonV.Priority.calculate_topics_order_independent",
    "CharonV.Priority.sort_input_any_sort",
    "CharonV.Priority.topic_order_any_map_order",
    "CharonV.Priority.calculate_msgs_is_input",
    "CharonV.Priority.calculate_msgs_echo_order_witness",
    "CharonV.Priority.topics_strictly_ascending",
    "CharonV.Priority.scores_descending",
    "CharonV.Priority.result_entry_supported",
    "CharonV.Priority.calculate_edges",
    "CharonV.Priority.reject_leaves_state",
    "CharonV.Priority.answered_request_wellformed",
    "CharonV.Priority.msgs_grow_only_by_answered",
    "CharonV.Priority.malformed_msg_aborts_instance_witness",
    "CharonV.Priority.instance_proposes_partial",
    "CharonV.Priority.recv_called_iff",
    "CharonV.Priority.recv_written_iff",
    "CharonV.Priority.recv_oversized_or_truncated_dropped",
]

# Lead's decision: the agent's finding `priority:malformed_msg_aborts_instance` (an authenticated member's structurally invalid
# PriorityMsg - duplicate topic / duplicate priority / >= 1000 priorities - is admitted and makes calculateResult fail for the whole
# list, so the node proposes nothing for that duty) is NOT a violation of C14: the data is handled with an error, nothing crashes
# and no wrong result is produced; C14 does not promise liveness of the priority protocol. The stream counts it as
# `observed:malformed_msg_aborts_instance:*`, the witness theorem malformed_msg_aborts_instance_witness and instance_proposes_partial
# state the fact about the code, the candidate hardening is fixes/C14-priority-validate-on-admission.diff.
KNOWN_FINDINGS = []

FIXED = []

LEVEL_TEXT = (" The priority protocol's result is proposed to consensus and hashed: Props/C14Priority.lean proves over a model of "
    "core/priority/calculate.go (Model/Priority.lean; topics / priorities identified with their hashProto value as the Go code "
    "does) that validateMsgs accepts exactly the non-empty lists with one common duty, pairwise different peers, per message "
    "pairwise different topics and per topic fewer than 1000 pairwise different priorities (validate_accepts_iff), that verdict "
    "and Topics are the same for EVERY arrival order of the same messages (validate_order_independent, "
    "calculate_topics_order_independent), for every result the unstable slices.SortFunc may return and every iteration order "
    "of the Go map (sort_input_any_sort, topic_order_any_map_order: keys are pairwise different, so the sorted permutation is "
    "unique; the one sort whose keys may tie, by score, is SortStableFunc and modelled as a stable insertion sort), that topics "
    "come out strictly ascending by hash and scores non-increasing (topics_strictly_ascending, scores_descending), that every "
    "entry scored more than (minRequired-1)*1000 and is listed by at least minRequired proposals of that topic, one per peer "
    "(result_entry_supported; support is necessary, not sufficient: a priority all minRequired=3 peers list at position 400 "
    "scores 1800 <= 2000 and is dropped - the code comment 'equivalent to ordering by count then by priority' is inexact), "
    "and that the edges take no index (calculate_edges). Two documented order dependences, neither reachable as a disagreement: "
    "Msgs of the result is the input slice in arrival order, so the full PriorityResult and its hash differ between nodes (own "
    "message first) - QBFT decides the leader's value and subscribers read Topics only (calculate_msgs_is_input, "
    "calculate_msgs_echo_order_witness); with a nil duty in the list the verdict depends on its position "
    "(validate_nil_duty_order_witness) - the verifier rejects nil duties. Admission: a rejected request leaves the instance "
    "untouched, an answered one was sent by the member it names, signed by that member over this message, for this duty, inside "
    "gater and deadliner window, and msgs grows only by answered requests (reject_leaves_state, answered_request_wellformed, "
    "msgs_grow_only_by_answered); the CONTENT is not checked - finding priority:malformed_msg_aborts_instance "
    "(malformed_msg_aborts_instance_witness, instance_proposes_partial). p2p/receive.go: the handler function runs iff a "
    "complete frame within the read limit arrived whose payload decodes into the registered type and passes protonil, a "
    "response is written iff the handler returned one without error, an oversized or truncated frame never reaches it "
    "(recv_called_iff, recv_written_iff, recv_oversized_or_truncated_dropped). Tied by stream priority: the real "
    "calculateResult, the real Prioritiser (NewForT, real secp256k1 signatures and verifier) and the real RegisterHandler on a "
    "libp2p mocknet with raw frames, the compiled model on the same ops.")

TRUSTED_BASE = [
    "model CharonV/Model/Priority.lean mirrors core/priority/calculate.go (validateMsgs: the interleaved loop with first error "
    "wins, the nil-duty reference rule, newDeduper; sortInput; the score map + allPriorities as an association list in first-seen "
    "order, score += 1000 - position in Int; SortStableFunc by score decreasing as a stable insertion sort; minScore = "
    "(minRequired-1)*1000 with `<=` dropped; the result's topic key; orderTopicResults as sort by hash; Msgs = input), "
    "prioritiser.go (handler wrapper nil / wrong type; handleRequest: sender id, verifier, gater, deadliner in this order, enqueue "
    "by duty, answer only from a running instance of that duty; runInstance: msgs = [own], dedupPeers WITHOUT the own id, "
    "`len(msgs) == len(peers)` checked after an event only, consStarted, the error of calculateResult ends the instance; the "
    "exchange time-out arm only before any request), component.go newMsgVerifier (nil duty, unknown peer, empty signature, "
    "recover error, wrong key - in this order) and p2p/receive.go over go-msgio uvarintReader.ReadMsg / go-varint ReadUvarint "
    "(9-byte limit, minimal encoding, length > limit, short read, then unmarshal + protonil, handler error / false / response); "
    "tied by correspondence stream priority",
    "hook core/priority/verif_export_priority.go (build tag verif, add-only): VerifCalculateResult, VerifHashProto, "
    "VerifNewMsgVerifier, VerifSignMsg; the Prioritiser itself is built with the repo's own NewForT (its *testing.T is unused), the "
    "handler is captured through registerHandlerFunc, consensus records proposals, deadliner / gater are fakes (slot windows), "
    "sendFunc always fails, the host is a stub with ID() only",
    "symbolic values on the op line: a topic is the first 6 bytes of its real hashProto (pool of 24 Any values incl. nil, a Duty, "
    "an unknown type URL; prefix collisions checked at start), a priority a pool index (pool incl. nil Any, garbage value bytes, a "
    "Duty; hash collisions checked), a peer id string becomes a Nat by an order preserving code (base 256, zero padded to 64 "
    "bytes) in lean/Driver/Priority.lean; op recv carries the raw stream bytes and two observed oracles: does the payload decode "
    "into PriorityMsg (proto.Unmarshal) and pass protonil.Check",
    "op req for another duty or after the instance returned is answered by the handler's context only: the driver gives these "
    "calls 25 ms (a stimulus, the only timing in the stream; all other time-outs are 3 s / 20 s watchdogs); early episodes use "
    "exchangeTimeout = 1 ms and send nothing before the outcome arrived",
    "monitors (independent of the model): priority:result_depends_on_order (3 random permutations per calc op: verdict and "
    "deterministic bytes of Topics), unsupported_priority_in_result (supporters recounted on the protos by hash), "
    "scores_not_descending, topics_not_canonical, duplicate_priority_in_result, result_msgs_changed, invalid_msg_accepted (an "
    "answered request must be from = claim, member, signed by claim, instance duty; every message of a proposal is the own one "
    "or such a request), wrong_response, malformed_msg_aborts_instance (the finding), panic; p2precv:handler_called_on_bad_frame "
    "(frame re-read with encoding/binary, proto.Unmarshal, protonil; the handler's argument must be proto.Equal to it), "
    "good_frame_dropped, handler_called_twice, response_without_handler, garbled_response",
]

ASSUMPTIONS = [
    "hashProto is injective on the values used and total on wire-decoded messages (an Any whose type URL is not valid UTF-8 "
    "fails proto.Marshal: cannot come off the wire, not generated); signatures are symbolic in the model (`Sig.by p` = recovers "
    "to p's key over this very message) and real in the stream",
    "messages with a nil duty are outside the order-independence theorems (validate_nil_duty_order_witness shows why); the real "
    "verifier rejects them before they reach an instance",
    "not modelled: the exchange's response arm (same two checks as handleRequest: peer id, verifier; responses of concurrent "
    "goroutines arrive in an unobservable order), Prioritiser.Start / deleteRecvBuffer, relay errors and read time-outs of "
    "receive.go (a client that keeps its write side open), the legacy protocol id, log output",
    "receive.go has NO recover around handlerFunc: a panicking handler takes the process down (go-msgio's ReadMsg recovers "
    "panics of proto.Unmarshal only); the registered handlers are the owners of that obligation (priority's handler is covered "
    "by priority:panic under recover in this stream, on direct calls)",
]
