"""C20 — duties cache (app/eth2wrap/cache.go)."""

ENTRY = {
    "lean_props": "CharonV.Props.C20",
    "streams": [
        {"name": "cache", "drive": "drive-cache", "model": "drv-dutiescache",
         "reset_ops": ["cfg"],
         "n_quick": 30000, "seeds_quick": 3, "n_thorough": 300000, "seeds_thorough": 8,
         "search_seeds": 2},
    ],
    "level_text": "Kernel-checked Lean theorems over all histories of the duties cache (any beacon-node duty assignment incl. validators with no or several duties, all three duty kinds, every epoch and index list — overlapping, disjoint, repeated —, complete calls and any number of interleaved two-phase calls (lookup / beacon request in flight / store), reorg invalidations, trims, active-set updates): every answer equals the node's answer for the request as a multiset plus metadata (linearised at the lookup), invalidation/trim drop exactly the affected epochs and the next call fetches them afresh, and — for the variant with the proposed cloning fix — no returned metadata map or index slice is held by the cache or returned twice. For the code as it is the answer theorems carry two side conditions (no index repeated on the store path; no response stored across an invalidation of its epoch), each shown necessary by a kernel-checked witness and each removed by a modelled fix (`reach_all_fixed`); the model is tied to cache.go by differential correspondence of the real DutiesCache against a scripted beacon node with held requests.",
    "level_note": "Trusted: Lean kernel, Go correspondence harness and line driver. Go memory (sharing of maps/slices) is modelled as object identities and validated dynamically by pointer identity and mutate-and-reread probes; data races as such are not covered. Known findings on the unchanged tree: duplicated duties after an amend with a repeated index, shared sync-index slice, shared metadata map (D-8), stale response stored across InvalidateCache.",
    "trusted_base": [
        "model CharonV/Model/DutiesCache.lean mirrors app/eth2wrap/cache.go (…DutiesCache, fetch*, storeOrAmend*, trimBefore*/trimAfter*, Trim, InvalidateCache, UpdateActiveValIndices; one text for the three duty kinds); tied by the `cache` stream on the real DutiesCache for all three kinds",
        "scripted beacon node: harness/cmd/drive-cache `node` and CharonV.DutiesCache.scriptedBn are the same pure function (any difference shows as a stream diff)",
        "the lock-free window of a call is abstracted to one point between lookup and store (the only shared-state accesses of a call are fetch* and storeOrAmend*, each under the kind's lock)",
    ],
    "assumptions": [
        "the beacon node answers a duties request by filtering its per-epoch duty list by the requested indices, and changes its answers only at a reorg (for epochs after the reorged-to epoch), which is always followed by InvalidateCache",
        "the code before the repairs (48745d4, 85f4ab0, a3c1d4e) violated the full statements: witnesses dup_on_amend_witness, inflight_invalidate_witness, shared_metadata_witness, shared_slice_witness; with all four switches on (Cfg.current) reach_all_fixed needs no side condition",
    ],
}

# the epoch InvalidateCache is called with comes from the beacon node's chain_reorg event through app/sse
# (handleChainReorgEvent / notifyChainReorg): Model/SseReorg.lean, Props/C20Sse.lean, op `sse` of the cache stream
ENTRY.setdefault("lean_props_extra", []).append("CharonV.Props.C20Sse")
ENTRY["trusted_base"] = ENTRY["trusted_base"] + ["hook app/sse/verif_export.go (build tag verif): listener without beacon node, handleChainReorgEvent callable with a raw event payload"]
ENTRY["assumptions"] = ENTRY["assumptions"] + ["the SSE listener notifies its subscribers only when the epoch differs from the last notified one (several beacon nodes report the same reorg): two distinct reorgs with the same common-ancestor epoch are notified once — observation, the cache property starts at InvalidateCache"]
