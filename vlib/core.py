"""Generic check pipeline: build harness from /repo's working tree, regenerate translated Lean
facts, re-check the property theorems (lake build + axiom audit), run the correspondence
streams (real Go code vs executable Lean model), evaluate monitors, write evidence."""
import fcntl, glob, hashlib, json, os, re, shutil, subprocess, sys, time

VERIF = os.path.dirname(os.path.dirname(os.path.abspath(__file__)))
REPO = os.environ.get("VERIF_REPO", "/repo")
LEAN = os.path.join(VERIF, "lean")
HARNESS = os.path.join(VERIF, "harness")
ALLOWED_AXIOMS = {"propext", "Classical.choice", "Quot.sound"}

GOENV = dict(os.environ, GOFLAGS="-mod=mod", GOPROXY="off", CGO_ENABLED="1")
GOENV.pop("GOTOOLCHAIN", None)
GOENV.pop("GOSUMDB", None)


def sh(cmd, cwd=None, env=None, timeout=None, stdin=None, stdout=subprocess.PIPE):
    try:
        p = subprocess.run(cmd, cwd=cwd, env=env, timeout=timeout, stdin=stdin, stdout=stdout,
                           stderr=subprocess.STDOUT, text=True)
    except subprocess.TimeoutExpired as e:
        out = e.stdout if isinstance(e.stdout, str) else (e.stdout or b"").decode("utf-8", "replace")
        return 124, (out or "") + f"\n[timeout after {timeout}s]"
    return p.returncode, (p.stdout or "")


class LeanLock:
    """Serialises lake builds between concurrently started checks."""

    def __enter__(self):
        os.makedirs(os.path.join(LEAN, ".lake"), exist_ok=True)
        self.f = open(os.path.join(LEAN, ".lake", "verif.lock"), "w")
        fcntl.flock(self.f, fcntl.LOCK_EX)
        return self

    def __exit__(self, *a):
        fcntl.flock(self.f, fcntl.LOCK_UN)
        self.f.close()


def mkmod():
    rc, out = sh([sys.executable, os.path.join(HARNESS, "mkmod.py")], env=dict(os.environ, VERIF_REPO=REPO))
    if rc != 0:
        raise RuntimeError("mkmod failed: " + out)


def go_build(name, outdir):
    """Build harness command `name` against /repo's current working tree, hooks on."""
    os.makedirs(outdir, exist_ok=True)
    out = os.path.join(outdir, name)
    if os.path.exists(out):
        os.remove(out)
    with open(os.path.join(HARNESS, ".mod.lock"), "w") as lf:
        fcntl.flock(lf, fcntl.LOCK_EX)
        mkmod()
        rc, log = sh(["go", "build", "-tags", "verif", "-o", out, "./cmd/" + name], cwd=HARNESS, env=GOENV, timeout=1800)
    return rc == 0, log, out


def theorems_in(path):
    """Names (with namespace) and line spans of theorems in a Props file."""
    src = open(path).read()
    ns = []
    res = []
    lines = src.split("\n")
    for i, l in enumerate(lines):
        m = re.match(r"^namespace\s+(\S+)", l)
        if m:
            ns.append(m.group(1))
        m = re.match(r"^end\s+(\S+)", l)
        if m and ns and ns[-1].split(".")[-1] == m.group(1).split(".")[-1]:
            ns.pop()
        m = re.match(r"^(?:@\[[^\]]*\]\s*)?(?:private\s+|protected\s+)?theorem\s+(\S+)", l)
        if m:
            res.append({"name": ".".join(ns + [m.group(1)]), "line": i + 1})
    for j, t in enumerate(res):
        t["end"] = res[j + 1]["line"] - 1 if j + 1 < len(res) else len(lines)
    return res


def scan_forbidden(paths):
    """sorry/admit/axiom/native_decide/... outside comments."""
    bad = []
    pat = re.compile(r"\bsorry\b|\badmit\b|^\s*axiom\s|native_decide|bv_decide|implemented_by|\bunsafe\s|maxHeartbeats\s+0|@\[extern")
    for p in paths:
        src = open(p).read()
        src = re.sub(r"/-.*?-/", lambda m: "\n" * m.group(0).count("\n"), src, flags=re.S)
        for i, l in enumerate(src.split("\n")):
            l2 = l.split("--")[0]
            if pat.search(l2):
                bad.append(f"{os.path.relpath(p, VERIF)}:{i+1}: {l.strip()}")
    return bad


def lean_imports_closure(module):
    """Project-local files transitively imported by `module`."""
    seen, todo = [], [module]
    while todo:
        m = todo.pop()
        p = os.path.join(LEAN, m.replace(".", "/") + ".lean")
        if p in seen or not os.path.exists(p):
            continue
        seen.append(p)
        for l in open(p):
            mm = re.match(r"^import\s+(\S+)", l)
            if mm and (mm.group(1).startswith("CharonV") or mm.group(1).startswith("Driver")):
                todo.append(mm.group(1))
    return seen


def lake_build(targets, timeout=3600):
    with LeanLock():
        rc, out = sh(["lake", "build"] + targets, cwd=LEAN, timeout=timeout)
    return rc == 0, out


def audit_axioms(module, names, workdir):
    """`#print axioms` for each theorem; returns {name: [axioms]} or raises."""
    f = os.path.join(workdir, "Audit.lean")
    with open(f, "w") as fh:
        fh.write(f"import {module}\n")
        for n in names:
            fh.write(f"#print axioms {n}\n")
    rc, out = sh(["lake", "env", "lean", f], cwd=LEAN, timeout=1800)
    res = {}
    # outputs: "'X' depends on axioms: [a, b]" / "'X' does not depend on any axioms" (X may contain primes)
    flat = out.replace("\n ", " ")
    for m in re.finditer(r"^'(.+)' depends on axioms: \[([^\]]*)\]", flat, flags=re.M):
        res[m.group(1)] = [a.strip() for a in m.group(2).replace("\n", " ").split(",") if a.strip()]
    for m in re.finditer(r"^'(.+)' does not depend on any axioms", flat, flags=re.M):
        res[m.group(1)] = []
    return rc, out, res


def run_stream(binpath, model_exe, mode_args, workdir, timeout=3600):
    """Run Go driver (gen or exec), then the Lean model on the same ops; return diff info."""
    os.makedirs(workdir, exist_ok=True)
    known = load_known()
    sigs = ",".join(sorted({f["sig"] for f in known.get("findings", [])}))
    rc, log = sh([binpath] + mode_args + ["-dir", workdir], cwd=VERIF,
                 env=dict(os.environ, GOMEMLIMIT="8GiB", VERIF_KNOWN_SIGS=sigs), timeout=timeout)
    res = {"go_rc": rc, "go_log": log[-4000:], "dir": workdir}
    if rc != 0 or not os.path.exists(os.path.join(workdir, "stats.json")):
        res["crash"] = True
        return res
    with open(os.path.join(workdir, "ops.txt")) as fi, open(os.path.join(workdir, "model.out"), "w") as fo:
        p = subprocess.run([model_exe], stdin=fi, stdout=fo, stderr=subprocess.PIPE, text=True, timeout=timeout)
    res["model_rc"] = p.returncode
    res["model_err"] = (p.stderr or "")[-2000:]
    ops = open(os.path.join(workdir, "ops.txt")).read().split("\n")
    impl = open(os.path.join(workdir, "impl.out")).read().split("\n")
    model = open(os.path.join(workdir, "model.out")).read().split("\n")
    diffs = []
    for i in range(max(len(impl), len(model))):
        a = impl[i] if i < len(impl) else "<missing>"
        b = model[i] if i < len(model) else "<missing>"
        if a != b:
            diffs.append({"op": i + 1, "line": ops[i] if i < len(ops) else "", "impl": a, "model": b})
            if len(diffs) >= 20:
                break
    res["diffs"] = diffs
    res["stats"] = json.load(open(os.path.join(workdir, "stats.json")))
    return res


def episode_slice(ops, idx, reset_prefixes):
    """ops[..idx] (1-based idx inclusive) cut back to the last episode-reset op."""
    start = 0
    for i in range(idx - 1, -1, -1):
        if any(ops[i].startswith(p) for p in reset_prefixes):
            start = i
            break
    return ops[start:idx]


def ddmin(ops, pred, keep_first=1, budget=150):
    """Greedy delta debugging: remove chunks while `pred(ops)` stays true."""
    cur = list(ops)
    n = 2
    runs = 0
    while len(cur) - keep_first >= 2 and runs < budget:
        body = cur[keep_first:]
        chunk = max(1, len(body) // n)
        removed = False
        for s in range(0, len(body), chunk):
            cand = cur[:keep_first] + body[:s] + body[s + chunk:]
            if len(cand) == len(cur):
                continue
            runs += 1
            if pred(cand):
                cur = cand
                n = max(n - 1, 2)
                removed = True
                break
            if runs >= budget:
                break
        if not removed:
            if chunk == 1:
                break
            n = min(n * 2, len(body))
    return cur


def load_known():
    p = os.path.join(VERIF, "known_findings.json")
    if not os.path.exists(p):
        return {"findings": [], "fixed": []}
    return json.load(open(p))
