"""C14 — duty data encoding is lossless, deterministic and total (core/proto.go, core/ssz.go, …). PARTIAL."""
from vlib.trans_sszwrap import sszwrap

_OPS = ["x ", "mb ", "mv ", "mi ", "ub ", "uv ", "ui ", "tm ", "tu ", "am ", "au ", "fb ", "mf ", "ps", "us"]

ENTRY = {
    "lean_props": "CharonV.Props.C14",
    "go_tools": ["trans-sszwrap"],
    "translators": [sszwrap],
    "monitor_sigs": ["codec:"],
    "streams": [
        # every op is self-contained (no state between ops): each op line is its own episode, so a
        # finding is replayable from that one line (mutated bytes are in the line, base64).
        {"name": "codec", "drive": "drive-codec", "model": "drv-sszwrap",
         "reset_ops": _OPS,
         "n_quick": 600, "seeds_quick": 1, "n_thorough": 6000, "seeds_thorough": 2,
         "search_seeds": 1},
    ],
    "level": "proof",
    "rule": "one evaluation = one op line executed on the real implementation (correspondence ops also on the Lean model and diffed; exploration ops `x …` run every operation of the receive / decide / store path under recover()); distinct non-trivial = distinct (kind, outcome) case keys of the driver",
    "level_text": "PROVED (kernel-checked, all inputs, abstract inner codec): charon's own SSZ wrappers of core/ssz.go — marshalSSZVersioned{Blinded,ValidatorIdx,}To / unmarshalSSZVersioned{Blinded,ValidatorIdx,} — round-trip, reject short input / unknown version / bad offset exactly as the code does, accept only what has a complete header and an inner object the inner decoder accepted on exactly buf[o1:], and marshal is injective given inner injectivity; the VersionedAttestation dispatch with its backwards-compatibility fallback on any failure (round trip with validator index; WITHOUT index for every slot, given that the inner decoder does not accept the inner object shifted by 8 bytes when inner bytes 4..8 read 20 — intrinsic to the wire format, whose two forms overlap: attestation_marshal_ambiguous; the pre-fix decoder unmarshalAttPrefix is kept with its negation witness prefix_attestation_roundtrip_noindex_fails, D-15 fixed by repo commit 2a43df9); AttestationData + attesterDutySSZ; core.marshal/unmarshal as decision logic (round trip for both encodings; JSON is attempted iff the type has no SSZ decoder or the SSZ decoder failed AND the first byte after leading Unicode white space is '{'); the four set encoders as loops over a Go map with the iteration order as oracle (decode∘encode = id on non-empty sets, result independent of the order); hashProto independent of the order given deterministic marshalling (assumed). Layouts are regenerated from the Go source by T-sszwrap (go/ast) and pinned by source_layout / source_text; bytes are tied by the correspondence stream `codec` (real wrappers with a scripted inner object, real types with real go-eth2-client inner objects, real core.unmarshal on probe values, real set encoders). EXPLORED (harness, not a theorem): generated values of every core data type × fork version (blinded/full, with/without validator index) through SSZ, JSON and protobuf (ssz switch on and off) with signing root and every encoded field unchanged, Clone equal and sharing no memory, equal bytes on re-encoding, consensus hash independent of map order; cross-type decoding under every duty type; EVERY JSON node × {null, wrong type, [], [null], removed}; SSZ truncations / splices / header-word and offset-word corruption; arbitrary payloads — each followed by the operations of the parsigex receive path (ParSignedDataSetFromProto, Eth2SignedData, Epoch, MessageRoot, Signature, real BLS VerifyEth2SignedData (sampled), parsigdb.StoreExternal with a sigagg-like threshold subscriber, Clone, SetSignature, re-encode) or of the consensus decide/store path (UnsignedDataSetFromProto, hashProto, attestationChecker field reads, dutydb.Store, Clone, re-encode, hash tree root), each under recover(); counts under coverage keys explored_*.",
    "level_note": "PARTIAL: a theorem cannot exhibit a Go panic. Panic-freedom of charon's accessors and of the go-eth2-client decoders on malformed input is decided only as far as the mutation enumeration reaches (coverage counts explored_values, explored_mutations:*, explored_decode_*, explored_rejected_at:*, explored_panic:*, explored_latent_panic:* = accessor panics on decodable values that the modelled path rejects earlier, counted, not violations). Trusted: Lean kernel; the Go harness and line driver; T-sszwrap (go/ast + closed set of statement shapes, fails closed).",
    "trusted_base": [
        "model CharonV/Model/SszWrap.lean mirrors core/ssz.go (three versioned wrappers, VersionedAttestation dispatch/fallback, AttestationData, attesterDutySSZ), core/proto.go (marshal, unmarshal incl. bytes.TrimSpace on Go's strict UTF-8 decoding, the four set encoders), consensus/qbft hashProto; tied by correspondence stream codec (byte-exact wrapper bytes, suffix handed to the inner decoder, error class, fallback decision, canonical set content)",
        "translator trans-sszwrap (go/ast): header constants, dataVersionValues, interpreted statement lists of the six wrapper functions (closed set of shapes, fail closed), versions accepted by every sszValFromVersion, normalised statement text of the hand-mirrored functions (pinned by Props/C14.source_text)",
        "inner go-eth2-client SSZ/JSON codecs are abstract (enc/dec with hypothesis dec (enc x) = ok x); their verdict on a suffix is supplied to the model as an oracle by the harness, which calls the real inner decoder on the suffix it computes from the header independently",
        "the harness's path order (which operation follows which, where an error ends the path) is a hand-made mirror of parsigex.handle / NewEth2Verifier / parsigdb.StoreExternal and of consensus Subscribe → dutydb.Store; attestationChecker is mirrored by field reads (unexported)",
    ],
    "assumptions": [
        "inner codec hypotheses: dec (enc x) = ok x for round trips, enc injective for marshal injectivity; validator index < 2^64, 8 + len(attestation data) < 2^32, AttesterDuty pubkey 48 bytes (Go types guarantee these)",
        "deterministic protobuf marshalling (proto.MarshalOptions{Deterministic:true}) yields bytes that depend only on the content of the map field — hypothesis hser of hashProto_order_independent, not proved",
        "JSON decoding after a failed SSZ attempt does not depend on what the failed attempt left in the target value (explored by the harness: JSON round trips with the ssz switch off go through exactly this path)",
        "a value carries only the inner object selected by (version, blinded); fields no encoder carries (VersionedProposal.ConsensusValue / ExecutionValue, deliberately reset by validatorapi) are outside the property",
        "a peer can sign what it sends with its own share key, so the receive path is explored past signature verification",
        "panic-freedom is not proved; it is explored on the enumerated mutations only",
    ],
}

# "equal values yield equal consensus hashes on every node" on the receive path of consensus messages
# (core/consensus/qbft/msg.go valuesByHash / newMsg, an anchor of C14): the admission stream of C05 sends multi-entry
# sets whose map entries travel in non-canonical order; the value must be filed under the hash the honest leader announced
from vlib.props_C05 import ENTRY as _E05
ENTRY["streams"] = ENTRY["streams"] + [dict(_E05["streams"][0], seeds_quick=1)]
ENTRY["monitor_sigs"] = list(ENTRY.get("monitor_sigs") or ["codec:"]) + ["qbftwire:honest_message_rejected", "qbftwire:honest_message_not_constructible", "qbftwire:value_hash_mismatch_accepted"]

# Fifth session: core/signeddata.go and core/unsigneddata.go — the accessor laws of every implementation of core.SignedData
# (Signature / SetSignature / MessageRoot / Clone / JSON) per fork version and blinded form: translator T-signeddata
# (regenerated table, `every_signed_type_ok` by decide), generic model Model/SignedData.lean, theorems Props/C14SignedData.lean,
# stream signeddata (every signed type and version from the New* constructors).
from vlib import snippet_C14signeddata as _sd
ENTRY["go_tools"] = ENTRY.get("go_tools", []) + _sd.GO_TOOLS
ENTRY["translators"] = ENTRY.get("translators", []) + _sd.TRANSLATORS
ENTRY["streams"] = ENTRY["streams"] + [_sd.STREAM]
ENTRY.setdefault("lean_props_extra", []).append(_sd.EXTRA_LEAN)
ENTRY["monitor_sigs"] = ENTRY["monitor_sigs"] + [m for m in _sd.MONITOR_SIGS if m not in ENTRY["monitor_sigs"]]
ENTRY["trusted_base"] = ENTRY["trusted_base"] + _sd.TRUSTED_BASE
ENTRY["assumptions"] = ENTRY["assumptions"] + _sd.ASSUMPTIONS
ENTRY["level_text"] += _sd.LEVEL_TEXT

# Fifth session: the two C14-anchored files on the peer-data path that no stream reached — core/priority (calculate.go's
# calculateResult: every node must compute the same Topics from the same set of messages; the prioritiser's admission of peer
# messages) and p2p/receive.go (RegisterHandler's frame / decode / handler decision): Model/Priority.lean, theorems
# Props/C14Priority.lean, stream priority (real calculateResult, real Prioritiser handler with real signatures, real
# RegisterHandler over libp2p's mocknet with raw frames).
from vlib import snippet_C14priority as _pr
ENTRY["streams"] = ENTRY["streams"] + [_pr.STREAM]
ENTRY["lean_props_extra"].append(_pr.EXTRA_LEAN)
ENTRY["monitor_sigs"] = ENTRY["monitor_sigs"] + [m for m in _pr.MONITOR_SIGS if m not in ENTRY["monitor_sigs"]]
ENTRY["trusted_base"] = ENTRY["trusted_base"] + _pr.TRUSTED_BASE
ENTRY["assumptions"] = ENTRY["assumptions"] + _pr.ASSUMPTIONS
ENTRY["level_text"] += _pr.LEVEL_TEXT

# Fifth session: the RESPONSE side of the validator API (core/validatorapi/router.go proposeBlockV3 / createProposeBlockResponse,
# aggregateAttestation, attestationData, validator-id parsing, duties wrappers; Component.Proposal's non-crypto decisions):
# Model/RouterGet.lean, theorems Props/C14RouterGet.lean, stream routerget (real NewRouter over httptest in front of a scripted
# Handler and the real Component; every 200 body decoded by the response headers alone and compared with the served object).
from vlib import snippet_C14routerget as _rg
ENTRY["streams"] = ENTRY["streams"] + [_rg.STREAM]
ENTRY["lean_props_extra"].append(_rg.EXTRA_LEAN)
ENTRY["monitor_sigs"] = ENTRY["monitor_sigs"] + [m for m in _rg.MONITOR_SIGS if m not in ENTRY["monitor_sigs"]]
ENTRY["trusted_base"] = ENTRY["trusted_base"] + _rg.TRUSTED_BASE
ENTRY["assumptions"] = ENTRY["assumptions"] + _rg.ASSUMPTIONS + getattr(_rg, "OBSERVATIONS", [])
