"""Translator T-appwire for C01: regenerate lean/CharonV/Generated/AppWire.lean from the production wiring.

`appwire(bindir) -> (ok, log)`; the Go tool `trans-appwire` (listed in ENTRY["go_tools"], built by check into
`bindir`) type-checks packages app, core/consensus and cluster of $VERIF_REPO with go/packages and lists every
call of a constructor of the core workflow (arguments, enclosing conditions), the variables those arguments are
made of (every assignment), the writes that build the share maps, the uses of every component / gater /
deadliner / NodeIdx variable, and the call sites of core.Wire. It fails closed on Go it does not model (a listed
constructor used as a function value, ...); Props/C01Wire.lean decides the facts C01 relies on over the table."""
import os, subprocess
from vlib import core


def appwire(bindir):
    exe = os.path.join(bindir, "trans-appwire")
    out = os.path.join(core.LEAN, "CharonV", "Generated", "AppWire.lean")
    os.makedirs(os.path.dirname(out), exist_ok=True)
    if not os.path.exists(exe):
        return False, "trans-appwire was not built"
    with core.LeanLock():  # do not swap the file under a concurrent lake build
        try:
            p = subprocess.run([exe, "-repo", core.REPO, "-out", out], stdout=subprocess.PIPE,
                               stderr=subprocess.STDOUT, text=True, timeout=600, env=dict(core.GOENV))
            rc, log = p.returncode, p.stdout
        except subprocess.TimeoutExpired as e:
            rc, log = 124, "trans-appwire: timeout"
        if rc != 0 and os.path.exists(out):
            # fail closed: a stale table must not keep the theorems true
            os.remove(out)
    return rc == 0, log
