"""Translator T-const for C05: regenerate lean/CharonV/Generated/QbftConst.lean from the Go source.

`tr(bindir) -> (ok, log)`; the Go tool `extract-qbftconst` (listed in ENTRY["go_tools"], built by
check into `bindir`) parses /repo with go/ast and fails closed on any shape it does not understand."""
import os, subprocess
from vlib import core


def qbftconst(bindir):
    exe = os.path.join(bindir, "extract-qbftconst")
    out = os.path.join(core.LEAN, "CharonV", "Generated", "QbftConst.lean")
    os.makedirs(os.path.dirname(out), exist_ok=True)
    if not os.path.exists(exe):
        return False, "extract-qbftconst was not built"
    with core.LeanLock():  # do not swap the file under a concurrent lake build
        p = subprocess.run([exe, "-repo", core.REPO, "-out", out], stdout=subprocess.PIPE,
                           stderr=subprocess.STDOUT, text=True, timeout=300)
    return p.returncode == 0, p.stdout
