"""Snippet for the lead to wire into C12 (last clause: "decoding then re-encoding a file never changes its hashes", in
every supported format version v1.0 - v1.11): the per-version JSON codecs of cluster definitions and locks -
cluster/definition.go (MarshalJSON / UnmarshalJSON dispatch, marshalDefinitionV1x... / unmarshalDefinitionV1x..., the
definitionJSONv1x... structs), cluster/lock.go (same for locks), cluster/distvalidator.go, operator.go, deposit.go,
registration.go (the nested ...To/From... conversions) and cluster/helpers.go (ethHex, to0xHex, from0xHex) - as TRANSFER
LISTS. One more TRANSLATOR (T-jsonmap), one more Lean module of property theorems, one more correspondence stream.
Not a registry entry by itself (not named props_C*.py).

Wiring (the way props_C12.py registers trans_ssz and wires snippet_C12keystore):

    from vlib import snippet_C12jsonmap as _jm
    ENTRY["go_tools"] = ENTRY.get("go_tools", []) + _jm.GO_TOOLS            # ["trans-jsonmap"], built by check into bindir
    ENTRY["translators"] = ENTRY.get("translators", []) + _jm.TRANSLATORS   # [vlib.trans_jsonmap.jsonmap]; AFTER trans_ssz
                                   # (Props/C12JsonMap imports Generated/ClusterSsz AND Generated/ClusterJson; the exe
                                   # drv-jsonmap imports Generated/ClusterJson) and before the Lean build
    ENTRY["streams"] = ENTRY["streams"] + [_jm.STREAM]
    ENTRY.setdefault("lean_props_extra", []).append(_jm.EXTRA_LEAN)
    ENTRY["monitor_sigs"] = ENTRY["monitor_sigs"] + _jm.MONITOR_SIGS
    ENTRY["trusted_base"] += _jm.TRUSTED_BASE; ENTRY["assumptions"] += _jm.ASSUMPTIONS; ENTRY["level_text"] += _jm.LEVEL_TEXT

TRANSLATOR entry: `trans-jsonmap -repo <repo> -out lean/CharonV/Generated/ClusterJson.lean` (wrapper vlib/trans_jsonmap.py:
takes core.LeanLock, removes the output when the tool fails so that a stale table cannot keep the theorems true). The tool
parses and type-checks package cluster (go/ast + go/types, imports stubbed, 0.1 s), checks the shape of the four dispatchers
(Definition / Lock MarshalJSON / UnmarshalJSON: `d2 := d.SetDefinitionHashes()`, `lockHash := hashLock(l)`, the anonymous
version struct, one tagless switch whose cases are `isAnyVersion(<selector>, consts...)` calling ONE marshal.../unmarshal...
function, an erroring default), and interprets every codec function and every conversion it calls with one symbolic
evaluator over a CLOSED set of statement shapes (listed at `stmts` in the source: accumulator declarations, := / =, late
`x.F, err = from0xHex(...)`, error propagation, nil shortcuts, the four guard shapes, `for _, v := range <list>` with
append / indexed writes / nested loops / guards, one final return). to0xHex, from0xHex, ethHex.MarshalJSON/UnmarshalJSON,
isAnyVersion, LegacyValidatorAddresses, SetDefinitionHashes, firstDepositDataOrDefault, repeatVAddrs are primitives whose
source text is pinned. Anything else -> exit 1. Output: per codec function its JSON struct and one row per JSON-struct leaf
(JSON tag path, list depth, JSON kind from the field type and tag options, in-memory tag path, conversion, list shape,
guards), the four dispatch lists (version constant -> function, source order, duplicates kept), the in-memory leaves.
12 versions / 24 codec functions / 47 paths on the current tree.

lean_exe `drv-jsonmap` is already appended to lean/lakefile.toml. No hook in /repo was needed. No defect found.

Mutation results (scratch worktree /var/tmp/wt-Y4, one site each, seed 1, n = 3000; T = the regenerated table changes and
`every_version_ok` (TableOk by kernel evaluation) fails, W = TableOk still holds but a pinned `..._witness` theorem fails,
M = monitors, D = stream differences against the model built from the UNMUTATED table - the check would rebuild the model
from the mutated table, so D is indicative only; T / W / M are what the pipeline sees):
  M1 marshalDefinitionV1x9 no longer sets ConsensusProtocol              T  M changed_field 45, changed_hash 155   D 83
  M2 operatorsFromV1x2orLater swaps ConfigSignature / ENRSignature       T  M changed_field 122, changed_hash 56, reencode_changed_file 23   D 38
  M3 Lock.UnmarshalJSON sends v1.7 to unmarshalLockV1x6                  T  (struct of encoder != decoder) M changed_field 87, changed_hash 28, reencode 24   D 104
  M4 unmarshalDefinitionV1x0or1: from0xHex(fork_version, addressLen)     W  (non_identity_rows_witness pins `.fromHex 4`) M changed_field 200 (well-formed file rejected)   D 311
  M5 depositDataFromJSON no longer reads Amount                          T  M changed_field 50, changed_hash 100, reencode 50   D 101
  M6 marshalLockV1x8OrLater writes lock.LockHash instead of lockHash[:]  W  (non_identity_rows_witness, hashes_recomputed_on_encode_witness) no monitor (the round trip is still the identity on values with right hashes)   D 100
  M7 registrationFromJSON: time.Unix(x, 1)                               translator fails closed; M changed_field 158   D 331
"""
from vlib.trans_jsonmap import jsonmap

GO_TOOLS = ["trans-jsonmap"]
TRANSLATORS = [jsonmap]

STREAM = {"name": "jsonmap", "drive": "drive-jsonmap", "model": "drv-jsonmap",
          "reset_ops": ["rt"],
          "n_quick": 6000, "seeds_quick": 2, "n_thorough": 60000, "seeds_thorough": 6,
          "search_seeds": 2}

EXTRA_LEAN = "CharonV.Props.C12JsonMap"

MONITOR_SIGS = ["jsonmap:"]

THEOREMS = [
    "CharonV.Props.C12JsonMap.decode_encode_id",
    "CharonV.Props.C12JsonMap.encode_decode_id",
    "CharonV.Props.C12JsonMap.roundtrip_preserves_hashed_fields",
    "CharonV.Props.C12JsonMap.no_field_dropped",
    "CharonV.Props.C12JsonMap.no_field_written_twice",
    "CharonV.Props.C12JsonMap.version_dispatch_total",
    "CharonV.Props.C12JsonMap.every_version_ok",
    "CharonV.Props.C12JsonMap.versions_complete",
    "CharonV.Props.C12JsonMap.hashed_fields_transferred",
    "CharonV.Props.C12JsonMap.definition_fields_defaulted_witness",
    "CharonV.Props.C12JsonMap.lock_fields_defaulted_witness",
    "CharonV.Props.C12JsonMap.non_identity_rows_witness",
    "CharonV.Props.C12JsonMap.hashes_recomputed_on_encode_witness",
    "CharonV.Props.C12JsonMap.stale_hash_overwritten_witness",
    "CharonV.Props.C12JsonMap.fixed_hex_rejects_own_output_witness",
    "CharonV.Props.C12JsonMap.time_subsecond_truncated_witness",
    "CharonV.Props.C12JsonMap.first_single_not_identity_witness",
    "CharonV.Props.C12JsonMap.legacy_repeat_count_witness",
    "CharonV.Props.C12JsonMap.ethhex_decode_accepts_noncanonical_witness",
    "CharonV.Props.C12JsonMap.legacy_guard_rows_witness",
    "CharonV.Props.C12JsonMap.rejected_tables_witness",
]

KNOWN_FINDINGS = []

LEVEL_TEXT = (" JSON codecs per format version (cluster/definition.go, lock.go, distvalidator.go, operator.go, deposit.go, "
              "registration.go, helpers.go; translator T-jsonmap, go/ast + go/types, regenerated every run): for EVERY "
              "version v1.0 - v1.11 and both directions the table holds which codec function and which JSON struct serve the "
              "version and, per leaf of that struct, the in-memory field it is read from / stored into, the conversion "
              "(identity, base64, ethHex, to0xHex / from0xHex with its fixed length, Unix seconds, constant + rejecting guard, "
              "recomputed hash) and the list shape (element-wise, the single legacy address pair repeated num_validators "
              "times, the first partial deposit as a singleton). Proved once for every table accepted by the decidable "
              "predicate TableOk, every record, every field and every hash oracle: decode (encode d) restores every field "
              "whose value is in the domain of its conversion pair (decode_encode_id; the domain is stated per conversion: "
              "every byte string for ethHex / base64, the empty and the exactly-n-byte strings for from0xHex n, whole seconds "
              "for timestamps, one element for first/single, num_validators equal pairs for common/repeat, the recomputed value "
              "for hash fields), re-encoding what was decoded from an encoder output reproduces it leaf by leaf "
              "(encode_decode_id), every field a hash reads is restored, hence every function of the hashed fields - config, "
              "definition and lock hash - is unchanged by decode + re-encode (roundtrip_preserves_hashed_fields, with "
              "hashed_fields_transferred checking its side condition on the regenerated SSZ schemas of T-ssz x the regenerated "
              "rows for all 12 versions), no field is dropped or written twice, every supported version has exactly one "
              "encoder and one decoder per artifact using the same JSON struct (version_dispatch_total); every_version_ok "
              "evaluates TableOk on the regenerated table in the kernel. The unrestricted statement is refuted by kernel-checked "
              "witnesses, one per place where the code is not the identity (stale stored hashes are overwritten, a fork version "
              "of v1.0/v1.1 that is not 4 bytes is written and then rejected, sub-second timestamps, v1.6/v1.7 keep exactly the "
              "first partial deposit, v1.0 - v1.4 rebuild the address list from num_validators, upper-case / unprefixed hex is "
              "accepted but never written) and the fields each version silently defaults are pinned "
              "(definition_fields_defaulted_witness, lock_fields_defaulted_witness, non_identity_rows_witness). Correspondence "
              "stream `jsonmap`: random definitions and locks of every version (fields of later versions set in older ones, "
              "stale hashes, differing / miscounted legacy addresses, 0 - 3 partial deposits, sub-second timestamps, short fork "
              "versions) through the real MarshalJSON and the real UnmarshalJSON; per leaf of the in-memory structs "
              "(reflection over the json tags) the bit 'decoded column equals original', or encerr / decerr, is compared with "
              "decodeField (encode ...) of the model over the regenerated rows.")

TRUSTED_BASE = [
    "model CharonV/Model/JsonMap.lean: a record is a finite map from interned tag paths to abstract values, a leaf below k list levels is a column (k nested lists); encLeaf / decLeaf give the JSON token per JSON-struct field type and conversion (real lower-case 0x hex with the decoder's TrimPrefix + hex.DecodeString incl. upper case; base64 of []byte fields is abstract: `.b64 bytes`), encode / decodeField interpret a row list; tied to cluster/*.go by translator T-jsonmap (rows regenerated from the function bodies) and by correspondence stream jsonmap (per-leaf survive bits, encerr, decerr)",
    "translator trans-jsonmap (go/ast + go/types, closed set of statement shapes, fails closed; primitives to0xHex, from0xHex, ethHex JSON methods, isAnyVersion, LegacyValidatorAddresses, SetDefinitionHashes, firstDepositDataOrDefault, repeatVAddrs pinned by source text; the shape of the four dispatchers outside the switch pinned by text); vlib/trans_jsonmap.py removes the table when the tool fails",
    "encoding/json is trusted to (de)serialise a Go struct field of type string / int / uint / bool / []byte / `,string` int / slice / nested struct faithfully under its json tag, to call ethHex's MarshalJSON / UnmarshalJSON, and to treat omitempty and absent keys as the zero value; nil and empty slices are identified (the model and the driver's columns do not distinguish them)",
    "the link 'a hash is a function of the fields its schema mentions' is the structure of Sch.resolve of the existing C12 model (Model/SszSchema.lean, tied by stream cluster); this extension proves that those fields survive and checks VerifyHashes / the hash leaves of the re-encoded file on the real code",
    "the Go driver's observation of a value is the column of every leaf reached by reflection over the json tags of cluster.Definition / cluster.Lock (time.Time as Unix seconds + nanoseconds); ops carry the value as gob for -mode exec",
]

ASSUMPTIONS = [
    "deposit.VerifyDepositAmounts (decode guard since v1.8) is listed in the table but not modelled: the stream generates valid amount sets only; the `len(validators) != num_validators` guard is modelled (decerr)",
    "list-level omitempty (public_shares, partial_deposit_data) and null-vs-[] are below the abstraction: an empty list is one value",
    "values whose hashing fails for reasons other than multiple legacy validator addresses (over-long strings, malformed hex addresses, signatures of a length the version cannot hash) are not generated: MarshalJSON returns the hash error before any codec function runs",
    "observation (not a defect of the clause): Lock.MarshalJSON recomputes the lock hash from the STORED Definition.ConfigHash (>= v1.3) while the embedded definition is written with the recomputed config hash - a lock whose definition carries a stale config hash is written with a lock_hash that does not verify; charon sets the definition hashes before it builds a lock (the stream's well-formedness predicate excludes such values)",
]
