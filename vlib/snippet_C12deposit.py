"""Snippet for the lead to wire into C12: deposit messages / deposit data / builder registrations of
eth2util/deposit and eth2util/registration (NewMessage, withdrawalCredsFromAddr, executionAddressFromStr,
MaxDepositAmount, VerifyDepositAmounts, EthsToGweis, DedupAmounts, DefaultDepositAmounts, getDepositDomain,
getRegistrationDomain, both GetMessageSigningRoot, MarshalDepositData, MergeDepositDataSets), the network table of
eth2util/network.go, go-eth2-client's DepositMessage / DepositData / ValidatorRegistration hash tree roots and
Lock.verifyBuilderRegistrations — one more correspondence stream and one more Lean module of property theorems.
Not a registry entry by itself (not named props_C*.py).

Wiring: append STREAM to ENTRY["streams"], append EXTRA_LEAN to ENTRY["lean_props_extra"] (its theorems are audited
like those of Props/C12.lean), add MONITOR_SIGS to ENTRY["monitor_sigs"], extend trusted_base / assumptions with the
lines below, add KNOWN_FINDINGS to known_findings.json if the lead keeps the uint64 wrap as a finding. lean_exe
`drv-deposit` is already in lakefile.toml; hooks eth2util/deposit/verif_export_deposit.go,
eth2util/registration/verif_export_registration.go, cluster/verif_export_depositreg.go are committed in /repo (e911bfc).

NOTE (lead): the one violation on the unchanged tree, deposit:amounts_sum_wraps_uint64, is exercised exactly once per
generated run (op `amounts 1 2048000000000*9007199,521709551616` at op index 1500: ~6 s and ~300 MB in the Lean driver,
~1.5 s and ~330 MB in the Go driver, both transient). It is a false REJECTION that needs > 9 007 199 amounts — if you
prefer to record it as an observation instead of a finding, change `Violate` to `Count("observed:…")` at the one place in
harness/cmd/drive-deposit/main.go (checkAmounts) or drop the op from gen.next; the theorems stay as they are.
"""

STREAM = {"name": "deposit", "drive": "drive-deposit", "model": "drv-deposit",
          "reset_ops": ["cfg"],
          "n_quick": 8000, "seeds_quick": 2, "n_thorough": 40000, "seeds_thorough": 6,
          "search_seeds": 2}

EXTRA_LEAN = "CharonV.Props.C12Deposit"

MONITOR_SIGS = ["deposit:", "registration:"]

THEOREMS = [
    "CharonV.DepositReg.deposit_signing_root_binds",
    "CharonV.DepositReg.deposit_signing_root_binds_network",
    "CharonV.DepositReg.registration_signing_root_binds",
    "CharonV.DepositReg.signing_domains_separated",
    "CharonV.DepositReg.domains_bind_fork_version",
    "CharonV.DepositReg.builtin_networks_distinct",
    "CharonV.DepositReg.registration_root_is_builder_data_root",
    "CharonV.DepositReg.address_accepted_iff",
    "CharonV.DepositReg.withdrawal_creds_layout",
    "CharonV.DepositReg.withdrawal_creds_injective",
    "CharonV.DepositReg.address_case_insensitive",
    "CharonV.DepositReg.new_message_spec",
    "CharonV.DepositReg.verify_amounts_accepts_iff",
    "CharonV.DepositReg.verify_amounts_spec_partial",
    "CharonV.DepositReg.verify_amounts_sum_wrap_witness",
    "CharonV.DepositReg.verify_amounts_spec_fixed",
    "CharonV.DepositReg.dedup_amounts_spec",
    "CharonV.DepositReg.dedup_amounts_sorted_not_first_occurrence",
    "CharonV.DepositReg.eths_to_gweis_exact_partial",
    "CharonV.DepositReg.eths_to_gweis_wrap_witness",
    "CharonV.DepositReg.default_amounts_valid",
    "CharonV.DepositReg.merge_deposit_data_sets_spec",
    "CharonV.DepositReg.deposit_data_root_binds",
    "CharonV.DepositReg.marshal_only_verified",
    "CharonV.DepositReg.tampered_deposit_rejected",
    "CharonV.DepositReg.tampered_registration_rejected",
]

KNOWN_FINDINGS = [
    {"property": "C12", "sig": "deposit:amounts_sum_wraps_uint64",
     "what": "deposit.VerifyDepositAmounts (eth2util/deposit/deposit.go) adds the partial amounts into a uint64 and compares the "
             "wrapped value with 32 ETH: 9 007 199 amounts of 2048 ETH plus one of 521.709551616 ETH (2^64 gwei in total, every "
             "amount within the compounding limits) are rejected with 'sum of partial deposit amounts must be at least 32ETH' "
             "(op `amounts 1 2048000000000*9007199,521709551616` -> err:sum; kernel-checked witness "
             "CharonV.DepositReg.verify_amounts_sum_wrap_witness; exact rule of the code verify_amounts_accepts_iff, intended rule "
             "for <= 9 007 199 amounts verify_amounts_spec_partial). Low severity: false rejection only, needs millions of "
             "deposit_amounts. Candidate repair: fixes/C12-deposit-amounts-sum-wrap.diff (verify_amounts_spec_fixed)"},
]

LEVEL_TEXT = (" The clause 'deposit data and builder registrations verify for the lock's validator keys' is made concrete by "
    "Props/C12Deposit.lean over a bit-exact model (Model/DepositReg.lean) of eth2util/deposit and eth2util/registration, generic in "
    "the SHA-256 compression function as the rest of C12: the deposit signing root binds pubkey, withdrawal credentials, amount and "
    "fork version and the registration signing root binds fee recipient, gas limit, timestamp (Unix seconds), pubkey and fork "
    "version - equal roots for different inputs ARE an explicit (possibly 224-bit truncated) SHA-256 collision "
    "(deposit_signing_root_binds, deposit_signing_root_binds_network, registration_signing_root_binds); deposit, registration and "
    "duty signing roots (Model/Signing.lean) never coincide and different fork versions give different domains "
    "(signing_domains_separated, domains_bind_fork_version, builtin_networks_distinct), while the pre-generated registration is "
    "signed over exactly the root the running cluster verifies for DomainApplicationBuilder (registration_root_is_builder_data_root); "
    "withdrawal credentials are prefix 0x01 / 0x02 (compounding), 11 zero bytes, the 20 decoded address bytes, injective in both, for "
    "exactly the strings '0x' + 40 hex digits of any case - no EIP-55 checksum is compared (address_accepted_iff, "
    "withdrawal_creds_layout, withdrawal_creds_injective, address_case_insensitive, new_message_spec); VerifyDepositAmounts accepts "
    "exactly: empty, or every amount in [1 ETH, 32 ETH | 2048 ETH] and the sum modulo 2^64 at least 32 ETH (verify_amounts_accepts_iff; "
    "the intended rule for at most 9 007 199 amounts: verify_amounts_spec_partial, witness verify_amounts_sum_wrap_witness, repaired "
    "loop verify_amounts_spec_fixed); DedupAmounts is the unique strictly ascending list of the distinct amounts, idempotent "
    "(dedup_amounts_spec; it sorts: dedup_amounts_sorted_not_first_occurrence); EthsToGweis, DefaultDepositAmounts, "
    "MergeDepositDataSets for every Go map order (eths_to_gweis_exact_partial, eths_to_gweis_wrap_witness, default_amounts_valid, "
    "merge_deposit_data_sets_spec); the deposit data root also commits to the signature (deposit_data_root_binds); and with a symbolic "
    "signature scheme in which a signature verifies for one root per key, a deposit data file is written only if every entry "
    "verifies for its own fields and an altered deposit data / stored registration cannot pass with the original signature "
    "(marshal_only_verified, tampered_deposit_rejected, tampered_registration_rejected). Tied by stream deposit: the real functions "
    "and the compiled model on the same generated inputs, 32-byte roots, domains, credentials and verdicts compared bit for bit; "
    "monitors sign with real BLS keys and alter every field in turn through MarshalDepositData and Lock.verifyBuilderRegistrations.")

TRUSTED_BASE = [
    "model CharonV/Model/DepositReg.lean mirrors eth2util/deposit/deposit.go (NewMessage, withdrawalCredsFromAddr incl. Go copy "
    "semantics, MaxDepositAmount, VerifyDepositAmounts with its wrapping uint64 sum, EthsToGweis as a 64-bit int product, DedupAmounts "
    "= map-based dedup then slices.Sort, DefaultDepositAmounts, getDepositDomain, GetMessageSigningRoot incl. the order of its errors "
    "and `copy(forkVersion[:], fv)` for fork version strings that do not decode to 4 bytes, MarshalDepositData per entry, "
    "MergeDepositDataSets incl. the as-is return when one argument has no set), eth2util/registration/registration.go (NewMessage, "
    "executionAddressFromStr, getRegistrationDomain, GetMessageSigningRoot), eth2util.ChecksumAddress as far as its error goes (both "
    "callers drop the EIP-55 string it returns; Keccak is not modelled and not needed), eth2util/network.go (supportedNetworks "
    "names and genesis fork versions, AddTestNetwork, networkFromName = first match), go-eth2-client v0.28.1-obol HashTreeRootWith of "
    "phase0.DepositMessage / DepositData (ErrBytesLength for credentials that are not 32 bytes) and api/v1.ValidatorRegistration "
    "(uint64(Timestamp.Unix())), and one iteration of cluster/lock.go verifyBuilderRegistrations; SHA-256, the SSZ hash-walker "
    "operations, compute_domain and the signing root are those of Model/SszSchema.lean and Model/Signing.lean; tied by "
    "correspondence stream deposit: after every op the credentials / address bytes / message fields / domains / message, data and "
    "signing roots (hex) / verdict and error class / amount lists / merged groups / the nine fields of every element of the "
    "deposit-data JSON are compared",
    "hooks (build tag verif, add-only): eth2util/deposit/verif_export_deposit.go (getDepositDomain, withdrawalCredsFromAddr), "
    "eth2util/registration/verif_export_registration.go (getRegistrationDomain, executionAddressFromStr), "
    "cluster/verif_export_depositreg.go (Lock.verifyBuilderRegistrations on its own; the driver calls it on one-validator locks "
    "with a 48-byte validator key and a 4-byte fork version - what Lock.VerifySignatures and the definition checks establish "
    "before that point; shorter values would panic in the slice-to-array conversions eth2p0.BLSPubKey(val.PubKey) / "
    "eth2p0.Version(l.ForkVersion))",
    "BLS is symbolic in the model: `verify pubkey root signature`; in the stream every signature is a real tbls signature and the op "
    "line carries the root it was made over (or x: made by another key) - the model accepts iff that root equals the signing root it "
    "computes, the real code runs tbls.Verify; error messages are mapped to a fixed enum of classes by substring",
    "network table: the six built-in networks are baked into the model and compared with eth2util.NetworkToForkVersion once per "
    "episode (op cfg); test networks (eth2util.AddTestNetwork: fork version strings without 0x, upper case, 3 / 5 bytes, not hex, "
    "empty, names shadowing built-in or earlier entries) are process-global and append-only in Go: the generator uses names that are "
    "unique per episode, the model's cfg starts from the built-in table",
    "Go map iteration order in MergeDepositDataSets is an oracle parameter of the model (theorem for every order); both sides are "
    "canonicalised to ascending amounts - only in the general case, which the driver recognises from the arguments; "
    "slices.SortFunc in MarshalDepositData is not stable: the stream never marshals two entries with the same pubkey",
    "harness-side independent recomputation with crypto/sha256 written from the consensus / builder specs (deposit message, deposit "
    "data, registration roots, compute_domain) and with math/big for the amount rule: monitors deposit:root_mismatch_independent, "
    "registration:root_mismatch_independent, deposit:domain_type_prefix, registration:domain_type_prefix, deposit:marshal_roots, "
    "deposit:marshal_not_sorted, deposit:amounts_verdict_differs_from_spec, deposit:amounts_sum_wraps_uint64, deposit:creds_layout, "
    "deposit:address_verdict, registration:address_verdict, deposit:new_message_range, deposit:default_amounts_rejected, "
    "deposit:dedup_mutated_argument, deposit:dedup_not_idempotent, deposit:dedup_wrong_set, deposit:merge_lost_or_duplicated, "
    "deposit:merge_group_not_uniform, deposit:panic",
    "C12's clause on real artifacts (ops dsign / rsign, ~1.5% of the ops each, about 25 / 21 alterations per op): a deposit message "
    "/ registration is signed with a real tbls key, must pass MarshalDepositData (the check every deposit data written by create "
    "cluster and dkg goes through) / Lock.verifyBuilderRegistrations (the check of Lock.VerifySignatures) - deposit:valid_rejected, "
    "registration:valid_rejected - and must be rejected after each alteration: other key, credentials prefix / padding / address "
    "bytes, amount +-1 and high byte, signature bit / other key / over the message root / over the other domain's signing root, every "
    "other network with a different fork version; stored fee recipient bit / zero-padded / truncated, gas limit +-1, timestamp +-1 s, "
    "stored pubkey other / left-padded, validator pubkey, both pubkeys, fork version bits, definition fee recipient address, both fee "
    "recipients - deposit:tampered_accepted, registration:tampered_accepted",
]

ASSUMPTIONS = [
    "SHA-256 collision resistance is never assumed: the binding theorems conclude an explicit collision of the 64-byte-to-32-byte "
    "compression step (Collision h), or one on the 28 bytes of the fork data root that compute_domain keeps (TruncCollision h)",
    "sizes that are Go types are hypotheses of the binding theorems: pubkeys 48 bytes, signatures 96, fee recipient 20, fork version "
    "4, amounts / gas limit uint64, timestamps int64; withdrawal credentials of another length than 32 bytes have no root "
    "(ErrBytesLength - modelled and compared)",
    "a registration's timestamp is signed as its Unix seconds only: the sub-second part, zone and monotonic reading of the time.Time "
    "are not part of the SSZ message (counted by the stream as observed:registration_subsecond_not_signed, not a violation)",
    "no EIP-55 checksum is verified anywhere in the two packages: a mixed-case address with a wrong checksum is accepted "
    "(address_accepted_iff; stream shape addr:bad-checksum); the credentials / fee recipient depend on the decoded bytes only "
    "(address_case_insensitive)",
    "symbolic signatures: tampered_deposit_rejected / tampered_registration_rejected assume SigBindsRoot (a signature verifies under "
    "one key for at most one root - for BLS a hash-to-curve collision otherwise) and keep key and signature fixed; forgery under "
    "another key, malformed points and alterations of the signature bytes are covered on the real code by the dsign / rsign monitors only",
    "Lock.VerifySignatures does NOT verify the partial_deposit_data signatures stored in a lock (they are covered by the lock hash and "
    "the aggregate signature only); deposit data signatures are verified where deposit-data files are written "
    "(MarshalDepositData) and in the dkg aggregation - the deposit monitors therefore go through MarshalDepositData",
    "EthsToGweis is exact only for 0 <= eth <= 18 446 744 073 (eths_to_gweis_exact_partial; a larger --deposit-amounts value wraps, "
    "eths_to_gweis_wrap_witness: 36028797018964000 ETH becomes 32 ETH; negative values become > 2048 ETH and are then rejected by "
    "VerifyDepositAmounts)",
    "not covered: reading / writing deposit-data files (WriteDepositDataFile, ReadDepositDataFiles, GetDepositFilePath), the JSON "
    "text itself (the driver decodes it with DisallowUnknownFields and compares the nine fields), Keccak / EIP-55 formatting, the "
    "BLS primitives (C08), the callers' loops in cmd/createcluster.go and dkg/dkg.go (C11 run driver, C12 cluster driver)",
]
