"""C04 addition (agent P1): the liveness core of Props/C04Live.lean WITHOUT the hypothesis "members never prepared in the
earlier rounds" — the J2 path (leader side getJustifiedQrc / getPrepareQuorums, re-proposal in Run's UponQuorumRoundChanges
branch, receiver side containsJustifiedQrc / isJustifiedPrePrepare) composed into whole-cluster executions of the
implementation model Model/Qbft.lean. NOT a registry entry (the lead owns C04's ENTRY).

Files: lean/CharonV/Proofs/QbftPrepared.lean (helper lemmas + execution definitions, ~2250 lines, builds 11 s),
lean/CharonV/Props/C04Prepared.lean (10 theorems + kernel-evaluated examples, builds ~55 s because of the evaluated
7-member executions). No new Lean driver / lean_exe, no new stream: the existing stream `qbft` is used; its generator
harness/cmd/drive-qbft/gen.go got one more episode kind `preparedEpisode` (12 deterministic ones at the start of every run —
n = 4..7, exactly quorum-many resp. quorum+1 running members, leader of the deciding round with / without input — and one in
16 of the random episodes), main.go calls it. All ops are the existing ops (cfg/start/input/timeout/recv): replays in
-mode exec, model driver drv-qbft unchanged. The episode reports under the existing signatures
qbft:no_decision_under_timely_delivery and qbft:decision_later_than_one_rotation plus the new
qbft:honest_prepared_value_not_reproposed (matches the prefix "qbft:honest_" already in C04's monitor_sigs).

To wire into C04's entry:
    ENTRY.setdefault("lean_props_extra", []).append(EXTRA_LEAN)
    ENTRY["monitor_sigs"] += MONITOR_SIGS        # optional: already covered by the prefix "qbft:honest_"
    ENTRY["trusted_base"] += TRUSTED_BASE ; ENTRY["assumptions"] += ASSUMPTIONS ; ENTRY["level_text"] += " " + LEVEL_TEXT
and the sentences "The composition with partially progressed earlier rounds ..." (props_C04.py), "members prepared in failed
rounds" (snippet_C04resync.py ASSUMPTIONS, for the UNTIMED core only — the timed theorems still assume silent earlier rounds)
and DESIGN.md section 8 "members prepared in earlier rounds" are now covered at the phased (untimed) level.
Hand check on the unchanged tree (drive-qbft gen -> drv-qbft -> diff): seeds 1..5 n=30000 and seed 7 n=400000 identical,
no violation other than the known finding qbft:honest_preprepare_unjust_after_compare_failure.
"""

EXTRA_LEAN = "CharonV.Props.C04Prepared"

MONITOR_SIGS = ["qbft:honest_prepared_value_not_reproposed"]

THEOREMS = [
    "CharonV.Qbft.j2_selection_complete",
    "CharonV.Qbft.good_round_after_partial_prepare",
    "CharonV.Qbft.good_round_after_partial_prepare_exact_quorum",
    "CharonV.Qbft.good_round_after_partial_prepare_any",
    "CharonV.Qbft.good_round_after_any_prepares",
    "CharonV.Qbft.stuck_at_start",
    "CharonV.Qbft.partial_round_keeps_stuck",
    "CharonV.Qbft.prepared_decides_within_rotation",
    # kernel-checked witnesses: the literal "every non-empty prepared subset => the good round decides v, leader needs no
    # input" is false (and not required by QBFT) when a quorum of running members is unprepared
    "CharonV.Qbft.C04PreparedEx.unforced_no_input_witness",
    "CharonV.Qbft.C04PreparedEx.unforced_other_value_witness",
]

LEVEL_TEXT = (
    "Good rounds after PARTIALLY PROGRESSED rounds (Props/C04Prepared.lean, proofs Proofs/QbftPrepared.lean), same execution model "
    "as C04Live (every n >= 1, every leader function, every duplicate-free running set R with |R| >= quorum, an oracle per step and an "
    "arrival order per phase and member, no timer inside the good round), FIFO limit 8 <= fifo resp. B + 4 <= fifo: "
    "j2_selection_complete - getJustifiedQrc succeeds on every buffer holding >= quorum ROUND-CHANGEs whose highest prepared round "
    "is backed by PREPAREs of a quorum of sources, for every oracle permutation of the candidate prepare quorums (completeness; the "
    "soundness half getJustifiedQrc_contains was already used by honest_msgs_justified); "
    "good_round_after_partial_prepare - rounds 1..r-2 lost, in round r-1 the leader's PRE-PREPARE(v) reached all of R, member p got "
    "the PREPAREs of an arbitrary duplicate-free sender list dp p (it prepares (r-1, v) and COMMITs iff that is a quorum) and fewer "
    "than a quorum of COMMITs, all timers fired; if fewer than a quorum of members are unprepared and the leader of round r runs - "
    "WITH OR WITHOUT an input -, the ROUND-CHANGEs with their certificates, the leader's PRE-PREPARE, the PREPAREs and the COMMITs "
    "delivered to all of R in any orders make every member of R decide v in round r exactly once with no bug/unjust output (the "
    "PRE-PREPARE carries the J2 justification picked by getJustifiedQrc and passes isJustifiedPrePrepare at every receiver); "
    "_exact_quorum: in particular for exactly quorum-many running members and ANY non-empty set of prepared members; _any: any set "
    "of prepared members and a leader with an input: everybody decides one value, v if the first quorum of ROUND-CHANGEs reaching "
    "the leader contains a prepared one, the leader's input otherwise. The unrestricted literal statement is refuted by two "
    "kernel-evaluated 7-member executions (unforced_no_input_witness: a leader without input that sees a null quorum first proposes "
    "nothing; unforced_other_value_witness: with an input it proposes its own value) - QBFT-conformant behaviour, not a defect. "
    "good_round_after_any_prepares - the general form: from ANY cluster state in which every running member sits undecided in round r "
    "with an armed timer, any old buffer (rounds <= r, <= B messages per source) and any valid prepared certificate of a round <= r "
    "(members prepared in DIFFERENT rounds on different values), k+1 joint time-outs and a good round r+k+1 make everybody decide "
    "one value w != 0: the value prepared in the highest prepared round among the first quorum of ROUND-CHANGEs that reached the "
    "leader, or the leader's input if those were all null (ValueSpec); stuck_at_start / partial_round_keeps_stuck: that state "
    "predicate holds at the start and is preserved by lost rounds and by partially progressing rounds, i.e. the theorem applies "
    "after any history of such rounds (each costs 4 buffered messages per source against fifo = 100); "
    "prepared_decides_within_rotation - production leader function: after a round with partial prepares every running member "
    "leads exactly one of the next n rounds and, the rounds before it lost and that round good, everybody decides the prepared "
    "value in it. Non-vacuity: executions of 4 members (exactly 3 running, 2 prepared) and 7 members (5 running, 1 prepared; all 7 "
    "running with members prepared in rounds 1 and 2 on different values) evaluated by the kernel with differing oracles and arrival "
    "orders. Tied to the real qbft.Run by the preparedEpisodes of stream qbft (exactly-quorum clusters, mixed prepared/null "
    "ROUND-CHANGE sets, timely delivery afterwards): correspondence diff + monitors no_decision_under_timely_delivery, "
    "decision_later_than_one_rotation, honest_prepared_value_not_reproposed, honest_msg_unjust. "
    "Still not covered: the TIMED composition with prepared members (C04Timed/C04Resync assume silent earlier rounds), overlapping "
    "phases, compare failures, Byzantine members"
)

TRUSTED_BASE = [
    "Props/C04Prepared.lean: same implementation model (CharonV/Model/Qbft.lean, unchanged) and same phased cluster semantics as "
    "Props/C04Live.lean (Proofs/QbftGoodRound.lean: phase / deliverAll / Env / Env.Fair / tail3 / GoodOutcome are reused, not "
    "redefined); new execution combinators in Proofs/QbftPrepared.lean: deliverSel (a member receives the messages of a chosen "
    "sender list only), partialRound, enterRound, timeoutsThenGood, partialPrepareRound, afterPartialPrepare, Env.shift",
    "stream qbft, episode kind preparedEpisode (harness/cmd/drive-qbft/gen.go): scripted partial-prepare rounds on real qbft.Run "
    "clusters with exactly quorum-many (or quorum+1) running members; the delivery after the partial round is timely but NOT "
    "phase-synchronised (inboxes drained member by member), so the real Run is also judged on interleavings the phased theorems "
    "do not cover; the episode's verdicts (decided by the first round with a running leader, value = the prepared value when "
    "exactly a quorum runs) are monitors on the implementation's trace, independent of the model",
]

ASSUMPTIONS = [
    "C04Prepared: phased delivery (each phase's messages reach every running member before the next phase's, as in C04Live), "
    "compare succeeds (CmpOut.ok), no Byzantine member, the members outside R are silent for the whole execution; the partially "
    "progressing round is led by a running member with an input; FIFO limit 8 <= fifo (one partial round) resp. B + 4 <= fifo "
    "(general form; production 100)",
    "C04Prepared: the good round decides the PREPARED value only if every quorum of ROUND-CHANGEs the leader can see first contains a "
    "prepared one (fewer than a quorum of running members unprepared - always true for exactly quorum-many running members and a "
    "non-empty prepared set); otherwise the leader needs an input and the decided value is that input or the prepared value, "
    "depending on the arrival order at the leader (kernel-checked witnesses for both; allowed by QBFT since fewer than a quorum "
    "prepared means nobody can have decided)",
    "C04Prepared, general form: the hypothesis is the state predicate `Stuck` (undecided, same round, armed timer, untrimmed buffer "
    "of earlier-round cores with well-formed PREPAREs, valid or null prepared certificate, no compare failure so far); proved "
    "reachable from the start through lost and partially progressing rounds, not characterised as the set of ALL reachable "
    "states (e.g. states after overlapping phases or after members ran ahead by the F+1 rule are outside)",
]
