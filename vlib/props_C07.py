"""Registry entry for C07 (partial-signature store, core/parsigdb/memory.go)."""

ENTRY = {
    "lean_props": "CharonV.Props.C07",
    "streams": [
        {"name": "parsigdb", "drive": "drive-parsigdb", "model": "drv-parsigdb",
         "reset_ops": ["new"],
         "n_quick": 12000, "seeds_quick": 2, "n_thorough": 150000, "seeds_thorough": 8,
         "search_seeds": 2},
    ],
    "level_text": "Kernel-checked Lean theorems over all sequences of the atomic steps begin/step/finish/trim "
                  "(every arrival order, every entry-wise interleaving of concurrent StoreInternal/StoreExternal "
                  "calls, every Go map iteration order of batch and root groups, any threshold and exempt cap): "
                  "payload soundness (exactly threshold partials, distinct shares, one root, all accepted under "
                  "that key) with no assumption at all; duplicates ignored; equivocation rejected without "
                  "disturbing stored data or other calls; at most once, no lost trigger and exactly once at "
                  "quiescence under the deadliner contract and n < 2*threshold, for the fixed variants in full "
                  "and for the code as it is under the explicit extra hypotheses, with kernel-checked witnesses "
                  "that the hypotheses are needed (lost trigger on batch error, re-trigger by a late minority "
                  "root, re-trigger after exempt-cap eviction). The model is tied to core/parsigdb/memory.go by "
                  "differential correspondence on the real MemDB with real core.ParSignedData values, including "
                  "two calls racing on two goroutines.",
    "level_note": "Trusted: Lean kernel, the Go correspondence harness and line driver. Go's map iteration "
                  "order and goroutine interleaving are oracles of the model: the model driver accepts an "
                  "observed outcome iff some oracle value produces exactly it (all batch permutations, both "
                  "group orders, all entry-wise interleavings of two calls are enumerated).",
    "trusted_base": [
        "model CharonV/Model/ParSigDB.lean mirrors core/parsigdb/memory.go (StoreInternal, StoreExternal, store, "
        "getThresholdMatching, trackExemptUnsafe, evictExemptShareEntryUnsafe, Trim); tied by differential "
        "correspondence on the real MemDB (hook core/parsigdb/verif_export.go: snapshot/restore of the three maps)",
        "model flags codeContinueOnError / codeNewRootOnly state which variant the Go tree implements; the "
        "correspondence stream fails if they do not match the code",
        "symbolic data: a partial signature is (share, signing root, rest); MessageRoot and JSON equality of the "
        "real payload types are exercised by the harness, not modelled",
    ],
    "assumptions": [
        "deadliner contract (C16): Add answers expired for a duty already emitted, exempt exactly for exempt "
        "duties; a duty is not emitted while a call for it is between Add and its last store (guard OKOp)",
        "share indices are 1..n with n < 2*threshold (parsigex verifies each partial against the public share of "
        "its claimed index; cluster.Threshold(n) = ceil(2n/3))",
        "exempt duties: at-most-once / exactly-once only for keys no exempt-cap eviction has touched (D-2, known finding)",
        "code as it is: exactly-once needs H.cleanErr (no rejected entry after a reached threshold in the same "
        "call, D-1) and H.unanimous (partials of a key agree on the root, late-minority re-trigger)",
        "MessageRoot / SyncSubcommitteeIndex errors other than the wrong-payload-type case are not modelled "
        "(parsigex parses payloads by duty type, so types match)",
    ],
}

# partial signatures reach the store through core/parsigex (peers) and core/validatorapi (own validator client): a
# valid partial that the receive handler drops or delays never counts towards the threshold. The admission stream of
# C10 (real parsigex.handle / validatorapi.Component) is part of this check.
from vlib.props_C10 import ENTRY as _E10
ENTRY["streams"] = ENTRY["streams"] + [dict(_E10["streams"][0], n_quick=1700, seeds_quick=1)]
ENTRY["go_tools"] = list(ENTRY.get("go_tools", [])) + [t for t in _E10.get("go_tools", []) if t not in ENTRY.get("go_tools", [])]
ENTRY["monitor_sigs"] = list(ENTRY.get("monitor_sigs") or ["parsigdb:"]) + ["admit:valid_rejected", "admit:valid_not_delivered", "admit:partial_batch_delivered", "admit:invalid_partial_reached_subscriber", "admit:wrong_share_accepted"]
