"""C08 — threshold BLS algebra (tbls/herumi.go, tbls/tbls.go, tbls/tblsconv)."""

ENTRY = {
    "lean_props": "CharonV.Props.C08",
    "streams": [
        {"name": "tbls", "drive": "drive-tbls", "model": "drv-tbls",
         "reset_ops": ["new"],
         "n_quick": 4500, "seeds_quick": 2, "n_thorough": 60000, "seeds_thorough": 6},
    ],
    "level_text": "Kernel-checked Lean theorems (Mathlib Lagrange interpolation) over an arbitrary scalar field and arbitrary modules G1, G2, for every threshold t, every dealer polynomial of degree < t, every n and every identifier set S with |S| >= t and pairwise distinct identifiers (no bound): any qualified set recovers the secret p(0) and the group public key, the Lagrange combination of the partial signatures over one message is exactly the undivided key's signature and satisfies the (idealised) verification equation under the group key, independent of S; replacing one contribution by a signature of a wrong scalar, of another share (wrong index) or over another message makes the combination differ from the group signature and fail verification, under explicit side conditions (identifiers non-zero, H(m) != 0, g1 != 0, s' != p(j) / p(k) != p(j) / p(j) != 0 and H(m') != H(m)). The executable scalar model (Model/Fr.lean: Horner evaluation, Fermat inversion, Lagrange recovery on Nat representatives mod r) is proved to compute the abstract objects in ZMod r (exec_split_spec, exec_recover_secret: every coefficient list, every identifier list; hypothesis: r prime). The model is tied to tbls/herumi.go by differential correspondence: shares recomputed bit-for-bit in Lean from the recorded byte stream of ThresholdSplitInsecure, CSPRNG ThresholdSplit shares checked to lie on a degree < t polynomial through the secret, Lagrange recovery bit-equal to RecoverSecret for every qualified subset (exhaustive n <= 7, sampled to n = 10), and every group-level outcome (SecretToPublicKey, RecoverPubkey, ThresholdAggregate vs Sign, Verify; every single substitution at every position) equal to the outcome predicted from the scalar combination.",
    "level_note": "Trusted: Lean kernel + Mathlib v4.33.0 (LinearAlgebra.Lagrange, Algebra.CharP.Basic), the Go correspondence harness and line driver. Not covered: herumi's field/curve/pairing code and hash-to-curve (exercised, not modelled); primality of r is not proved in Lean: it is the hypothesis `Fact (Nat.Prime Fr.r)` of exec_recover_secret (Model/Fr.lean is additionally compared bit-for-bit with herumi).",
    "trusted_base": [
        "model CharonV/Model/Fr.lean (Fr arithmetic on Nat, Horner evaluation, Lagrange interpolation, model of ThresholdSplitInsecure / RecoverSecret) tied to tbls/herumi.go by bit-for-bit correspondence on every share and every recovered secret",
        "BLS group operations are linear in the scalar (SecretToPublicKey(s) = s*g1, Sign(s,m) = s*H(m), ThresholdAggregate/RecoverPubkey = Lagrange combination in the group): not proved about herumi; checked on every sample by comparing each group-level outcome with the outcome predicted from the scalar combination",
        "Verify(K, m, sigma) accepts iff exists s with K = s*g1 and sigma = s*H(m) (non-degenerate pairing on prime-order groups): assumption, modelled as `Verifies` in CharonV/Spec/Tbls.lean",
        "Mathlib v4.33.0 modules LinearAlgebra.Lagrange, Algebra.CharP.Basic and their imports",
    ],
    "assumptions": [
        "r (BLS12-381 group order) is prime, so Z/rZ is a field and G1, G2 are modules over it; share identifiers 1..n are below r (ids_ok_below_char discharges the identifier hypotheses from that)",
        "negative theorems carry explicit side conditions: identifiers non-zero scalars, g1 != 0, H(m) != 0, and s' != p(j) (wrong share) / p(k) != p(j) (wrong index) / p(j) != 0 and H(m') != H(m) (wrong message); each fails only with negligible probability for honest random polynomials and collision-resistant hash-to-curve, and the harness evaluates them on every sample",
        "`new rnd` episodes use the production CSPRNG ThresholdSplit: their share values differ between runs (the op line records the shares of the run; exec mode re-splits)",
    ],
}
