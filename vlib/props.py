"""Registry: one entry per property (what to build, which theorems, which correspondence streams)."""

CRYPTO_NOTE = "cryptographic primitives are modelled symbolically / by hypothesis, not verified"

PROPS = {
    "C16": {
        "lean_props": "CharonV.Props.C16",
        "streams": [
            {"name": "deadline", "drive": "drive-deadline", "model": "drv-deadliner",
             "reset_ops": ["cfg"],
             "n_quick": 20000, "seeds_quick": 2, "n_thorough": 200000, "seeds_thorough": 8},
        ],
        "level_text": "Kernel-checked Lean theorems over all event sequences (adds with repeats, clock advances, timer processing, reads; any map-iteration oracle, any deadline function, any buffer size): at most once, never early, deadline order, late adds refused and never reported, exempt never reported, re-add idempotent, exactly-once at quiescence given the consumer keeps up; the model is tied to core/deadline.go by lock-step differential correspondence with the real deadliner under a fake clock and the real NewDutyDeadlineFunc.",
        "level_note": "Trusted: Lean kernel, the Go correspondence harness and line driver, clockwork fake-clock semantics; goroutine scheduling abstracted to atomic steps of the single owner goroutine.",
        "trusted_base": [
            "model CharonV/Model/Deadliner.lean mirrors core/deadline.go (run loop, Add, getCurrDuty); tied by lock-step correspondence on the real deadliner with a fake clock",
            "model CharonV/Model/DeadlineFunc.lean mirrors core.NewDutyDeadlineFunc; tied by the same stream (real function supplies every deadline)",
            "clockwork fake clock semantics (timer fires when now >= deadline; non-positive duration fires at once)",
        ],
        "assumptions": [
            "goroutine scheduling is abstracted to the atomic steps add/advance/fire/read (one goroutine owns all state)",
            "exactly_once needs the consumer to keep the 10-slot buffer from filling (H1), proved necessary by a witness",
        ],
    },
}

# Properties not claimed (kept current; reason shown in MANIFEST.not_applicable).
NOT_APPLICABLE = {}

# Per-property entries delivered as vlib/props_Cxx.py (each defines ENTRY = {...}).
import glob as _glob, importlib as _importlib, os as _os
for _f in sorted(_glob.glob(_os.path.join(_os.path.dirname(__file__), "props_C*.py"))):
    _m = _importlib.import_module("vlib." + _os.path.basename(_f)[:-3])
    PROPS[_os.path.basename(_f)[6:-3]] = _m.ENTRY
    if hasattr(_m, "NOT_APPLICABLE_REASON"):
        NOT_APPLICABLE[_os.path.basename(_f)[6:-3]] = _m.NOT_APPLICABLE_REASON
