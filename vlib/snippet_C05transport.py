"""Snippet for the lead to wire into C05 (agent X2): the per-instance consensus transport of core/consensus/qbft -
transport.go (newTransport, setValues, getValue with its one-shot poll of valueCh, Broadcast: hash collection, value
look-ups, createMsg + signMsg, the self-delivery goroutine, the hand-over to the broadcaster; ProcessReceives: setValues +
forwarding into the inner buffer), msg.go newMsg / ToConsensusMsg / the accessors Broadcast reads, and the value look-up of
the Decide callback of newDefinition (qbft.go). One more correspondence stream and one more Lean module of property theorems.
Not a registry entry by itself (not named props_C*.py).

Wiring: append STREAM to ENTRY["streams"], append EXTRA_LEAN to ENTRY["lean_props_extra"] (its theorems are audited like
those of Props/C05.lean), add MONITOR_SIGS to ENTRY["monitor_sigs"], extend trusted_base / assumptions with the lines below,
level_text += " " + LEVEL_TEXT. lean_exe `drv-transport` is already appended to lean/lakefile.toml; the hook
core/consensus/qbft/verif_export_transport.go was already committed in /repo (8d05130) - no new hook, /repo untouched.
No defect found: KNOWN_FINDINGS is empty, every monitor is silent on the unchanged tree (seeds 1-4 n=3000, seed 11 n=15000:
zero differences, zero violations; 1.3-1.6 s per quick seed). There is no `usePointerValues` in the pinned transport.go.

Files: lean/CharonV/Model/Transport.lean, lean/CharonV/Proofs/Transport.lean, lean/CharonV/Props/C05Transport.lean,
lean/Driver/Transport.lean, harness/cmd/drive-transport/main.go.
"""

STREAM = {"name": "transport", "drive": "drive-transport", "model": "drv-transport",
          "reset_ops": ["new"],
          "n_quick": 3000, "seeds_quick": 2, "n_thorough": 30000, "seeds_thorough": 6,
          "search_seeds": 2}

EXTRA_LEAN = "CharonV.Props.C05Transport"

MONITOR_SIGS = ["transport:"]

THEOREMS = [
    "CharonV.Transport.broadcast_carries_exactly_the_referenced_values",
    "CharonV.Transport.broadcast_never_fails_building_the_message",
    "CharonV.Transport.broadcast_fails_iff_a_referenced_value_is_unknown",
    "CharonV.Transport.broadcast_fails_only_on_an_uncached_hash",
    "CharonV.Transport.broadcast_succeeds_on_seen_justifications",
    "CharonV.Transport.broadcast_accepted_by_every_receiver",
    "CharonV.Transport.broadcast_accepted_in_any_value_order",
    "CharonV.Transport.own_broadcast_passes_verifyMsg",
    "CharonV.Transport.cache_sound",
    "CharonV.Transport.cache_entry_never_replaced_by_another_value",
    "CharonV.Transport.self_delivery_exactly_once",
    "CharonV.Transport.newMsg_fails_iff_a_referenced_value_is_missing",
    "CharonV.Transport.receive_caches_every_value_and_forwards",
    "CharonV.Transport.decided_value_is_the_cached_value_of_the_decided_hash",
    "CharonV.Transport.decide_without_value_delivers_nothing",
    "CharonV.Transport.admitted_message_view",
]

KNOWN_FINDINGS = []

# mutations of /repo (scratch worktree, one at a time, seed 1 n=3000) - all caught by a difference AND a monitor:
MUTATIONS_CAUGHT = [
    "transport.go Broadcast: pvHash not collected -> 1447 differences, transport:broadcast_missing_value x146",
    "transport.go Broadcast: justifications' PreparedValue() not collected -> 845 differences, broadcast_missing_value x102",
    "transport.go getValue: polled pair cached only if absent and under the looked-up hash -> cache_key_mismatch, "
    "cache_entry_replaced, broadcast_missing_value / extra_value / rejected_by_receiver, self_delivery_differs",
    "transport.go setValues: no-op -> received_values_not_cached, decided_not_cached_value, 429 differences",
    "transport.go Broadcast: no self-delivery goroutine -> self_not_delivered (first wait = the 20 s watchdog, then 100 ms)",
    "transport.go Broadcast: the goroutine sends the message twice -> self_delivered_twice, forward_wrong_message, self_delivery_unknown",
    "transport.go createMsg: Round++ after signing -> bad_signature, broadcast_fields_differ",
    "msg.go newMsg: prepared-value presence check removed -> newmsg_verdict x23, 480 differences",
    "msg.go ToConsensusMsg: only the first value put on the wire -> broadcast_missing_value, broadcast_rejected_by_receiver, self_delivery_differs",
    "qbft.go Decide: looks up qcommit[0].Value() instead of the decided hash -> decided_value_hash_mismatch, decided_not_cached_value, 41 differences",
]

LEVEL_TEXT = ("The sending side and the value cache are inside the model too: Props/C05Transport.lean proves over a model of the "
    "per-instance transport (Model/Transport.lean: Broadcast with its look-up loop and the one-shot poll of the value channel per "
    "getValue call, createMsg + symbolic signing, the parked self-delivery goroutines, ProcessReceives, newMsg keeping the protos, "
    "ToConsensusMsg, the Decide callback's look-up; same Crypto / Core / VMap / newMsg / valuesByHash / verifyMsg as Model/QbftWire.lean), "
    "for EVERY sequence of proposals, Broadcast calls with arbitrary arguments and justification lists of any length, self-deliveries "
    "in any order and received messages: a successfully broadcast message is signed over exactly the arguments and its values map has a "
    "value for a hash iff that hash is a non-zero value / prepared-value hash of the message or of one of its justifications - nothing "
    "missing, nothing extra, the zero hash needs none (broadcast_carries_exactly_the_referenced_values); createMsg / newMsg never reject the "
    "map the loop built, the only failure is getValue's 'unknown value', which happens only for a referenced hash without cache entry and - "
    "with no unread proposal - exactly then (broadcast_never_fails_building_the_message, broadcast_fails_only_on_an_uncached_hash, "
    "broadcast_fails_iff_a_referenced_value_is_unknown); justifying with messages the reader took from the inner buffer (values only "
    "present in earlier messages) always succeeds (broadcast_succeeds_on_seen_justifications); in every reachable state a receiver's "
    "valuesByHash + newMsg accept the broadcast wire message with the same bindings, and with a verifying own signature it passes "
    "verifyMsg (broadcast_accepted_by_every_receiver, broadcast_accepted_in_any_value_order - ToConsensusMsg ranges over a Go map: every permutation of the "
    "values is admitted with the same bindings -, own_broadcast_passes_verifyMsg); the cache only maps h to a value hashing to h and, the "
    "hash being collision free, an entry is never replaced by another inner message nor lost - only the Any wrapper may be swapped "
    "(cache_sound, cache_entry_never_replaced_by_another_value, receive_caches_every_value_and_forwards); the broadcasts are as a multiset "
    "exactly the self-delivered plus the still parked own messages - each self-delivered once, the very message the peers got "
    "(self_delivery_exactly_once); newMsg fails iff some referenced 32-byte non-zero hash has no value "
    "(newMsg_fails_iff_a_referenced_value_is_missing, admitted_message_view ties it to QbftWire.newMsg); the Decide callback hands the "
    "subscribers the inner message with the decided hash, which is also what the cache holds under that hash and - collision freedom - "
    "the proposed data (decided_value_is_the_cached_value_of_the_decided_hash, decide_without_value_delivers_nothing). Tied by stream "
    "transport: the real transport (hook NewTransportVerif, real key, real ProcessReceives goroutine, real valuesByHash / newMsg / Decide) "
    "against the compiled model on the same ops, message / cache / channel state compared after every op.")

TRUSTED_BASE = [
    "model CharonV/Model/Transport.lean mirrors core/consensus/qbft/transport.go (Broadcast: hashes = value, prepared value, then value and "
    "prepared value of every justification in order; zero or already collected hashes skipped; getValue = at most one receive from valueCh "
    "per call, the pair cached under its precomputed hash replacing any entry, then the map look-up, 'unknown value'; state changes of the "
    "polls persist on failure; createMsg: DutyToProto, vHash[:] always 32 bytes, signMsg, justification protos via Msg(), newMsg; the "
    "self-delivery goroutine as a parked message the reader takes in any order; broadcaster error returned after both; setValues = "
    "maps.Copy; ProcessReceives one message at a time), msg.go (newMsg via QbftWire.newMsg keeping the protos; ToConsensusMsg; Value() / "
    "PreparedValue() as toHash32 of the proto fields) and the Decide callback of qbft.go (qcommit[0].Values()[valueHash], UnmarshalNew, "
    "decideCallback, every subscriber even after a failing one); tied by correspondence stream transport: after every op the broadcast "
    "wire message as peers get it (fields, justification protos, values keyed by the hash recomputed in the driver), the signature verdict "
    "under the claimed peer index, the value-channel length, the number of parked self-deliveries, the whole value cache (hash : wrapper "
    "token, so that a swapped Any wrapper is visible), accept / reject class of received messages, the decide payload are compared",
    "hook core/consensus/qbft/verif_export_transport.go (build tag verif, add-only, commit 8d05130): NewTransportVerif (newTransport with an "
    "unbuffered inner buffer and a fresh sniffer as in runInstance), Broadcast, ProcessReceives, RecvBuffer, ValuesVerif (cache snapshot), "
    "DecideVerif (newDefinition's Decide with given subscribers); plus the older hooks ValuesByHashVerif, NewMsgVerif, HashProtoVerif, "
    "VerifyMsgSigVerif",
    "driver scheduling: the driver plays qbft.Run's reader; `rx` pushes one message into the outer buffer and reads it from the inner "
    "buffer before the next op (so at most one message is inside ProcessReceives), after first taking all parked own messages; `drain` "
    "takes all parked own messages (several self-delivery goroutines compete, the arrival order is not compared: they are matched to "
    "their broadcast by proto pointer identity and listed in broadcast order); the value channel has capacity 8 here (1 in instance.IO) "
    "to exercise the one-poll-per-getValue logic; time-outs are watchdogs only (20 s, 100 ms after the first loss), the absence of a "
    "second self-delivery is probed for 1 ms after every drain",
    "symbolic values: value <id> = UnsignedDataSet{\"id\": <id>}, h<id> its real hashProto, u<k> a hash without value, z the zero hash; "
    "v<id> = anypb.New, w<id> = an Any with another URL prefix and the same inner message (UnmarshalNew resolves the last path segment), "
    "e = an Any of an unknown type; received messages go through proto.Marshal / Unmarshal, valuesByHash and newMsg as in handle (their "
    "signatures are not part of this stream: verifyMsg is stream qbftwire's)",
    "monitors (independent of the model): transport:broadcast_missing_value / broadcast_extra_value / broadcast_bad_value (values of the "
    "wire message re-hashed here against the hashes of main message and justifications), broadcast_fields_differ, bad_signature, "
    "broadcast_rejected_by_receiver (real valuesByHash + newMsg on the wire message), broadcast_silent / broadcast_twice / "
    "broadcast_error_swallowed, cache_key_mismatch, cache_entry_replaced (another inner message under a key), cache_entry_lost, "
    "received_values_not_cached, self_not_delivered, self_delivered_twice, self_delivery_unknown, self_delivery_differs (accessors and "
    "ToConsensusMsg of the self-delivered message against what the broadcaster got), forward_wrong_message / forward_lost, "
    "newmsg_verdict (newMsg fails iff a referenced non-zero hash has no value, recomputed here), decided_value_hash_mismatch, "
    "decided_not_cached_value, decide_callback, decide_subscriber_skipped, decide_without_callback",
]

ASSUMPTIONS = [
    "collision freedom of hashProto over the values that occur (HashInj) is a hypothesis of cache_entry_never_replaced_by_another_value "
    "and decided_value_is_the_cached_value_of_the_decided_hash; correctness of the own secp256k1 signature is a hypothesis of "
    "own_broadcast_passes_verifyMsg (checked on every broadcast by transport:bad_signature)",
    "Reach: the cache is fed only through `propose` (pairs a value with its own hashProto: qbft.go propose) and through messages `handle` "
    "enqueued (valuesByHash + newMsg: Props/C05 accept_sound); a transport fed a Msg with a map that is not keyed by hash is outside "
    "cache_sound (Broadcast's exactness theorems need no such hypothesis)",
    "Two different Any wrappers of one inner message (URL prefix, non-canonical encoding) share a hash: the cache keeps whichever "
    "arrived last; the theorems speak about the inner message, the stream compares the wrapper too",
    "not modelled: context cancellation (a cancelled instance drops parked self-deliveries and stops ProcessReceives - at most once "
    "instead of exactly once), the sniffer (SnifferInstance), anypb.New failing in getValue (only for a nil proposal, which propose "
    "cannot produce), k1util.Sign failing, a justification that is not a qbft Msg (cannot be constructed outside the package), the "
    "interleaving of Broadcast with a concurrent setValues (both hold valueMu; qbft.Run calls Broadcast from the goroutine that reads "
    "the inner buffer, so a justification's values were cached before it could be used - broadcast_succeeds_on_seen_justifications)",
]
