from vlib.props_C02 import QBFT_STREAM, QBFT_TRUSTED
ENTRY = {
    "lean_props": "CharonV.Props.C03",
    "streams": [dict(QBFT_STREAM, n_quick=20000)],
    "level_text": "Kernel-checked Lean proofs, same setting and quantifiers as C02 (cluster of implementation-model nodes of qbft.Run, any adversary within f, any schedule, every n): at most one decision per member (history level and per step: no Decide once qCommit is set), decided value non-zero, decided value PRE-PREPAREd by the designated leader of the decided round, with no Byzantine members it is some member's input, every decision backed by a quorum of distinct available COMMITs for exactly that round and value; the commit list handed to Decide on the quorum path is exactly such a filtered list. Tie to the Go code as for C02, plus monitors (decide twice / zero / unbacked / not proposed) on the real Run's Decide callbacks.",
    "level_note": "Trusted base as C02. The wrapper-level guarantees of core/consensus/qbft (one instance per duty) are exercised by the C05 harness, not proved here.",
    "trusted_base": QBFT_TRUSTED,
    "monitor_sigs": ['qbft:decide_', 'qbft:sanity_panic'],
    "assumptions": ["as C02"],
}
