from vlib.props_C02 import QBFT_STREAM, QBFT_TRUSTED
ENTRY = {
    "lean_props": "CharonV.Props.C03",
    "streams": [dict(QBFT_STREAM, n_quick=20000)],
    "level_text": "Kernel-checked Lean proofs, same setting and quantifiers as C02 (cluster of implementation-model nodes of qbft.Run, any adversary within f, any schedule, every n): at most one decision per member (history level and per step: no Decide once qCommit is set), decided value non-zero, decided value PRE-PREPAREd by the designated leader of the decided round, with no Byzantine members it is some member's input, every decision backed by a quorum of distinct available COMMITs for exactly that round and value; the commit list handed to Decide on the quorum path is exactly such a filtered list. Tie to the Go code as for C02, plus monitors (decide twice / zero / unbacked / not proposed) on the real Run's Decide callbacks.",
    "level_note": "Trusted base as C02. The wrapper-level guarantees of core/consensus/qbft (one instance per duty) are exercised by the C05 harness, not proved here.",
    "trusted_base": QBFT_TRUSTED,
    "monitor_sigs": ['qbft:decide_', 'qbft:sanity_panic'],
    "assumptions": ["as C02"],
}

# wrapper level (core/consensus/qbft outside handle): one qbft.Run per duty, decided value = value of the decided hash,
# subscribers once per decision (Props/C03Wrap.lean, stream conswrap)
from vlib import snippet_C03wrap as _w
ENTRY["streams"].append(_w.STREAM)
ENTRY.setdefault("lean_props_extra", []).append(_w.EXTRA_LEAN)
ENTRY["monitor_sigs"] = ENTRY["monitor_sigs"] + _w.MONITOR_SIG_PREFIXES
ENTRY["trusted_base"] = ENTRY["trusted_base"] + _w.TRUSTED_BASE
ENTRY["assumptions"] = ENTRY["assumptions"] + _w.ASSUMPTIONS
ENTRY["level_note"] = ("Trusted base as C02. The wrapper level of core/consensus/qbft (Propose / Participate / runInstance / instance.IO / "
    "deleteInstanceIO / the Decide callback of newDefinition) is modelled in Model/ConsWrap.lean with qbft.Run as environment; "
    "Props/C03Wrap.lean proves over every history: one_run_per_duty (also after deletion and re-creation of the IO), "
    "run_started_at_first_call, propose_twice_rejected, decided_value_is_hashed_value, subscribers_once_per_decision, "
    "no_run_after_expiry; tied by stream conswrap (real Consensus component as a one-member cluster with the real qbft.Run, "
    "racing Propose/Participate/handle calls behind a barrier, outcome accepted iff some linearisation of the model reproduces it).")

# as for C02: the adversary of the theorems is "what Consensus.handle admits" (C05); the admission stream is part of this check
from vlib.props_C05 import ENTRY as _E05
ENTRY["streams"] = ENTRY["streams"] + [dict(_E05["streams"][0], seeds_quick=1)]
ENTRY["monitor_sigs"] = ENTRY["monitor_sigs"] + ["qbftwire:tampered_accepted", "qbftwire:unsigned_justification_accepted",
                                                 "qbftwire:cross_duty_accepted", "qbftwire:value_hash_mismatch_accepted",
                                                 "qbftwire:malformed_accepted", "qbftwire:limit_exceeded_accepted"]
