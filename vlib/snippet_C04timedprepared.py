"""C04 addition (agent Y5): the TIMED composition (Model/QbftTimed.lean, unchanged) from cluster states in which members hold
PREPARED certificates of earlier rounds — what a round leaves behind whose leader ran but crashed half-way through a broadcast
or whose PREPAREs were partly lost. PROOF-ONLY (no stream, no Go work). NOT a registry entry (the lead owns C04's ENTRY).

Files: lean/CharonV/Proofs/QbftTimedPrepared.lean (~870 lines: cluster invariant `S1` of the ROUND-CHANGE stage over every timed
execution, built on rc_step' / RCtx.qrc_some / step_rc_* of Proofs/QbftPrepared.lean and the network lemmas of
Proofs/QbftTimed.lean; builds 3 s), lean/CharonV/Props/C04TimedPrepared.lean (4 theorems + 1 non-vacuity theorem + kernel-evaluated
executions; builds ~5 s).

STATUS: PARTIAL. Proved for every timed execution and every prepared state: the first of the four message delays of the good
round (ROUND-CHANGE exchange with certificates -> the leader's J1/J2 PRE-PREPARE, justified at every receiver, for the highest
prepared value of its quorum else its input, in flight to everybody by E + sigma + hi), silent rounds at FULL strength (prepared
state survives, cluster poised for the next round, skew preserved) and their rotation composition. NOT proved: the remaining three
delays (PRE-PREPARE / PREPARE / COMMIT over buffers holding earlier rounds, overlapping phases), i.e. "everybody has decided w by
E + sigma + 4*hi"; the full statements `timed_prepared_good_round` / `timed_prepared_decides_within_rotation` are kept in the header
comment of Props/C04TimedPrepared.lean. No extra hypothesis is used by the `_partial` theorems (they even need only
sigma + hi < timeout rho); what is missing is part of the CONCLUSION. On two kernel-evaluated executions of a 4-member cluster (one
down, members 1 and 3 prepared (1, 8) in round 1, unprepared leader 2 with input 9) the full conclusion holds: all decide 8 in
round 2 within E + sigma + 4*hi.

To wire into C04's entry:
    ENTRY.setdefault("lean_props_extra", []).append(EXTRA_LEAN)
    ENTRY["trusted_base"] += TRUSTED_BASE ; ENTRY["assumptions"] += ASSUMPTIONS ; ENTRY["level_text"] += " " + LEVEL_TEXT
DESIGN.md section 8 "the timed theorems still assume silent earlier rounds" becomes: "... the timed theorems cover prepared
members for silent rounds and for the ROUND-CHANGE / proposal step of the good round (C04TimedPrepared); the PRE-PREPARE..COMMIT
delays of a timed good round with prepared members are covered at the phased level only (C04Prepared)".
Build: `bin/lk build CharonV.Props.C04TimedPrepared`.
"""

EXTRA_LEAN = "CharonV.Props.C04TimedPrepared"

THEOREMS = [
    "CharonV.Qbft.timed_prepared_good_round_partial",
    "CharonV.Qbft.timed_prepared_silent_round",
    "CharonV.Qbft.timed_prepared_decides_within_rotation_partial",
    "CharonV.Qbft.stuck_is_poised_prepared",
    # non-vacuity: the timed start state built from the partially progressed round of C04PreparedEx satisfies PHyp / PoisedP
    "CharonV.Qbft.C04TimedPreparedEx.sp_poised",
]

LEVEL_TEXT = (
    "Timed composition WITH PREPARED MEMBERS (Props/C04TimedPrepared.lean, proofs Proofs/QbftTimedPrepared.lean; same timed cluster "
    "semantics as C04Timed: global clock, delivery in (sent+lo, sent+hi], exact relative round timers, actions tick/deliver/fire/"
    "start; every execution, every interleaving, every oracle per delivery). Start state `PoisedP` (timed analogue of `Stuck`): all "
    "running members (>= quorum) in round rho-1, undecided, timers due in [E, E+sigma], sigma <= lo, nothing in flight, each member "
    "holding any buffer of earlier-round messages (<= B per source, B + 1 <= fifo) and a prepared state that is null or a valid "
    "certificate of an earlier round (different members may have prepared different rounds and values). "
    "timed_prepared_good_round_partial - leader of rho runs with an input, sigma + hi < timeout rho: every execution either is still in "
    "the ROUND-CHANGE stage (then now <= E + sigma + hi and every running member is quiet, undecided, not returned, in a round <= rho, "
    "prepared state untouched; no round-rho timer fires) or factors as a1 ++ deliver :: a2 where the delivery is the quorum-th "
    "ROUND-CHANGE at the leader, at an instant <= E + sigma + hi, upon which it broadcasts PRE-PREPARE(rho, w, J) with w != 0, "
    "isJustified = true (accepted by every receiver, rule J1 or J2), w = the value prepared in the highest prepared round among the "
    "duplicate-free quorum Q of ROUND-CHANGEs it holds, else its own input (ValueSpec), in flight to every running member. PARTIAL: "
    "the conclusion 'everybody decides w by E + sigma + 4*hi' (three more delays) is not proved in the timed model. "
    "timed_prepared_silent_round - FULL: leader of rho down, sigma + hi < timeout rho: every execution that reached an instant in "
    "(E + sigma + hi, E + timeout rho) is `PoisedP` for rho+1 with the same prepared states and inputs, entry window "
    "[E + timeout rho, E + timeout rho + sigma], all ROUND-CHANGEs (with certificates) delivered, B + 1. "
    "timed_prepared_decides_within_rotation_partial - production leader function: there is m < n with the leader of rho0+m running and "
    "the earlier ones not; every execution past E0 + sum of the m silent timeouts + sigma + hi went through that leader's proposal "
    "(as above) no later than that instant. stuck_is_poised_prepared - `Stuck` (C04Prepared: holds at the start, preserved by lost and "
    "partially progressing rounds) at every running member + timers in the window + empty network gives the hypotheses. "
    "Non-vacuity: e4 (4 members, member 0 down), members 1 and 3 prepared (1, 8) in the partial round of C04PreparedEx, the timed "
    "start state satisfies the hypotheses (sp_poised), the partial theorem is instantiated on it, and two kernel-evaluated timed "
    "executions (full latency; short latencies with other oracles and delivery orders) end with all three members deciding the "
    "prepared value 8 (not the leader's input 9) in round 2 within E + sigma + 4*hi = 1.4 s"
)

TRUSTED_BASE = [
    "Props/C04TimedPrepared.lean: same timed model as Props/C04Timed.lean (CharonV/Model/QbftTimed.lean, unchanged) and same "
    "implementation model (CharonV/Model/Qbft.lean, unchanged); predicates PHyp / PoisedP / S1 / Fires / PRd.next / oldNext / rcsOf "
    "of Proofs/QbftTimedPrepared.lean; ValueSpec / FireR' / Stuck / CertState / RcOk of Proofs/QbftPrepared.lean are reused, not "
    "redefined",
]

ASSUMPTIONS = [
    "C04TimedPrepared: all running members are in the SAME round rho-1 >= 1 at the start, timers due in [E, E+sigma] with "
    "sigma <= lo (entry skew at most the minimal latency, as in C04Timed; the skew-tolerant treatment of C04Resync is not "
    "combined), nothing in flight (messages of earlier rounds were delivered or lost), relative round timer (increasing / linear "
    "production timers), bounded delay hi, exact timers, no clock drift, compare succeeds, no Byzantine member, members outside R "
    "silent; sigma + hi < timeout rho; FIFO limit B + 1 <= fifo (rotation: B + n + 1 <= fifo)",
    "C04TimedPrepared: PARTIAL - the PRE-PREPARE / PREPARE / COMMIT delays of the timed good round with prepared members "
    "(decision by E + sigma + 4*hi) are not proved; they are proved on the phased schedule (C04Prepared) and, in the timed model, "
    "only for never-prepared members (C04Timed / C04Resync); two kernel-evaluated executions exhibit the full conclusion",
    "C04TimedPrepared: the decided/proposed value is the prepared one only if the leader's quorum of ROUND-CHANGEs contains a "
    "prepared member (always the case when fewer than a quorum of running members are unprepared); otherwise the leader's input "
    "(ValueSpec, as in C04Prepared)",
]
