"""C04 addition (agent Y5): the TIMED composition (Model/QbftTimed.lean, unchanged) from cluster states in which members hold
PREPARED certificates of earlier rounds — what a round leaves behind whose leader ran but crashed half-way through a broadcast
or whose PREPAREs were partly lost. PROOF-ONLY (no stream, no Go work). NOT a registry entry (the lead owns C04's ENTRY).

Files: lean/CharonV/Proofs/QbftTimedPrepared.lean (~4100 lines; builds ~6 s), lean/CharonV/Props/C04TimedPrepared.lean
(8 theorems + 1 non-vacuity theorem + kernel-evaluated executions; builds ~5 s).

STATUS: the FULL statements are proved — `timed_prepared_good_round` (every running member decides ONE value by
E + sigma + 4*hi, the value = ValueSpec of the leader's quorum: highest prepared value, else the leader's input) and
`timed_prepared_decides_within_rotation` (after <= n-1 leaderless rounds that keep the prepared state) — over every execution of
the timed semantics (any interleaving, overlapping phases, any oracle). Two hypotheses beyond C04Timed + valid-or-null prepared
certificates: no DECIDED of an earlier round in a running member's buffer (hnd), the members' inputs are P.inp (hinpC); sigma <= lo
as in C04Timed (not combined with the skew-tolerant C04Resync). The first-session `_partial` theorems are kept (they need only
sigma + hi < timeout rho and neither extra hypothesis).

To wire into C04's entry (unchanged):
    ENTRY.setdefault("lean_props_extra", []).append(EXTRA_LEAN)
    ENTRY["trusted_base"] += TRUSTED_BASE ; ENTRY["assumptions"] += ASSUMPTIONS ; ENTRY["level_text"] += " " + LEVEL_TEXT
DESIGN.md section 8 "the timed theorems still assume silent earlier rounds" becomes: "the timed theorems cover members prepared
in earlier rounds (C04TimedPrepared: good round, silent rounds, rotation; sigma <= lo); not combined with arbitrary entry skew".
Build: `bin/lk build CharonV.Props.C04TimedPrepared`.
"""

EXTRA_LEAN = "CharonV.Props.C04TimedPrepared"

THEOREMS = [
    "CharonV.Qbft.timed_prepared_good_round",
    "CharonV.Qbft.timed_prepared_decides_within_rotation",
    "CharonV.Qbft.timed_prepared_silent_round",
    "CharonV.Qbft.timed_prepared_good_round_partial",
    "CharonV.Qbft.timed_prepared_decides_within_rotation_partial",
    "CharonV.Qbft.prepared_member_any_order",
    "CharonV.Qbft.prepared_member_decides",
    "CharonV.Qbft.stuck_is_poised_prepared",
    # non-vacuity: the timed start state built from the partially progressed round of C04PreparedEx satisfies PHyp / PoisedP
    "CharonV.Qbft.C04TimedPreparedEx.sp_poised",
]

LEVEL_TEXT = (
    "Timed composition WITH PREPARED MEMBERS (Props/C04TimedPrepared.lean, proofs Proofs/QbftTimedPrepared.lean; same timed cluster "
    "semantics as C04Timed: global clock, delivery in (sent+lo, sent+hi], exact relative round timers, actions tick/deliver/fire/"
    "start; every execution, every interleaving, overlapping phases, every oracle per delivery). Start state `PoisedP` (timed "
    "analogue of `Stuck`): all running members (>= quorum) in round rho-1, undecided, timers due in [E, E+sigma], sigma <= lo, "
    "nothing in flight, each member holding any buffer of earlier-round messages (<= B per source, none a DECIDED) and a prepared "
    "state that is null or a valid certificate of an earlier round (different members may have prepared different rounds and "
    "values). timed_prepared_good_round - FULL: leader of rho runs with an input, sigma + 4*hi < timeout rho, B + 4 <= fifo: in "
    "every execution either the leader has not proposed yet (clock <= E + sigma + hi, everybody quiet and undecided) or there is ONE "
    "value w != 0 = the value prepared in the highest prepared round among the duplicate-free quorum Q of ROUND-CHANGEs the leader "
    "held when it proposed, else its input (ValueSpec), such that nobody faults (no bug/unjust output - in particular a "
    "ROUND-CHANGE arriving after the proposal never yields UnjustQuorumRoundChanges: getJustifiedQrc is shown to succeed on every "
    "buffer of the round), nobody returns or leaves round rho, whoever has decided has decided w in round rho exactly once, and once "
    "the clock has passed E + sigma + 4*hi EVERY running member has decided w. timed_prepared_decides_within_rotation - FULL: "
    "production leader function, there is m < n with the leader of rho0+m running and the earlier ones not; nobody ever faults; past "
    "E0 + sum of the m silent timeouts + sigma + 4*hi every running member has decided one value (ValueSpec of the leader's quorum "
    "in round rho0+m). timed_prepared_silent_round - FULL: leader down: every execution that reached an instant in "
    "(E + sigma + hi, E + timeout rho) is `PoisedP` for rho+1 with the same prepared states, skew preserved, all ROUND-CHANGEs with "
    "certificates delivered, B + 1. timed_prepared_good_round_partial / ..._rotation_partial (first session, kept): the "
    "ROUND-CHANGE delay alone (the leader's justified PRE-PREPARE is in flight to everybody by E + sigma + hi) under "
    "sigma + hi < timeout rho, without the hypotheses hnd / hinpC. prepared_member_any_order / prepared_member_decides - member "
    "level: PRE-PREPARE (J1/J2), PREPAREs, COMMITs, DECIDEDs of the round in ANY order at a member holding earlier rounds' messages: "
    "product-form bookkeeping or decided w exactly once; decided as soon as COMMITs of a quorum or a DECIDED are among them. "
    "stuck_is_poised_prepared - `Stuck` (C04Prepared: holds at the start, preserved by lost and partially progressing rounds) at "
    "every running member + timers in the window + empty network + timer objects not yet asked for rho gives the hypotheses. "
    "Non-vacuity: e4 (4 members, member 0 down), members 1 and 3 prepared (1, 8) in the partial round of C04PreparedEx: the timed "
    "start state satisfies the hypotheses (sp_poised), BOTH the partial and the full theorem are instantiated on it, and two "
    "kernel-evaluated timed executions (full latency; short latencies with other oracles and delivery orders) end with all three "
    "members deciding the prepared value 8 (not the leader's input 9) in round 2 within E + sigma + 4*hi = 1.4 s"
)

TRUSTED_BASE = [
    "Props/C04TimedPrepared.lean: same timed model as Props/C04Timed.lean (CharonV/Model/QbftTimed.lean, unchanged) and same "
    "implementation model (CharonV/Model/Qbft.lean, unchanged); predicates PHyp / PoisedP / PRd / PRd.next / rcsOf (statement "
    "level) and S1 / S1H / Fires / TP.Shape / TP.Act / TP.RInv / TP.JOk / GoodRoundP / RotP (proof level) of "
    "Proofs/QbftTimedPrepared.lean; ValueSpec / FireR' / Stuck / CertState / RcOk / InvR' of Proofs/QbftPrepared.lean and "
    "GoodOutcome / Quiet / noFault of Proofs/QbftGoodRound.lean are reused, not redefined; TP.* is a generalised copy of the "
    "member lemmas and the cluster invariant of Proofs/QbftTimed.lean (which is unchanged)",
]

ASSUMPTIONS = [
    "C04TimedPrepared: all running members are in the SAME round rho-1 >= 1 at the start, timers due in [E, E+sigma] with "
    "sigma <= lo (entry skew at most the minimal latency, as in C04Timed; the skew-tolerant treatment of C04Resync is not "
    "combined with prepared members), nothing in flight (messages of earlier rounds were delivered or lost), relative round timer "
    "(increasing / linear production timers) whose object was not asked for round rho or later yet, bounded delay hi, exact timers, "
    "no clock drift, compare succeeds, no Byzantine member, members outside R silent; sigma + 4*hi < timeout rho; FIFO limit "
    "B + 4 <= fifo (rotation: B + n + 3 <= fifo)",
    "C04TimedPrepared (full theorems only): no DECIDED message of an earlier round sits in a running member's buffer (an undecided "
    "member that had received a justified DECIDED would have decided), and the members' inputs are the proposals P.inp handed "
    "over by start; prepared states are null or valid certificates (quorum of distinct PREPAREs for a non-null value of a round "
    "in 1..rho-1), buffered PREPAREs are well-formed (PrepGood)",
    "C04TimedPrepared: the decided value is the prepared one only if the leader's quorum of ROUND-CHANGEs contains a prepared "
    "member (always the case when fewer than a quorum of running members are unprepared); otherwise the leader's input "
    "(ValueSpec, as in C04Prepared)",
]
