"""Snippet for the lead to wire into C19: the lazy client every configured beacon node is wrapped in (app/eth2wrap/lazy.go:
getClient / setClient / getOrCreateClient with providerMu.TryLock spinning and the second getClient check, the getters and
setters that are forwarded or dropped while no client exists), the NON-generated methods of app/eth2wrap/multi.go
(SetForkVersion, Address over the best-address selector, ClientForAddress, Headers, IsActive, IsSynced, SetValidatorCache,
SetDutiesCache; ActiveValidators / ProposerDutiesCache as provide calls without selector) and the cache family of
app/eth2wrap/httpwrap.go (the REAL adapter answers them in the stream) - one more correspondence stream and one more Lean
module of property theorems. Not a registry entry by itself (not named props_C*.py).

Wiring: append STREAM to ENTRY["streams"], append EXTRA_LEAN to ENTRY["lean_props_extra"], extend trusted_base /
assumptions with the lines below (C19 has no monitor_sigs filter; MONITOR_SIGS is given for completeness). lean_exe
`drv-lazymulti` is already in lakefile.toml; hook app/eth2wrap/verif_export_lazymulti.go is committed in /repo (c99339c:
VerifMultiParts, VerifSameSelector, VerifLazyClient; the older VerifNewLazy / VerifNewHTTPAdapter of af75d57 are used too).

NOTE (lead): the one defect this extension found is REPAIRED in /repo (83baa9b, exactly
fixes/C19-lazy-duties-cache-late-client.diff; FIXED below, KNOWN_FINDINGS is empty): lazy.setClient handed l.valCache to a
client created later but not the three duties caches. The model follows the repaired code (switch record `Fixes` in
Model/LazyMulti.lean: `Fixes.current` = /repo = the default of every definition, `Fixes.asFound` only in the two witness
theorems late_client_has_no_duties_cache / duties_cache_call_fails_although_node_is_up); the full statements are
duties_cache_reaches_client and duties_cache_call_succeeds_once_a_primary_is_up. The monitor
lazymulti:duties_cache_lost_on_late_client stays and is silent on /repo (no VERIF_KNOWN_SIGS needed); reverting the commit
makes it fire again (~570 times per 30000 ops) and the streams differ (`mcall pd ...` => err er instead of ok v<id>).
Three observations, modelled as the code is, proved, counted by the driver as observed:* and NOT reported as violations:
  * SetForkVersion through a lazy client without client is dropped (fork_version_lost_on_late_client_witness); harmless in
    production: newBeaconClient's provider configures the constructor's fork version itself and nobody calls it later.
  * multi.SetForkVersion / SetValidatorCache / SetDutiesCache / IsActive / IsSynced loop over m.clients only: fallback
    nodes never get a cache (cache_setters_skip_fallbacks + example: every primary unreachable -> the fallback IS consulted
    and answers "no active validator cache"). Not a clause of C19 (which promises success for answering PRIMARIES).
  * httpAdapter has no Address() of its own: on an adapter without eth2http.Service (NewHTTPAdapterForT /
    VerifNewHTTPAdapter) Address() dereferences nil (the doc comment of VerifNewHTTPAdapter lists Address wrongly).
"""

STREAM = {"name": "lazymulti", "drive": "drive-lazymulti", "model": "drv-lazymulti",
          "reset_ops": ["new"],
          "n_quick": 30000, "seeds_quick": 2, "n_thorough": 150000, "seeds_thorough": 6,
          "search_seeds": 2}

EXTRA_LEAN = "CharonV.Props.C19LazyMulti"

MONITOR_SIGS = ["lazymulti:"]

THEOREMS = [
    "CharonV.LazyMulti.single_client_per_node",
    "CharonV.LazyMulti.provider_called_only_without_client",
    "CharonV.LazyMulti.creation_retried_after_failure",
    "CharonV.LazyMulti.cancelled_caller_returns_promptly",
    "CharonV.LazyMulti.cancel_does_not_poison",
    "CharonV.LazyMulti.after_cancel_next_caller_creates",
    "CharonV.LazyMulti.lazy_failure_is_a_node_error",
    "CharonV.LazyMulti.one_reachable_node_suffices",
    "CharonV.LazyMulti.multi_active_iff",
    "CharonV.LazyMulti.fork_version_reaches_existing_clients",
    "CharonV.LazyMulti.fork_version_lost_on_late_client_witness",
    "CharonV.LazyMulti.validator_cache_reaches_client",
    "CharonV.LazyMulti.duties_cache_reaches_client",
    "CharonV.LazyMulti.duties_cache_call_succeeds_once_a_primary_is_up",
    "CharonV.LazyMulti.late_client_has_no_duties_cache",
    "CharonV.LazyMulti.duties_cache_call_fails_although_node_is_up",
    "CharonV.LazyMulti.cache_setters_skip_fallbacks",
    "CharonV.LazyMulti.client_for_address_needs_a_client",
]

KNOWN_FINDINGS = []

FIXED = [
    {"property": "C19", "sig": "lazymulti:duties_cache_lost_on_late_client", "commit": "83baa9b",
     "what": "app/eth2wrap/lazy.go setClient handed the validator cache to a client created later but not the duties caches: a "
             "beacon node that was down when eth2Cl.SetDutiesCache was called (app.go, once at start-up) and came up later "
             "answered the three duties-cache endpoints with 'no active ... duties cache' for ever; with every primary down at "
             "start-up (start on the fallbacks) the duties-cache calls of scheduler / validatorapi / tracker kept failing after "
             "the primaries were back (ops `new 1 1; mval 7; mdut 8; mcall av to o o 0 0` => ok v7, `mcall pd to o o 0 0` gave "
             "err er, now ok v8). Repaired: setClient also calls client.SetDutiesCache when one of the three is set "
             "(fixes/C19-lazy-duties-cache-late-client.diff). Theorems: duties_cache_reaches_client (existing and late clients), "
             "duties_cache_call_succeeds_once_a_primary_is_up; late_client_has_no_duties_cache and "
             "duties_cache_call_fails_although_node_is_up are statements about Fixes.asFound (the latter also shows the repaired "
             "call succeeding). Reverting the commit makes the monitor fire again (571 / 535 / 610 times in seeds 1 / 2 / 3, "
             "n=30000) and the streams differ"},
]

LEVEL_TEXT = (" Every configured node of NewMultiHTTP is a lazy client (app/eth2wrap/lazy.go); Props/C19LazyMulti.lean proves "
    "over an executable state machine of it (Model/LazyMulti.lean: client / provider lock holder / spinning callers / stored "
    "caches; events: a caller enters, a spinning caller's TryLock succeeds, the provider returns a client / an error / the "
    "context error or never returns, a context is cancelled, a cancelled spinner's select takes ctx.Done, the setters) for "
    "EVERY event list from the initial state: the provider returns at most one client per node and every caller that ever got "
    "a client got that one (single_client_per_node); the provider is only called without client and by the one lock holder "
    "(provider_called_only_without_client); when the provider fails only the creating caller gets the error, nothing is "
    "remembered and the next caller - spinning or new - calls the provider again (creation_retried_after_failure); a cancelled "
    "caller that waits for the lock returns ctx.Err() by a step of its own, whatever the lock holder does (a provider hung for "
    "ever included), a cancelled lock holder returns when its provider returns the context error "
    "(cancelled_caller_returns_promptly); afterwards client, caches, counters and all other callers are exactly as before and "
    "the lock is as before resp. free (cancel_does_not_poison, after_cancel_next_caller_creates). Seen from provide a lazy node "
    "whose provider fails is a node answering that error and nothing else (lazy_failure_is_a_node_error), and composing with "
    "Model/Provide.lean: a call through a multi over lazy nodes returns primary i's answer at the event at which i completes if "
    "i has a client or its provider returns one and the node answers - whatever the other nodes' providers do (fail with any "
    "class, hang) (one_reachable_node_suffices, by Proofs/Provide.go_first_success). The non-generated methods of multi.go are "
    "characterised as coded: IsActive / IsSynced = some PRIMARY has a client that is active / synced (multi_active_iff), "
    "SetForkVersion reaches exactly the existing clients of the primaries (fork_version_reaches_existing_clients; dropped for a "
    "node without client: fork_version_lost_on_late_client_witness), the validator cache reaches a client whenever it is "
    "created and when it exists (validator_cache_reaches_client), and so do - since repair 83baa9b - the duties caches "
    "(duties_cache_reaches_client; hence a duties-cache call through the multi succeeds once one primary holding the cache "
    "has come up: duties_cache_call_succeeds_once_a_primary_is_up; as found, kernel-checked about the unrepaired switch "
    "Fixes.asFound: late_client_has_no_duties_cache, duties_cache_call_fails_although_node_is_up), the setters skip the "
    "fallbacks (cache_setters_skip_fallbacks), "
    "ClientForAddress never selects a node without client (client_for_address_needs_a_client). Tied by stream lazymulti on the "
    "real code: eth2wrap.Instrument over 1..3 primary and 0..2 fallback lazy clients (newLazy) with a scripted provider (returns "
    "a client / an error / parks until released / returns ctx.Err() when its caller is cancelled, or ignores the context), the "
    "client it returns wrapping the REAL httpAdapter for the cache family; racing callers (NodeVersion / ActiveValidators / "
    "ProposerDutiesCache through the lazy client) parked and released one event per op; calls through the real multi "
    "(generated NodeVersion with selector, ActiveValidators / ProposerDutiesCache without) with per-node scripts and the "
    "completions released in a scripted order (lock-step through a spy on ctx.Err(), as stream provide), result, error class "
    "(real isTimeoutError / isSyncingError / isBadGateway), which nodes have a client afterwards, every getter of lazy and "
    "multi, the inner client's fork version / caches, provider call and creation counts compared after each op.")

TRUSTED_BASE = [
    "model CharonV/Model/LazyMulti.lean mirrors lazy.go (getOrCreateClient: getClient, `for !providerMu.TryLock() { select { "
    "<-ctx.Done(): return ctx.Err(); <-ticker.C } }`, second getClient, provider(ctx), setClient applying valCache and the duties caches; "
    "SetForkVersion / Name / Address / Headers / IsActive / IsSynced / ClientForAddress returning the zero value resp. the lazy "
    "client itself without client; SetValidatorCache / SetDutiesCache storing and forwarding) and multi.go's hand-written "
    "methods; the lock holder is the caller inside provider(ctx), the other callers inside getOrCreateClient spin; atomic steps: "
    "one clientMu critical section, one TryLock + second check, provider return + setClient + unlock. Tied by stream lazymulti",
    "stable states: an op's observation is taken when every caller has returned, is parked in the scripted provider, or spins "
    "while another caller is parked in the provider (the only states that do not change by themselves); the model side applies "
    "the op's event and then the internal events that are enabled (after a creation every spinner acquires and returns; after a "
    "failure or a cancelled creator one spinner acquires and calls the provider)",
    "choices Go leaves to its runtime are observed and written into the op line, the model must admit them (`impossible` "
    "otherwise): which spinning caller calls the provider next (`err` / `cancel` ops, ` ~ <caller>`), which of the addresses "
    "with the maximal count multi.Address() returns (map order; `mget ~ <addr>`)",
    "'spins' is a negative observation: the driver waits 15 ms for a return or a provider call that must NOT come when another "
    "caller is inside the provider; a caller that returned later would surface in a later op's output. Every positive wait has "
    "an 8 s watchdog that turns a missing return into a violation (never into an output of a correct implementation)",
    "the scripted provider and inner client (harness/cmd/drive-lazymulti): callers with id % 4 == 0 have a provider that "
    "ignores its context; NodeVersion / IsActive / IsSynced / Name / Headers / Address of the inner client are scripted (the "
    "real adapter needs an eth2http.Service for them), SetForkVersion is recorded and forwarded, SetValidatorCache / "
    "SetDutiesCache / ActiveValidators / ProposerDutiesCache are the real httpAdapter's; cache functions are ids",
    "multi calls: every node's worker passes exactly one gate (failing provider before it returns, else the inner endpoint), "
    "all primaries are parked before the first release, each release is followed by the result loop's ctx.Err() (spy) before "
    "the next, so the completions reach runForkJoin in the scripted order = the `rel` events given to Provide.provide; failing "
    "nodes of one call share one error class (time-out class or other), cache endpoints fail with class other",
    "monitors (independent of the model, on the real trace): two_clients_created (a caller answered by a client other than the "
    "first; the provider returning a second client; the provider called although a client had been created), "
    "two_callers_in_provider, cancel_poisoned_client / creation_not_retried / lock_leaked (no client, nobody in the provider, a "
    "new caller neither returns nor calls the provider - after a cancellation / a failure / neither), cancelled_caller_blocked, "
    "uncancelled_caller_got_ctx_error, error_not_confined_to_node (a caller returning a creation error that was not its own "
    "provider's; a multi call failing although a primary can be created and answers), waiter_not_released_after_creation, "
    "call_blocked_with_client, fork_version_lost (SetForkVersion not reaching an EXISTING client, through lazy or multi), "
    "validator_cache_lost_on_late_client, validator_cache_not_forwarded, duties_cache_lost_on_late_client (the repaired defect; "
    "silent), "
    "created_client_not_installed, multi_active_synced_not_any, multi_name, scoped_multi_new_selector, multi_call_stuck, "
    "node_queried_twice, unexpected_provider_call, unexpected_result",
]

ASSUMPTIONS = [
    "a cancelled lock holder returns only when its provider returns: providers that ignore their context (production's "
    "eth2http.New honours it) keep the holder - and with it every caller without own cancellation - waiting; modelled (no "
    "provCtx step), not a theorem about the code",
    "the setters and getters of the lazy client are atomic with respect to the events (each takes clientMu once or twice); two "
    "concurrent SetValidatorCache calls on one lazy client may leave lazy and client with different caches (store under the "
    "lock, forward outside it): not modelled, charon calls each setter once from one goroutine",
    "the best-address selector's one-minute reset (time.Since(start) > period) is outside the model; multi.Address() with no "
    "primary (m.clients[0] panics; Instrument refuses an empty list) and multi calls while a caller is parked inside a node "
    "(`busy`) are not generated",
    "by design, not violations (observed:* counters): SetForkVersion dropped without client; cache setters, SetForkVersion, "
    "IsActive, IsSynced skipping the fallbacks",
]
