"""Translator T-jsonmap for C12: regenerate lean/CharonV/Generated/ClusterJson.lean from $VERIF_REPO/cluster/*.go.

`jsonmap(bindir) -> (ok, log)`; the Go tool `trans-jsonmap` (listed in GO_TOOLS of vlib/snippet_C12jsonmap.py, built by
check into `bindir`) parses and type-checks package cluster (go/ast + go/types, imports stubbed), reads the version
switches of Definition / Lock MarshalJSON / UnmarshalJSON and interprets the bodies of every per-version codec function
and of the nested conversions they call with one symbolic evaluator over a closed set of statement shapes; helpers it
does not follow are primitives whose source text is pinned. It fails closed on anything else."""
import os, subprocess
from vlib import core


def jsonmap(bindir):
    exe = os.path.join(bindir, "trans-jsonmap")
    out = os.path.join(core.LEAN, "CharonV", "Generated", "ClusterJson.lean")
    os.makedirs(os.path.dirname(out), exist_ok=True)
    if not os.path.exists(exe):
        return False, "trans-jsonmap was not built"
    with core.LeanLock():  # do not swap the file under a concurrent lake build
        p = subprocess.run([exe, "-repo", core.REPO, "-out", out], stdout=subprocess.PIPE,
                           stderr=subprocess.STDOUT, text=True, timeout=300)
    if p.returncode != 0 and os.path.exists(out):
        os.remove(out)  # fail closed: a stale table must not keep the theorems true
    return p.returncode == 0, p.stdout
