"""Snippet for the lead to wire into C12: the DECISION LOGIC of signature verification of cluster artifacts -
cluster/definition.go Definition.VerifySignatures (+ validateSignatureLength, eip712SigsPresent, supportEIP712Sigs),
cluster/eip712sigs.go (which EIP-712 typed data is signed per version), cluster/helpers.go verifySig / verifySigOrERC1271,
cluster/lock.go Lock.VerifySignatures (+ verifyNodeSignatures, parsePubShares, verifySharesReconstruct's subset pattern,
the version / presence branches of verifyBuilderRegistrations), Definition/Lock.VerifyHashes as comparisons, and
cluster/distvalidator.go (PublicShare, ZeroRegistration, Eth2Registration) - one more correspondence stream and one more
Lean module of property theorems. Signatures, hashes and BLS are SYMBOLIC. Not a registry entry by itself.

Wiring: append STREAM to ENTRY["streams"], append EXTRA_LEAN to ENTRY["lean_props_extra"], add MONITOR_SIGS to
ENTRY["monitor_sigs"], extend trusted_base / assumptions / level_text with the lines below. The one defect this extension
found is repaired in /repo (FIXED below, commit 5c353f3; KNOWN_FINDINGS is empty): the model follows the repaired code (switch
record `Fixes`, `Fixes.current` = /repo), the monitor stays and is silent.
lean_exe `drv-locksigs` is already in lakefile.toml. No new hook in /repo: the existing cluster/verif_export.go
(VerifSignOperator, VerifSignCreator, VerifHashDefinition, VerifHashLock) suffices.
"""

STREAM = {"name": "locksigs", "drive": "drive-locksigs", "model": "drv-locksigs",
          "reset_ops": ["def", "lock", "dv"],
          "n_quick": 2400, "seeds_quick": 2, "n_thorough": 12000, "seeds_thorough": 6,
          "search_seeds": 2}

EXTRA_LEAN = "CharonV.Props.C12LockSigs"

MONITOR_SIGS = ["locksigs:"]

THEOREMS = [
    "CharonV.LockSigs.op_check_signed_iff",
    "CharonV.LockSigs.op_check_unsigned_iff",
    "CharonV.LockSigs.def_accepted_iff",
    "CharonV.LockSigs.def_config_hash_change_rejected",
    "CharonV.LockSigs.def_tampered_content_rejected",
    "CharonV.LockSigs.def_wrong_signer_rejected",
    "CharonV.LockSigs.def_wrong_enr_signer_rejected",
    "CharonV.LockSigs.def_replayed_signature_rejected",
    "CharonV.LockSigs.def_swapped_signatures_rejected",
    "CharonV.LockSigs.def_foreign_definition_signature_rejected",
    "CharonV.LockSigs.def_wrong_typed_data_rejected",
    "CharonV.LockSigs.def_enr_signature_binds_enr",
    "CharonV.LockSigs.def_half_signed_rejected",
    "CharonV.LockSigs.def_operators_signed_creator_missing_rejected",
    "CharonV.LockSigs.def_creator_wrong_signer_rejected",
    "CharonV.LockSigs.def_v1_3_creator_signature_rejected",
    "CharonV.LockSigs.def_legacy_signatures_rejected",
    "CharonV.LockSigs.def_legacy_creator_and_chain_not_checked_witness",
    "CharonV.LockSigs.def_v1_3_creator_address_not_checked_witness",
    "CharonV.LockSigs.def_creator_signed_operators_unsigned_accepted_witness",
    "CharonV.LockSigs.def_no_operators_creator_signed_accepted_witness",
    "CharonV.LockSigs.def_stored_config_hash_only_witness",
    "CharonV.LockSigs.def_erc1271_yes_overrides_witness",
    "CharonV.LockSigs.def_v1_11_multisig_length_witness",
    "CharonV.LockSigs.node_sigs_accepted_iff",
    "CharonV.LockSigs.lock_accepted_iff",
    "CharonV.LockSigs.vals_accepted_iff",
    "CharonV.LockSigs.lock_node_sig_dropped_rejected",
    "CharonV.LockSigs.lock_node_sig_wrong_signer_rejected",
    "CharonV.LockSigs.lock_node_sigs_reordered_rejected",
    "CharonV.LockSigs.lock_node_sig_duplicated_rejected",
    "CharonV.LockSigs.lock_hash_change_rejected",
    "CharonV.LockSigs.lock_content_change_rejected",
    "CharonV.LockSigs.lock_public_share_replaced_rejected",
    "CharonV.LockSigs.lock_aggregate_missing_share_rejected",
    "CharonV.LockSigs.lock_empty_aggregate_rejected",
    "CharonV.LockSigs.lock_invalid_definition_rejected",
    "CharonV.LockSigs.lock_legacy_empty_aggregate_nothing_checked_witness",
    "CharonV.LockSigs.lock_node_sigs_not_checked_before_v1_7_witness",
    "CharonV.LockSigs.lock_node_sigs_read_stored_hash_witness",
    "CharonV.LockSigs.lock_aggregate_order_not_checked_witness",
    "CharonV.LockSigs.lock_num_validators_not_checked_witness",
    "CharonV.LockSigs.public_share_is_operator_position",
    "CharonV.LockSigs.public_share_out_of_range",
    "CharonV.LockSigs.zero_registration_is_no_registration",
    "CharonV.LockSigs.eth2_registration_has_registration",
    "CharonV.LockSigs.registration_neither_zero_nor_present_witness",
    "CharonV.LockSigs.verify_lock_is_current_switch",
    "CharonV.LockSigs.regs_check_never_panics",
    "CharonV.LockSigs.verify_lock_never_panics",
    "CharonV.LockSigs.regs_check_as_found_never_panics_partial",
    "CharonV.LockSigs.lock_more_validators_than_addresses_panics_witness",
]

KNOWN_FINDINGS = []

FIXED = [
    {"property": "C12", "sig": "locksigs:verify_signatures_panics_more_validators_than_addresses", "commit": "5c353f3",
     "what": "Lock.VerifySignatures PANICKED (index out of range) on a v1.7+ lock that lists more distributed validators than the "
             "definition has validator addresses and is otherwise consistently hashed and signed (the author holds every key "
             "share): verifyBuilderRegistrations (cluster/lock.go) indexed l.FeeRecipientAddresses() by the validator index without "
             "a bound check, after the aggregate signature verified. cluster.Load runs VerifyHashes first (it reports the count "
             "mismatch), so the panic needed --no-verify, where that error is only logged and VerifySignatures still runs: a crafted "
             "lock file crashed the node instead of producing the warning. Repaired: 'missing fee recipient address for validator' "
             "(fixes/C12-locksigs-registration-index-panic.diff, applied). Model switch Fixes (Fixes.current = /repo, "
             "Fixes.asFound = before); theorems regs_check_never_panics, verify_lock_never_panics now hold for EVERY lock; "
             "lock_more_validators_than_addresses_panics_witness is a statement about Fixes.asFound and shows the repaired code "
             "answering regNoAddr on the same lock. Op `lock v=8 ... nv=1 ... vals=R1~S1.1+S1.2~ok|R2~S2.1+S2.2~ok` answers "
             "`reg-no-addr count` on both sides (alteration R:more-validators-than-addresses). Reverting the commit makes the "
             "monitor fire again (4 times in seed 1) and the streams differ (panic vs reg-no-addr)"},
]

LEVEL_TEXT = (" The clause 'the lock passes full signature verification ... changing any signed field makes verification fail' is "
    "proved over a branch-by-branch model of the two VerifySignatures functions (Model/LockSigs.lean; signatures are symbolic terms "
    "`good key digest`, the EIP-712 digest is a free term of primary type, chain id and value, hashes are values of an arbitrary type "
    "with the hash functions as parameters), for every definition / lock, every minor version as a natural number, every operator and "
    "validator count: with a nil execution client a definition is accepted iff (v1.0-v1.2: no operator carries any signature - nothing "
    "else is read) or (its fork version is a known network, the creator signature has an admissible length, EITHER every operator is "
    "completely unsigned (empty address, no signatures) OR every operator carries a config-hash signature of the version's typed data "
    "(v1.3 ConfigHash, later OperatorConfigHash) AND an ENR signature over its own ENR, both by its own address and over the STORED "
    "config hash and the definition's chain id, and: v1.3 creator signature empty; v1.4+ creator completely empty with at least one "
    "unsigned operator, or a CreatorConfigHash signature by the creator address) (def_accepted_iff, op_check_signed_iff, "
    "op_check_unsigned_iff); consequently a changed config hash, a changed hashed field under injective SSZ hashing whatever the stored "
    "hashes are set to, a wrong signer, operator A's signature replayed for operator B, two operators' signatures exchanged, a "
    "signature over another definition or chain, a signature of another EIP-712 primary type (creator / v1.3 / terms-and-conditions / "
    "ENR / raw), an ENR signature of another ENR, a half-signed definition, signed operators without creator signature, a wrong "
    "creator signer are all rejected (def_config_hash_change_rejected, def_tampered_content_rejected, def_wrong_signer_rejected, "
    "def_wrong_enr_signer_rejected, def_replayed_signature_rejected, def_swapped_signatures_rejected, "
    "def_foreign_definition_signature_rejected, def_wrong_typed_data_rejected, def_enr_signature_binds_enr, def_half_signed_rejected, "
    "def_operators_signed_creator_missing_rejected, def_creator_wrong_signer_rejected, def_v1_3_creator_signature_rejected, "
    "def_legacy_signatures_rejected). A lock is accepted iff its definition is and (v1.0/v1.1 with an empty aggregate - then nothing "
    "else is read - or: every validator has a well-formed group key not listed twice, exactly one well-formed public share per "
    "operator, no share twice, shares that pass verifySharesReconstruct, the aggregate is by exactly the multiset of ALL public shares "
    "of ALL validators over the RECOMPUTED lock hash, builder registrations absent before v1.7 and present and valid from v1.7, node "
    "signatures absent before v1.7 and from v1.7 one per operator, in operator order, by that operator's ENR key over the STORED lock "
    "hash) (lock_accepted_iff, vals_accepted_iff, node_sigs_accepted_iff); dropping, appending, duplicating, reordering a node "
    "signature, a wrong node signer or message, a changed stored lock hash, changed lock content under the same aggregate, a replaced "
    "public share whatever the lock hash is set to, an aggregate missing a share, an empty aggregate from v1.2 are rejected "
    "(lock_node_sig_dropped_rejected, lock_node_sig_wrong_signer_rejected, lock_node_sigs_reordered_rejected, "
    "lock_node_sig_duplicated_rejected, lock_hash_change_rejected, lock_content_change_rejected, lock_public_share_replaced_rejected, "
    "lock_aggregate_missing_share_rejected, lock_empty_aggregate_rejected, lock_invalid_definition_rejected). What the code does NOT "
    "check is stated as theorems too: v1.0-v1.2 read neither creator, addresses, chain nor config hash; v1.3 never reads the creator "
    "address; a creator-signed definition with all operators unsigned, and one with no operators at all, are accepted; "
    "VerifySignatures never recomputes the config hash (only VerifyHashes ties content to it); an execution client answering yes "
    "overrides any signature bytes; 130-byte signatures pass the v1.11 length rule and then fail as EOA signatures; a v1.0/v1.1 lock "
    "with empty aggregate is accepted whatever its validators, node signatures and lock hash are; before v1.7 the stored lock hash is "
    "not read by VerifySignatures at all; node signatures bind the stored hash, the aggregate the recomputed one - VerifySignatures "
    "alone does not tie the two; the order of the aggregate's signers and num_validators are not read "
    "(def_legacy_creator_and_chain_not_checked_witness, def_v1_3_creator_address_not_checked_witness, "
    "def_creator_signed_operators_unsigned_accepted_witness, def_no_operators_creator_signed_accepted_witness, "
    "def_stored_config_hash_only_witness, def_erc1271_yes_overrides_witness, def_v1_11_multisig_length_witness, "
    "lock_legacy_empty_aggregate_nothing_checked_witness, lock_node_sigs_not_checked_before_v1_7_witness, "
    "lock_node_sigs_read_stored_hash_witness, lock_aggregate_order_not_checked_witness, lock_num_validators_not_checked_witness). "
    "distvalidator.go: PublicShare(peerIdx) of an accepted lock is the share at the operator's position and one of the aggregate's "
    "keys, out of range it is a panic / none; ZeroRegistration implies noRegistration, Eth2Registration implies a registration, and a "
    "registration with only a gas limit is neither (public_share_is_operator_position, public_share_out_of_range, "
    "zero_registration_is_no_registration, eth2_registration_has_registration, registration_neither_zero_nor_present_witness). One "
    "finding, repaired by 5c353f3: VerifySignatures panicked when a consistently signed v1.7+ lock listed more validators than validator "
    "addresses (reachable with --no-verify; lock_more_validators_than_addresses_panics_witness about Fixes.asFound, "
    "regs_check_as_found_never_panics_partial); for the repaired code the registration check and Lock.VerifySignatures never panic, "
    "for every lock (regs_check_never_panics, verify_lock_never_panics, verify_lock_is_current_switch). "
    "Tied by stream locksigs: every op line is the abstract description of one artifact (version, who signed which typed data with "
    "which key over which hash, which hash field holds which value); the Go driver builds the concrete artifact from the line alone "
    "(real secp256k1 keys, signatures by the package's own signEIP712 through the existing hooks, real BLS threshold shares and "
    "aggregates, real SSZ hashes, real ENRs, a mock execution client) for every version v1.0-v1.11 and runs the REAL "
    "VerifySignatures and VerifyHashes; the compiled model decides the same from the description; the class of the first error is "
    "compared (76 alterations: swap, replay, wrong signer, wrong typed data, other definition / chain / ENR, edits with and "
    "without re-hashing, half-signed, missing creator, junk and odd lengths, ERC-1271 answers, node signature drop / dup / reorder / "
    "wrong key / wrong message, aggregate missing / extra / replaced signer, other message, shares replaced / swapped / duplicated, "
    "thresholds, registrations, counts).")

TRUSTED_BASE = [
    "model CharonV/Model/LockSigs.lean mirrors cluster/definition.go (VerifySignatures: the two pre-v1.3 exits, "
    "validateCreatorSignatureLength first, digestEIP712's chain-id error, the operator loop with its `completely unsigned` test, "
    "empty-signature and length errors, config signature before ENR signature, noOpSigs, the three creator branches; "
    "validateSignatureLength incl. the v1.11 multiple-of-65 rule; VerifyHashes), cluster/eip712sigs.go (getOperatorEIP712Type: v1.3 "
    "ConfigHash else OperatorConfigHash; the signed value is the STORED ConfigHash field; ENR typed data over operator.ENR), "
    "cluster/helpers.go (verifySig: ChecksumAddress error before Recover error before comparison; verifySigOrERC1271: EOA only for 65 "
    "bytes, nil client / ErrNoExecutionEngineAddr return the EOA error, otherwise the client's answer), cluster/lock.go "
    "(VerifySignatures: definition first, empty aggregate accepted for v1.0/v1.1 only, SignatureFromBytes, per validator share count / "
    "PubkeyFromBytes / duplicate group key / parsePubShares / verifySharesReconstruct (threshold range, first t shares, then t-1 "
    "shares plus each further share), VerifyAggregate over hashLock(l), verifyBuilderRegistrations' version and presence branches "
    "and its index bound check (repair 5c353f3 is the switch Fixes.regIndexChecked: Fixes.current = /repo, what the driver compares "
    "against; Fixes.asFound = before, only in the witness theorem), verifyNodeSignatures over the STORED LockHash; VerifyHashes) and cluster/distvalidator.go; tied by "
    "correspondence stream locksigs (answer = class of the first error of VerifySignatures + class of VerifyHashes; op dv: "
    "PublicShare / ZeroRegistration / Eth2Registration / noRegistration)",
    "the concretisation in harness/cmd/drive-locksigs (test scaffolding, not /repo code): key ids -> secp256k1 keys by SHA-256, "
    "polynomial ids -> tbls.ThresholdSplitInsecure over a deterministic reader, content id -> Definition.Name, chain index -> "
    "genesis fork version of mainnet / goerli / sepolia / hoodi (`x`: 0xdeadbeef), `o<k>` -> 32 unrelated bytes; definitions and "
    "locks are built as Go structs (the JSON codecs are stream cluster's); signatures of typed data are made with "
    "cluster.VerifSignOperator / VerifSignCreator / SignTermsAndConditions on a scratch definition carrying the hash to sign, raw "
    "ones with k1util.Sign; `G` = the same signature with v + 27; `b<n>` = n fixed bytes with recovery id 5",
    "the Lean driver's symbolic hashes are the canonical rendering of what the hash reads (injective by construction) and "
    "`tbls.RecoverPubkey` is `recoverSym`: the group key iff all entries are shares of one polynomial at their own index and at least "
    "degree+1 of them; the error classes merge what the Go error text cannot distinguish (creator / operator signature length -> "
    "sig-len; SignatureFromBytes / PubkeyFromBytes(PubKey) -> bytes-len; which signature raised addr-err / rec-err / erc-err)",
    "monitors (independent of the model, decided from the NAME of the alteration the generator applied, carried as `#alt=` on the op "
    "line and ignored by the model): locksigs:tampered_definition_accepted (T:), foreign_signature_accepted (F:), "
    "half_signed_accepted (H:), lock_with_bad_node_sig_accepted (N:), lock_with_bad_aggregate_accepted (A:), "
    "malformed_artifact_accepted (R:) - full verification (VerifySignatures and VerifyHashes) must not accept; "
    "honest_artifact_rejected (honest and its respellings / reorderings / unsigned-all must be accepted); "
    "verify_signatures_panics_more_validators_than_addresses (the repaired defect: silent on /repo, firing again when 5c353f3 is "
    "reverted); panic_or_unknown_error (any other panic or an error "
    "text outside the class table)",
]

ASSUMPTIONS = [
    "signatures are symbolic (modelling assumption, never an axiom): k1util.Recover(d', good k d) is k iff d' = d, otherwise a key "
    "whose address is nobody's (secp256k1 / ECDSA unforgeability and recovery); the EIP-712 digest is injective in (primary type, "
    "chain id, value) and never equals a raw lock hash; PublicKeyToAddress is injective on the keys used; tbls.VerifyAggregate "
    "succeeds iff the key list is non-empty, a permutation of the signers and the message is the signed one (no rogue-key sums); "
    "exercised by the stream on real keys, never proved",
    "hash functions are parameters of the model; injectivity of the config hash in the edited field is the hypothesis `hinj` of "
    "def_tampered_content_rejected (the SSZ layer: Props/C12.lean, reduced to SHA-256 collision resistance)",
    "the main `iff` of the definition is for a nil execution client (EOA signatures); with a client, ERC-1271 answers decide for "
    "everything that is not a valid EOA signature (modelled: verifySigOrErc with an arbitrary answer function; "
    "def_erc1271_yes_overrides_witness; stream: constant-answer mock in the four modes yes / no / ErrNoExecutionEngineAddr / error)",
    "accepted by design and stated as witnesses, not findings: v1.0-v1.2 definitions carry no signatures; a creator-signed definition "
    "whose operators have not signed yet; v1.0/v1.1 locks without aggregate; a Threshold field above the real sharing degree "
    "(more shares than needed still recover the key: stream alteration W:threshold-above-degree); v = 0/1 and v = 27/28 spell the "
    "same signature",
    "not covered: malformed (non-empty) address strings and locks with a single operator (threshold 1: every share IS the group "
    "key, which the symbolic key terms would keep apart) are not generated; the message / signature checks inside "
    "verifyBuilderRegistrations are Model/DepositReg.lean's (here: absent / valid / invalid); point validity of 48-byte keys; "
    "Safe multisig contents; the JSON codecs",
]
