"""C19 — multi beacon client provide/submit (app/eth2wrap/eth2wrap.go, multi.go, app/forkjoin)."""
from vlib.trans_multi import trans_multi

ENTRY = {
    "lean_props": "CharonV.Props.C19",
    "lean_props_extra": ["CharonV.Props.C19Proxy"],
    "go_tools": ["trans-multi"],
    "translators": [trans_multi],
    "streams": [
        {"name": "provide", "drive": "drive-provide", "model": "drv-provide",
         "reset_ops": ["call", "proxy", "http"],
         "n_quick": 40000, "seeds_quick": 2, "n_thorough": 200000, "seeds_thorough": 8,
         "search_seeds": 2},
    ],
    "level_text": "Kernel-checked Lean theorems over all scenarios of a provide/submit call (any number of primary and fallback nodes, every outcome per node: success, rejected output, timeout / syncing / bad-gateway / other error, workers honouring or ignoring cancellation) and all event orders (any completion order, hung nodes, repeated and out-of-group completions, cancellation at any point): the first successful primary decides the call at the moment it completes and its answer is returned (exactly one node's answer, of a node that succeeded); the result depends only on the events consumed (no waiting for slower or hung nodes); an error result implies that every primary (and, for a fallback error, every fallback) has completed without success within the consumed events; the fallback decision is characterised exactly (taken by the error of the primary completing last); the fallback group behaves like the primaries; cancellation returns the context error at once if a pending worker honours its context and at the next completion otherwise; submit = provide with the output erased. T-multi regenerates the table of multi's methods from eth2wrap_gen.go/multi.go and `every_endpoint_routed` shows every endpoint goes through provide/submit with (m.clients, m.fallbacks). The one hand-written endpoint with a request body, multi.Proxy, is modelled with a heap of body readers (Model/ProxyCall; Props/C19Proxy): its result is provide's result over the same nodes, the nodes consulted are the primaries plus (iff the fallbacks are consulted) the fallbacks, every consulted node reads the complete original body whichever nodes read and in whatever order (independent readers), the caller's reader is drained and closed exactly once and never handed to a node, a request without body stays without body, a body that cannot be read consults nobody. For the lazy http nodes of NewMultiHTTP (node kinds healthy / hung / unreachable / slow and the event order they induce): cancellation on first use returns at the cancellation event, a healthy primary wins as soon as the unreachable ones have failed. The model is tied to eth2wrap.go/forkjoin.go by differential correspondence on the real generic provide/submit with scripted clients released in a chosen order; `proxy` ops run the real multi.Proxy (production constructor eth2wrap.Instrument) over the same scripted clients, whose Proxy method reads the body it is handed (bodies nil / http.NoBody / 0 .. 42000 bytes / failing mid-way, GET and POST); `http` ops run the real NewMultiHTTP -> lazy -> go-eth2-client http stack against loopback servers (healthy, accepts-and-never-answers, closed port, slow) on first and second use, with wall-clock monitors for promptness (cancel 100-200 ms, node timeout 3 s, slack 1.2 s).",
    "level_note": "Trusted: Lean kernel, Go correspondence harness and line driver, the go/ast translator (fails closed). Wall-clock promptness, goroutine scheduling inside forkjoin and the metrics side effects are outside the model; for call/proxy ops the harness uses time only as a watchdog that turns a missing return into a violation; for the dozen http ops per run wall-clock bounds are judged by monitors only (never part of the compared output; the check confirms such signatures by a second execution). Caller deadline expiry (as opposed to cancellation) is not modelled.",
    "trusted_base": [
        "model CharonV/Model/Provide.lean mirrors provide/submit/runForkJoin (eth2wrap.go) over forkjoin.New(WithoutFailFast, WithWorkers(len(clients))); tied by the `provide` stream on the real functions (hooks eth2wrap.VerifProvide/VerifSubmit)",
        "events are atomic: a completion is received by the result loop before the next event (enforced by the harness through a spy on ctx.Err(), the first expression the loop evaluates per result)",
        "model CharonV/Model/ProxyCall.lean mirrors multi.Proxy (multi.go): io.ReadAll / Close of the caller's body, bytes.NewReader per work function, req.Clone copying the Body reference; tied by the `proxy` ops of the same stream (real multi.Proxy; scripted nodes report the body, ContentLength, GetBody, method/URL/header they were handed)",
        "http ops: the mapping node kind -> (outcome, honours ctx) and the event order `httpEvents` (unreachable < healthy < caller's cancel < slow < node timeout) are assumptions about wall-clock time, checked against the real http stack on loopback by the `http` ops (results compared; unavailability class by the real isTimeoutError/isSyncingError/isBadGateway)",
        "error classes: table error-constructor -> class in harness/cmd/drive-provide (mkErr), checked against the real isTimeoutError/isSyncingError/isBadGateway by the monitor provide:error_class_table",
        "translator harness/cmd/trans-multi (go/ast; fails closed on any provide/submit call whose first three arguments are not (ctx, recv.clients, recv.fallbacks))",
    ],
    "assumptions": [
        "results reach the loop in completion order (one forkjoin worker per node, unbuffered result channel); simultaneous completions are some order",
        "cancel_prompt needs a pending worker that honours its context (hypothesis `hon`); otherwise cancel_returns_at_next_completion applies",
        "Proxy: a node reads the body of the request it is handed (nodes never read another node's request); http.Request fields other than Body / ContentLength / GetBody are deep-copied by net/http's Request.Clone (monitored, not modelled)",
        "wrapping endpoints (latency/metrics/wrapError in eth2wrap_gen.go) do not change success/failure of the routed call",
    ],
}

# Fourth session: app/forkjoin/forkjoin.go itself is modelled (Model/ForkJoin.lean, Props/C19ForkJoin.lean, stream forkjoin);
# what Model/Provide.lean assumed about it is now a theorem (provide_loop_receives_every_client_once, ...).
from vlib import snippet_C19forkjoin as _fj
ENTRY["streams"] = ENTRY["streams"] + [_fj.STREAM]
ENTRY.setdefault("lean_props_extra", []).append(_fj.EXTRA_LEAN)
# (C19 has no monitor_sigs filter: every signature of its streams counts)
ENTRY["trusted_base"] = ENTRY["trusted_base"] + _fj.TRUSTED_BASE
ENTRY["assumptions"] = [_fj.ASSUMPTION_REPLACEMENT] + ENTRY["assumptions"][1:] + _fj.ASSUMPTIONS
ENTRY["level_text"] += _fj.LEVEL_TEXT

# Fifth session: what sits around provide — the lazy client every configured node is wrapped in (app/eth2wrap/lazy.go:
# creation under a mutex, failures, cancellation, retried creation, cache / fork-version hand-over to clients created later)
# and the hand-written methods of multi.go / httpwrap.go: Model/LazyMulti.lean (a multi call goes through Model/Provide),
# theorems Props/C19LazyMulti.lean, stream lazymulti (eth2wrap.Instrument over real lazy clients with a scripted provider,
# racing callers advanced one event at a time; hook c99339c).
from vlib import snippet_C19lazymulti as _lm
ENTRY["streams"] = ENTRY["streams"] + [_lm.STREAM]
ENTRY.setdefault("lean_props_extra", []).append(_lm.EXTRA_LEAN)
# (C19 has no monitor_sigs filter: every signature of its streams, incl. lazymulti:, counts)
ENTRY["trusted_base"] = ENTRY["trusted_base"] + _lm.TRUSTED_BASE
ENTRY["assumptions"] = ENTRY["assumptions"] + _lm.ASSUMPTIONS
ENTRY["level_text"] += _lm.LEVEL_TEXT
