"""C19 — multi beacon client provide/submit (app/eth2wrap/eth2wrap.go, multi.go, app/forkjoin)."""
from vlib.trans_multi import trans_multi

ENTRY = {
    "lean_props": "CharonV.Props.C19",
    "go_tools": ["trans-multi"],
    "translators": [trans_multi],
    "streams": [
        {"name": "provide", "drive": "drive-provide", "model": "drv-provide",
         "reset_ops": ["call"],
         "n_quick": 40000, "seeds_quick": 2, "n_thorough": 200000, "seeds_thorough": 8,
         "search_seeds": 2},
    ],
    "level_text": "Kernel-checked Lean theorems over all scenarios of a provide/submit call (any number of primary and fallback nodes, every outcome per node: success, rejected output, timeout / syncing / bad-gateway / other error, workers honouring or ignoring cancellation) and all event orders (any completion order, hung nodes, repeated and out-of-group completions, cancellation at any point): the first successful primary decides the call at the moment it completes and its answer is returned (exactly one node's answer, of a node that succeeded); the result depends only on the events consumed (no waiting for slower or hung nodes); an error result implies that every primary (and, for a fallback error, every fallback) has completed without success within the consumed events; the fallback decision is characterised exactly (taken by the error of the primary completing last); the fallback group behaves like the primaries; cancellation returns the context error at once if a pending worker honours its context and at the next completion otherwise; submit = provide with the output erased. T-multi regenerates the table of multi's methods from eth2wrap_gen.go/multi.go and `every_endpoint_routed` shows every endpoint goes through provide/submit with (m.clients, m.fallbacks). The model is tied to eth2wrap.go/forkjoin.go by differential correspondence on the real generic provide/submit with scripted clients released in a chosen order.",
    "level_note": "Trusted: Lean kernel, Go correspondence harness and line driver, the go/ast translator (fails closed). Wall-clock promptness, goroutine scheduling inside forkjoin and the metrics side effects are outside the model; the harness uses time only as a watchdog that turns a missing return into a violation. Caller deadline expiry (as opposed to cancellation) is not modelled.",
    "trusted_base": [
        "model CharonV/Model/Provide.lean mirrors provide/submit/runForkJoin (eth2wrap.go) over forkjoin.New(WithoutFailFast, WithWorkers(len(clients))); tied by the `provide` stream on the real functions (hooks eth2wrap.VerifProvide/VerifSubmit)",
        "events are atomic: a completion is received by the result loop before the next event (enforced by the harness through a spy on ctx.Err(), the first expression the loop evaluates per result)",
        "error classes: table error-constructor -> class in harness/cmd/drive-provide (mkErr), checked against the real isTimeoutError/isSyncingError/isBadGateway by the monitor provide:error_class_table",
        "translator harness/cmd/trans-multi (go/ast; fails closed on any provide/submit call whose first three arguments are not (ctx, recv.clients, recv.fallbacks))",
    ],
    "assumptions": [
        "results reach the loop in completion order (one forkjoin worker per node, unbuffered result channel); simultaneous completions are some order",
        "cancel_prompt needs a pending worker that honours its context (hypothesis `hon`); otherwise cancel_returns_at_next_completion applies",
        "wrapping endpoints (latency/metrics/wrapError in eth2wrap_gen.go) do not change success/failure of the routed call",
    ],
}
