"""Snippet for the lead to wire into C12: the glue of `charon create cluster` (cmd/createcluster.go: runCreateCluster,
validateCreateConfig / validateDef / newDefFromConfig, getKeys, getTSSShares, createDepositDatas / signDepositDatas,
createValidatorRegistrations / signValidatorRegistrations, getValidators, aggSign, writeKeysToDisk / writeKeysToKeymanager,
lock assembly, writeLock, deposit-data files) and of `charon combine` (cmd/combine/combine.go: Combine, loadManifest,
shareIdxByPubkeys; KeyFiles.SequencedKeys; the checks cluster.LoadClusterLock applies) — one more correspondence stream
and one more Lean module of property theorems. Not a registry entry by itself (not named props_C*.py).

Wiring: append STREAM to ENTRY["streams"], append EXTRA_LEAN to ENTRY["lean_props_extra"] (its theorems are audited like
those of Props/C12.lean), add MONITOR_SIGS to ENTRY["monitor_sigs"], extend trusted_base / assumptions with the lines
below, record FIXED (both findings of this extension are repaired in /repo: 5f2f8be, c6adf89; KNOWN_FINDINGS is empty). lean_exe `drv-create` is already in lakefile.toml; the hook
/repo/cmd/verif_export_create.go is committed ("verif hook: create cluster glue ...", ed291c8).

n_quick / n_thorough count EPISODES (one real `create cluster` run each, insecure keystore cost), not ops; a successful
episode is followed by ~35-60 ops on its artifacts (art / val / rec / gv / forge / alt / 12-20 combine runs); an episode
takes 1-3 s, dominated by the REAL lock verification inside every combine run. Quick tier: about 15-25 s per seed.

NOTE (lead): harness/go.mod is shared and other agents repoint it at their seeded trees; I built the driver with a private
-modfile (copy of harness/go.mod with the replace line set to /repo resp. my scratch worktree). The pipeline's own build
through mkmod.py is unaffected.
"""

STREAM = {"name": "create", "drive": "drive-create", "model": "drv-create",
          "reset_ops": ["create"],
          "n_quick": 12, "seeds_quick": 2, "n_thorough": 50, "seeds_thorough": 3,
          "search_seeds": 1}

EXTRA_LEAN = "CharonV.Props.C12Create"

MONITOR_SIGS = ["create:", "combine:", "keystore:"]

THEOREMS = [
    "CharonV.CreateGlue.plan_establishes_wellformed_inputs",
    "CharonV.CreateGlue.split_mode_uses_imported_keys",
    "CharonV.CreateGlue.plan_secrets_are_distinct",
    "CharonV.CreateGlue.share_placement",
    "CharonV.CreateGlue.threshold_subsets_recombine",
    "CharonV.CreateGlue.dedup_amounts_once_ascending",
    "CharonV.CreateGlue.deposits_and_registrations",
    "CharonV.CreateGlue.deposit_files_per_amount_and_node",
    "CharonV.CreateGlue.good_run_lock_verifies",
    "CharonV.CreateGlue.created_lock_verifies",
    "CharonV.CreateGlue.lock_rejected_when_threshold_exceeds_nodes",
    "CharonV.CreateGlue.combine_after_create_is_identity",
    "CharonV.CreateGlue.combine_output_is_the_locks_key",
    "CharonV.CreateGlue.combine_refuses_mismatching_lock",
    "CharonV.CreateGlue.combine_refuses_foreign_share",
    "CharonV.CreateGlue.combine_refuses_below_threshold",
    "CharonV.CreateGlue.failed_create_leaves_nothing_combine_accepts",
    "CharonV.CreateGlue.lock_is_written_after_everything_else",
    "CharonV.CreateGlue.good_run_fails_only_at_a_write",
    "CharonV.CreateGlue.threshold_bls_satisfies_laws",
    "CharonV.CreateGlue.accepted_public_shares_lie_on_one_polynomial",
    "CharonV.CreateGlue.single_interpolation_accepts_inconsistent_public_shares",
    "CharonV.CreateGlue.combine_fewer_keystores_than_validators",
    "CharonV.CreateGlue.unfixed_definition_threshold_above_operators_was_accepted",
    "CharonV.CreateGlue.unfixed_duplicate_split_key_was_accepted",
]

KNOWN_FINDINGS = []

FIXED = [
    {"property": "C12", "sig": "create:lock_threshold_exceeds_nodes", "commit": "5f2f8be",
     "what": "create cluster --definition-file did not check the definition's threshold against its number of operators "
             "(validateDef had no such check, the cobra PreRunE check only covers the --threshold flag, tbls.ThresholdSplit "
             "accepts threshold > total): with threshold > len(operators) the command SUCCEEDED, wrote key shares, deposit-data "
             "files for keys no subset of the written shares can reconstruct, and a cluster-lock.json that "
             "cluster.LoadClusterLock rejects. Repair: validateDef returns an error for threshold < 2 or > len(operators) "
             "(fixes/C12-create-definition-threshold.diff). Model switch Fixes.defThreshold (default true = repaired); "
             "kernel-checked witness about the unrepaired switch: unfixed_definition_threshold_above_operators_was_accepted; "
             "the full statement created_lock_verifies now holds without a hypothesis on the threshold. Reverting the repair "
             "makes the monitor fire again (5 violations + 8 diff lines on seeds 1, 3)"},
    {"property": "C12", "sig": "create:duplicate_split_key_lock_invalid", "commit": "c6adf89",
     "what": "create cluster --split-existing-keys on a directory holding the same validator key in two keystores succeeded "
             "and wrote a lock with two validators of one public key (each carrying the deposit data of both) which "
             "cluster.LoadClusterLock rejects. Repair: getKeys calls checkUniqueKeys on both loader paths. Model switch "
             "Fixes.uniqueKeys (default true = repaired); witness about the unrepaired switch: "
             "unfixed_duplicate_split_key_was_accepted; plan_secrets_are_distinct / split_mode_uses_imported_keys now PROVE "
             "that imported keys are pairwise different. Reverting the repair makes the monitor fire again (4 violations + 21 "
             "diff lines on seeds 1, 3)"},
]

LEVEL_TEXT = (" The glue that PRODUCES and RE-READS these artifacts is modelled function by function (Model/CreateGlue.lean) and "
    "Props/C12Create.lean proves, for every number of nodes, threshold, validators and every list of deposit amounts, every "
    "randomness of the splits, every timestamp and every pattern of failing writes: `plan` (flags or definition file, "
    "--split-existing-keys or fresh keys, every validation of validateCreateConfig / validateDef / newDefFromConfig in the code's "
    "order, including the two repairs 5f2f8be / c6adf89 as switches of the model) hands on one key, fee recipient and withdrawal "
    "address per validator, a threshold in 2..n in BOTH modes and pairwise different imported keys "
    "(plan_establishes_wellformed_inputs; split_mode_uses_imported_keys; plan_secrets_are_distinct); in a successful run the k-th keystore of node i is share "
    "i+1 of validator k and its public key is lock.Validators[k].PubShares[i] (share_placement); every list of >= t pairwise "
    "different share indices recombines to the k-th secret whose public key the lock lists (threshold_subsets_recombine); the lock "
    "carries, where its version supports it, one deposit data per de-duplicated ascending amount for the validator's own key and "
    "ITS withdrawal address and the registration for ITS fee recipient, gas limit and the run's timestamp, all signed by the "
    "validator secret, and every node gets one deposit file per amount with all validators "
    "(deposits_and_registrations, dedup_amounts_once_ascending, deposit_files_per_amount_and_node); for EVERY input `plan` accepts "
    "the written lock passes the model of Lock.VerifyHashes + VerifySignatures (created_lock_verifies: the full statement, no "
    "hypothesis on threshold or imported keys; good_run_lock_verifies is the form over an arbitrary plan with t <= n); a lock "
    "with threshold > operators is rejected (lock_rejected_when_threshold_exceeds_nodes) and the code before the repairs "
    "accepted such a definition and a duplicated split key (unfixed_definition_threshold_above_operators_was_accepted, "
    "unfixed_duplicate_split_key_was_accepted: statements about the unrepaired switches); "
    "Combine over the directories of ANY >= t nodes in any order returns exactly the secrets that were split "
    "(combine_after_create_is_identity); whatever Combine accepts for ANY input, the k-th output key has the public key of "
    "validator k of the lock it loaded, >= threshold directories contributed and every contributed share is one of that "
    "validator's public shares - membership, never the directory's position (combine_output_is_the_locks_key), so different "
    "lock hashes / unverifiable or missing locks, foreign shares and fewer than threshold directories are refused "
    "(combine_refuses_mismatching_lock / _foreign_share / _below_threshold; --no-verify skips exactly the lock checks); Combine "
    "never compares the number of keystores with the lock's validators (combine_fewer_keystores_than_validators); the lock is "
    "written last and only complete (lock_is_written_after_everything_else), a good run fails only at a write "
    "(good_run_fails_only_at_a_write) and whatever a failed run leaves behind is refused by Combine "
    "(failed_create_leaves_nothing_combine_accepts). The cryptographic hypotheses (structure Laws) are proved for the threshold-BLS "
    "algebra of C08 over any scalar field (threshold_bls_satisfies_laws); on that algebra the check verifySharesReconstruct of "
    "cluster/lock.go (first t shares AND every further share with the first t-1) implies that EVERY threshold subset of the n "
    "public shares recovers the validator key (accepted_public_shares_lie_on_one_polynomial), which one interpolation over all n "
    "shares does not (single_interpolation_accepts_inconsistent_public_shares). Tied by stream create: the real cobra "
    "`create cluster` and the real combine.Combine on generated configurations and assembled directories.")

TRUSTED_BASE = [
    "model CharonV/Model/CreateGlue.lean mirrors, function by function, the cobra PreRunE threshold check, "
    "deposit.VerifyDepositAmounts / DedupAmounts / EthsToGweis / DefaultDepositAmounts, Definition.UnmarshalJSON's count and amount "
    "checks, validateCreateConfig with detectNodeDirs, validateDef, validateAddresses, safeThreshold, newDefFromConfig with the "
    "checks of cluster.NewDefinition, runCreateCluster (order of validations, getKeys, defaults, key count check, getTSSShares, "
    "getOperators, writeKeysToDisk / writeKeysToKeymanager with its ping phase, createDepositDatas, "
    "deposit.WriteClusterDepositDataFiles, createValidatorRegistrations, getValidators, lock assembly with the per-version JSON "
    "projection, aggSign, node signatures, writeLock) with an oracle deciding which write fails; Lock.VerifyHashes / "
    "VerifySignatures (verifySharesReconstruct, parsePubShares, verifyBuilderRegistrations, verifyNodeSignatures) and "
    "cluster.LoadClusterLock; loadManifest, KeyFiles.SequencedKeys (declaratively: error iff an index is missing, out of range or "
    "repeated), shareIdxByPubkeys, Combine. Tied by correspondence stream create: (a) the REAL `charon create cluster` through the "
    "cobra root command of package cmd, in process, on generated configurations (n 3..10, flags or --definition-file of versions "
    "v1.5..v1.11, threshold flag present / absent / out of range, 1..4 validators, one address or one per validator, amounts lists "
    "with duplicates / too small / too large / too low sum, compounding, custom gas limit, --split-existing-keys with complete / "
    "gapped / empty / duplicate-key / miscounted key directories, keymanager mode with accepting / failing / unreachable "
    "keymanagers inside the driver, count and address errors of the keymanager flags, unsupported protocol, unknown network, "
    "insecure keys on mainnet, unnamed / altered definition files, existing node directory, and obstacles that make ONE write fail: "
    "p2p key, validator_keys, a deposit file, a lock file of a chosen node): result or error class compared with the model; what "
    "every node HOLDS afterwards (lock through cluster.LoadClusterLock, keystores through keystore.LoadFilesUnordered + "
    "SequencedKeys or what the keymanager received, deposit files through deposit.ReadDepositDataFiles) rendered canonically - "
    "every key, public share and signature replaced by what the harness recomputed it to be with tbls alone - and compared with "
    "the model's prediction per node (op art), after a failed run what exists per node (op disk) and Combine's verdict on the "
    "directory (op pcomb); (b) getValidators (hook) on permuted, incomplete, repeated and foreign inputs (op gv); (c) the REAL "
    "combine.Combine on input directories assembled from the written artifacts: any subset and order of nodes, key files of "
    "different nodes mixed per validator, keystores of two validators exchanged inside a node, a share replaced by a foreign / "
    "another cluster's share, a lock altered in a hashed field (name, threshold, two public shares exchanged) with stored hashes "
    "kept, junk / missing lock, the valid lock of a second cluster, a directory twice, fewer / more keystores than validators, "
    "gapped and index-less key file names, empty and undecryptable keystores, entries that are no node directories, existing "
    "output with and without --force, --no-verify: accepted secrets or error class compared with the model (op comb); (d) locks "
    "re-hashed and re-signed after one or two public shares of a validator were moved off the sharing polynomial, two of them so "
    "that the shifts cancel under the Lagrange coefficients of all n identifiers: verdict of the real VerifyHashes + "
    "VerifySignatures compared with the model (op forge)",
    "the n key shares of every validator as found in the keystores go to the Lean side as scalars: Model/Fr.lean checks that they "
    "lie on one polynomial of degree < t, recomputes the group secret (compared bit for bit with tbls.RecoverSecret and, in split "
    "mode, with the imported key) and every subset recovery (op rec: below, at and above threshold)",
    "hook /repo/cmd/verif_export_create.go (build tag verif): re-exports getTSSShares, getValidators, createDepositDatas, "
    "createValidatorRegistrations, aggSign, writeKeysToDisk, validateAddresses; adds no behaviour. The whole-run entry is the cobra "
    "command itself (cmd.New with arguments); Combine is the exported combine.Combine with the test-only insecure keystore option",
    "harness-side references are computed with tbls and go-eth2-client SSZ only: group secret by tbls.RecoverSecret of the first "
    "t keystore shares, deposit and builder-registration signing roots from the consensus-spec definitions (compute_domain with "
    "the network's fork version, zero genesis validators root), not through eth2util/deposit or eth2util/registration",
    "symbolic cryptography of the line driver (Driver/CreateGlue.lean): a signature verifies under a key iff that key's secret "
    "made it over that message; recovery from >= threshold correctly indexed shares of ONE split gives the split secret (C08), "
    "anything else junk; the lock hash is a digest of the rendered content; one algebraic fact is decided in the driver: in an "
    "n-of-n cluster two shifts that cancel over all n identifiers are another sharing of the same key (forge two => accept)",
    "keystore encryption (EIP-2335: scrypt / pbkdf2, AES) is outside the model: a keystore file is its secret; runs use the "
    "insecure cost (--insecure-keys, combine.WithInsecureKeysForT); decrypt(encrypt(x)) = x is checked on every episode's group "
    "secrets and on every Combine output (monitor keystore:roundtrip)",
    "monitors (independent of the model, on what the real code wrote): create:lock_missing, locks_differ, lock_not_verifying, "
    "keystore_count, share_not_matching_pubshare, subset_recombines_other_key (every t-subset for n <= 6, sampled above), "
    "below_threshold_recombines, split_key_not_preserved, split_key_order, deposit_not_verifying, deposit_amounts, "
    "registration_not_verifying, registration_fields, failed_valid_config, partial_lock_not_verifying, partial_accepted_by_run, "
    "partial_accepted_by_combine, inconsistent_shares_lock_accepted (an accepted forged lock some threshold subset of whose public "
    "shares recovers another key, by tbls.RecoverPubkey); combine:accepted_mismatching_lock, accepted_foreign_share, wrong_secret, "
    "partial_output_on_error (listing of the output directory before / after), refused_honest_threshold, overwrote_without_force; "
    "keystore:roundtrip",
]

ASSUMPTIONS = [
    "the theorems on the artifacts take the cryptography as hypotheses (structure Laws inside GoodRun: a split hands out n shares "
    "under the identifiers 1..n of which any t with pairwise different identifiers recover the secret and, as public keys, its "
    "public key; a signature verifies under its key; the plain aggregate of signatures over one message verifies under the list "
    "of their keys); threshold_bls_satisfies_laws proves them for the threshold-BLS algebra of C08 over any scalar field for split "
    "randomness of degree < t-1 (share identifiers 1..n pairwise different as scalars: n below the group order)",
    "GoodRun (the theorems over an arbitrary plan) asks for 2 <= t, one address pair per validator, a non-empty amounts list and "
    "pairwise different validator public keys, good_run_lock_verifies / combine_after_create_is_identity additionally t <= n: "
    "ALL of these are PROVED of every plan the repaired code accepts (plan_establishes_wellformed_inputs: threshold in 2..n in "
    "both modes since 5f2f8be; plan_secrets_are_distinct: imported keys since c6adf89), so created_lock_verifies needs none of "
    "them. What remains assumed there is cryptographic: the Laws, an injective SecretToPublicKey, generated keys that never "
    "repeat (hfresh), and pairwise different public shares per validator (two values of one random polynomial coincide with "
    "negligible probability; Lock.VerifySignatures demands it too); plus hcli: a non-zero threshold in the flags configuration "
    "only comes with the --threshold flag (cobra)",
    "the lock hash identifies the lock content (collision resistance: C12 proper): the model's Lock carries its hash as a field, "
    "`uuid` stands for everything of the definition that identifies the cluster, `defOk` for the definition's own hashes and "
    "signatures (cluster/definition.go); hashing the in-memory lock equals hashing its per-version JSON projection (checked on "
    "every run: the written lock verifies)",
    "with --split-existing-keys and equal addresses for all validators the ORDER of the lock's validators is the completion order "
    "of keystore.LoadFilesRecursively's workers: an oracle (Env.loadKeys); the driver reads the order off the result (field order= "
    "of the create op, rewritten on replay) and checks it is a permutation (and the identity when addresses differ per validator)",
    "a write step is atomic in the model (keystore.StoreKeys writes the files of one node concurrently; a failure inside leaves "
    "some of that node's keystores but, as proved for whole steps, never a lock); Combine's own I/O errors while storing the "
    "output are not modelled (every modelled error is returned before the first write: combine:partial_output_on_error watches it)",
    "not reachable through the command line and therefore only in the model: validateDef's amount / hash checks and the length "
    "errors of createDepositDatas / createValidatorRegistrations (Definition.UnmarshalJSON rejects such files first: defLoad), "
    "zero withdrawal address on mainnet (wdAddr: not generated). Not modelled: --publish, --zipped, the console output, the p2p key "
    "and ENR content (only that every node gets one and the lock's node signatures verify - inside LoadClusterLock), definition "
    "versions below v1.5 (legacy single addresses), secure-cost keystores",
    "observations, not violations: with a definition file an EMPTY split-keys directory makes create cluster generate fresh keys "
    "(len(secrets) == 0; counted create:split_empty_dir_fresh_keys); Combine returns one key per keystore POSITION found, fewer "
    "than the lock's validators if every directory is truncated, and panics (index out of range) on an extra keystore "
    "(candidate hardening fixes/C12-combine-keystore-count.diff); --no-verify makes Combine use the LAST directory's lock as it is "
    "(altered threshold / public shares then surface as insufficient / keyMismatch, never as a wrong output key: "
    "combine_output_is_the_locks_key holds with --no-verify too)",
]
