"""C06 — duty store (core/dutydb/memory.go): registry entry."""

ENTRY = {
    "lean_props": "CharonV.Props.C06",
    "streams": [
        {"name": "dutydb", "drive": "drive-dutydb", "model": "drv-dutydb",
         "reset_ops": ["new", "cfg"],
         "n_quick": 16000, "seeds_quick": 2, "n_thorough": 100000, "seeds_thorough": 6},
    ],
    "level_text": "Kernel-checked Lean theorems over all histories of Store / Await* / PubKeyByAttestation / cancel / expiry "
                  "operations (any keys, equal, conflicting and partially conflicting data sets, every map-iteration order of the "
                  "data set, any deadliner behaviour that refuses expired duties): every answer is a value some Store supplied for "
                  "exactly that key and is the value held when the query is resolved; all answers for one key are identical; a datum "
                  "that conflicts with the stored value makes the call fail, resolves nothing and leaves the value; stored values "
                  "are never replaced and no key holds two values; Store for an expired or exempt duty has no effect; after a "
                  "successful Store and after every registration no uncancelled query of that kind is pending with its key present; "
                  "no pending query is lost. Two of these hold for the code as it is only under a hypothesis (identical answers: not "
                  "for aggregate keys, D-4; across an expiry only if each datum carries the slot of its duty, D-5) — the full "
                  "statements are proved for the model with the two proposed fixes switched on, and concrete witnesses show the "
                  "violations for the code as it is. The model is tied to core/dutydb/memory.go by differential correspondence on "
                  "the real MemDB with a scripted deadliner and real eth2 objects (all four duty types), including the maps, "
                  "per-slot indices and pending-query slices after every Store. Concurrency: about one op in seven of the stream "
                  "is a race — 2-3 calls (Store||Store on overlapping keys, Store||Await registration, Store||cancel, a Store "
                  "carrying an expiry || Await, PubKeyByAttestation||Store) released together by a start barrier on the real MemDB; "
                  "it is accepted only if some sequential order of the atomic model operations reproduces every call's result, "
                  "every answer and the final state (linearisability), and the unique-answer / conflict / prompt-await monitors "
                  "are evaluated on it after all goroutines returned; for every duty type the stream also fires a duty's deadline "
                  "while Store is inside deadliner.Add for it and issues a second Store at that instant (addrace): afterwards "
                  "nothing of the expired duty may be stored or served; theorem concurrent_batch_safe states that every such order "
                  "satisfies the history-level statements.",
    "level_note": "Trusted: Lean kernel, the Go correspondence harness and line driver. Concurrency: the theorems are about "
                  "sequences of atomic operations; that each public method of MemDB is atomic (db.mu held from its first to its "
                  "last access of the state) is NOT proved — it is tied only by the racing operations of the dutydb stream "
                  "(sampling of real schedules, no exhaustive schedule exploration, no -race build). Cloning (SSZ round trip) and hash-tree-roots are exercised "
                  "on the real objects but modelled as identity / injective ids.",
    "trusted_base": [
        "model CharonV/Model/DutyDB.lean mirrors core/dutydb/memory.go (Store incl. early returns and the expiry loop, "
        "store*Unsafe, resolve*QueriesUnsafe, deleteDutyUnsafe, Await*, PubKeyByAttestation); tied by the dutydb stream",
        "the five Go maps are modelled as one association list over tagged keys, the three per-slot key indices as one list of "
        "(index duty, key) pairs, the four query slices as one list (isomorphic representations)",
        "Go map iteration order over the UnsignedDataSet is an oracle: the harness observes the real order (through Clone()) "
        "and hands it to the model; the theorems hold for every order",
        "hook core/dutydb/verif_export.go (build tag verif): read-only snapshot of maps, indices and pending queries",
        "atomicity of each public MemDB method (db.mu held throughout Store / Await* registration+resolve / "
        "PubKeyByAttestation) — tied by the racing operations of the dutydb stream only: a concurrent execution on the real "
        "MemDB is accepted iff some linearisation of the atomic model ops yields the observed results, answers and final state",
    ],
    "assumptions": [
        "the deadliner answers Add(d) with expired for every duty it has reported or declared expired (C16 late_add_refused); "
        "expiries are delivered on C() in any order and at any time, possibly never",
        "answers_unique_partial / expired_data_refused_partial: every stored datum carries the slot of the duty it is stored "
        "under (D-5), and the key is not an aggregate key (D-4); both hypotheses are shown necessary by witnesses",
        "hash-tree-root / String() of the compared objects are injective on the generated objects (checked by the harness "
        "when it canonicalises values)",
        "Shutdown() and clone/marshal failures are not modelled",
    ],
}

# The duty store calls Deadliner.Add under its own lock on every Store and drains C() only inside Store: a deadliner
# whose Add can block (e.g. while its output buffer is full) stalls every Store / Await* / PubKeyByAttestation for
# good ("returns promptly" of C06). The real deadliner's stream (C16) is therefore part of this check, with the
# monitors that say Add is always answered and a timer is always armed.
ENTRY["streams"] = ENTRY["streams"] + [{"name": "deadline", "drive": "drive-deadline", "model": "drv-deadliner", "reset_ops": ["cfg"],
                                        "n_quick": 10000, "seeds_quick": 1, "n_thorough": 100000, "seeds_thorough": 2}]
ENTRY["monitor_sigs"] = list(ENTRY.get("monitor_sigs") or ["dutydb:"]) + ["deadliner:add_blocked", "deadliner:no_timer_armed"]
