"""Snippet for the lead to wire into C11: the ceremony glue of dkg/dkg.go that runs AFTER the key-generation
rounds (Run, createDistValidators, signAndAgg*, agg*, sign*, the exchanger of dkg/exchanger.go, dkg/nodesigs.go,
dkg/disk.go writers, checkThreshold, getExistingShares) — one more correspondence stream and one more Lean module
of property theorems. Not a registry entry by itself (not named props_C*.py).

Wiring: append STREAM to ENTRY["streams"], build EXTRA_LEAN with the property module (its theorems are audited
like those of Props/C11.lean), add MONITOR_SIGS to ENTRY["monitor_sigs"], extend trusted_base / assumptions with
the lines below. lean_exe `drv-dkgrun` is already in lakefile.toml; the hook /repo/dkg/verif_export_run.go is
committed ("verif hook: dkg post-ceremony glue ...").

n_quick / n_thorough count CEREMONIES (each a real dkg.Run of all nodes, 1-3 s), not ops; one ceremony is
followed by ~60-120 ops on its artifacts; the first ceremony of a quick seed (every ceremony in the thorough tier, chains of up
to three) is followed by one cluster-changing protocol (reshare / addop / rmop / replop, ~1.5 s with the production keystore
cost) and ~50-150 ops on the new cluster. Even quick seeds add one add-validators ceremony (`append`), odd ones one
ceremony in keymanager mode with a refusing keymanager. Quick tier: 4 ceremonies + 1 protocol + 1 append or keymanager
ceremony per seed, about 8-12 s per seed.
"""

STREAM = {"name": "dkgrun", "drive": "drive-dkgrun", "model": "drv-dkgrun",
          "reset_ops": ["run"],
          "n_quick": 4, "seeds_quick": 2, "n_thorough": 30, "seeds_thorough": 3,
          "search_seeds": 1}

EXTRA_LEAN = "CharonV.Props.C11Run"

MONITOR_SIGS = ["dkgrun:"]

THEOREMS = [
    "CharonV.DkgGlue.lock_same_on_all_nodes",
    "CharonV.DkgGlue.lock_pubshares_in_share_order",
    "CharonV.DkgGlue.keystores_match_lock",
    "CharonV.DkgGlue.deposit_sigs_per_amount",
    "CharonV.DkgGlue.deposit_aggregation_only_of_verified_partials",
    "CharonV.DkgGlue.lock_aggregation_only_of_verified_partials",
    "CharonV.DkgGlue.exchange_rejects_foreign_share_index",
    "CharonV.DkgGlue.exchange_entries_from_index_holder",
    "CharonV.DkgGlue.exchange_result_is_honest",
    "CharonV.DkgGlue.lock_of_honest_ceremony",
    "CharonV.DkgGlue.protocol_lock_keeps_group_keys",
    "CharonV.DkgGlue.protocol_lock_pubshares_in_new_share_order",
    "CharonV.DkgGlue.remove_operators_bookkeeping",
    "CharonV.DkgGlue.replace_operator_keeps_positions",
    "CharonV.DkgGlue.append_keystores_match_lock",
    "CharonV.DkgGlue.keymanager_failure_fails_run",
    "CharonV.DkgGlue.aggregate_is_group_signature",
    "CharonV.DkgGlue.threshold_bls_satisfies_laws",
]

TRUSTED_BASE = [
    "add-validators ceremony (dkg.Run with a non-empty AppendConfig: getExistingShares, the append branches of Run and "
    "signAndAggLockHash): op `append extra` runs it on the latest generation (also after protocols and chained) the way "
    "dkg/dkg_test.go TestAppendDKG does - every node gets the current lock, ITS current key shares and its deposit-data files - "
    "and then evaluates every artifact monitor for EVERY validator old and new (node j's keystore-i secret has public key "
    "lock.Validators[i].PubShares[j]; the group secret shared at keystore position i has the key of lock validator i; old group "
    "keys, deposit data, registrations and shares unchanged; new validators' deposit data and registrations valid as configured); "
    "references of the new validators are found by the LOCK's key, not by keystore position; all validators' shares go to the "
    "Lean side as scalars (aval / nrec / nsig) and `part` compares lock and keystore order with the model (existing first)",
    "keymanager mode (Config.KeymanagerAddr/AuthToken, writeKeysToKeymanager): `run ... km=<a|u|e|f per node>` starts one HTTP "
    "keymanager per node in the driver (accepting / 401 / 500 / failing once); the shares of an accepting node are what its "
    "keymanager received, decrypted as the repo's tests do; monitors success_without_stored_shares (Run returned nil on a node "
    "whose keymanager accepted no import of all its shares and that has no keystores on disk) and "
    "keymanager_received_wrong_shares (not that node's shares in lock order); a refusing keymanager makes the ceremony fail, "
    "which is the modelled answer (`run => err`)",
    "cluster-changing ceremonies (dkg/protocol.go RunProtocol, protocol_reshare / _addoperators / _removeoperators / "
    "_replaceoperator.go, protocolsteps.go, and through them pedersen.RunReshareDKG with added / removed peers, restoreCommits, "
    "broadcastNoneKey): after a `run` ceremony the ops reshare / addop k / rmop ids part t' / replop pos run the REAL protocol for "
    "all participating nodes in one process (loopback TCP, production keystore cost) on the artifacts the previous generation "
    "WROTE, also chained (thorough tier); what every node of the new cluster wrote is loaded with the loaders of `charon run` "
    "and checked with tbls alone against the group keys and group secrets of the ceremony: group key unchanged, new lock's "
    "public shares = public keys of the new keystore secrets in the new share-index order, every continuing operator's share "
    "changed, a removed operator's old share does not complete t'-1 new shares, operator set and threshold as requested, same "
    "lock on all nodes, lock accepted by the loader, signature aggregate and node signatures over the new lock hash, deposit data "
    "and registrations carried over; the new secrets go to the Lean side as scalars (nval / nrec / nsig: degree < t', the SAME "
    "group secret as before - Props/C11.lean reshare_keeps_key is the theorem behind it - every threshold subset of new shares "
    "recovers it and signs validly under the OLD group key); op part compares the new lock (operators by name, threshold, "
    "validators assembled by the model's updateLockValidators from the old lock and the new shares filed under the ORIGINAL "
    "share indices) and keystores with the model",
    "model CharonV/Model/DkgGlue.lean mirrors, function by function, share.MsgFromShare, signLockHash, signDepositMsgs, "
    "signValidatorRegistrations, aggDepositData, aggValidatorRegistrations, aggLockHashSig, createDistValidators, "
    "signAndAggDepositData / signAndAggValidatorRegistrations / signAndAggLockHash (what an exchange returned is an "
    "argument), writeKeysToDisk, checkThreshold, getExistingShares of dkg/dkg.go + dkg/disk.go and, for dkg/exchanger.go, "
    "the gater, verifyPeerShareIdx, the parsigex receive handler and parsigdb.MemDB.store/StoreExternal for DutySignature "
    "with the no-op deadliner, pushPsigs and the query resolution; Go maps are association lists whose iteration order is "
    "the oracle the theorems quantify over. Tied by correspondence stream dkgrun: (a) the REAL dkg.Run of all n nodes in "
    "one process over loopback TCP libp2p (n 3..5 quick / 3..7 thorough, t 2..n, 1..3 validators, frost / default / "
    "pedersen, definition versions v1.6.0..v1.11.0, with and without configured partial deposit amounts, compounding, "
    "--no-verify, nodes started in random order with random delays, definition and p2p key loaded from disk); what every "
    "node WROTE is loaded with the loaders of `charon run` and rendered canonically (every key, public share and signature "
    "replaced by what the harness recomputed it to be from the keystore secrets with tbls alone) and compared with the "
    "model's prediction for that node; (b) the aggregation functions, createDistValidators and the real exchanger (n real "
    "exchangers over libp2p's in-memory network, deliveries through the real parsigex receive handler) driven directly on "
    "the ceremony's shares with permuted, incomplete, mis-indexed, mis-signed, cross-validator and foreign-key partial "
    "signatures: result or error class compared with the model",
    "the n secret shares of every validator as found in the keystores are sent to the Lean side as scalars: Model/Fr.lean "
    "checks that they lie on one polynomial of degree < t, recomputes the group secret and every threshold-subset recovery "
    "bit for bit (as the pedersen stream does)",
    "hook /repo/dkg/verif_export_run.go (build tag verif): re-exports createDistValidators, the sign*/agg*/signAndAgg* "
    "functions, checkThreshold, getExistingShares, writeKeysToDisk, writeLock, verifyPeerShareIdx, the sigType constants and "
    "newExchanger/exchange plus a synchronous entry to the exchanger's parsigex receive handler and a copy of its collected "
    "store; adds no behaviour. cluster.VerifSignOperator / VerifSignCreator (existing hook) sign the definition",
    "harness-side references are computed with tbls and go-eth2-client SSZ only: group secret by interpolation of all "
    "keystore shares, deposit and builder-registration signing roots from the consensus-spec definitions (compute_domain "
    "with the definition's fork version, zero genesis validators root), not through eth2util/deposit or eth2util/registration",
    "symbolic cryptography of the line driver (Driver/DkgRun.lean): a signature verifies under a key iff it is the one that "
    "key produces over that message (BLS signatures are unique), the threshold aggregate of >= t correctly indexed partials "
    "of one validator over one message is the group signature (C08), anything else is junk",
]

ASSUMPTIONS = [
    "append_keystores_match_lock assumes the old keystores matched the old lock and the new validators' shares match the new "
    "validators (keystores_match_lock of their ceremony) and concludes it for every position of the appended lock; "
    "keymanager_failure_fails_run models the code as it is: ONE import request per node, its error is Run's error (a retry "
    "would be a change of behaviour the stream reports as a difference for the `f` mode)",
    "cluster-changing protocols: the algebra of the reshare (new shares lie on a polynomial of degree < t' with the same "
    "constant term) is Props/C11.lean reshare_is_shamir / reshare_keeps_key and is re-checked on every run on the real scalars; "
    "the theorems here are about the assembly of the new lock (protocol_lock_keeps_group_keys, "
    "protocol_lock_pubshares_in_new_share_order for any strictly increasing filing keys, remove / replace bookkeeping). "
    "Modelled as the code is: every protocol fails on a lock of definition version v1.6.0 (node signatures stored in a lock "
    "whose version has none: fixes/C11-protocol-v16-node-signatures.diff); a replaced operator does not take part; the reshare "
    "protocol keeps the threshold",
    "the theorems about the lock content take the cryptography as hypotheses (structure Laws: a partial signature "
    "verifies under its public share; the n collected partials threshold-aggregate to the group signature; the group "
    "signature verifies under the group key; public share = public key of the secret share); "
    "threshold_bls_satisfies_laws proves them for the threshold-BLS algebra of C08 over any scalar field (t <= n, share "
    "indices 1..n distinct as scalars, sharing polynomials of degree < t as Props/C11.lean proves the rounds produce)",
    "distinct validators of one ceremony have distinct group public keys (maps of the glue are keyed by the validator "
    "key; equal keys would need equal sharing polynomials)",
    "honest ceremony: the node and its peers file, under their own share index, only their genuine partial signatures "
    "(exchange_result_is_honest then PROVES that whatever an exchange returns is HonestExchange: every validator once, one "
    "genuine partial per share index, for every event sequence - other sigTypes, duplicates, early and refused deliveries "
    "arbitrary); that an exchange returns at all (all peers deliver before the time-out) is the success of the ceremony, "
    "observed by the stream (dkgrun:ceremony_failed_timeout, dkgrun:exchange_blocked_timeout), not proved",
    "gpk injective / the validators of a ceremony pairwise different (lock_of_honest_ceremony); the weaker "
    "(vals.map gpk).Nodup suffices for the other theorems",
    "ceremony values come from crypto/rand: op lines never carry raw keys or signatures except the `val` lines, which are "
    "rewritten from the current run (exec mode re-runs the ceremony with the same shape and schedule seed)",
    "tbls.VerifyAggregate at the end of signAndAggLockHash is redundant with the per-partial verification inside "
    "aggLockHashSig (a plain aggregate of individually verified partials verifies under the same public shares): removing "
    "it alone is not observable (mutant M5b); removing the per-partial verification is (agg L ops)",
]
