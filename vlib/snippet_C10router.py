"""Snippet for the lead to wire into C10 (and the totality clause of C14): the HTTP router glue of the
validator API (core/validatorapi/router.go in front of validatorapi.Component) — one more correspondence
stream and one more Lean module of property theorems. Not a registry entry by itself (not named props_C*.py).

Wiring: append STREAM to ENTRY["streams"], build EXTRA_LEAN with the property module (its theorems are audited
like those of Props/C10.lean), add MONITOR_SIGS to ENTRY["monitor_sigs"], extend trusted_base / assumptions
with the lines below. lean_exe `drv-router` is already in lakefile.toml; guard corpus corpus/C10/router-guards.ops
(the ops on which twelve hand-made router mutants were caught) is picked up by the stream name.

NOTE (lead): a JSON null in a request body makes the handler goroutine panic at six sites (KNOWN_FINDING_WHAT below); net/http
recovers the panic and closes the connection: nothing is delivered, no state changes, the process survives. The data comes from
the node's own validator client, not from a peer, and the process does not crash, so neither C10 nor C14 is violated: the driver
counts these as observed:handler_panic_recovered:*, the model mirrors the code as it is (Route.nilPanics, theorem
router_total_partial), and fixes/C14-router-null-element.diff is a candidate hardening. A panic at any other place is a difference
between model and implementation (broken correspondence).
"""

STREAM = {"name": "router", "drive": "drive-router", "model": "drv-router",
          "reset_ops": ["cfg"],
          "n_quick": 3200, "seeds_quick": 1, "n_thorough": 20000, "seeds_thorough": 4,
          "search_seeds": 2}

EXTRA_LEAN = "CharonV.Props.C10Router"

MONITOR_SIGS = ["router:"]

THEOREMS = [
    "CharonV.Router.router_admitted_valid",
    "CharonV.Router.propose_admitted_valid",
    "CharonV.Router.router_passes_body_unchanged",
    "CharonV.Router.router_composes_with_admit",
    "CharonV.Router.router_rejects_malformed_partial",
    "CharonV.Router.router_undecodable_4xx",
    "CharonV.Router.router_version_from_header",
    "CharonV.Router.router_no_call_on_error",
    "CharonV.Router.router_batch_atomic",
    "CharonV.Router.router_elements_independent",
    "CharonV.Router.single_attestation_conversion",
    "CharonV.Router.router_total_partial",
    "CharonV.Router.malformed_is_not_always_4xx",
    "CharonV.Router.null_element_panics",
]

KNOWN_FINDING_SIGS = [
    "router:panic:submit_sync_committee_messages:null_list_element",
    "router:panic:submit_contribution_and_proofs:null_list_element",
    "router:panic:aggregate_beacon_committee_selections:null_list_element",
    "router:panic:aggregate_sync_committee_selections:null_list_element",
    "router:panic:submit_proposal_v1:null_inside_element",
    "router:panic:submit_proposal_v2:null_inside_element",
]

KNOWN_FINDING_WHAT = (
    "observation O-1: a JSON null in a validator-API request body makes the handler goroutine panic (net/http recovers it and closes "
    "the connection without a response; the process survives): `[null]` or a null list element on "
    "submit_sync_committee_messages / submit_contribution_and_proofs / aggregate_beacon_committee_selections / "
    "aggregate_sync_committee_selections is decoded into a nil pointer that the Component method dereferences "
    "(validatorapi.go:927, :987, :751, :1057); a null inside an element that go-eth2-client's decoder lets through "
    "(`execution_payload: null` of a deneb+ block body, `execution_requests: null` of an electra/fulu block body, both on "
    "submit_proposal_v1/v2) panics in HashTreeRoot under propDataMatchesDuty (candidate: fixes/C14-router-null-element.diff)")

TRUSTED_BASE = [
    "model CharonV/Model/Router.lean mirrors router.go (the endpoint table of NewRouter for the fourteen POST endpoints behind "
    "which a partial signature is submitted plus GET /eth/v3/validator/blocks/{slot}, wrap's content-type rule and 415 answers, "
    "unmarshal's 400 / 415 answers, writeError's 500 for a non-apiError, per handler: which need the Eth-Consensus-Version header, "
    "how it is parsed (go-eth2-client DataVersion.UnmarshalJSON: lower-cased, seven names), which versions have a case, "
    "errors.Wrap vs errors.New around the unmarshal error, value vs pointer slices, the SingleAttestation conversion, "
    "respond404, the swallowed registration endpoint, the method mismatch falling through to the proxy) in front of "
    "Model/Admit.lean; tied by correspondence stream router: real validatorapi.NewRouter over httptest with the real Component "
    "(secure constructor, real t-of-n tbls keys, beacon mock with seven fork versions), every endpoint x data version x encoding "
    "(JSON; SSZ on the four block endpoints), requests encoded with go-eth2-client's own JSON / SSZ encoders; compared: status "
    "code + class of the error message, every subscriber call (subscriber, duty type, slot, validator -> payload identity @ share index)",
    "harness-side independent reading of a request (drive-router wire.go / main.go, written against the beacon API, not against "
    "router.go): content type as three flags, its own version-name table, its own decoding of the body with go-eth2-client's "
    "decoders under (content type, header version), its own conversion of wire elements into versioned objects "
    "(SingleAttestation -> committee bit + validator index), per element the admission view of drive-admit (hand-written "
    "epoch / message root / domain table, own compute_domain, direct tbls.Verify against the lock's share); the payload identity "
    "is the JSON of core's own clone of the expected object",
    "monitors on the real trace: router:invalid_partial_reached_subscriber, router:wrong_validator_or_share, "
    "router:delivered_content_differs_from_body, router:valid_rejected, router:valid_element_dropped, "
    "router:partial_batch_delivered, router:gate_skipped, router:malformed_request_delivered / _accepted, "
    "router:status_2xx_but_nothing_delivered, router:delivered_but_error_status, router:wrong_duty_type, "
    "router:error_body_code_mismatch, router:panic:<endpoint>[:null_list_element|:null_inside_element], "
    "router:timeout_no_response (no HTTP answer within 90 s)",
    "go-eth2-client JSON / SSZ codecs, gorilla/mux, net/http (httptest, loopback), herumi BLS, the beacon mock, testutil generators",
]

ASSUMPTIONS = [
    "the request body is abstract in the model: decode(encoding, endpoint, version, body) is a parameter of every theorem "
    "(router_passes_body_unchanged states the round-trip hypothesis explicitly); in the stream its value is the outcome of the "
    "harness's own decoding, tagged with the (encoding, version) it was made for — the Lean driver answers dec-mismatch if the "
    "model would have asked the decoder another question",
    "the code answers 500, not 4xx, to an undecodable body on the attestation / block / blinded-block endpoints and to a "
    "missing, unknown or unsupported Eth-Consensus-Version header (router_rejects_malformed_partial states what holds; "
    "malformed_is_not_always_4xx is the witness); 'Application/JSON' (other case) is answered 415; a short graffiti is accepted",
    "an element the harness itself cannot inspect because a library accessor panics on it (a JSON null inside an element that the "
    "decoder let through) is answered `unmodelled` by both drivers: the model says nothing about such requests, the monitors "
    "(router:panic:*) still judge the real answer",
    "header values sent by the driver are ASCII (the model lower-cases ASCII only); a request with another HTTP method than the "
    "route's is forwarded by the catch-all reverse proxy to the beacon node unverified (modelled as `proxied`, nothing delivered)",
    "the environment callbacks of the Component (duty definitions, PubKeyByAttestation, AwaitProposal, AwaitAggSigDB, "
    "ActiveValidators) are inputs; after a successful admission the selections / propose-block responses are assumed to be "
    "produced (driver stubs); request time-outs (10 s context of wrap) are not exercised",
]
