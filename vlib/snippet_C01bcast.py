"""Snippet for the lead to wire into C01: the LAST HOP of the property — core/bcast/bcast.go
(`Broadcaster.Broadcast`), i.e. what a node actually hands to its beacon node. One more correspondence
stream, one more Lean module of property theorems. Not a registry entry by itself (not named props_C*.py).

Wiring (same as snippet_C10signing in props_C10.py): append STREAM to ENTRY["streams"], add EXTRA_LEAN to
ENTRY["lean_props_extra"] (its theorems are audited like those of Props/C01.lean), add MONITOR_SIGS to
ENTRY["monitor_sigs"], extend trusted_base / assumptions / level_text with the lines below, and drop the
words "the beacon node and core/bcast (the recorder stands at the input of Broadcaster.Broadcast)" from
C01's "not covered" assumption. lean_exe `drv-corebcast` is already in lean/lakefile.toml; guard ops that
catch the order-dependent mutants deterministically are in corpus/C01/corebcast-guards.ops.
"""

# ~8 ms per op (every entry: t partial signatures + threshold aggregation + one verification of what was
# captured; index recovery: one pairing per duty x attestation on both sides): quick tier ~ 2 x 9 s
STREAM = {"name": "corebcast", "drive": "drive-corebcast", "model": "drv-corebcast",
          "reset_ops": ["cfg"],
          "n_quick": 1100, "seeds_quick": 2, "n_thorough": 12000, "seeds_thorough": 6,
          "search_seeds": 2}

EXTRA_LEAN = "CharonV.Props.C01Bcast"

MONITOR_SIGS = ["corebcast:"]

THEOREMS = [
    "CharonV.CoreBcast.submitted_passthrough",
    "CharonV.CoreBcast.submitted_no_duplicates",
    "CharonV.CoreBcast.attestation_only_index_changes",
    "CharonV.CoreBcast.recovered_index_is_the_signers",
    "CharonV.CoreBcast.present_index_kept_partial",
    "CharonV.CoreBcast.present_index_can_be_overwritten",
    "CharonV.CoreBcast.noop_duties_submit_nothing",
    "CharonV.CoreBcast.rejected_duties_submit_nothing",
    "CharonV.CoreBcast.error_means_nothing_submitted",
    "CharonV.CoreBcast.exit_submissions",
    "CharonV.CoreBcast.exit_partial_submission_witness",
    "CharonV.CoreBcast.success_submits_every_entry",
    "CharonV.CoreBcast.proposal_submitted_once",
    "CharonV.CoreBcast.prior_attestation_known_swallowed",
]

LEVEL_TEXT = (
    " The last hop is covered too: Model/CoreBcast.lean mirrors Broadcaster.Broadcast (setToAttestations / setToOne / "
    "setToAggAndProof / setToSyncMessages / setToSyncContributions, the pre-Electra `break`, the validator-index recovery "
    "loop over the beacon node's attester duties with its `continue` / `break` / error returns, resolveActiveValidatorsIndices, "
    "the PriorAttestationKnown rule, the one-call-per-exit loop) and Props/C01Bcast.lean proves, for every verify function, "
    "beacon-node behaviour, set, duty type and Go map iteration order: whatever is handed to the beacon node has the content "
    "and the signature of an entry of the set, goes to the submit method of its type and blinded flag, and no entry is handed "
    "over twice or invented (submitted_passthrough, submitted_no_duplicates) - so group validity and signing root of C01/C09 "
    "hold for what the beacon node receives; the validator index is the only field of an attestation that may differ, and only "
    "by the index of an offered duty under whose public key the attestation's own signature verifies "
    "(attestation_only_index_changes), which under symbolic unforgeability and a registry-consistent node is the signer's own "
    "index (recovered_index_is_the_signers); internal duty types submit nothing; an error return means no submit call was made "
    "or it is the node's own answer to the one call (error_means_nothing_submitted), voluntary exits being the stated exception "
    "(exit_submissions); a nil return means every entry was handed over (success_submits_every_entry, proposal_submitted_once). "
    "Tied by stream corebcast: the real bcast.New broadcaster over a scripted, capturing beacon mock, real t-of-n keys, every "
    "duty type x data version x blinded flag, Electra/Fulu attestations with and without index, duties that omit the validator, "
    "list other slots, list a key twice / with another index / a malformed key, inactive and nil registry entries, failing "
    "registry / duties / domain calls, signatures that match no duty, mixed versions / epochs, wrong data types, empty sets, "
    "node answers ok / PriorAttestationKnown / AlreadyKnown / error."
)

TRUSTED_BASE = [
    "model CharonV/Model/CoreBcast.lean mirrors core/bcast/bcast.go (Broadcast, setTo*, resolveActiveValidatorsIndices); tied by "
    "correspondence stream corebcast on the real bcast.New(...) Broadcaster: error class and, per submit call in order, endpoint, "
    "whether the node refused, and the sorted list of (content identity, signature identity, validator index) of the captured objects",
    "Go's iteration order over the SignedDataSet is an oracle: the model driver answers with the observed answer iff some order of "
    "the entries produces it (sets of up to 6 entries: all orders are tried)",
    "harness-side reading of objects, independent of core's wrappers: content identity = SHA-256 of the JSON of the eth2 object with "
    "the signature (and the attestation validator index) blanked, computed on the set entries and on the captured objects alike; "
    "attestation slot / target epoch / data root read off the eth2 object; `facts` = direct tbls.Verify calls under the listed duty "
    "keys over compute_signing_root(DOMAIN_BEACON_ATTESTER at the epochs of the set) from the harness's own fork table (checked once "
    "per run against eth2util/signing)",
    "the scripted beacon node of the driver: CompleteValidators, AttesterDuties (answers for the requested indices only), Domain and "
    "every Submit* method of testutil/beaconmock overridden; monitors verify every captured object's signature under the group key "
    "of the validator it was filed under with the harness's own signing-root computation",
    "herumi BLS, go-eth2-client accessors (VersionedAttestation.Data / Signature) and JSON codecs, the beacon mock",
]

ASSUMPTIONS = [
    "Broadcast does not verify signatures (except inside the index recovery): that what is handed to the beacon node is group-valid "
    "follows from C09 (what sigagg publishes) + submitted_passthrough; the stream's monitor checks it on the captured objects for "
    "every entry that was built as a group signature",
    "recovered_index_is_the_signers assumes symbolic unforgeability (the entry's signature verifies under no other listed key than "
    "its validator's group key) and a beacon node whose duties name indices consistently with its registry; without them the index "
    "is still the index of SOME offered duty under whose key the signature verifies (attestation_only_index_changes)",
    "an index that is already present CAN be overwritten (present_index_can_be_overwritten, replayed on the real code): as soon as one "
    "attestation of the set lacks an index the recovery loop runs over all of them and assigns without looking at what is there; "
    "with a registry-consistent node the new value is the validator's own index (present_index_kept_partial); when no duty matches, "
    "the attestation is submitted WITHOUT index and Broadcast returns nil (go-eth2-client's http client then drops it with a warning)",
    "voluntary exits: one submit call per entry; 'invalid exit' can be returned after earlier entries were submitted, and a refusal "
    "of an earlier call is not reported when the last call succeeds (exit_submissions, exit_partial_submission_witness) - the code "
    "says 'try submitting all exits and return last error'",
    "the domain used to verify every attestation of the set is that of attestation 0's target epoch, and the duties considered are "
    "those of attestation 0's slot (first entry in map order); sets mixing epochs / versions are generated but do not occur in the "
    "workflow (one duty = one slot)",
    "what the beacon node does with a call (partial acceptance of a batch) is outside: a call is recorded as made with all its "
    "objects; the production eth2wrap multi / lazy clients and the HTTP encoding are not part of this stream",
]
