"""Translator T-eth2sd for C09: regenerate lean/CharonV/Generated/Eth2sd.lean from package core.

`eth2sd(bindir) -> (ok, log)`; the Go tool `trans-eth2sd` (listed in ENTRY["go_tools"]) type-checks
package core with go/packages, lists every implementation of core.Eth2SignedData with its domain
and epoch source, and fails closed on any shape it does not understand."""
import os, subprocess
from vlib import core


def eth2sd(bindir):
    exe = os.path.join(bindir, "trans-eth2sd")
    out = os.path.join(core.LEAN, "CharonV", "Generated", "Eth2sd.lean")
    os.makedirs(os.path.dirname(out), exist_ok=True)
    if not os.path.exists(exe):
        return False, "trans-eth2sd was not built"
    with core.LeanLock():  # do not swap the file under a concurrent lake build
        p = subprocess.run([exe, "-repo", core.REPO, "-out", out], stdout=subprocess.PIPE,
                           stderr=subprocess.STDOUT, text=True, timeout=600, env=dict(core.GOENV))
    if p.returncode != 0 and os.path.exists(out):
        os.remove(out)  # fail closed: a stale table must not keep the theorem true
    return p.returncode == 0, p.stdout
