"""Snippet for the lead to wire into C14 (with consequences for C09/C10): core/signeddata.go and core/unsigneddata.go —
the accessor laws of EVERY implementation of core.SignedData (Signature / SetSignature / MessageRoot / Clone /
MarshalJSON / UnmarshalJSON), per fork version and blinded form, and Clone of every implementation of core.UnsignedData.
One more TRANSLATOR (T-signeddata), one more Lean module of property theorems, one more correspondence stream.
Not a registry entry by itself (not named props_C*.py).

Wiring (the way props_C09.py registers trans_eth2sd and props_C12.py wires snippet_C12keystore):

    from vlib import snippet_C14signeddata as _sd
    ENTRY["go_tools"] = ENTRY.get("go_tools", []) + _sd.GO_TOOLS            # ["trans-signeddata"], built by check into bindir
    ENTRY["translators"] = ENTRY.get("translators", []) + _sd.TRANSLATORS   # [vlib.trans_signeddata.signeddata]; must run before the Lean build:
                                                                            # Generated/SignedData.lean is imported by Props/C14SignedData AND by the exe drv-signeddata
    ENTRY["streams"] = ENTRY["streams"] + [_sd.STREAM]
    ENTRY.setdefault("lean_props_extra", []).append(_sd.EXTRA_LEAN)
    ENTRY["monitor_sigs"] = ENTRY["monitor_sigs"] + _sd.MONITOR_SIGS
    ENTRY["trusted_base"] += _sd.TRUSTED_BASE; ENTRY["assumptions"] += _sd.ASSUMPTIONS; ENTRY["level_text"] += _sd.LEVEL_TEXT

TRANSLATOR entry: `trans-signeddata -repo <repo> -out lean/CharonV/Generated/SignedData.lean` (wrapper
vlib/trans_signeddata.py: takes core.LeanLock, removes the output when the tool fails so that a stale table cannot keep
the theorems true). The tool loads ./core, ./eth2util and github.com/attestantio/go-eth2-client/spec with go/packages
(syntax + types), finds every named type of package core that implements core.SignedData / core.UnsignedData with go/types,
and interprets the method bodies with one walker over a CLOSED set of statement shapes: guards (`x == nil`, `err != nil`,
`x.IsEmpty()`, bodies that only log and return), `switch <x>.Version` with one version constant per case and a default that
returns an error or panics, `if <x>.Blinded {…} [else {…}]`, and per method the leaf statements listed in its header comment.
Anything else -> exit 1 (fails closed). It emits: rows (type, version, getSig path, setSig path, setOn, rootKind, rootPaths,
cloneKind, jsonEnc, jsonDec) with embedded-field promotions made explicit; unsignedRows (type, cloneKind); helperText (normalised
body text of cloneSSZMarshaler, cloneJSONMarshaler, SigFromETH2, Signature.ToETH2 and of the charon-side hashers MessageRoot
reaches: eth2util.SignedEpoch.HashTreeRootWith, eth2util.SlotHashRoot). 36 rows / 6 unsigned rows on the current tree, 0.6 s.
It also fails when Signature / SetSignature / MessageRoot (/ the JSON methods) of one type distinguish different sets of versions.

lean_exe `drv-signeddata` is already appended to lean/lakefile.toml. No hook in /repo was needed.
Mutation results (scratch worktree, one site each; T = table row changes so `every_signed_type_ok` / `helper_text_pinned` fails,
D = stream diff, M = monitors):
  SetSignature of VersionedSignedAggregateAndProof/phase0 writes ap.Phase0 (the receiver)      T(setOn=mixed) D M receiver_mutated_by_setsig, sig_not_roundtripped
  SignedAggregateAndProof.MessageRoot hashes the whole signed object                             T(root path overlaps sig) D M root_changed_by_setsig, equal_content_different_root
  VersionedAttestation.Clone returns the receiver                                                T(structcopy x7) D M clone_shares_memory
  SyncContributionAndProof.Signature reads Contribution.Signature                                T(getSig != setSig) D M sig_not_roundtripped
  eth2util SignedEpoch.HashTreeRootWith also hashes the signature                                T(htrWith paths + helper text) D M root_changed_by_setsig
  VersionedSignedProposal.MarshalJSON capella-blinded serialises p.BellatrixBlinded              T(jsonEnc != jsonDec) D M panic
  VersionedSignedProposal.SetSignature electra-blinded writes resp.FuluBlinded                   T(getSig != setSig) D M panic
  AttestationData.Clone (unsigned) copies the struct                                             translator fails closed
  cloneSSZMarshaler does not decode                                                              T(helper text) D M clone_differs, panic
"""
from vlib.trans_signeddata import signeddata

GO_TOOLS = ["trans-signeddata"]
TRANSLATORS = [signeddata]

STREAM = {"name": "signeddata", "drive": "drive-signeddata", "model": "drv-signeddata",
          "reset_ops": ["cfg"],
          "n_quick": 3000, "seeds_quick": 2, "n_thorough": 30000, "seeds_thorough": 6,
          "search_seeds": 2}

EXTRA_LEAN = "CharonV.Props.C14SignedData"

MONITOR_SIGS = ["signeddata:"]

THEOREMS = [
    "CharonV.Props.C14SignedData.getSig_setSig",
    "CharonV.Props.C14SignedData.getSig_setSig_norm",
    "CharonV.Props.C14SignedData.root_setSig",
    "CharonV.Props.C14SignedData.setSig_receiver_unchanged",
    "CharonV.Props.C14SignedData.setSig_frame",
    "CharonV.Props.C14SignedData.setSig_setSig",
    "CharonV.Props.C14SignedData.clone_equal_unshared",
    "CharonV.Props.C14SignedData.root_ignores_signature",
    "CharonV.Props.C14SignedData.json_roundtrip_preserves",
    "CharonV.Props.C14SignedData.every_signed_type_ok",
    "CharonV.Props.C14SignedData.table_complete",
    "CharonV.Props.C14SignedData.only_bare_signature_without_root",
    "CharonV.Props.C14SignedData.unsigned_clone_deep",
    "CharonV.Props.C14SignedData.helper_text_pinned",
    "CharonV.Props.C14SignedData.rejected_rows_break_laws",
]

KNOWN_FINDINGS = []

LEVEL_TEXT = (" Signed duty data types (core/signeddata.go, core/unsigneddata.go; translator T-signeddata, go/ast + go/types, "
              "regenerated every run): for EVERY implementation of core.SignedData and every fork version / blinded form the "
              "table holds the field Signature() reads, the field SetSignature() writes and whether it writes into and returns "
              "the clone, what MessageRoot() hashes, how Clone() copies and which field the versioned JSON carries; the laws are "
              "proved once for every row shape accepted by the decidable predicate RowOk, every object, every signature value "
              "and every hash function — Signature(SetSignature(x, s)) = s for BLS-length s (cut / zero-padded to 96 bytes "
              "otherwise, except for the bare Signature type, which returns its argument), MessageRoot(SetSignature(x, s)) = "
              "MessageRoot(x), SetSignature leaves the receiver and every field outside the signature unchanged, the last "
              "SetSignature wins, a clone equals its original and shares nothing, objects that agree outside the signature "
              "field have one root, the JSON round trip keeps signature and root — and every_signed_type_ok checks RowOk on "
              "all 36 regenerated rows by kernel evaluation (table_complete pins the 13 types x versions; unsigned_clone_deep "
              "the 6 unsigned types; helper_text_pinned the clone helpers, SigFromETH2 / ToETH2 and the two charon-side hashers; "
              "rejected_rows_break_laws shows that each condition of RowOk is needed). Correspondence stream `signeddata`: random "
              "values of every type x version from testutil through SetSignature (BLS-length, short, long, zero and copied "
              "signatures), Signature, MessageRoot, Clone, the JSON round trip into a fresh value, equality, and overwriting "
              "everything reachable from one holder's value; interned signature / root ids, equality bits and the set of other "
              "holders whose value changed are compared with the generic model instantiated with the regenerated row.")

TRUSTED_BASE = [
    "model CharonV/Model/SignedData.lean: a signed object is a flat content tree (one value per field path), getSig / setSig / root / clone / jsonRoundTrip are driven by one table row; tied to core/signeddata.go by translator T-signeddata (rows regenerated from the method bodies) and by correspondence stream signeddata (interned signature ids and lengths, interned root ids, receiver-unchanged bit, clone / JSON equality bits, handles changed by a holder's overwrite)",
    "translator trans-signeddata (go/packages, go/types selections for promoted fields, closed set of statement shapes, fails closed; also fails when the accessors of one type distinguish different version sets); vlib/trans_signeddata.py removes the table when the tool fails",
    "delegated library code: go-eth2-client (*spec.VersionedAttestation).Signature / Data are interpreted by the same walker; HashTreeRoot of go-eth2-client types is trusted to hash exactly the object it is called on (generated SSZ code); ssz / json codecs behind cloneSSZMarshaler / cloneJSONMarshaler are trusted to round-trip (explored by stream codec and by this stream's clone / json ops on every type x version)",
    "the Go driver's observation of a value is its JSON encoding + Signature() + MessageRoot(); memory sharing is observed behaviourally (hx.Scribble on a private struct copy of one holder's value, then re-reading every other holder)",
]

ASSUMPTIONS = [
    "values are built by the New* constructors (the version's inner pointer is non-nil): the nil-guards and the panicking default branches of the accessors are outside this extension (explored by stream codec, explored_latent_panic:*)",
    "interned ids agree between implementation and model only if distinct random values have distinct signatures and signing roots (96 random bytes; 2^53-range slots / epochs, random roots) — a collision would show as a spurious difference, not as a missed one",
    "the bare core.Signature type returns the caller's slice from SetSignature (no copy, no normalisation): the result aliases the ARGUMENT, not the receiver; callers in /repo pass fresh slices (tblsconv.SigToCore)",
    "Clone of the unsigned types is tied by the table only (unsigned_clone_deep); their behaviour is covered by streams codec and alias",
]
