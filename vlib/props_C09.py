"""C09 — the aggregator publishes only group-valid signatures (core/sigagg/sigagg.go)."""
from vlib.trans_eth2sd import eth2sd

ENTRY = {
    "lean_props": "CharonV.Props.C09",
    "go_tools": ["trans-eth2sd"],
    "translators": [eth2sd],
    "monitor_sigs": ["sigagg:"],
    "streams": [
        {"name": "sigagg", "drive": "drive-sigagg", "model": "drv-sigagg",
         "reset_ops": ["cfg"],
         "n_quick": 2500, "seeds_quick": 1, "n_thorough": 25000, "seeds_thorough": 6,
         "search_seeds": 2},
    ],
    "level_text": "Kernel-checked Lean theorems over a line-by-line model of (*Aggregator).Aggregate / aggregate / NewVerifier (length check, share-index map with collapsing duplicates, second length check, combination, choice of the carrier object, SetSignature, verification of the aggregate under the group key, all-or-nothing fan-out), for any threshold, arbitrary symbolic verify and combine functions, any group-key assignment, every input set, any number of subscribers, every Go map iteration order and every subscriber failure position: every published signature is non-zero and verifies under the validator's group key for the published object's own domain, epoch and signing root (publish_valid); the published object is one of that validator's supplied objects with only the signature replaced by the combination of the supplied share-index map, and under the C08 negative results (CombineSound), signature uniqueness and the C10 guarantee that each partial is valid for its own object, every contributing partial has the carrier's domain, epoch and root (publish_content); one failing validator means no subscriber call for any iteration order (all_or_nothing); too few partials, a repeated share, a failing combination and an aggregate that does not verify each make aggregate fail (failure_causes); when something is published everything is (publish_complete). The two cryptographic hypotheses are instantiated in the threshold-BLS algebra of C08 (honest_partials_aggregate_verifies, single_corruption_detected). Translator T-eth2sd (go/types, regenerated every run): every implementation of core.Eth2SignedData has the model's domain and epoch source and VerifyEth2SignedData passes the object's own fields (domain_table_complete). The model is tied to the code by differential correspondence on the real Aggregator wired as in app.go (sigagg.New + sigagg.NewVerifier) over a beacon mock with seven fork versions and real t-of-n tbls keys: all duty types x data versions, every threshold subset (n <= 5) in random arrival order, all shares, too few, repeated shares, and per-partial corruptions (wrong share, wrong / out-of-range index, signature over another message, another object, zero / infinity / random / truncated signature, single-field alterations, validator-index carrier variants), wrong map key, in single- and multi-validator calls.",
    "level_note": "Trusted: Lean kernel; the Go correspondence harness (its own per-type epoch/root/domain table, compute_domain over its own fork table, direct tbls.ThresholdAggregate and tbls.Verify calls feed the model's symbolic combine and verify) and line driver; translator trans-eth2sd. Cryptography is symbolic; the link from 'the aggregate verifies' to 'every contributing partial was made over that content' is the hypothesis CombineSound, proved in C08's algebra for one corrupted contribution.",
    "trusted_base": [
        "model CharonV/Model/SigAgg.lean mirrors core/sigagg/sigagg.go (Aggregate, aggregate, NewVerifier) and core.VerifyEth2SignedData / signing.Verify; tied by correspondence stream sigagg (error class, every subscriber call: subscriber, validator -> content identity / signature identity)",
        "Go's iteration order over the validator map is an oracle: the model driver answers with the observed error class iff some order of the validators produces it",
        "translator trans-eth2sd: implementations of core.Eth2SignedData, DomainName constants, Epoch sources, argument flow of VerifyEth2SignedData",
        "harness-side independent validity: per-type message root and epoch written by hand, compute_domain over the harness's own fork table (cross-checked once per run against eth2util/signing), tbls.Verify under the group keys, tbls.ThresholdAggregate of the share-index map",
        "C08 (CharonV.Props.C08, Mathlib Lagrange interpolation) for the algebraic instances; herumi BLS, go-eth2-client codecs, the beacon mock",
    ],
    "assumptions": [
        "symbolic cryptography: publish_content's second half assumes CombineSound (C08 negative results lifted from one corrupted contribution to any number: colluding shares whose errors cancel are excluded) and SigBinds (a signature verifies under one key for one domain/epoch/root only)",
        "publish_content's second half assumes each supplied partial verifies under its own share key for its own object (C10: nothing else enters parsigdb); without it the published content is still what the contributing signatures were made over (monitor sigagg:published_other_content checks exactly that on the real code)",
        "an Aggregate call is one atomic step; the clone made for each subscriber is not modelled as a separate failure point",
        "pre-merge (phase0/altair) proposals have no Slot accessor in the pinned go-eth2-client fork: their aggregate is never published (accessor error)",
    ],
}

# "verifies ... for the object's own signing root, domain and epoch": the signing input (eth2util/signing GetDomain /
# GetDataRoot, an anchor of C09) is modelled bit-exactly in Model/Signing.lean (Props/C10Signing.lean, stream signing)
from vlib import snippet_C10signing as _sg
ENTRY["streams"] = ENTRY["streams"] + [dict(_sg.STREAM, seeds_quick=1)]
ENTRY.setdefault("lean_props_extra", []).append(_sg.EXTRA_LEAN)
ENTRY["monitor_sigs"] = list(ENTRY.get("monitor_sigs") or ["sigagg:"]) + _sg.MONITOR_SIGS
ENTRY["trusted_base"] = ENTRY["trusted_base"] + _sg.TRUSTED_BASE
ENTRY["assumptions"] = ENTRY["assumptions"] + _sg.ASSUMPTIONS
