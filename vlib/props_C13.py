"""C13 — DKG reliable broadcast (dkg/bcast)."""

ENTRY = {
    "lean_props": "CharonV.Props.C13",
    "streams": [
        {"name": "bcast", "drive": "drive-bcast", "model": "drv-bcast",
         "reset_ops": ["new"],
         "n_quick": 20000, "seeds_quick": 2, "n_thorough": 150000, "seeds_thorough": 8},
    ],
    "level_text": "Kernel-checked Lean theorems over all event sequences of the broadcast protocol (any cluster size, any set of dishonest keys, any order of registrations / Broadcast calls / signature requests / messages with any transport identity, any payloads, any signature list incl. subsets, permutations, substitutions and replays from other ids, and signatures made by the same keys in other sessions): the 8-byte-length-prefixed hash input is injective (proved, no assumption); a callback invocation implies every honest member - the receiver included - signed exactly (session,id,payload) inside this session; a member signs at most one hash per (requester,id), also for overlapping requests (any interleaving of the two atomic handler steps); agreement on (sender,id) for an honest sender with any number of faulty members, and for a single faulty identity under sender-binding callbacks. Two negative witnesses are proved: two colluding members (D-10, scoped) and a single relaying member when the callback does not bind the sender (pedersen node_pubkeys, finding D-11). The model is tied to dkg/bcast by differential correspondence on n=3..6 real Components (real K1 keys, harness as transport and adversary) incl. a bit-for-bit SHA-256 check of the hash-input encoding.",
    "level_note": "Trusted: Lean kernel, Go harness and line driver. Signatures and SHA-256 are symbolic (unforgeability and collision resistance are explicit hypotheses of the theorems, never axioms); libp2p authenticates the transport identity handed to the handlers.",
    "trusted_base": [
        "model CharonV/Model/Bcast.lean mirrors dkg/bcast/{impl,server,client}.go (newHashAny encoding, dedupHash, handleSigRequest, newPeerK1Verifier, handleMessage, client.Broadcast); tied by correspondence on the real handlers through hook dkg/bcast/verif_export.go (unmodified bcast.New wiring)",
        "hash-input encoding: Lean `encode` + core-Lean SHA-256 reproduces bcast.newHashAny bit-for-bit on every `hash` op",
        "atomicity of handleSigRequest's check-and-record (server.dedupHash under s.mu) is NOT proved from the Go source: the model's onSigRequest is one atomic step, and this is tied only by the racing `sreq2` ops of the correspondence stream (two goroutines call the real handler for one (requester,id) with different payloads; hook VerifWrapSign holds the first request inside signing until the second has returned or reached signing too; outcome must equal one of the two sequential orders; monitor bcast:signed_two_hashes_same_requester_id)",
        "symbolic K1 signatures (k1util.Sign / Verify65) and SHA-256",
        "application oracles (CheckMessage result, Any.UnmarshalNew result, which sender the callback accepts) are computed by the harness without bcast code and passed to the model per op",
    ],
    "assumptions": [
        "unforgeability: a signature that verifies for an honest key over a digest was produced by that key over that digest (hypothesis `admRun`, per message event)",
        "collision resistance of SHA-256, idealised as injectivity of `hash` (hypothesis `hinj`); the length-prefixed input encoding itself is proved injective",
        "authenticated transport and honest client: requests/messages carrying an honest member's identity come from its own Broadcast call, after every peer answered (hypothesis `admRun`)",
        "what honest keys sign in other sessions is under a different session hash (a re-run of a ceremony with the same definition hash starts with empty dedup tables and is outside the model)",
        "agreement_single_faulty additionally needs callbacks that accept an honest member's payload only from that member (`hbind`); holds for frostp2p and nodesigs callbacks, NOT for pedersen board node_pubkeys (D-11)",
        "client.Broadcast with an unregistered id at a client that is not first in the peer list: which already-forked requests leave the process is a goroutine race in Go; the model sends them all, the driver only generates the deterministic case",
    ],
}

# which session hash the DKG protocols hand to dkg/bcast (glue outside the package): translator T-session +
# Props/C13Session.sessions_per_ceremony
from vlib.trans_bcastsession import bcastsession as _bs
ENTRY["translators"] = list(ENTRY.get("translators", [])) + [_bs]
ENTRY.setdefault("lean_props_extra", []).append("CharonV.Props.C13Session")
ENTRY["trusted_base"] = ENTRY["trusted_base"] + ["translator T-session (harness/cmd/trans-bcastsession, a go/parser tool; wrapper vlib/trans_bcastsession.py): every direct call bcast.New(…, session) of dkg/**/*.go with the session argument printed after substituting single-assignment locals (followed only if neither the local nor anything its definition mentions is written later or address-taken); fails closed on any other use of bcast.New"]
