"""Snippet for the lead to wire into C11: the node-side glue of dkg/pedersen around kyber's Pedersen DKG, driven function by
function - dkg.go (readBoardChannel, makeNodes, the node sort / default threshold / validateThreshold of RunDKG, processKey),
reshare.go (restoreCommitsFromPubShares incl. kyber's share.RecoverPubPoly / xyCommit / lagrangeBasis on discrete logarithms,
restoreCommits, restoreDistKeyShare, generateNonce, validatePubKeyShares, validateReshareNodeCounts, broadcastNoneKey; the
inline classification / compact re-indexing / "old node remains" logic of RunReshareDKG is modelled and proved, not driven),
utils.go (keyShareToBLS, distKeyShareToValidatorPubKey), dkg/share/share.go (MsgFromShare) - one more correspondence stream
and one more Lean module of property theorems. Not a registry entry by itself (not named props_C*.py).

Wiring: append STREAM to ENTRY["streams"], append EXTRA_LEAN to ENTRY["lean_props_extra"] (its theorems are audited like
those of Props/C11.lean), add MONITOR_SIGS to ENTRY["monitor_sigs"] if C11 restricts signatures (it does not today), extend
trusted_base / assumptions with the lines below. lean_exe `drv-pedglue` is already in lakefile.toml; the hook
dkg/pedersen/verif_export_glue.go is committed in /repo (92fa106). No defect found: KNOWN_FINDINGS is empty.

The stream `pedersen` (drive-pedersen) runs whole ceremonies over a mock network; this one never starts kyber's protocol: it
calls the glue functions directly with adversarial inputs (junk byte strings of every length, duplicates, unexpected peers,
out-of-order boards, misconfigured peer maps, shares off the polynomial, non-canonical secrets, time-outs, cancellations).
About 3 s per quick seed (time-out ops wait 30 ms each), 16 s for 8000 ops.
"""

STREAM = {"name": "pedglue", "drive": "drive-pedglue", "model": "drv-pedglue",
          "reset_ops": ["cfg"],
          "n_quick": 1500, "seeds_quick": 3, "n_thorough": 8000, "seeds_thorough": 6,
          "search_seeds": 2}

EXTRA_LEAN = "CharonV.Props.C11Pedersen"

MONITOR_SIGS = ["pedglue:"]

THEOREMS = [
    # A. readBoardChannel
    "CharonV.PedersenGlue.readBoard_ok_exactly_one_per_peer",
    "CharonV.PedersenGlue.readBoard_never_ok_short",
    "CharonV.PedersenGlue.readBoard_takes_first_message",
    "CharonV.PedersenGlue.readBoard_ignores_duplicates_and_unexpected",
    "CharonV.PedersenGlue.readBoard_order_independent_as_set",
    "CharonV.PedersenGlue.readBoard_order_independent_msgOnly",
    "CharonV.PedersenGlue.readBoard_timeout_names_exactly_missing",
    # B. nodes
    "CharonV.PedersenGlue.sortNodes_perm_sorted",
    "CharonV.PedersenGlue.sortNodes_order_independent",
    "CharonV.PedersenGlue.sorted_nodes_index_is_position",
    "CharonV.PedersenGlue.makeNodes_nodes_are_peerIdx_of_collected",
    "CharonV.PedersenGlue.dkgSetup_arrival_order_independent",
    "CharonV.PedersenGlue.dkgSetup_index_is_position",
    # C. validation
    "CharonV.PedersenGlue.validateThreshold_ok_iff",
    "CharonV.PedersenGlue.defaultThreshold_valid",
    "CharonV.PedersenGlue.dkgThreshold_default",
    "CharonV.PedersenGlue.dkgThreshold_configured",
    "CharonV.PedersenGlue.validateReshareNodeCounts_ok_iff",
    "CharonV.PedersenGlue.validatePubKeyShares_ok_iff",
    "CharonV.PedersenGlue.validatePubKeyShares_accept_order_independent",
    # D. reshare classification / re-indexing
    "CharonV.PedersenGlue.compact_indices_are_range",
    "CharonV.PedersenGlue.compact_identity",
    "CharonV.PedersenGlue.compact_reindex_monotone",
    "CharonV.PedersenGlue.classify_sublists",
    "CharonV.PedersenGlue.classify_pure",
    "CharonV.PedersenGlue.oldNodesRemaining_compares_indices_witness",
    # E. shares
    "CharonV.PedersenGlue.keyShareToBLS_matches_pub",
    "CharonV.PedersenGlue.keyShareToBLS_error_iff",
    "CharonV.PedersenGlue.processKey_share_fields",
    "CharonV.PedersenGlue.publicSharesOf_keys_ascending",
    "CharonV.PedersenGlue.publicSharesOf_lookup",
    "CharonV.PedersenGlue.processKey_own_share_matches_published",
    "CharonV.PedersenGlue.publicSharesOf_order_independent",
    "CharonV.PedersenGlue.msgPubShares_ascending",
    "CharonV.PedersenGlue.msgPubShares_of_sorted",
    "CharonV.PedersenGlue.msgPubShares_order_independent",
    "CharonV.PedersenGlue.processKey_arrival_order_independent",
    # F. algebra (restoration of the public polynomial) -- see ALG_THEOREMS
]

# F. the algebra section of Props/C11Pedersen.lean (helper lemmas: Proofs/PedersenGlueAlg.lean, Mathlib's Lagrange.interpolate)
ALG_THEOREMS = [
    "CharonV.PedersenGlue.recoverPubPoly_of_evaluations",
    "CharonV.PedersenGlue.restoreCommitsFromPubShares_any_t_shares",
    "CharonV.PedersenGlue.restoreDistKeyShare_roundtrip",
    "CharonV.PedersenGlue.restored_share_reproduces_bls_key",
    "CharonV.PedersenGlue.restoreCommitsFromPubShares_rejects",
    "CharonV.PedersenGlue.restoreCommitsFromPubShares_map_order_independent",
]

THEOREMS += ALG_THEOREMS

KNOWN_FINDINGS = []

FIXED = []

LEVEL_TEXT = (" For the Pedersen variant the clauses 'all nodes hold the same n public shares' and 'each node's secret share matches "
    "the public share published for it' also rest on the node-side glue between kyber's result and charon's share: "
    "Props/C11Pedersen.lean proves over a model of that glue (Model/PedersenGlue.lean, points as discrete logarithms over "
    "Model/Fr.lean), for every event sequence, peer map, list order and size: a collection from the board returns exactly one "
    "message per expected peer, each the first one that peer delivered, whatever duplicates and strangers' messages are mixed in "
    "and in whatever order (readBoard_ok_exactly_one_per_peer, readBoard_takes_first_message, "
    "readBoard_ignores_duplicates_and_unexpected, readBoard_order_independent_as_set), a time-out names exactly the silent peers "
    "(readBoard_timeout_names_exactly_missing); kyber's node list is (peer index, key) per peer, its sort is independent of the "
    "arrival order and with indices 0..n-1 position = index (makeNodes_nodes_are_peerIdx_of_collected, sortNodes_order_independent, "
    "sorted_nodes_index_is_position, dkgSetup_arrival_order_independent, dkgSetup_index_is_position); thresholds and the reshare "
    "validations as iff-characterisations (validateThreshold_ok_iff, defaultThreshold_valid, validateReshareNodeCounts_ok_iff, "
    "validatePubKeyShares_ok_iff, acceptance independent of the Go map order); the reshare classification keeps order and the "
    "remove-only re-indexing is compact and monotone (classify_sublists, compact_indices_are_range, compact_reindex_monotone); "
    "keyShareToBLS returns the canonical non-zero share with ITS public key (keyShareToBLS_matches_pub), processKey files every "
    "sender's key under its share index, the node's own entry is the public key of its secret share, and share and wire message do "
    "not depend on arrival or map order (publicSharesOf_lookup, processKey_own_share_matches_published, "
    "processKey_arrival_order_independent, msgPubShares_order_independent); and the algebra of a reshare's restoration, with Fr.r "
    "proved prime and no bound on degree or indices: kyber's RecoverPubPoly over ANY t distinct shares of the polynomial returns "
    "exactly its t commitments (recoverPubPoly_of_evaluations, through Mathlib's Lagrange.interpolate), restoreCommitsFromPubShares "
    "on any map of at least t public shares restores them, accepts an expected validator key iff it is the constant commitment, "
    "rejects any non-point and does not depend on the Go map order (restoreCommitsFromPubShares_any_t_shares, _rejects, "
    "_map_order_independent), restoreDistKeyShare gives back index, secret and commitments iff the share's validator key is the "
    "constant commitment, and keyShareToBLS / distKeyShareToValidatorPubKey of the restored share reproduce what processKey "
    "stored (restoreDistKeyShare_roundtrip, restored_share_reproduces_bls_key). Tied by stream pedglue: the real functions (hook "
    "verif_export_glue.go) on points s*G with known s, every result compared with the compiled model.")

TRUSTED_BASE = [
    "model CharonV/Model/PedersenGlue.lean mirrors dkg/pedersen/dkg.go (readBoardChannel as a fold over the outcomes of its "
    "select; makeNodes; the sort, default threshold and validateThreshold of RunDKG; processKey with its two loops), reshare.go "
    "(restoreCommitsFromPubShares with kyber v1.3.2 share.RecoverPubPoly: xyCommit = sort by index, skip negative, stop at t "
    "(never for t <= 0), lagrangeBasis with one inversion per factor, Commit, PubPoly.Add; the nil PubPoly dereference for an "
    "empty selection with t <= 0 is `panic`; restoreCommits; restoreDistKeyShare incl. the canonical-scalar check of "
    "UnmarshalBinary; generateNonce through the fastssz hasher model of Model/SszSchema.lean; validatePubKeyShares; "
    "validateReshareNodeCounts; broadcastNoneKey; RunReshareDKG's classification, compact re-indexing, old-node check, default new "
    "threshold), utils.go (keyShareToBLS: herumi refuses the zero secret; distKeyShareToValidatorPubKey: index panic without "
    "commitments), dkg/share/share.go (MsgFromShare); a G1 point is its discrete logarithm, a byte string is a point, junk of "
    "(id, length) or junk cut / zero-padded to 48 bytes; tied by correspondence stream pedglue: per op the error class or the "
    "full result (collected messages in arrival order; nodes as index:scalar in arrival order, exchanged public key shares per "
    "index, sorted indices, threshold; restored commitments as scalars; restored share; share with public shares by index and "
    "the wire order of MsgFromShare; nonce bytes)",
    "hook dkg/pedersen/verif_export_glue.go (build tag verif, add-only, commit 92fa106): Verif* wrappers of the unexported "
    "functions and VerifNewBoard (a Board with the two public-key channels, a sender and the host, no handlers, no bcast "
    "component); the driver's host is a one-peer libp2p mock network: processKey's p2p sends fail in the background and are "
    "only logged by the code under test",
    "every point handed to the real code is s*G for a scalar the driver knows (kyber); a returned point is printed as a scalar "
    "only if it is a known point or an independently computed candidate (Gaussian elimination mod r over the selected shares, "
    "math/big) checks out as candidate*G == point under kyber; otherwise `?<hex>` (differs from the model)",
    "the order of a select between a ready channel and a fired timer / cancelled context is Go's random choice: the generator "
    "ends an event list with T (time-out, PhaseDuration 5 ms = 30 ms collection time-out) or C (context cancelled beforehand) "
    "only when the delivered messages do NOT complete the collection, so the outcome is determined; complete collections run "
    "with a 120 s time-out as watchdog. processKey / broadcastNoneKey queue the node's own message themselves: messages the op "
    "places after it (`O`) are fed once the queue length has moved away from the number of pre-queued messages (reading starts "
    "only after the own message is queued); the generator always queues at least one message ahead of `O` then",
    "the Go map orders (config.PeerMap in PeerIDs, pubSharesBytes, publicShares, PublicShares) are not observable: the model "
    "uses the op line order, the results compared are those proved independent of it; validatePubKeyShares reports the first "
    "bad entry in map order: the generator never mixes the two error classes in one op",
    "monitors (independent of the model): pedglue:collect_not_one_per_peer, collect_duplicate_peer, collect_unexpected_peer, "
    "collect_not_first_message, collect_completed_without_all_peers (every successful collection judged against the delivered "
    "sequence); nodes_not_one_per_peer, node_wrong_index_or_key, pubkey_shares_misfiled (makeNodes); commits_wrong_degree, "
    "commits_not_through_share (the restored public polynomial evaluated in the group with kyber at every selected index equals "
    "the share), group_key_not_checked, valid_shares_rejected, restore_commits_short_node (restoreCommits*); "
    "restored_share_differs, restored_key_not_checked, honest_share_rejected (restoreDistKeyShare); share_pub_mismatch, "
    "degenerate_share_accepted (keyShareToBLS: herumi's public key against kyber's s*G); secret_share_changed, "
    "public_shares_wrong_set, public_share_misfiled, own_public_share_mismatch (processKey); msg_pubshares_order, "
    "msg_pubshares_count (MsgFromShare); validation_verdict (validateThreshold, validateReshareNodeCounts, validatePubKeyShares "
    "against their stated conditions); nonce_collision; panic (any panic outside the two degenerate inputs: old threshold <= 0, "
    "kyber result without commitments)",
]

ASSUMPTIONS = [
    "kyber's protocol itself (deals, responses, justifications, the DistKeyShare it returns) is not modelled here: its result is an "
    "argument of processKey (Part A of Props/C11.lean, pedersen_outputs / reshare_keeps_key, is the algebraic specification; the "
    "stream pedersen runs it)",
    "not driven, only modelled and proved (no callable entry point without a bcast component): the prefix of RunReshareDKG - "
    "restoration of PublicShares from the exchange, classification of old / new nodes, compact re-indexing, the old-node check, "
    "the default new threshold (reshareSetup, classify, compactIfRemoveOnly, oldNodesRemaining, kyberInput, afterProtocol); the "
    "pieces it calls are driven one by one; pure reshares run end to end in stream pedersen",
    "processKey files the public share a PEER broadcast as it arrives; it is not checked against the commitments (only the node's "
    "own entry is tied to its secret share): agreement of the n public shares across nodes is kyber's output consistency plus "
    "honest broadcast, as in C11's premise 'successful ceremony'",
    "a peer map with one entry per peer, distinct peer indices and distinct share indices (what cluster.Lock / NodeIdx give); "
    "the driver also runs misconfigured maps (an index used twice: the later collected message wins on both sides)",
    "restoreCommitsFromPubShares / restoreDistKeyShare panic (nil PubPoly) for a non-positive old threshold with no usable share, "
    "distKeyShareToValidatorPubKey / processKey for a kyber result without commitments: neither is produced by a caller in /repo "
    "(dkg.go passes the lock's threshold; kyber returns t commitments); modelled as `panic`, excused by the panic monitor",
    "the remove-only 'at least one old node remains' check compares index values AFTER the compact re-indexing "
    "(oldNodesRemaining_compares_indices_witness): with peer indices 0..n-1 it is equivalent to 'a new node exists'; recorded as "
    "an observation, not a finding (every new node of a remove-only operation is an old node)",
]
