"""C05 — consensus acts only on authentic, well-formed peer messages (core/consensus/qbft handle)."""
from vlib.trans_qbftconst import qbftconst

ENTRY = {
    "lean_props": "CharonV.Props.C05",
    "go_tools": ["extract-qbftconst"],
    "translators": [qbftconst],
    "streams": [
        {"name": "qbftwire", "drive": "drive-qbftwire", "model": "drv-qbftwire",
         "reset_ops": ["cfg"],
         "n_quick": 6000, "seeds_quick": 2, "n_thorough": 60000, "seeds_thorough": 6,
         "search_seeds": 3},
    ],
    "level_text": "Kernel-checked Lean theorems over a line-by-line decision model of (*Consensus).handle / verifyMsg / verifyMsgLimits / valuesByHash / newMsg, for every request, key list, buffer size, gater, deadliner answer and state: an accepted request has a main message and justifications that are each well-formed and signed over exactly their own fields by the member they name, share one allowed unexpired duty, respect the count limits, and bind every referenced hash to a wire value with that recomputed hash (accept_sound, accept_authentic); any request containing a message the named source never signed — in particular any single-field alteration of a signed field at either nesting level — is rejected (tamper_rejected, tamper_field_rejected); buffered messages only map a hash to a value hashing to it, so Decide delivers the proposed data (value_binding, value_binding_proposed); rejects leave the state unchanged (reject_no_state_change); the limits admit exactly 2·nodes justifications and 2·(j+1) values, on the constants extracted from the Go source (limits_admit_honest, verifyMsg_source_shape); nothing else is rejected (wellformed_accepted). The model is tied to the Go code by differential correspondence on the real handle with real secp256k1 keys, the real duty gater and a scripted deadliner, over protobuf-reflection-enumerated alterations of valid messages of all five types.",
    "level_note": "Trusted: Lean kernel; the Go correspondence harness (its own digest/recovery/value-hash computation feeds the model's symbolic crypto) and line driver; go/ast constant extractor. Cryptography is symbolic: ECDSA unforgeability, injectivity of the signed digest and collision resistance of the value hash are hypotheses of the theorems.",
    "trusted_base": [
        "model CharonV/Model/QbftWire.lean mirrors core/consensus/qbft handle, verifyMsg, verifyMsgLimits, valuesByHash, newMsg, toHash32, getRecvBuffer, core.NewDutyGater; tied by correspondence stream qbftwire (accept/reject class, buffer lengths, instance count, deadliner registrations, qbft.Msg accessor view of the enqueued message)",
        "translator extract-qbftconst (go/ast): limit factors and statement shape of verifyMsgLimits, ordered statements of verifyMsg, RecvBufferSize, maxConsensusMsgSize, defaultAllowedFutureEpochs, MsgType/DutyType validity bounds",
        "harness-side signature recovery (own deterministic-marshal + ssz digest, decred RecoverCompact) and value hashing, computed independently of handle",
        "protobuf reflection enumerates every field of QBFTConsensusMsg/QBFTMsg/Duty/Any; a new field or kind is altered automatically or makes the generator panic (fail closed)",
    ],
    "assumptions": [
        "symbolic cryptography: unforgeability of secp256k1 ECDSA on digests, injectivity of hashProto over QBFTMsg-without-signature (deterministic proto marshalling + ssz root), collision resistance of hashProto over values — hypotheses of accept_authentic / tamper_rejected / value_binding_proposed, not proved",
        "handle is modelled as one atomic step per call; a full receive buffer is modelled as the timeout outcome (the real call blocks until its receive context is done)",
        "maxConsensusMsgSize is enforced by libp2p framing; only the constant is extracted",
        "signature malleability (s -> n-s) is outside the property: the signature bytes are not a signed field",
    ],
}

# last clause ("the value delivered on decision is exactly the proposed data whose hash was agreed"): the Decide callback
# of newDefinition is part of the wrapper model (Props/C03Wrap.decided_value_is_hashed_value, stream conswrap)
from vlib import snippet_C03wrap as _w
ENTRY["streams"].append(dict(_w.STREAM, seeds_quick=1))
ENTRY.setdefault("lean_props_extra", []).append(_w.EXTRA_LEAN)
ENTRY["monitor_sigs"] = list(ENTRY.get("monitor_sigs", ["qbftwire:"])) + ["conswrap:delivered_value_hash_mismatch", "conswrap:delivered_wrong_duty", "conswrap:decide_delivered_twice"]
ENTRY["trusted_base"] = ENTRY["trusted_base"] + _w.TRUSTED_BASE
ENTRY["assumptions"] = ENTRY["assumptions"] + _w.ASSUMPTIONS

# Fifth session: the per-instance transport (core/consensus/qbft/transport.go: Broadcast with the value cache, createMsg +
# signing, self-delivery, ProcessReceives) and msg.go newMsg, the one C05-anchored file no model reached: Model/Transport.lean
# (on top of Model/QbftWire.lean), theorems Props/C05Transport.lean, stream transport (real transport through hook 8d05130).
from vlib import snippet_C05transport as _tr
ENTRY["streams"].append(_tr.STREAM)
ENTRY["lean_props_extra"].append(_tr.EXTRA_LEAN)
ENTRY["monitor_sigs"] = ENTRY["monitor_sigs"] + [m for m in _tr.MONITOR_SIGS if m not in ENTRY["monitor_sigs"]]
ENTRY["trusted_base"] = ENTRY["trusted_base"] + _tr.TRUSTED_BASE
ENTRY["assumptions"] = ENTRY["assumptions"] + _tr.ASSUMPTIONS
ENTRY["level_text"] += _tr.LEVEL_TEXT
