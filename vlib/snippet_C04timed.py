"""C04 addition: the timed composition (good round + round-timer arithmetic => decision within a rotation of
wall-clock rounds) as theorems about a timed cluster model. NOT a registry entry (the lead owns C04's ENTRY).
File name deliberately not `props_C*.py` (see snippet_C04timer.py).

No new stream and no Go work: the timed model is built from `Qbft.step` (tied to core/qbft by stream `qbft`) and
the `RoundTimer` timer objects (tied to core/consensus/timer by stream `roundtimer`); what is new is pure Lean.

To wire into C04's entry:
    ENTRY.setdefault("lean_props_extra", []).append(EXTRA_LEAN)
    ENTRY["trusted_base"] += TRUSTED_BASE ; ENTRY["assumptions"] += ASSUMPTIONS
and (texts) replace "the timed composition ... is explored by the driver's timely episodes, not proved" by LEVEL_NOTE.
Build: `bin/lk build CharonV.Props.C04Timed` (model 2 s, proofs 6 s, props incl. six kernel-evaluated executions 6 s).
"""

EXTRA_LEAN = "CharonV.Props.C04Timed"

# every `theorem` of Props/C04Timed.lean (all audited: propext, Classical.choice, Quot.sound only)
THEOREMS = [
    "CharonV.Qbft.timed_good_round",
    "CharonV.Qbft.timed_good_round_1",
    "CharonV.Qbft.timed_silent_round",
    "CharonV.Qbft.timed_decides_within_rotation",
    "CharonV.Qbft.timed_decides_from_start",
    "CharonV.Qbft.four_delays_fit",
    "CharonV.Qbft.timed_rotation_production",
    "CharonV.Qbft.timed_rotation_eager",
    "CharonV.Qbft.timed_from_start_eager",
    "CharonV.Qbft.timed_rotation_any_timer",
    # non-vacuity: the concrete initial clusters of the examples satisfy the start hypothesis `Poised`
    "CharonV.Qbft.C04TimedEx.sA_poised",
    "CharonV.Qbft.C04TimedEx.sB_poised1",
    "CharonV.Qbft.C04TimedEx.s0_poised",
]

LEVEL_NOTE = (
    "timed composition proved (Props/C04Timed.lean, model Model/QbftTimed.lean, proofs Proofs/QbftTimed.lean ~3100 lines): on a "
    "timed cluster semantics over Qbft.step — global clock, per-member round timers armed by the production timer objects, every "
    "message delivered to every running member at an adversary-chosen instant in (sent+lo, sent+hi], timers firing exactly at their "
    "deadline — for EVERY execution (any interleaving, overlapping phases, any oracle per delivery): timed_good_round / timed_good_round_1 (leader runs, "
    "sigma + 4*delta < timeout: no fault, nobody leaves the round, everybody has decided the leader's value once the clock passes "
    "E + sigma + 4*delta), timed_silent_round (leader down: the cluster is poised for the next round with the skew preserved), "
    "timed_decides_within_rotation / timed_decides_from_start (production leader function, from round rho0 >= 2 resp. from the "
    "start of the instance: the first round of the next n whose leader runs decides; bound = sum of the silent rounds' timeouts "
    "+ sigma + 4*delta), instantiated for the increasing / linear timer objects "
    "(timed_rotation_production, four_delays_fit) and for the slot-aligned eager_double_linear timer (timed_rotation_eager, timed_from_start_eager: skew 0 "
    "from the second round on, every silent round 1 s); six concrete executions (n = 4, delta = 100 ms, production timer numbers, "
    "one with overlapping phases, one with a decision by DECIDED, one under the eager timer attaining the bound) evaluated by the kernel"
)

TRUSTED_BASE = [
    "timed model CharonV/Model/QbftTimed.lean: composition of Qbft.step (stream qbft) and the RoundTimer timer objects "
    "(prodTimer = RoundTimer.timerCall, stream roundtimer) with a clock, a packet network and urgency (time cannot pass an armed "
    "deadline of a running member nor sent+hi of a packet in flight); the composition itself is not tied to Go code by a stream — "
    "it is the statement of the timing hypotheses of C04 (the syncEpisodes of drive-qbft explore the same regime on the real Run)",
    "the transport of the timed model is the one of Proofs/QbftGoodRound.lean (`wire`): a broadcast reaches every running member "
    "including the sender, attachments = justification cores",
]

ASSUMPTIONS = [
    "timed model: bounded delay — a message sent at t is delivered to every running member at some instant in (t+lo, t+hi] "
    "(hi = delta; lo >= 0 a lower bound of the latency), exactly once, in any order; crashed/silent members (fixed set after the "
    "last fault, at most n - quorum) neither move nor send",
    "timed model: exact timers and no clock drift — all members read one clock, a round timer fires exactly at the deadline its "
    "timer object returned (a passed deadline fires at once), a justified PRE-PREPARE re-arms it, a decision stops it",
    "timed model: synchronised start after the last fault — `Poised1`: the running members were just called at instants in "
    "[E, E+sigma], the round-1 leader's PRE-PREPARE (if it runs) is in flight, nothing delivered; or `Poised` (rho >= 2): they sit "
    "in round rho-1, undecided and never prepared, round timers due within [E, E+sigma], nothing in flight, only null "
    "ROUND-CHANGEs of earlier rounds delivered so far (earlier traffic may have been lost); a silent round re-establishes `Poised`; "
    "re-synchronisation from arbitrary skew (F+1 rule) is not proved",
    "timed model: sigma <= lo (entry skew not above the minimal latency; with lo = 0: equal deadlines, which the slot-aligned "
    "eager timer provides from the second round on) — keeps round-rho messages from reaching a member still in round rho-1",
    "timed model: proposals available from the start, compare callback succeeds (CmpOut.ok), FIFO limit B + 4 <= fifo where B "
    "bounds earlier-round ROUND-CHANGEs per source (production 100)",
    "timed model: between the calls of the members (skew sigma of the start actions) nothing is delivered — implied by sigma <= lo; "
    "the start action exists in the model and the examples begin with it, the theorems begin at the state after the calls",
]
