"""Translators T-ssz + T-fields for C12: regenerate lean/CharonV/Generated/ClusterSsz.lean and
ClusterFields.lean from $VERIF_REPO/cluster/*.go.

`tr(bindir) -> (ok, log)`; the Go tool `trans-ssz` (listed in ENTRY["go_tools"], built by check into
`bindir`) evaluates the hash functions of cluster/ssz.go symbolically per format version (go/ast +
go/types) and walks the per-version JSON structs; it fails closed on any Go it does not understand."""
import os, subprocess
from vlib import core


def trans_ssz(bindir):
    exe = os.path.join(bindir, "trans-ssz")
    outdir = os.path.join(core.LEAN, "CharonV", "Generated")
    os.makedirs(outdir, exist_ok=True)
    if not os.path.exists(exe):
        return False, "trans-ssz was not built"
    with core.LeanLock():  # do not swap the files under a concurrent lake build
        p = subprocess.run([exe, "-repo", core.REPO, "-outdir", outdir], stdout=subprocess.PIPE,
                           stderr=subprocess.STDOUT, text=True, timeout=300)
    return p.returncode == 0, p.stdout
