"""Registry entry for C01 (the cluster never emits two different signed objects for one duty and validator)."""

ENTRY = {
    "lean_props": "CharonV.Props.C01",
    "streams": [
        # ~60 ops per episode (one fresh cluster of 3..7 members each, thorough: 3..10), ~1.5 ms per op
        # (every deliver is one real BLS verification, every hand-off one threshold aggregation + 2 verifications)
        {"name": "clustersim", "drive": "drive-clustersim", "model": "drv-clustersim",
         "reset_ops": ["cfg"],
         "n_quick": 6000, "seeds_quick": 2, "n_thorough": 60000, "seeds_thorough": 6},
    ],
    "level_text": "Kernel-checked Lean theorems over the symbolic-signature model of the whole pipeline for one duty "
                  "and one validator (consensus output -> duty store -> validator client signs -> partial-signature "
                  "store and exchange -> threshold -> aggregation -> hand-off to Broadcast), for EVERY cluster size "
                  "n >= 1 with threshold ceil(2n/3), EVERY Byzantine set of at most floor((n-1)/3) members and EVERY "
                  "operation sequence (members decide any values - also disagreeing ones - at any time or never, sign "
                  "late or never, every partial is delivered to anybody any number of times in any order or never, "
                  "Byzantine members send partials over arbitrary roots to arbitrary subsets): all aggregates ever "
                  "handed to Broadcast by any members carry one signing root (no_two_roots), each is backed by a "
                  "threshold of distinct shares that signed exactly that root, one of them honest (emitted_backed), "
                  "it is the root of the decided value under consensus agreement (emitted_is_decided_root), an honest "
                  "share signs at most one root and only what its own duty store holds (honest_signs_stored), and the "
                  "same uniqueness from the bare cryptographic hypothesis (unique_group_valid_root). The model is tied "
                  "to the code by differential correspondence: drive-clustersim builds, per member, the REAL "
                  "dutydb.MemDB, validatorapi.Component (secure constructor), parsigdb.MemDB, the parsigex receive "
                  "handler (protobuf decode, core.NewDutyGater, parsigex.NewEth2Verifier over the public shares), "
                  "sigagg.Aggregator with sigagg.NewVerifier and aggsigdb.MemDBV2, wired as core.Wire wires them, "
                  "with a real validator key split by the real tbls.ThresholdSplit and real eth2 signing "
                  "domains/roots from a beacon mock; every op is executed on both sides and result class and the "
                  "roots handed to Broadcast are diffed per op. Monitors evaluate the property itself on the real "
                  "trace: one signing root per episode across all members, every handed-off signature verifies "
                  "under the group public key (independent tbls.Verify over an independently computed signing "
                  "root), no hand-off without a threshold of shares that signed that root, no well-formed partial "
                  "refused, no forged partial (right share index, wrong key) admitted.",
    "level_note": "Trusted: Lean kernel, the Go correspondence harness and line driver. Signatures are symbolic in the "
                  "model: a partial (share k, root r) exists only if member k is Byzantine or k's validator client "
                  "signed r, and threshold matching partials combine into a group-valid signature (BLS threshold "
                  "unforgeability and Lagrange recombination are hypotheses, exercised but not proved; C08/C09). "
                  "Consensus itself is NOT part of this model: the `decide` ops feed arbitrary, also disagreeing, "
                  "values into the duty stores, so the C01 theorems need no agreement (agreement, C02, is only used "
                  "by emitted_is_decided_root). The tie is dynamic (generated episodes), sequential (one call at a "
                  "time per member) and for attester duties of one validator.",
    "trusted_base": [
        "model CharonV/Model/Cluster.lean (decide = dutydb first-store-wins, sign = validator client signs what its "
        "own duty store serves with its own share, deliver = parsigex admission + parsigdb.store + threshold rule "
        "'the group of the partial just stored has exactly threshold entries', aggregate = hand-off to Broadcast); "
        "tied by the correspondence stream `clustersim` on the real components",
        "harness interning: value id v <-> attestation data content(v); root id = id of the content with that "
        "signing root (signing root computed by the harness itself: hash_tree_root of the attestation data, "
        "compute_domain over the mock's fork schedule and genesis validators root, checked once against "
        "eth2util/signing.GetDataRoot)",
        "result classes read off the real components: dutydb / parsigdb return nil for an identical repeat, the "
        "driver tells `ok` from `dup` by whether the store grew (hooks dutydb.VerifSnapshot, parsigdb.VerifSnapshot)",
        "verif hooks parsigex.VerifNew / VerifHandle (receive handler without a libp2p host), "
        "dutydb.VerifSnapshot, parsigdb.VerifSnapshot (read-only)",
        "validator client emulation in the driver follows testutil/validatormock (AttestationData, sign "
        "signing.GetDataRoot(DOMAIN_BEACON_ATTESTER, target epoch, data root) with the key share, Fulu attestation, "
        "SubmitAttestations)",
    ],
    "assumptions": [
        "at most floor((n-1)/3) members are Byzantine; a Byzantine member signs anything with ITS OWN key share "
        "only (BLS unforgeability: nobody produces a partial that verifies under another member's public share; the "
        "driver sends such forgeries through the real admission check and they are refused)",
        "threshold unforgeability / correct recombination of the tbls library: threshold partials of distinct "
        "shares over one root combine into a signature valid under the group key, fewer never do (hypothesis of "
        "unique_group_valid_root; checked per hand-off by the monitors, covered by C08/C09)",
        "an honest member's validator client signs only the data its own node serves and signs once per duty "
        "(slashing protection of the validator client; the driver's client does exactly that)",
        "consensus is covered by C02, not here; with disagreeing decisions the theorems still give one root, "
        "possibly no hand-off at all",
        "not covered: libp2p transport and sender authentication (a partial is admitted on its share index and "
        "signature alone), the beacon node and core/bcast (the recorder stands at the input of "
        "Broadcaster.Broadcast), scheduler / fetcher, deadline expiry and trimming (the scripted deadliner never "
        "expires), concurrency inside a member, duty types other than attester, more than one validator per set",
        "the model identifies a partial with (share, signing root); the real store compares the whole object, so a "
        "Byzantine share re-sending the same root inside a different wrapper (e.g. other aggregation bits) is "
        "rejected as mismatch instead of ignored as duplicate - no state change either way; not generated",
    ],
}

# C01 is the composition of the component guarantees: its check also runs the aggregator (C09) and the
# admission (C10) streams and reports their safety-relevant monitor signatures under C01.
from vlib.props_C09 import ENTRY as _E09
from vlib.props_C10 import ENTRY as _E10
ENTRY["streams"] = ENTRY["streams"] + [dict(s, n_quick=max(1, s.get("n_quick", 1000) // 2)) for s in _E09["streams"] + _E10["streams"]]
ENTRY["monitor_sigs"] = ["clustersim:", "sigagg:published_invalid_signature", "sigagg:partial_publish_on_error",
                         "sigagg:published_other_content", "admit:invalid_partial_reached_subscriber",
                         "admit:wrong_share_accepted", "admit:zero_sig_accepted", "admit:gated_duty_accepted"]

# ... and the consensus (C02: real qbft.Run, agreement monitor) and partial-signature store (C07: real parsigdb,
# "a share backs one root" monitors) streams: a slip in either breaks C01 through a component the one-validator
# simulator drives only along honest paths.
from vlib.props_C02 import QBFT_STREAM as _QS
from vlib.props_C07 import ENTRY as _E07
ENTRY["streams"] = ENTRY["streams"] + [dict(_QS, n_quick=20000, seeds_quick=1)] + \
    [dict(s, n_quick=max(1, s.get("n_quick", 1000) // 2), seeds_quick=1) for s in _E07["streams"]]
ENTRY["monitor_sigs"] = ENTRY["monitor_sigs"] + ["qbft:disagreement", "parsigdb:rejected_set_exchanged", "parsigdb:equivocation_accepted"]

# the last hop: core/bcast Broadcaster.Broadcast — what a node actually hands to its beacon node
# (Model/CoreBcast.lean, Props/C01Bcast.lean, stream corebcast)
from vlib import snippet_C01bcast as _cb
ENTRY["streams"] = ENTRY["streams"] + [_cb.STREAM]
ENTRY.setdefault("lean_props_extra", []).append(_cb.EXTRA_LEAN)
ENTRY["monitor_sigs"] = ENTRY["monitor_sigs"] + _cb.MONITOR_SIGS
ENTRY["trusted_base"] = ENTRY["trusted_base"] + _cb.TRUSTED_BASE
ENTRY["assumptions"] = [a.replace("the beacon node and core/bcast (the recorder stands at the input of Broadcaster.Broadcast)", "the beacon node") for a in ENTRY["assumptions"]] + _cb.ASSUMPTIONS
ENTRY["level_text"] = ENTRY["level_text"] + " " + _cb.LEVEL_TEXT

# ... and the admission layer of consensus (C05: real Consensus.handle): what the members agree on is a hash; that the data
# filed under it hashes to it is what makes "agree on the hash" mean "store and sign the same object".
from vlib.props_C05 import ENTRY as _E05w
ENTRY["streams"] = ENTRY["streams"] + [dict(_E05w["streams"][0], seeds_quick=1)]
ENTRY["monitor_sigs"] = ENTRY["monitor_sigs"] + ["qbftwire:value_hash_mismatch_accepted", "qbftwire:tampered_accepted",
                                                 "qbftwire:unsigned_justification_accepted", "qbftwire:cross_duty_accepted"]

# the production wiring (app/app.go Run / wireCoreWorkflow, consensus.NewConsensusController, cluster.Definition.NodeIdx):
# translator T-appwire regenerates the facts the model and the drivers assume about how the shipped binary assembles the
# workflow (thresholds, verifiers, gater, single instances into core.Wire, share-index arithmetic, deadliners); Props/C01Wire.lean
from vlib import snippet_C01wire as _cw
ENTRY.setdefault("go_tools", []).append(_cw.GO_TOOL)
ENTRY.setdefault("translators", []).append(_cw.TRANSLATOR)
ENTRY.setdefault("lean_props_extra", []).append(_cw.EXTRA_LEAN)
ENTRY["trusted_base"] = ENTRY["trusted_base"] + _cw.TRUSTED_BASE
ENTRY["assumptions"] = ENTRY["assumptions"] + _cw.ASSUMPTIONS
ENTRY["level_text"] = ENTRY["level_text"] + " " + _cw.LEVEL_TEXT

# Fifth session: the asynchronous retry layer production wiring puts on five pipeline edges (app/retry/retry.go Retryer,
# core/retry.go WithAsyncRetry: fetcher.Fetch, consensus.Participate / Propose, parsigex.Broadcast, bcast.Broadcast):
# Model/Retry.lean, theorems Props/C01Retry.lean — attempts are sequential, stop after the first success or permanent error,
# none after the deadline or after Shutdown began, and the cluster operations a retried edge causes are drawn from the list
# captured at call time any number of times or never, i.e. an op sequence of Model/Cluster.lean (retry_edge_refines_cluster_env:
# no_two_roots holds verbatim under retries); stream retry (the real Retryer in lock-step, scripted outcomes, timers and
# deadlines; the wrapped-edge list pinned by go/ast over core/retry.go and core/interfaces.go, fail closed).
from vlib import snippet_C01retry as _ry
ENTRY["streams"] = ENTRY["streams"] + [_ry.STREAM]
ENTRY["lean_props_extra"].append(_ry.EXTRA_LEAN)
ENTRY["monitor_sigs"] = ENTRY["monitor_sigs"] + [m for m in _ry.MONITOR_SIGS if m not in ENTRY["monitor_sigs"]]
ENTRY["trusted_base"] = ENTRY["trusted_base"] + _ry.TRUSTED_BASE
ENTRY["assumptions"] = ENTRY["assumptions"] + _ry.ASSUMPTIONS
ENTRY["level_text"] = ENTRY["level_text"] + " " + _ry.LEVEL_TEXT
