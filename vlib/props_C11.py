"""C11 — DKG (FROST) yields one consistent threshold key (dkg/frost.go, dkg/frostp2p.go, dkg/share/share.go)."""

ENTRY = {
    "lean_props": "CharonV.Props.C11",
    "streams": [
        {"name": "frost", "drive": "drive-frost", "model": "drv-frost",
         "reset_ops": ["cer"],
         "n_quick": 2600, "seeds_quick": 2, "n_thorough": 40000, "seeds_thorough": 6},
    ],
    "level_text": "Kernel-checked Lean theorems. Part A (algebra over an arbitrary scalar field and modules G1, G2; every dealer set, every threshold t, every family of dealer polynomials of degree < t indexed by an arbitrary validator type, every identifier set S with |S| >= t): the nodes' outputs s_j = sum_i f_i(j) are a degree-< t Shamir sharing of sum_i f_i(0) with polynomial sum_i f_i (dkg_is_shamir); the group key every node computes (own constant commitment plus all received ones) is the same for all nodes and is the public key of the group secret; each public share is the node's secret share times the generator and the sharing polynomial's evaluation in the exponent; any t public shares reconstruct the group key; any t secret shares recover the group secret and their partial signatures combine into the group secret's signature, which satisfies the verification equation under the group key (via C08). Part B (charon's routing in dkg/frost.go, model Model/FrostGlue.lean, for every iteration order of the Go maps): getRound2Inputs hands validator v's participant only messages filed under validator v and the stated source; given the map the transport delivers to a node (pairwise different keys, all addressed to that node) every validator's participant receives exactly the share its source sent for that validator; PublicShares[v][j] is exactly the VkShare node j broadcast for validator v; round1 files outgoing messages under the node's own id, the right validator and target. Tied to the code by running the REAL runFrostParallel for n = 3..8 nodes, t = 2..n, 1..4 validators in-process over an in-memory transport that uses the real proto conversions and makeRound1Response/makeRound2Response, shuffles delivery and releases nodes from each round in adversarial orders: Lean recomputes the round-1 key sets, the getRound2Inputs maps (against the real function, exported by the hook) and the PublicShares maps, checks for every validator that every node's SecretShare is the sum of the round-1 shares addressed to it (own evaluation derived) with every dealer's evaluations on a degree-< t polynomial, recomputes the group secret by interpolation and every subset recovery bit-for-bit, and predicts every group-level outcome.",
    "level_note": "Trusted: Lean kernel + Mathlib v4.33.0, the Go harness (in-memory transport, line driver). Not covered: kryptology FROST internals (Feldman verification, proof of knowledge) against malicious dealers — the property is about successful honest ceremonies; libp2p transport and reliable broadcast (C13); Pedersen variant. For t = n the own evaluation f_j(j) (never transmitted) is not independently observable at scalar level; it is covered by the Go-side Feldman monitor (public share j = sum of the dealers' committed evaluations at j) and the group-key checks.",
    "trusted_base": [
        "model CharonV/Model/FrostGlue.lean mirrors round1 / getRound2Inputs / makeShares of dkg/frost.go; tied by correspondence on the real functions (getRound2Inputs through the hook, round1 and makeShares through the recorded traffic and the resulting shares)",
        "model CharonV/Model/Fr.lean (scalar arithmetic, Lagrange) tied bit-for-bit to kryptology scalars and tbls.RecoverSecret on every sample",
        "hook /repo/dkg/verif_export.go (build tag verif): re-exports runFrostParallel, fTransport, msgKey, getRound2Inputs and the frostp2p proto conversions; adds no behaviour",
        "harness in-memory transport stands in for frostP2P.Round1/Round2 (same packaging through the real conversion functions; libp2p send/receive and bcast replaced by in-process hand-over)",
        "BLS operations are linear in the scalar and Verify is the idealised pairing equation (as in C08)",
    ],
    "assumptions": [
        "honest ceremony: every dealer uses one polynomial of degree < t towards all receivers (malicious dealers are caught by kryptology's Feldman verification, which is exercised but not modelled)",
        "r is prime and node identifiers 1..n are below r (C08 ids_ok_below_char)",
        "the maps a node receives from the transport have pairwise different keys (Go map) and contain only shares addressed to that node / only broadcasts (checked by frostp2p's callbacks and by the harness monitor frost:share_misrouted)",
        "ceremony values come from crypto/rand inside kryptology: op lines carrying them are rewritten from the current run (exec mode re-runs the ceremony with the same shape and schedule seed)",
    ],
}
