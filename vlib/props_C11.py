"""C11 — DKG (FROST) yields one consistent threshold key (dkg/frost.go, dkg/frostp2p.go, dkg/share/share.go)."""

ENTRY = {
    "lean_props": "CharonV.Props.C11",
    "streams": [
        {"name": "frost", "drive": "drive-frost", "model": "drv-frost",
         "reset_ops": ["cer"],
         "n_quick": 2000, "seeds_quick": 2, "n_thorough": 40000, "seeds_thorough": 6, "search_seeds": 1},
        {"name": "frostp2p", "drive": "drive-frostp2p", "model": "drv-frost",
         "reset_ops": ["p2pcer", "cb"],
         "n_quick": 2500, "seeds_quick": 2, "n_thorough": 60000, "seeds_thorough": 6, "search_seeds": 2},
        {"name": "pedersen", "drive": "drive-pedersen", "model": "drv-frost",
         "reset_ops": ["ped"],
         "n_quick": 900, "seeds_quick": 2, "n_thorough": 20000, "seeds_thorough": 4, "search_seeds": 1},
    ],
    "level_text": "Kernel-checked Lean theorems. Part A (algebra over an arbitrary scalar field and modules G1, G2; every dealer set, every threshold t, every family of dealer polynomials of degree < t indexed by an arbitrary validator type, every identifier set S with |S| >= t): the nodes' outputs s_j = sum_i f_i(j) are a degree-< t Shamir sharing of sum_i f_i(0) with polynomial sum_i f_i (dkg_is_shamir); the group key every node computes (own constant commitment plus all received ones) is the same for all nodes and is the public key of the group secret; each public share is the node's secret share times the generator and the sharing polynomial's evaluation in the exponent; any t public shares reconstruct the group key; any t secret shares recover the group secret and their partial signatures combine into the group secret's signature, which satisfies the verification equation under the group key (via C08). Part B (charon's routing in dkg/frost.go, model Model/FrostGlue.lean, for every iteration order of the Go maps): getRound2Inputs hands validator v's participant only messages filed under validator v and the stated source; given the map the transport delivers to a node (pairwise different keys, all addressed to that node) every validator's participant receives exactly the share its source sent for that validator; PublicShares[v][j] is exactly the VkShare node j broadcast for validator v; round1 files outgoing messages under the node's own id, the right validator and target. exec_dkg_recovers_sum_of_secrets proves (r prime as hypothesis) that the executable scalar layer used by the driver — node share = Fr.sum of the dealers' Horner evaluations, Fr.lagrangeAt0 over any >= t identifiers — returns the sum of the dealers' constant terms. Tied to the code by running the REAL runFrostParallel for n = 3..8 nodes, t = 2..n, 1..4 validators in-process over an in-memory transport that uses the real proto conversions and makeRound1Response/makeRound2Response, shuffles delivery and releases nodes from each round in adversarial orders: Lean recomputes the round-1 key sets, the getRound2Inputs maps (against the real function, exported by the hook) and the PublicShares maps, checks for every validator that every node's SecretShare is the sum of the round-1 shares addressed to it (own evaluation derived) with every dealer's evaluations on a degree-< t polynomial, recomputes the group secret by interpolation and every subset recovery bit-for-bit, and predicts every group-level outcome.",
    "frostp2p_note": "Receive side of dkg/frostp2p.go (model Model/FrostP2P.lean: newBcastCallback round-1/round-2 branches with de-duplication before validation, newP2PCallback with validation before de-duplication, collect-by-count loops of frostP2P.Round1/Round2). Theorems for EVERY delivery sequence (any order, any re-deliveries of identical messages, invalid messages from non-members anywhere and, for shares, from members too): queues_one_message_per_peer (each queue holds only validated member messages, no two of one sender), round1_one_from_each_peer and round2_one_from_each_peer (the loops never report too many; whenever they return they return exactly the genuine message of each of the n nodes / n-1 others, and they do return once every genuine message has been delivered at least once) — duplicates never displace a distinct peer's message. Hypotheses Fair1/Fair2: no message bears the node's own id; a broadcast bearing a member's id is that member's genuine broadcast (a member's malformed FIRST broadcast would block its later valid one because the sender is marked before validation — witness in the examples; only a faulty member can do that to itself). Stream `frostp2p`: the REAL frostP2P (hook VerifNewFrostP2P = newFrostP2P minus handler registration) with the REAL callbacks under the real runFrostParallel; the harness is the network (real p2p.Send over libp2p's mock network into a pool; every delivery to a callback is an op): per-node order, second/third delivery of identical messages, forged source/target/validator index/commitment count, non-member senders, fewer validators, one peer's cast last, round-2 casts overtaking round 1; plus callback-only episodes with arbitrary sequences. Compared per delivery: queued (with running count) / duplicate / refusal class; at the end the sender sets and key counts Round1/Round2 returned; then the ceremony monitors and the scalar model (val/rec/sig). Overlapping deliveries: op `race` starts two invocations of the callback with the same peer's identical cast while the first is held inside the hand-over (the harness keeps the receiving channel full), for both rounds; the outcome must equal a sequential order (theorem overlapping_no_duplicate_sender: with atomic check-and-mark no interleaving of enter/hand-over steps queues two messages of one sender). Forged messages with exactly one entry at a non-first position mis-addressed (ws<k>/wt<k>/wv<k>, all positions, up to 3 validators) must be refused as a whole (theorem every_entry_validated). Monitors frostp2p:duplicate_queued, invalid_message_queued, invalid_message_not_refused, genuine_message_dropped, genuine_message_refused, round1_set_wrong, round2_set_wrong, ceremony_stalled, wrong_queue.",
    "pedersen_note": "Pedersen variant (dkg/pedersen, kyber share/dkg): theorems pedersen_outputs (any qualified dealer set), reshare_is_shamir and reshare_keeps_key (resharing a degree-< t sharing by any >= t old nodes' sub-sharings with Lagrange weights yields a degree-< t' sharing of the same secret, all t, t', all node sets). Stream `pedersen`: the REAL pedersen.RunDKG and a pure pedersen.RunReshareDKG (new threshold 2..n) for n = 3..6, t = 2..n, 1..2 validators run in one process over libp2p's in-memory mock network (real Board, bcast.Component, p2p.Send/RegisterHandler, kyber; per-link latencies and start delays from the schedule seed; no sockets, no hook needed). Dealt shares are encrypted to longterm keys local to RunDKG, so the per-dealer sum structure is not observable: Lean checks the outputs (n secret shares on one polynomial of degree < t, group secret by interpolation, every subset recovery bit-for-bit, predicted group-level outcomes; after a reshare degree < t', the same group secret, every share changed); Go monitors pedersen:group_key_disagreement, pubshares_disagreement, secret_share_pubshare_mismatch, pubshares_do_not_reconstruct_group_key (every subset), threshold_signature_rejected, ceremony_failed, reshare_changed_group_key, reshare_failed.",
    "level_note": "Trusted: Lean kernel + Mathlib v4.33.0, the Go harness (in-memory transport, line driver). Not covered: kryptology FROST internals (Feldman verification, proof of knowledge) against malicious dealers — the property is about successful honest ceremonies; libp2p transport (the Pedersen stream uses libp2p's mock network) and reliable broadcast (C13); kyber's Pedersen DKG internals (deal encryption, complaints/justifications) — exercised, not modelled; add/remove-operator reshares (only the pure reshare is run). For t = n the own evaluation f_j(j) (never transmitted) is not independently observable at scalar level; it is covered by the Go-side Feldman monitor (public share j = sum of the dealers' committed evaluations at j) and the group-key checks.",
    "trusted_base": [
        "model CharonV/Model/FrostGlue.lean mirrors round1 / getRound2Inputs / makeShares of dkg/frost.go; tied by correspondence on the real functions (getRound2Inputs through the hook, round1 and makeShares through the recorded traffic and the resulting shares)",
        "model CharonV/Model/Fr.lean (scalar arithmetic, Lagrange) tied bit-for-bit to kryptology scalars and tbls.RecoverSecret on every sample",
        "hook /repo/dkg/verif_export.go (build tag verif): re-exports runFrostParallel, fTransport, msgKey, getRound2Inputs and the frostp2p proto conversions; adds no behaviour",
        "harness in-memory transport stands in for frostP2P.Round1/Round2 (same packaging through the real conversion functions; libp2p send/receive and bcast replaced by in-process hand-over)",
        "BLS operations are linear in the scalar and Verify is the idealised pairing equation (as in C08)",
    ],
    "assumptions": [
        "honest ceremony: every dealer uses one polynomial of degree < t towards all receivers (malicious dealers are caught by kryptology's Feldman verification, which is exercised but not modelled)",
        "node identifiers 1..n are below the group order r (C08 ids_ok_below_char); r prime is PROVED (Proofs/FrPrime.lean r_prime, Lucas certificate with witness 7 evaluated by the kernel): exec_dkg_recovers_sum_of_secrets_unconditional",
        "the maps a node receives from the transport have pairwise different keys (Go map) and contain only shares addressed to that node / only broadcasts (checked by frostp2p's callbacks and by the harness monitor frost:share_misrouted)",
        "ceremony values come from crypto/rand inside kryptology: op lines carrying them are rewritten from the current run (exec mode re-runs the ceremony with the same shape and schedule seed)",
    ],
}


# The ceremony glue after the key-generation rounds (dkg/dkg.go Run, createDistValidators, the sign / exchange / aggregate
# functions, exchanger.go, nodesigs.go, disk.go): model Model/DkgGlue.lean, theorems Props/C11Run.lean, stream dkgrun (the real
# dkg.Run for all n nodes in one process over loopback libp2p; what every node wrote is loaded and recomputed).
from vlib import snippet_C11run as _dr
ENTRY["streams"].append(_dr.STREAM)
ENTRY.setdefault("lean_props_extra", []).append(_dr.EXTRA_LEAN)
# (C11 has no monitor_sigs restriction: every signature of its streams, incl. dkgrun:, counts)
ENTRY["trusted_base"] = ENTRY["trusted_base"] + _dr.TRUSTED_BASE
ENTRY["assumptions"] = ENTRY["assumptions"] + _dr.ASSUMPTIONS
ENTRY["level_text"] += (" What a node HOLDS after the ceremony is covered too: Model/DkgGlue.lean mirrors createDistValidators, the per-signature-type "
    "exchange keyed by (type, validator) with verifyPeerShareIdx, the aggregation with per-partial verification and the keystore / lock writing "
    "order; Props/C11Run.lean proves for every n, validator count, amount list and map order that all nodes build the same lock "
    "(lock_same_on_all_nodes), that lock.Validators[k].PubShares[i] is share index i+1's public key (lock_pubshares_in_share_order), that node j's "
    "k-th keystore matches lock.Validators[k].PubShares[j-1] (keystores_match_lock), that deposits are the group signature over exactly the message "
    "of their validator and amount (deposit_sigs_per_amount), that only partials verified under the claimed index are aggregated, that a set with a "
    "foreign share index is refused whole (exchange_rejects_foreign_share_index) and that the n collected partials aggregate to the group signature "
    "(aggregate_is_group_signature); tied by stream dkgrun: the real dkg.Run of all nodes over loopback libp2p, artifacts loaded from disk and "
    "recomputed from the keystore secrets.")

# Fifth session: the node-side glue of dkg/pedersen around kyber (readBoardChannel, makeNodes, node sort, thresholds,
# validate*, restoreCommitsFromPubShares / restoreDistKeyShare over kyber's RecoverPubPoly, remove-only re-indexing,
# keyShareToBLS, processKey, MsgFromShare, generateNonce): Model/PedersenGlue.lean, theorems Props/C11Pedersen.lean (the
# restoration theorems through Mathlib's Lagrange interpolation and the proved primality of Fr.r), stream pedglue (the real
# exported functions with points built as s*G, junk strings, duplicates, unexpected peers, off-polynomial shares).
from vlib import snippet_C11pedglue as _pg
ENTRY["streams"].append(_pg.STREAM)
ENTRY["lean_props_extra"].append(_pg.EXTRA_LEAN)
ENTRY["trusted_base"] = ENTRY["trusted_base"] + _pg.TRUSTED_BASE
ENTRY["assumptions"] = ENTRY["assumptions"] + _pg.ASSUMPTIONS
ENTRY["level_text"] += _pg.LEVEL_TEXT

# Fifth session: the protocol glue of the reshare / add-operators / remove-operators / replace-operator ceremonies
# (dkg/protocol.go, protocol_reshare.go, protocol_replaceoperator.go, the RunReshareDKG prefix): Model/ReshareProto.lean on
# top of Model/PedersenGlue.lean and Spec/Frost.lean, theorems Props/C11Reshare.lean, stream reshare (the REAL four ceremonies
# on all participating nodes over loopback TCP, artifacts loaded from disk, every t'-subset of new shares recovered and
# signed with). Two observations about `remove-operators` (not violations of C11: one is a safe failure, the other needs
# foreign / repeated ENRs in the removing list and leaves every t shares reconstructing) are recorded in the snippet with
# candidate patches in fixes/; the stream does not generate them.
from vlib import snippet_C11reshare as _rp
ENTRY["streams"].append(_rp.STREAM)
ENTRY["lean_props_extra"].append(_rp.EXTRA_LEAN)
ENTRY["trusted_base"] = ENTRY["trusted_base"] + _rp.TRUSTED_BASE
ENTRY["assumptions"] = ENTRY["assumptions"] + _rp.ASSUMPTIONS + ["observation (not a clause of C11): " + k["note"] + " (" + k["fix"] + ")" for k in _rp.KNOWN_FINDINGS]
ENTRY["level_text"] += _rp.LEVEL_TEXT
