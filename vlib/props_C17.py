"""C17 — aggregate-signature store (core/aggsigdb: MemDB actor, MemDBV2 mutex)."""

ENTRY = {
    "lean_props": "CharonV.Props.C17",
    "streams": [
        {"name": "aggsigdb", "drive": "drive-aggsigdb", "model": "drv-aggsigdb",
         "reset_ops": ["new"],
         "n_quick": 15000, "seeds_quick": 2, "n_thorough": 150000, "seeds_thorough": 8, "search_seeds": 1},
    ],
    "level_text": "Kernel-checked Lean theorems over all sequences of the stores' atomic steps (any number of readers over "
                  "overlapping keys, stores in any order and any map-iteration order, cancellations, conflicting re-stores, "
                  "multi-key stores failing midway, expiries, shutdown): reads return exactly the stored value, stored values "
                  "never change except by expiry, conflicting stores are rejected, and no reader stays blocked on a stored key "
                  "— proved in full for MemDB (V1) and for MemDBV2 with broadcast wake-up; for MemDBV2 as it is (one-slot "
                  "notify, defect D-6) the wake-up theorem is proved only for one reader at a time and all-or-nothing stores, "
                  "refuted by kernel-checked witnesses otherwise. Both models are tied to the real NewMemDB/Run and NewMemDBV2 "
                  "by lock-step differential correspondence with real goroutine readers and a scripted deadliner.",
    "level_note": "Trusted: Lean kernel, the Go correspondence harness and line driver, quiescence detection by goroutine wait "
                  "states in a stop-the-world snapshot, FIFO service of a Go channel's parked receivers (decides which V2 waiter "
                  "gets the single token); goroutine scheduling abstracted to the atomic steps of the models.",
    "trusted_base": [
        "model CharonV/Model/AggSigDB.lean V1 mirrors core/aggsigdb/memory.go (Run loop: execCommand+processBlockedQueries, execQuery, expiry; Store = one command per key with early return); tied by lock-step correspondence on the real MemDB",
        "model CharonV/Model/AggSigDB.lean V2 mirrors core/aggsigdb/memory_v2.go (Store under the write lock with early return, one-slot notify, Await loop query/select); tied by lock-step correspondence on the real MemDBV2",
        "keysByDuty is modelled as 'all stored keys of that duty'; the driver checks after every op through the verif hook that the index lists exactly the stored keys",
        "values are compared as by dataEqual (JSON bytes): model values are identities interned by JSON",
        "a reader is classified blocked only when, in one stop-the-world goroutine snapshot, the Run goroutine and every reader still inside Await are parked (select / channel / sync wait)",
        "Go runtime: a send on a channel with parked receivers is handed to the receiver that parked first (model's choice among V2 waiters in the driver; the theorems quantify over every choice)",
    ],
    "assumptions": [
        "goroutine scheduling is abstracted to atomic steps: V1 = what the single Run goroutine processes per select iteration; V2 = critical sections under the RWMutex plus the channel receive",
        "a value placed in a V1 reader's response channel counts as returned (the reader returns it unless its own context is cancelled concurrently)",
        "MemDBV2 as it is (implBroadcast = false): no_lost_wakeup holds only with at most one Await in flight and stores that succeed or change nothing (ReachP); defect D-6 otherwise — known findings aggsigdb:v2_lost_wakeup_multi_waiter, aggsigdb:v2_failed_store_no_wakeup; fix in fixes/C17-v2-broadcast.diff",
        "Clone/MarshalJSON errors of SignedData are not modelled (not producible with the repo's own types)",
    ],
}
