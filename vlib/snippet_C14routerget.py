"""Snippet for the lead to wire into C14 (with C20 / C10 for the duties and validators endpoints): the RESPONSE (GET) side
of the validator API - core/validatorapi/router.go proposeBlockV3 + createProposeBlockResponse, aggregateAttestation +
createAggregateAttestation, attestationData, getValidators / getValidator + getValidatorIDs / getQueryArrayParameter /
getValidatorIDsFromJSON / getValidatorsByID, proposerDuties / attesterDuties / syncCommitteeDuties with
getExecutionOptimisticFromMetadata / getDependentRootFromMetadata, uintQuery / uintParam, writeResponse / writeError; and
validatorapi.go Component.Proposal's non-cryptographic decisions - one more correspondence stream and one more Lean module
of property theorems. Not a registry entry by itself (not named props_C*.py).

Wiring: append STREAM to ENTRY["streams"], append EXTRA_LEAN to ENTRY["lean_props_extra"] (its theorems are audited like
those of Props/C14*.lean), add MONITOR_SIGS to ENTRY["monitor_sigs"], extend trusted_base / assumptions with the lines
below. lean_exe `drv-routerget` is already in lakefile.toml. No hook in /repo was needed (NewRouter, NewComponentInsecure
and the Register* methods are exported).

NOTE (lead): no violation on the unchanged tree; KNOWN_FINDING_SIGS is empty. What the code does with answers the real
Component never gives is modelled as it is and counted as observed:* (not violations): a nil response / nil data pointer
of the Handler and a nil proposal from the duty store are dereferenced (handler panic, recovered by net/http: connection
closed, process survives - same judgement as O-1 of stream router); nil attestation data is answered 200 {"data":null};
nil values are rendered as the header value "<nil>" (the Component always sets 1/1); the sync duties response always says
execution_optimistic=false; after a first 0x id, a 98 character id with ANY two leading characters is read as a public key
(core.PubKey.Bytes cuts them off unseen). OBSERVATIONS below lists them with the theorem that pins each.
The Go http client is used with keep-alives off: on a reused connection it silently repeats a GET whose connection the
server closed without a response, which would call the Handler twice after a recovered panic.
"""

STREAM = {"name": "routerget", "drive": "drive-routerget", "model": "drv-routerget",
          "reset_ops": ["pv", "pc", "ag", "ad", "vs", "v1", "du"],   # every op is a self-contained request
          "n_quick": 12000, "seeds_quick": 2, "n_thorough": 60000, "seeds_thorough": 6,
          "search_seeds": 2}

EXTRA_LEAN = "CharonV.Props.C14RouterGet"

MONITOR_SIGS = ["routerget:"]

THEOREMS = [
    "CharonV.RouterGet.proposal_response_consistent",
    "CharonV.RouterGet.inconsistent_answer_is_500_partial",
    "CharonV.RouterGet.consistent_answer_is_200",
    "CharonV.RouterGet.served_some_iff",
    "CharonV.RouterGet.proposal_status_total",
    "CharonV.RouterGet.nil_answer_panics",
    "CharonV.RouterGet.unselected_fields_ignored",
    "CharonV.RouterGet.nil_value_rendered_witness",
    "CharonV.RouterGet.component_served_is_stored",
    "CharonV.RouterGet.component_only_requested_slot",
    "CharonV.RouterGet.component_needs_single_proposer",
    "CharonV.RouterGet.component_nil_store_panics",
    "CharonV.RouterGet.aggregate_response_consistent",
    "CharonV.RouterGet.aggregate_inconsistent_is_500_partial",
    "CharonV.RouterGet.aggregate_consistent_is_200",
    "CharonV.RouterGet.aggregate_nil_answer_panics",
    "CharonV.RouterGet.parseUint_spec",
    "CharonV.RouterGet.parseUint_boundary_witness",
    "CharonV.RouterGet.attestation_data_passthrough",
    "CharonV.RouterGet.attestation_data_bad_param",
    "CharonV.RouterGet.attestation_data_null_200",
    "CharonV.RouterGet.ids_partition",
    "CharonV.RouterGet.ids_count_preserved",
    "CharonV.RouterGet.parsePubkey_spec",
    "CharonV.RouterGet.ids_reading_witness",
    "CharonV.RouterGet.validators_request_passthrough",
    "CharonV.RouterGet.validators_query_wins",
    "CharonV.RouterGet.query_trimmed_body_not_witness",
    "CharonV.RouterGet.duties_metadata_passthrough",
    "CharonV.RouterGet.duties_malformed_metadata_is_500",
    "CharonV.RouterGet.sync_duties_ignore_metadata",
    "CharonV.RouterGet.duties_bad_request",
]

KNOWN_FINDING_SIGS = []

OBSERVATIONS = [
    "observed:handler_panic_recovered:<endpoint>:nilresp|nildata|nil_proposal_from_store|nil_validator_in_map - a nil "
    "*Response / nil Data pointer of the Handler, a nil proposal from awaitProposalFunc (validatorapi.go:463) and a nil "
    "*Validator in the Handler's map are dereferenced; net/http recovers (theorems nil_answer_panics, "
    "aggregate_nil_answer_panics, component_nil_store_panics). Not an answer of the real Component / dutydb.",
    "observed:ok_status_on_nil_answer:attestation_data - nil attestation data is answered 200 {\"data\":null} "
    "(attestation_data_null_200). Component.AttestationData never returns nil data without an error.",
    "observed:nil_value_rendered_as_<nil> - (*big.Int)(nil).String() puts \"<nil>\" into Eth-Execution-Payload-Value / "
    "Eth-Consensus-Block-Value and the body (nil_value_rendered_witness); Component.Proposal always sets both to 1 "
    "(component_served_is_stored).",
    "observed:pubkey_prefix_unchecked - getValidatorsByID reads ALL ids the way the FIRST one looks; core.PubKey.Bytes checks "
    "only len == 98 and hex of k[2:], so `zz<96 hex>` after a first 0x id is read as a key (ids_reading_witness). A list that "
    "mixes keys and indices (allowed by the beacon API) is refused as a whole, with 500 not 400 (ids_partition).",
    "observed:sync_duties_execution_optimistic_dropped - syncCommitteeDuties never reads the metadata "
    "(sync_duties_ignore_metadata).",
    "Component.Proposal does not check that the proposal it serves is for the requested slot (it relies on the duty store being "
    "keyed by slot: component_only_requested_slot / monitor routerget:proposal_from_other_slot), and reads neither the graffiti "
    "nor the builder boost factor (blinded or full is whatever consensus stored).",
]

TRUSTED_BASE = [
    "model CharonV/Model/RouterGet.lean mirrors router.go's response side (createProposeBlockResponse's switch per fork x "
    "blinded with its nil checks and the four headers of proposeBlockV3, createAggregateAttestation, attestationData, "
    "getValidatorsByID's first-id rule with core.PubKey.Bytes' length-98 / hex(k[2:]) test and strconv.ParseUint(s,10,64), "
    "getQueryArrayParameter's comma split + TrimSpace vs the untrimmed JSON ids, getValidators' query-before-body rule, "
    "getValidator's 0 -> 404 / >1 -> 500, the duties wrappers with the two metadata readers and the empty-array replacement, "
    "uintQuery / uintParam, writeError's 500 for a non-apiError) and Component.Proposal (getProposerPubkey's |defSet| = 1, "
    "subscribers in order with early return, awaitProposalFunc(ctx, slot), values := 1); object contents are symbolic "
    "(identity + Go wire type); tied by correspondence stream routerget: the real validatorapi.NewRouter over httptest in "
    "front of a scripted Handler (every version number 0..10 x blinded x which fields are populated x nil values, error / nil "
    "response / nil data) and, for op pc, the real Component (NewComponentInsecure) over a scripted duty store and duty "
    "definition function; compared: status code + error message class, the four response headers, the body's version / flag / "
    "values, which served object `data` is (JSON identity against every populated field), what a client decoding by the headers "
    "gets, subscriber call count, the arguments the Handler saw (slot, committee index, state id, keys / indices in order, "
    "epoch, index list), execution_optimistic / dependent_root / number of duties",
    "harness-side independent reading (drive-routerget objects.go / ops_*.go, written against the beacon API): which object a "
    "(version, blinded) answer must serve (propSpec.expected), which go-eth2-client type a client decodes `data` into from "
    "the headers alone (typeFromHeaders: phase0.BeaconBlock ... apiv1fulu.BlockContents, apiv1electra.BlindedBeaconBlock for "
    "fulu blinded; phase0.Attestation / electra.Attestation), decode + re-encode with go-eth2-client's own JSON codecs and byte "
    "comparison with the served object, its own unsigned-decimal reader (big.Int), its own reading of id lists (0x + 96 hex / "
    "decimal, query csv + trim, body `ids`), of index bodies and of 0x-hex parameters",
    "monitors on the real trace: routerget:response_decodes_to_other_object, routerget:header_body_mismatch, "
    "routerget:ok_status_on_inconsistent_answer, routerget:consistent_answer_refused, routerget:panic:<endpoint> (a panic on "
    "anything but a nil answer), routerget:id_misclassified, routerget:valid_ids_refused, routerget:metadata_changed, "
    "routerget:proposal_from_other_slot, routerget:component_value_not_set, routerget:params_misjudged, "
    "routerget:error_body_code_mismatch, routerget:timeout_no_response",
    "go-eth2-client JSON codecs, gorilla/mux, net/http (httptest, loopback, keep-alives off), testutil random block / "
    "attestation generators, the beacon mock (spec for EpochFromSlot)",
]

ASSUMPTIONS = [
    "the request parameters of produce-block (slot path segment, randao_reveal, graffiti) and attestation_data_root enter the "
    "model as one bit (acceptable or not) judged by the harness's own reader; the Lean side models strconv.ParseUint and the id "
    "parsing on character lists for ASCII input (Go's len counts bytes, TrimSpace also trims U+0085 / U+00A0)",
    "Component.Proposal is driven through the insecure constructor: the randao partial signature check is the subject of "
    "stream router / Model/Router.servePropose and Model/Admit; EpochFromSlot (spec fetch) is assumed to succeed",
    "panics are observed through a recovering middleware in front of the router (what net/http does); after a nil answer they "
    "are counted as observed, the property's `crash the process` does not apply (goroutine of net/http's conn.serve recovers)",
    "request time-outs (10 s context of wrap, 408 on client cancel) and the SSZ response encoding are not exercised: "
    "writeResponse only ever writes JSON, whatever the Accept header says",
    "the Go map order of the Handler's validator map (flatten) is not observed: the stream compares the number of validators "
    "served and that each decodes",
]
