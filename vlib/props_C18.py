"""C18 — values passed between workflow components are isolated copies (stores, fan-outs, core.Wire)."""
from vlib.trans_wire import wire

ENTRY = {
    "lean_props": "CharonV.Props.C18",
    "go_tools": ["trans-wire"],
    "translators": [wire],
    "monitor_sigs": ["alias:"],
    "streams": [
        # one sweep over every (component, value type × version) pair is ~4000 ops; the generator starts
        # the round-robin at a seed-dependent offset, so two seeds of 6000 ops cover every pair at least twice
        {"name": "alias", "drive": "drive-alias", "model": "drv-heap",
         "reset_ops": ["cfg", "new"],
         "n_quick": 6000, "seeds_quick": 2, "n_thorough": 60000, "seeds_thorough": 6,
         "search_seeds": 3},
    ],
    "level": "proof",
    "level_text": "PROVED (kernel-checked, for every port table, every number of holders and every op sequence of store / read / subscriber delivery / mutate any reachable location / read again): if every hand-off point (port) that is used clones, then no two holders' reachable cell sets ever intersect and an op changes the value observed by no holder except the one that (re)binds, mutates or drops its own value (pipeline_isolated, clone_isolates); a sharing port does leak (share_aliases, asis_share_ports_leak: the negation of the full statement on the tree as it is, for exactly the four ports classified share, asis_share_rows); with the proposed fixes the whole table clones and isolation holds for all op sequences (pipeline_isolated_fixed); both ends of every edge of the subscription graph regenerated from core.Wire have a row in the table (ports_cover_wire, ports_cover_components). DYNAMICALLY ESTABLISHED (not proved — a Lean model cannot see Go memory): the port table itself. drive-alias hands real values of every core.UnsignedData / SignedData / ParSignedData implementation × version, the four set types and the duty definitions through the real dutydb.MemDB (directly and through the validatorapi component wired as in core.Wire), parsigdb.MemDB, aggsigdb.MemDB (with its Run loop) and MemDBV2, sigagg.Aggregator, fetcher.Fetcher (incl. the early-fetch cache), scheduler.Scheduler (fan-out, GetDutyDefinition, head-event FetchOnly hand-off) and the submit paths of validatorapi.Component, computes by reflection the reachable mutable locations (pointer targets, slice backing arrays, maps; through structs, interfaces, arrays, unexported fields) of every value handed out and of what the stores keep, mutates every location of one holder and re-reads through the others, and is diffed per op against the model running under the table.",
    "level_note": "Partial by construction: isolation is proved GIVEN the table; the table is established by exhaustive-over-types, exhaustive-over-locations dynamic checks on the ports listed, not by proof. Consensus and parsigex (protobuf marshal / unmarshal on the wire) and the broadcaster (sink) are listed in the table for the wiring graph but not exercised. Data races as such are not covered.",
    "trusted_base": [
        "port table CharonV.Heap.portTable (hand-written, one row per hand-off point); established per row by the correspondence stream `alias` on the real components; `implFixes` says which fixes/C18-*.diff the tree has",
        "translator trans-wire (go/ast over core/interfaces.go func Wire): subscription edges, fails closed on unknown statement shapes",
        "reflection walker of drive-alias (location = pointer target / slice backing array incl. capacity / map; address-range overlap = shared memory; strings, interface boxes, zero-size objects, time.Time are not locations)",
        "verif hooks dutydb.VerifSnapshot, parsigdb.VerifSnapshot, aggsigdb.SnapshotVerif (what the stores keep), scheduler.NewVerif / HandleSlotVerif",
        "the model abstracts a component's value transformation to the identity (only aliasing structure and change visibility are compared, not shapes of derived values); a port either clones the whole value or shares the whole value",
    ],
    "assumptions": [
        "the classification of each port is established on the value types and paths exercised by drive-alias (all implementations in core × all versions constructible from testutil generators), not for code paths it cannot construct without a network (consensus, parsigex, broadcaster)",
        "goroutine interleavings are not explored: every hand-off is observed after the call that performs it has returned (races as such are out of scope; the thorough tier may run the harness under -race)",
        "the beacon client's answers are treated as values of another holder (the eth2wrap duties cache hands the same slices to several callers)",
    ],
}


def _explained(d, known_sigs):
    """A differing op is explained by a known finding only if the tree has been patched without flipping
    CharonV.Heap.implFixes: never silently — always report."""
    return False


ENTRY["diff_explained_by_known"] = _explained

# Fourth session: the fetcher (core/fetcher/fetcher.go, one of C18's anchors and the first hop of the pipeline of C01) is
# modelled: Model/Fetcher.lean, theorems Props/C18Fetch.lean, stream fetcher (real fetcher.New over a scripted beacon client,
# scripted aggsigdb / dutydb inputs, recording and hostile subscribers). The one finding of that work (the early-fetch cache
# kept the beacon client's checkpoints, D-18) is repaired in /repo (fix 4a0b07d); the line driver runs the repaired variant.
from vlib import snippet_C18fetch as _ft
ENTRY["streams"] = ENTRY["streams"] + [_ft.STREAM]
ENTRY.setdefault("lean_props_extra", []).append(_ft.EXTRA_LEAN)
if ENTRY.get("monitor_sigs"):
    ENTRY["monitor_sigs"] = ENTRY["monitor_sigs"] + _ft.MONITOR_SIGS
ENTRY["trusted_base"] = ENTRY["trusted_base"] + _ft.TRUSTED_BASE
ENTRY["assumptions"] = ENTRY["assumptions"] + _ft.ASSUMPTIONS
ENTRY["level_text"] += _ft.LEVEL_TEXT
