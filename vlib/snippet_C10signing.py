"""Snippet for the lead to wire into C10 (and C09): the signing-input model (eth2util/signing,
eth2wrap http adapter exit rule, go-eth2-client Domain) — one more correspondence stream and one
more Lean module of property theorems. Not a registry entry by itself (not named props_C*.py).

Wiring: append STREAM to ENTRY["streams"], build EXTRA_LEAN with the property module (its theorems
are audited like those of Props/C10.lean), add MONITOR_SIGS to ENTRY["monitor_sigs"], extend
trusted_base / assumptions with the lines below. lean_exe `drv-signing` is already in lakefile.toml.
"""

STREAM = {"name": "signing", "drive": "drive-signing", "model": "drv-signing",
          "reset_ops": ["cfg"],
          "n_quick": 12000, "seeds_quick": 2, "n_thorough": 200000, "seeds_thorough": 8,
          "search_seeds": 2}

EXTRA_LEAN = "CharonV.Props.C10Signing"

MONITOR_SIGS = ["signing:"]

THEOREMS = [
    "CharonV.Signing.compute_domain_type_prefix",
    "CharonV.Signing.domain_separation",
    "CharonV.Signing.fork_version_monotone_choice",
    "CharonV.Signing.signing_root_binds_fork",
    "CharonV.Signing.data_root_binds",
    "CharonV.Signing.getDataRoot_factor",
    "CharonV.Signing.admit_triple_determines_signing_input",
]

TRUSTED_BASE = [
    "model CharonV/Model/Signing.lean mirrors eth2util/signing (GetDomain, GetDataRoot), eth2wrap httpAdapter.Domain + "
    "eth2util.CapellaDomain/ComputeDomain/CapellaFork (EIP-7044 exit domain) and go-eth2-client http Domain / GenesisDomain / "
    "forkAtEpoch / calculateDomain, over the core-Lean SHA-256 of Model/SszSchema.lean; tied by correspondence stream signing: "
    "domain and data root compared bit for bit (hex) with the real functions over a beacon mock and over the production http "
    "adapter, random fork schedules (also unsorted, empty, first fork after genesis, two forks in one epoch), genesis roots, "
    "network fork versions, all twelve DomainName constants, epochs at / just before / just after every boundary",
    "the domain types are data of the beacon node's /config/spec response and the Capella version comes from the repo's "
    "supportedNetworks table (eth2util.CapellaFork): both are read through the real code and passed to the model in the cfg op",
    "harness-side independent recomputation with crypto/sha256 and its own fork choice (monitor signing:domain_mismatch_independent)",
]

ASSUMPTIONS = [
    "SHA-256 collision resistance is never assumed: data_root_binds / signing_root_binds_fork conclude an explicit collision of "
    "the 64-byte-to-32-byte compression step, full or on the 28 bytes of the fork data root that compute_domain keeps "
    "(a 224-bit truncated collision)",
    "the signing input depends on the epoch only through the fork version in force (admit_triple_determines_signing_input): a "
    "signature verifies for every epoch of the fork it was made for; C10/C09's symbolic verify takes the epoch as an argument, "
    "which is finer than what is signed, and no theorem relies on a rejection for another epoch of the same fork",
    "through the production adapter the voluntary-exit domain ignores the epoch and the fork schedule (network Capella version, "
    "EIP-7044); the builder domain always uses the genesis entry of the schedule and a zero genesis validators root",
]
